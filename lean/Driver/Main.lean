import Driver.C20
import Driver.C01
import Driver.C08
import Driver.C19
import Driver.C04
import Driver.C05
import Driver.C18
import Driver.C17
import Driver.C03
import Driver.C15
import Driver.C16
import Driver.C12
import Driver.C10
import Driver.C14
import Driver.C09
import Driver.C07
import Driver.C11
import Driver.C13
/-! `ccdriver`: one operation per input line (`<module> <op> args…`), one result line out:
`model<TAB>spec`. Stateless modules are dispatched directly; stateful modules keep their state
in `St`. -/
open Driver

structure St where
  c17 : C17.State := {}
  c03 : CCVerif.Types.Ctx := {}
  c15 : C15.State := {}
  c14 : C14.State := {}
  c09 : C09.State := {}
  c07 : C07.State := {}
  c11 : C11.State := {}
  c13 : C13.State := {}
  c01 : C01.State := {}
  c08 : C08.State := {}
  c19 : C19.State := {}

def step (st : St) (line : String) : St × String :=
  match (line.trimAscii.toString.splitOn " ").filter (· ≠ "") with
  | "c20" :: rest => (st, C20.handle rest)
  | "c04" :: rest => (st, C04.handle rest)
  | "c04m" :: rest => (st, C04.handleM st.c03 rest)
  | "c05" :: rest => (st, C05.handleAll rest)
  | "c06" :: rest => (st, C05.handle06 rest)
  | "c18" :: rest => (st, C18.handle rest)
  | "c17" :: rest => let (s17, o) := C17.step st.c17 rest; ({ st with c17 := s17 }, o)
  | "c03" :: rest => let (s, o) := C03.step st.c03 rest; ({ st with c03 := s }, o)
  | "c15" :: rest => let (s', o) := C15.step st.c15 rest; ({ st with c15 := s' }, o)
  | "c16" :: rest => (st, C16.handle rest)
  | "c12" :: rest => (st, C12.handle rest)
  | "c10" :: rest => (st, C10.handle rest)
  | "c14" :: rest => let (s, o) := C14.step st.c14 rest; ({ st with c14 := s }, o)
  | "c09" :: rest => let (s, o) := C09.step st.c09 rest; ({ st with c09 := s }, o)
  | "c07" :: rest => let (s, o) := C07.step st.c07 rest; ({ st with c07 := s }, o)
  | "c11" :: rest => let (s, o) := C11.step st.c11 rest; ({ st with c11 := s }, o)
  | "c13" :: rest => let (s, o) := C13.step st.c13 rest; ({ st with c13 := s }, o)
  | "c01" :: rest => let (s, o) := C01.step st.c01 "c01" rest; ({ st with c01 := s }, o)
  | "c02" :: rest => let (s, o) := C01.step st.c01 "c02" rest; ({ st with c01 := s }, o)
  | "c19" :: rest => let (s, o) := C19.step st.c19 rest; ({ st with c19 := s }, o)
  | "c08" :: rest => let (s, o) := C08.step st.c08 rest; ({ st with c08 := s }, o)
  | _ => (st, "bad-op\tn/a")

partial def loop (h : IO.FS.Stream) (out : IO.FS.Stream) (st : St) : IO Unit := do
  let line ← h.getLine
  if line.isEmpty then return ()
  let (st', o) := step st line
  out.putStrLn o
  loop h out st'

def main : IO Unit := do
  let out ← IO.getStdout
  loop (← IO.getStdin) out {}
