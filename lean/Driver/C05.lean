import CCVerif.Model.Parser
import CCVerif.Model.Printer
import CCVerif.Model.WfAst
import CCVerif.Model.AstQuery
import CCVerif.Model.Strings
import CCVerif.Model.PPFragment
import CCVerif.Model.Convert
import Driver.AstWire
import Driver.Util
/-! Driver ops of C05 (`c05 …`) and C06 (`c06 …`). Each op prints `model<TAB>spec`.

* `c05 lex <syn> <hex>` / `c06 lex …` → token stream `NAME:data:lo:hi,…` up to END (spec `n/a`: the
  lexer model is the definition).
* `c05 parse <syn> <hex>` → `fail` or the AST wire form (spec `n/a`).
* `c05 printparse <syn> <wire>` → `1 <hex text>` when parsing the printed text gives the tree
  again (local names transliterated for ASCII), `0 <hex>` when it gives another tree,
  `noparse <hex>`; `fault:stuck` when the printer makes a failing unchecked access. Spec `1 x`
  whenever the tree is a `WfAst` (the property oracle: the text is unspecified, the verdict is not).
* `c05 roundtrip <src> <dst> <hex>` → `nop` when the text does not parse, else as printparse.
  Spec `1 x` whenever the text parses.
* `c05 rt-overflow` / `c05 rt-translit` / `c05 pp-translit` / `c05 pp-overflow`: the same as roundtrip /
  printparse, emitted only by the harness generators of the two RECORDED finding classes (integer
  literal or index overflow; Greek local name transliterated onto a keyword).
* `c06 tree <syn> <hex> <expected wire>` → AST wire of the parse (or `fail`); spec = the
  renderer's own bookkeeping, passed in the op line.
* `c06 findmin <syn> <hex> <lo> <hi>` → `FindMinimalNode`; spec = the deepest node whose range
  contains the query (computed over all nodes, independent of the search order).
-/
namespace Driver.C05
open CCVerif.Syntax CCVerif.Lexer CCVerif.Parser CCVerif.Printer Driver

/-- strict UTF-8 decoder (the MATH lexer model works on code points) -/
def decode : List Nat → Option (List Nat)
  | [] => some []
  | b :: rest =>
    if b < 0x80 then (decode rest).map (b :: ·)
    else if 0xC2 ≤ b ∧ b < 0xE0 then
      match rest with
      | c1 :: r => if 0x80 ≤ c1 ∧ c1 < 0xC0 then (decode r).map (((b - 0xC0) * 64 + (c1 - 0x80)) :: ·) else none
      | _ => none
    else if 0xE0 ≤ b ∧ b < 0xF0 then
      match rest with
      | c1 :: c2 :: r =>
        if 0x80 ≤ c1 ∧ c1 < 0xC0 ∧ 0x80 ≤ c2 ∧ c2 < 0xC0 then
          let cp := (b - 0xE0) * 4096 + (c1 - 0x80) * 64 + (c2 - 0x80)
          if cp < 0x800 ∨ (0xD800 ≤ cp ∧ cp < 0xE000) then none else (decode r).map (cp :: ·)
        else none
      | _ => none
    else if 0xF0 ≤ b ∧ b < 0xF5 then
      match rest with
      | c1 :: c2 :: c3 :: r =>
        if 0x80 ≤ c1 ∧ c1 < 0xC0 ∧ 0x80 ≤ c2 ∧ c2 < 0xC0 ∧ 0x80 ≤ c3 ∧ c3 < 0xC0 then
          let cp := (b - 0xF0) * 262144 + (c1 - 0x80) * 4096 + (c2 - 0x80) * 64 + (c3 - 0x80)
          if cp < 0x10000 ∨ cp ≥ 0x110000 then none else (decode r).map (cp :: ·)
        else none
      | _ => none
    else none
termination_by l => l.length

def synOf : String → Option Syn
  | "math" => some .math
  | "ascii" => some .ascii
  | _ => none

/-- bytes of the op line → units of the lexer (`none`: ill-formed UTF-8 for MATH, outside the model) -/
def unitsOf (syn : Syn) (bytes : List Nat) : Option (List Nat) :=
  match syn with
  | .math => decode bytes
  | .ascii => some bytes

/-- printed units → bytes -/
def bytesOf (units : List Nat) : List Nat := CCVerif.Strings.encode units

def tokWire (t : LTok) : String := s!"{t.id.name}:{Ast.dataWire t.data}:{t.lo}:{t.hi}"

def lexLine (syn : Syn) (h : String) : String :=
  match unitsOf syn (parseHex h) with
  | none => "skip"
  | some u =>
    match lex syn u with
    | some ts => joinWith "," (ts.map tokWire)
    | none => "stuck"

def parseText (syn : Syn) (bytes : List Nat) : Option (Option Ast) :=
  (unitsOf syn bytes).map (parse syn)

/-- `lex_print_statement` of Properties/C05.lean checked on one tree: when the (transliterated) tree
lies in the fragment of `parse_print_partial`, the printed text must lex to `E.toks` -/
def lexPrintOK (syn : Syn) (t : Ast) (text : List Nat) : Bool :=
  match CCVerif.PP.ofAst (translit syn t) with
  | some e =>
    if e.wf then
      (lex syn text).map (·.map fun x => (x.id, x.data)) ==
        some ((e.toks ++ [CCVerif.PP.tk .END]).map fun x => (x.id, x.data))
    else true
  | none => true

/-- print in `syn`, parse again, compare with the transliterated tree -/
def printParse (syn : Syn) (t : Ast) : String :=
  match print syn t with
  | none => "fault:stuck"
  | some text =>
    let hex := toHex (bytesOf text)
    match parse syn text with
    | none => s!"noparse {hex}"
    | some t2 =>
      if Ast.eqv t2 (translit syn t) then
        (if lexPrintOK syn t text then s!"1 {hex}" else s!"lexprint-mismatch {hex}")
      else s!"0 {hex}"

def pathStr (p : List Nat) : String := if p.isEmpty then "r" else joinWith "." (p.map toString)

def findMinLine (t : Ast) (lo hi : Int) : String :=
  match CCVerif.AstQuery.findMinimal ⟨lo, hi⟩ t with
  | none => "none"
  | some p =>
    match CCVerif.AstQuery.nodeAt t p with
    | some n => s!"{n.id.name}:{n.lo}:{n.hi}:{pathStr p}"
    | none => "stuck"

/-- specification of `FindMinimalNode`: among ALL nodes whose range contains the query, the one
with the longest path; `x` when the deepest is not unique -/
def findMinSpec (t : Ast) (lo hi : Int) : String :=
  let q : CCVerif.Strings.StrRange := ⟨lo, hi⟩
  let cands := (CCVerif.AstQuery.allNodes [] t).filter fun (_, n) => CCVerif.Strings.StrRange.contains ⟨n.lo, n.hi⟩ q
  match cands with
  | [] => "none"
  | _ =>
    let depth := cands.foldl (fun m (p, _) => max m p.length) 0
    match cands.filter (fun (p, _) => p.length == depth) with
    | [(p, n)] => s!"{n.id.name}:{n.lo}:{n.hi}:{pathStr p}"
    | _ => "x"

def handle (args : List String) : String :=
  match args with
  | ["lex", s, h] =>
    match synOf s with
    | some syn => s!"{lexLine syn h}\tn/a"
    | none => "bad-op\tn/a"
  | ["parse", s, h] =>
    match synOf s with
    | some syn =>
      match parseText syn (parseHex h) with
      | none => "skip\tn/a"
      | some none => "fail\tn/a"
      | some (some t) => s!"{t.toWire}\tn/a"
    | none => "bad-op\tn/a"
  | ["printparse", s, w] =>
    match synOf s, parseAst w with
    | some syn, some t =>
      let spec := if CCVerif.Wf.wfAst t then "1 x" else "n/a"
      s!"{printParse syn t}\t{spec}"
    | _, _ => "bad-op\tn/a"
  | ["roundtrip", s, d, h] =>
    match synOf s, synOf d with
    | some src, some dst =>
      match parseText src (parseHex h) with
      | none => "skip\tn/a"
      | some none => "nop\tn/a"
      | some (some t) => s!"{printParse dst t}\t1 x"
    | _, _ => "bad-op\tn/a"
  | ["convert", d, h] =>
    -- `ConvertTo(text, d)`: the model is the definition (Model/Convert.lean), no separate specification
    match synOf d with
    | some dst =>
      match CCVerif.Convert.convertTo dst (parseHex h) with
      | .outside => "skip\tn/a"
      | .stuck => "fault:stuck\tn/a"
      | .text b => s!"{toHex b}\tn/a"
    | none => "bad-op\tn/a"
  | ["convback", s, h] =>
    -- to the other syntax and back: the text parses to the tree it had (local names transliterated once)
    match synOf s with
    | some src =>
      let input := parseHex h
      match CCVerif.Convert.parseBytes (some src) input with
      | none => "skip\tn/a"
      | some none => "nop\tn/a"
      | some (some t) =>
        match CCVerif.Convert.convertTo (CCVerif.Convert.other src) input with
        | .text a =>
          match CCVerif.Convert.convertTo src a with
          | .text b =>
            match CCVerif.Convert.parseBytes (some src) b with
            | some (some t2) => s!"{if Ast.eqv t2 (translit .ascii t) then "1" else "0"} {toHex b}\t1 x"
            | some none => s!"noparse {toHex b}\t1 x"
            | none => "skip\t1 x"
          | .stuck => "fault:stuck\t1 x"
          | .outside => "skip\t1 x"
        | .stuck => "fault:stuck\t1 x"
        | .outside => "skip\t1 x"
    | none => "bad-op\tn/a"
  | ["convidem", d, h] =>
    -- converting the converted text again to the same target changes nothing
    match synOf d with
    | some dst =>
      let input := parseHex h
      match CCVerif.Convert.parseBytes (some (CCVerif.Convert.other dst)) input with
      | none => "skip\tn/a"
      | some none => "nop\tn/a"
      | some (some _) =>
        match CCVerif.Convert.convertTo dst input, CCVerif.Convert.convertTwice dst input with
        | .text a, .text aa => s!"{if a == aa then "1" else "0"} {toHex aa}\t1 x"
        | .stuck, _ => "fault:stuck\t1 x"
        | _, .stuck => "fault:stuck\t1 x"
        | _, _ => "skip\t1 x"
    | none => "bad-op\tn/a"
  | _ => "bad-op\tn/a"

/-- the dedicated generators of the two recorded-finding classes use their own op names -/
def handleAll (args : List String) : String :=
  match args with
  | "pp-translit" :: r => handle ("printparse" :: r)
  | "pp-overflow" :: r => handle ("printparse" :: r)
  | "rt-translit" :: r => handle ("roundtrip" :: r)
  | "rt-overflow" :: r => handle ("roundtrip" :: r)
  | "convert-translit" :: r => handle ("convert" :: r)
  | "convert-overflow" :: r => handle ("convert" :: r)
  | "convback-translit" :: r => handle ("convback" :: r)
  | "convback-overflow" :: r => handle ("convback" :: r)
  | "convidem-translit" :: r => handle ("convidem" :: r)
  | "convidem-overflow" :: r => handle ("convidem" :: r)
  | "convidem-amb" :: r => handle ("convidem" :: r)
  | _ => handle args

def handle06 (args : List String) : String :=
  match args with
  | ["lex", s, h] => handle ["lex", s, h]
  | ["tree", s, h, w] =>
    match synOf s with
    | some syn =>
      match parseText syn (parseHex h) with
      | none => s!"skip\t{w}"
      | some none => s!"fail\t{w}"
      | some (some t) => s!"{t.toWire}\t{w}"
    | none => "bad-op\tn/a"
  -- the same text parsed by a Parser object that parsed another text before: the tree and its ranges do
  -- not depend on that history (the model has no history: it answers as for `tree`)
  | ["treeafter", s, _, h, w] =>
    match synOf s with
    | some syn =>
      match parseText syn (parseHex h) with
      | none => s!"skip\t{w}"
      | some none => s!"fail\t{w}"
      | some (some t) => s!"{t.toWire}\t{w}"
    | none => "bad-op\tn/a"
  | ["findmin", s, h, lo, hi] =>
    match synOf s with
    | some syn =>
      match parseText syn (parseHex h) with
      | none => "skip\tn/a"
      | some none => "fail\tn/a"
      | some (some t) => s!"{findMinLine t (parseInt lo) (parseInt hi)}\t{findMinSpec t (parseInt lo) (parseInt hi)}"
    | none => "bad-op\tn/a"
  | _ => "bad-op\tn/a"

end Driver.C05
