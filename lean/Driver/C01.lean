import CCVerif.Model.Eval
import CCVerif.Spec.Denote
import Driver.AstWire
/-! Driver ops for C01 (evaluation = set-theoretic value) and C02 (type soundness).

State: the data context (`c01 data`), the definition trees of term functions (`c01 func`).
Result tokens (no spaces): `v:<value>` | `b:0|1` | `e:<EID hex>@<pos>` | `stuck:<site>` |
`skip` (model resource); an `eval` line carries ` it:<iterations>` as second token. -/
namespace Driver.C01
open CCVerif.Syntax CCVerif.Eval Driver

structure State where
  globals : List (String × Val) := []
  funcs : List (String × Ast) := []

/-! ### value strings `{1,(2,3),{}}` -/
partial def parseVal (cs : List Char) : Option (Val × List Char) :=
  let rec items (cs : List Char) (close : Char) (acc : List Val) : Option (List Val × List Char) :=
    match cs with
    | c :: r =>
      if c == close then some (acc.reverse, r)
      else if c == ',' || c == ' ' then items r close acc
      else match parseVal cs with
        | some (v, r') => items r' close (v :: acc)
        | none => none
    | [] => none
  match cs with
  | '{' :: r => (items r '}' []).map fun (xs, r') => (Val.mkSet xs, r')
  | '(' :: r => (items r ')' []).map fun (xs, r') => (Val.t xs, r')
  | ' ' :: r => parseVal r
  | c :: _ =>
    if c == '-' || c.isDigit then
      let (num, r) := cs.span (fun c => c == '-' || c.isDigit)
      (String.ofList num).toInt?.map fun n => (Val.e n, r)
    else none
  | [] => none

def valOfString (s : String) : Option Val :=
  match parseVal s.toList with
  | some (v, []) => some v
  | _ => none

/-! ### type strings `ℬ(X1×ℬ(Z))`, `LOGIC` -/
partial def parseTy (cs : List Char) : Option (Ty × List Char) :=
  let rec factor (cs : List Char) : Option (Ty × List Char) :=
    match cs with
    | 'ℬ' :: r => (factor r).map fun (t, r') => (Ty.coll t, r')
    | '(' :: r =>
      match parseTy r with
      | some (t, ')' :: r') => some (t, r')
      | _ => none
    | _ =>
      let (name, r) := cs.span (fun c => c.isAlphanum)
      if name.isEmpty then none else some (Ty.base (String.ofList name), r)
  let rec more (acc : List Ty) (cs : List Char) : Option (List Ty × List Char) :=
    match cs with
    | '×' :: r =>
      match factor r with
      | some (t, r') => more (acc ++ [t]) r'
      | none => none
    | _ => some (acc, cs)
  match factor cs with
  | none => none
  | some (t, r) =>
    match more [t] r with
    | some ([t], r') => some (t, r')
    | some (ts, r') => some (Ty.tuple ts, r')
    | none => none

def tyOfString (s : String) : Option ExprTy :=
  if s == "LOGIC" then some .logic else
  match parseTy s.toList with
  | some (t, []) => some (.ty t)
  | _ => none

def noSpaces (s : String) : String := String.ofList (s.toList.filter (· != ' '))

def hex4 (n : Nat) : String :=
  String.ofList [hexDigit (n / 4096 % 16), hexDigit (n / 256 % 16), hexDigit (n / 16 % 16), hexDigit (n % 16)] |>.toUpper

def showRes : EvalRes → String
  | .ok v => "v:" ++ noSpaces v.toStr
  | .okBool b => "b:" ++ bit b
  | .err e p => s!"e:{hex4 e}@{p}"
  | .stuck s => "stuck:" ++ String.ofList (s.toList.map fun c => if c == ' ' then '_' else c)
  | .outOfFuel => "skip"

def showSem : Option CCVerif.Spec.SemVal → String
  | some (.val v) => "v:" ++ noSpaces v.toStr
  | some (.bool b) => "b:" ++ bit b
  | none => "x"

def EVAL_FUEL : Nat := 300

def env (st : State) : Env := { globals := st.globals, funcs := st.funcs }
def senv (st : State) : CCVerif.Spec.SEnv := { globals := st.globals, funcs := st.funcs }

mutual
def mentions (p : Ast → Bool) : Ast → Bool
  | .node t d lo hi ks => p (.node t d lo hi []) || mentionsKids p ks
def mentionsKids (p : Ast → Bool) : List Ast → Bool
  | [] => false
  | k :: ks => mentions p k || mentionsKids p ks
end

/-- the expression, or the definition of a function it can reach, has a node satisfying `p` -/
def reaches (st : State) (a : Ast) (p : Ast → Bool) : Bool :=
  mentions p a || st.funcs.any (fun f => mentions p f.2)

/-- is a documented failure plausible for this expression at all? (syntactic necessary condition) -/
def errJustified (st : State) (a : Ast) (eid : String) : Bool :=
  let has (t : Tok) := reaches st a (fun n => n.id == t)
  match eid with
  | "8A01" => has .DECART || has .BOOLEAN
  | "8A02" => has .BOOLEAN
  | "8A03" => reaches st a (fun n =>
      (n.id == .ID_GLOBAL || n.id == .ID_FUNCTION || n.id == .ID_PREDICATE) &&
      (CCVerif.Norm.lookup (CCVerif.Norm.textOf n) st.globals).isNone)
  | "8A04" => has .FORALL || has .EXISTS || has .NT_DECLARATIVE_EXPR || has .NT_IMPERATIVE_EXPR ||
      has .NT_RECURSIVE_FULL || has .NT_RECURSIVE_SHORT
  | "8A05" => has .DEBOOL
  | "8A06" => has .LIT_INTSET
  | _ => false

/-- C01 oracle: the implementation's result against `⟦·⟧` -/
def judge (st : State) (a : Ast) (impl : String) : String :=
  if impl.startsWith "e:" then
    -- a documented failure: `⟦·⟧` is not computed (it has no iteration limit)
    let eid := ((impl.drop 2).toString.splitOn "@").headD ""
    if errJustified st a eid then "ok" else "want:no-error(error-not-documented-for-this-expression)"
  else if impl.startsWith "v:" || impl.startsWith "b:" then
    match CCVerif.Spec.denoteTop (senv st) a with
    | none => "ok"
    | some v => if showSem (some v) == impl then "ok" else "want:" ++ showSem (some v)
  else "want:a-value-or-a-documented-error"

/-- C02 oracle: value of the reported type / truth value iff LOGIC / documented failure -/
def sound (ty : Option ExprTy) (impl : String) : String :=
  if impl.startsWith "e:" then
    if impl.startsWith "e:8A00" then "bad:unknownError" else "ok"
  else if impl.startsWith "b:" then
    match ty with
    | some .logic => "ok"
    | _ => "bad:truth-value-for-a-typed-expression"
  else if impl.startsWith "v:" then
    match ty, valOfString (impl.drop 2).toString with
    | some (.ty t), some v => if Ty.hasTy v t then "ok" else "bad:value-not-of-reported-type"
    | some .logic, _ => "bad:structured-value-for-LOGIC"
    | _, _ => "bad:unparsable"
  else "bad:" ++ impl

def step (st : State) (pfx : String) (args : List String) : State × String :=
  match pfx, args with
  | _, ["reset"] => ({}, "ok\tok")
  | _, ["data", name, _ty, value] =>
    match valOfString value with
    | some v => ({ st with globals := (name, v) :: st.globals.filter (·.1 != name) }, "ok\tok")
    | none => (st, "bad-value\tn/a")
  | _, ["func", name, wire] =>
    match parseAst wire with
    | some a => ({ st with funcs := (name, a) :: st.funcs.filter (·.1 != name) }, "ok\tok")
    | none => (st, "bad-ast\tn/a")
  | _, ["text", _] => (st, "ok\tok")
  | _, ["eval", wire] =>
    match parseAst wire with
    | none => (st, "bad-ast\tn/a")
    | some a =>
      let (r, it) := evaluate EVAL_FUEL (env st) a
      let m := match r with
        | .outOfFuel => "skip"
        | _ => s!"{showRes r} it:{it}"
      (st, s!"{m}\tx x")
  | _, ["norm", wire] =>
    match parseAst wire with
    | none => (st, "bad-ast\tn/a")
    | some a =>
      match CCVerif.Norm.normalizeTree st.funcs EVAL_FUEL a with
      | some n => (st, s!"{n.toWire}\tx")
      | none => (st, "skip\tx")
  | _, ["judge", impl, wire] =>
    match parseAst wire with
    | none => (st, "bad-ast\tn/a")
    | some a => (st, s!"skip\t{judge st a impl}")
  -- the same oracles for definitions evaluated directly (own op names: recorded finding)
  | _, ["judge-defn", impl, wire] =>
    match parseAst wire with
    | none => (st, "bad-ast\tn/a")
    | some a => (st, s!"skip\t{judge st a impl}")
  | _, ["sound-defn", ty, impl] => (st, s!"skip\t{sound (tyOfString (bytesToString (parseHex ty))) impl}")
  | _, ["denote", wire] =>
    match parseAst wire with
    | none => (st, "bad-ast\tn/a")
    | some a => (st, s!"skip\t{showSem (CCVerif.Spec.denoteTop (senv st) a)}")
  | _, ["meta", _kind, a, b] => (st, s!"skip\t{bit (a == b)}")
  | _, ["sound", ty, impl] => (st, s!"skip\t{sound (tyOfString (bytesToString (parseHex ty))) impl}")
  | _, ["hastype", ty, value] =>
    let r := match tyOfString (bytesToString (parseHex ty)), valOfString value with
      | some (.ty t), some v => bit (Ty.hasTy v t)
      | some .logic, _ => bit (value == "b:0" || value == "b:1")
      | _, _ => "bad-arg"
    (st, s!"skip\t{r}")
  | _, ["compat", ty, value] =>
    let r := match tyOfString (bytesToString (parseHex ty)), valOfString value with
      | some (.ty t), some v => bit (Ty.checkCompatible v t)
      | _, _ => "bad-arg"
    (st, s!"{r}\tx")
  | _, _ => (st, "bad-op\tn/a")

end Driver.C01
