import CCVerif.Model.Core
import Driver.Util
import Driver.AstWire
/-! Driver ops for C09: the bookkeeping model of a schema plus the invariant oracle evaluated
on the *implementation's* own dump (independent of the model state). -/
namespace Driver.C09
open CCVerif.Core Driver

structure State where
  st : St := {}
  bad : Bool := false   -- an inadmissible input was seen (model undefined from here on)

def typeOfName (s : String) : CstType :=
  match s with
  | "base" => .base | "constant" => .constant | "structured" => .structured | "axiom" => .ax
  | "term" => .term | "function" => .function | "theorem" => .thm | _ => .predicate
def typeName : CstType → String
  | .base => "base" | .constant => "constant" | .structured => "structured" | .ax => "axiom"
  | .term => "term" | .function => "function" | .thm => "theorem" | .predicate => "predicate"

def unhexStr (h : String) : String := bytesToString (parseHex h)

def sortNat (l : List Nat) : List Nat := (l.toArray.qsort (· < ·)).toList
def showNats (l : List Nat) : String := if l.isEmpty then "-" else joinWith "," (l.map toString)

def dumpModel (st : St) : String :=
  let items := st.order.map fun u =>
    match st.find u with
    | some c => s!"{u}:{c.alias}:{typeName c.type}"
    | none => s!"{u}:?:?"
  let l := if items.isEmpty then "-" else joinWith "," items
  s!"list={l} store={showNats (sortNat (st.store.map (·.uid)))} texts={showNats (sortNat st.texts)} track={showNats (sortNat st.tracking)}"

/-- parse `uid:alias:type` triples of a dump -/
def parseItems (s : String) : List Cst :=
  if s == "-" then [] else
  (s.splitOn ",").filterMap fun it =>
    match it.splitOn ":" with
    | [u, a, t] => some { uid := parseNat u, alias := a, type := typeOfName t }
    | _ => none

def parseNats (s : String) : List Nat := if s == "-" then [] else (s.splitOn ",").map parseNat

def field (parts : List String) (key : String) : String :=
  match parts.find? (fun p => p.startsWith (key ++ "=")) with
  | some p => (p.drop (key.length + 1)).toString
  | none => "-"

/-- the invariants of the property, evaluated on a dump of the implementation -/
def checkDump (dump : String) : String :=
  let parts := dump.splitOn " "
  let items := parseItems (field parts "list")
  let store := parseNats (field parts "store")
  let texts := parseNats (field parts "texts")
  let track := parseNats (field parts "track")
  let uids := items.map (·.uid)
  let aliases := items.map (·.alias)
  let prios := items.map (·.type.priority)
  let rec sortedDesc : List Nat → Bool
    | a :: b :: r => a ≥ b && sortedDesc (b :: r)
    | _ => true
  let fails : List String :=
    (if uids.eraseDups.length == uids.length then [] else ["uid-dup"]) ++
    (if aliases.eraseDups.length == aliases.length then [] else ["alias-dup"]) ++
    (if items.all (fun c => typeForName c.alias == some c.type) then [] else ["alias-kind"]) ++
    (if sortNat uids == sortNat store then [] else ["list-vs-store"]) ++
    (if sortNat texts == sortNat store then [] else ["texts-vs-store"]) ++
    (if track.all (store.contains ·) then [] else ["tracking-dangling"]) ++
    (if sortedDesc prios then [] else ["kind-order"])
  if fails.isEmpty then "1" else "0:" ++ joinWith "+" fails

def apply (s : State) (op : Op) (render : Out → String) : State × String :=
  if s.bad then (s, "skip\tx") else
  match step s.st op with
  | none => ({ s with bad := true }, "skip\tx")
  | some (st', out) => ({ s with st := st' }, render out)

def step (s : State) (args : List String) : State × String :=
  match args with
  | ["reset"] => ({}, "ok\tok")
  | ["emplace", t, fresh] =>
    let t := typeOfName t; let fresh := parseNat fresh
    apply s (.emplace t fresh) fun
      | .uid u => let a := newNameFor s.st.names t; s!"{u}:{a}\tx"
      | _ => "?\tx"
  | ["insert", uid, aliasHex, t, fresh] =>
    let uid := parseNat uid; let t := typeOfName t; let fresh := parseNat fresh
    let s' := apply s (.insert uid (unhexStr aliasHex) t fresh) fun _ => ""
    if s'.2 == "skip\tx" then s' else
    let newUid := if s.st.ids.contains uid then fresh else uid
    let a := ((s'.1.st.find newUid).map (·.alias)).getD "?"
    (s'.1, s!"{newUid}:{a}\tx")
  | ["erase", uid] =>
    let uid := parseNat uid
    let spec := if s.st.tracking.contains uid then "0" else "x"
    apply s (.erase uid) fun | .bool b => s!"{bit b}\t{spec}" | _ => "?\tx"
  | ["eraseint", uid] =>
    apply s (.eraseInternal (parseNat uid)) fun | .bool b => s!"{bit b}\tx" | _ => "?\tx"
  | ["setalias", uid, aliasHex] =>
    apply s (.setAlias (parseNat uid) (unhexStr aliasHex)) fun | .bool b => s!"{bit b}\tx" | _ => "?\tx"
  | ["move", what, pos] =>
    apply s (.moveBefore (parseNat what) (parseNat pos)) fun | .bool b => s!"{bit b}\tx" | _ => "?\tx"
  | ["resetaliases"] => apply s .resetAliases fun _ => "ok\tok"
  | ["track", uid] => apply s (.track (parseNat uid)) fun _ => "ok\tok"
  | ["setexpr", uid, _] =>
    let uid := parseNat uid
    let spec := if s.st.tracking.contains uid then "0" else "x"
    apply s (.setExpression uid) fun
      | .bool b => s!"{bit b}\t{spec}"
      | _ => s!"skip\t{spec}"
  | ["dump"] => if s.bad then (s, "skip\tx") else (s, s!"{dumpModel s.st}\tx")
  | ["chk", l, st, tx, tr] => (s, s!"skip\t{checkDump (l ++ " " ++ st ++ " " ++ tx ++ " " ++ tr)}")
  -- oracles computed by the harness on the implementation; the property demands `1`
  | "same" :: _ => (s, "skip\t1")
  | "gone" :: _ => (s, "skip\t1")
  | "views" :: _ => (s, "skip\t1")
  | _ => (s, "bad-op\tn/a")

end Driver.C09
