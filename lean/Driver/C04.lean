import Driver.Util
import Driver.C05
import CCVerif.Model.Parser
/-! Driver ops for C04.

* `c04 lexpos <syn> <hex>` → `<ranges> err=<p|none> fails=<0|1> inrange=<0|1>`: the ranges `lo:hi` of the
  tokens of the lexer model up to and including the first INTERRUPT (`Ilo:hi`) or END (`Elo:hi`), the
  position of the first unknown symbol (what `LexerBase::Stream` reports as `unknownSymbol`), the
  verdict of the parser model, and whether all shown ranges satisfy `lo ≤ hi ≤ n`, are ordered and
  END is `[n,n]` (`n` = number of units). This ties `lex_tiles_input` / `lex_first_error` /
  `lex_error_fails_parse` of Properties/C04.lean to the position bookkeeping of the real lexers.
  Spec: `x x x inrange=1`; with an unknown symbol in the text `x x fails=1 inrange=1`.
  MATH text that is not well-formed UTF-8 is outside the lexer model: model `skip`, the oracle stays.
* every other op is a verdict computed by the harness on the implementation (fault observation,
  faithfulness of failure reporting, positions in range); the property demands `1`. -/
namespace Driver.C04
open CCVerif.Syntax CCVerif.Lexer CCVerif.Parser Driver

def rangeWire (t : RawTok) : String :=
  (if t.id == .INTERRUPT then "I" else if t.id == .END then "E" else "") ++ s!"{t.lo}:{t.hi}"

/-- tokens up to and including the first INTERRUPT / END (where `yylex` stops) -/
def upToStop : List RawTok → List RawTok
  | [] => []
  | t :: r => if t.id == .INTERRUPT || t.id == .END then [t] else t :: upToStop r

def ordered : List RawTok → Bool
  | a :: b :: r => decide (a.hi ≤ b.lo) && ordered (b :: r)
  | _ => true

def inRange (n : Nat) (ts : List RawTok) : Bool :=
  ts.all (fun t => decide (t.lo ≤ t.hi) && decide (t.hi ≤ n) &&
    (if t.id == .END then t.lo == n && t.hi == n else true) &&
    (if t.id == .INTERRUPT then decide (t.lo < n) else true)) && ordered ts

def lexpos (syn : Syn) (h : String) : String :=
  match C05.unitsOf syn (parseHex h) with
  | none => "skip\tx x x inrange=1"
  | some u =>
    match lexRaw syn u with
    | none => "stuck\tx x x inrange=1"
    | some ts =>
      let shown := upToStop ts
      let err := match shown.find? (fun t => t.id == .INTERRUPT) with
        | some t => toString t.lo
        | none => "none"
      let fails := (parse syn u).isNone
      let model := s!"{joinWith "," (shown.map rangeWire)} err={err} fails={bit fails} inrange={bit (inRange u.length shown)}"
      let spec := if err == "none" then "x x x inrange=1" else "x x fails=1 inrange=1"
      s!"{model}\t{spec}"

def handle (args : List String) : String :=
  match args with
  | ["lexpos", s, h] =>
    match C05.synOf s with
    | some syn => lexpos syn h
    | none => "bad-op\tn/a"
  | _ => "skip\t1"
end Driver.C04
