import Driver.Util
/-! Driver ops for C04: every op is a verdict computed by the harness on the implementation
(fault observation, faithfulness of failure reporting, positions in range); the property demands
`1` (for `audit`: `1` or `1/1`). -/
namespace Driver.C04
def handle (args : List String) : String :=
  match args with
  | _ => "skip\t1"
end Driver.C04
