import Driver.Util
import Driver.C05
import CCVerif.Model.Parser
import CCVerif.Model.EntryPoints
/-! Driver ops for C04.

* `c04 lexpos <syn> <hex>` → `<ranges> err=<p|none> fails=<0|1> inrange=<0|1>`: the ranges `lo:hi` of the
  tokens of the lexer model up to and including the first INTERRUPT (`Ilo:hi`) or END (`Elo:hi`), the
  position of the first unknown symbol (what `LexerBase::Stream` reports as `unknownSymbol`), the
  verdict of the parser model, and whether all shown ranges satisfy `lo ≤ hi ≤ n`, are ordered and
  END is `[n,n]` (`n` = number of units). This ties `lex_tiles_input` / `lex_first_error` /
  `lex_error_fails_parse` of Properties/C04.lean to the position bookkeeping of the real lexers.
  Spec: `x x x inrange=1`; with an unknown symbol in the text `x x fails=1 inrange=1`.
  MATH text that is not well-formed UTF-8 is outside the lexer model: model `skip`, the oracle stays.
* `c04m parse <hint> <hex>` → `<ok|fail> <errors>`: `Parser::Parse(text, hint)` and its log (`ErrorLogger::All()`, in the
  order of logging, `eid@pos` with hex eid, `-` = empty); model = `Entry.parseEntry` (lexer model + the bison automaton of
  `Generated/Lalr.lean` + the recursive-descent tree); `skip` outside the lexer model (MATH, ill-formed UTF-8).
  Spec (the property itself, evaluated on the implementation's line): `ok -` or `fail x`.
* `c04m audit <hint> <hex>` → `t=<ok|fail> e=<errors> v=<ok|fail|-> ve=<errors|->`: `Auditor::CheckType(text, hint)`, then
  `CheckValue()` when the first call succeeded; model = `Entry.checkEntry` in the context exported by the harness as
  `c03 reset / traits / ctx / vc / ast` lines (state `c03` of the driver).
* `c04m eval <hint> <hex>` → `<ok|fail> <errors>`: `Interpreter::Evaluate(text, hint)`; model = `Entry.evalEntry` where it does
  not depend on the data context (empty text, parse failure, type error), `skip` otherwise.
* every other op is a verdict computed by the harness on the implementation (fault observation,
  faithfulness of failure reporting, positions in range); the property demands `1`. -/
namespace Driver.C04
open CCVerif.Syntax CCVerif.Lexer CCVerif.Parser Driver

def rangeWire (t : RawTok) : String :=
  (if t.id == .INTERRUPT then "I" else if t.id == .END then "E" else "") ++ s!"{t.lo}:{t.hi}"

/-- tokens up to and including the first INTERRUPT / END (where `yylex` stops) -/
def upToStop : List RawTok → List RawTok
  | [] => []
  | t :: r => if t.id == .INTERRUPT || t.id == .END then [t] else t :: upToStop r

def ordered : List RawTok → Bool
  | a :: b :: r => decide (a.hi ≤ b.lo) && ordered (b :: r)
  | _ => true

def inRange (n : Nat) (ts : List RawTok) : Bool :=
  ts.all (fun t => decide (t.lo ≤ t.hi) && decide (t.hi ≤ n) &&
    (if t.id == .END then t.lo == n && t.hi == n else true) &&
    (if t.id == .INTERRUPT then decide (t.lo < n) else true)) && ordered ts

def lexpos (syn : Syn) (h : String) : String :=
  match C05.unitsOf syn (parseHex h) with
  | none => "skip\tx x x inrange=1"
  | some u =>
    match lexRaw syn u with
    | none => "stuck\tx x x inrange=1"
    | some ts =>
      let shown := upToStop ts
      let err := match shown.find? (fun t => t.id == .INTERRUPT) with
        | some t => toString t.lo
        | none => "none"
      let fails := (parse syn u).isNone
      let model := s!"{joinWith "," (shown.map rangeWire)} err={err} fails={bit fails} inrange={bit (inRange u.length shown)}"
      let spec := if err == "none" then "x x x inrange=1" else "x x fails=1 inrange=1"
      s!"{model}\t{spec}"

def handle (args : List String) : String :=
  match args with
  | ["lexpos", s, h] =>
    match C05.synOf s with
    | some syn => lexpos syn h
    | none => "bad-op\tn/a"
  | _ => "skip\t1"

/-! ## the composed entry points (`c04m`) -/
open CCVerif.Entry in
def showErrs (l : List (Nat × Int)) : String :=
  if l.isEmpty then "-" else joinWith "," (l.map fun e => s!"{String.ofList (Nat.toDigits 16 e.1)}@{e.2}")

open CCVerif.Entry in
def showStatus : Status → String
  | .ok => "ok" | .failed => "fail" | .gap why => "gap:" ++ why.replace " " "_"

def hintOf (s : String) : Option (Option Syn) :=
  if s == "0" then some none else if s == "1" then some (some .math) else if s == "2" then some (some .ascii) else none

open CCVerif.Entry in
def handleM (Γ : CCVerif.Types.Ctx) (args : List String) : String :=
  match args with
  | ["parse", h, hexs] =>
    match hintOf h with
    | none => "bad-op\tn/a"
    | some hint =>
      match parseEntry hint (parseHex hexs) with
      | none => "skip\tx x"
      | some r => s!"{showStatus r.status} {showErrs r.errors}\tx x"
  | ["audit", h, hexs] =>
    match hintOf h with
    | none => "bad-op\tn/a"
    | some hint =>
      match checkEntry Γ hint (parseHex hexs) with
      | none => "skip\tx x x x"
      | some r =>
        let v := match r.vstatus with
          | some st => s!"v={showStatus st} ve={showErrs r.verrors}"
          | none => "v=- ve=-"
        s!"t={showStatus r.status} e={showErrs r.errors} {v}\tx x x x"
  | ["eval", h, hexs] =>
    -- `Interpreter::Evaluate`: decided by the model without the data context when the text is empty, does not parse or does
    -- not pass the type check (`evalEntry` does not depend on `env` / `fuel` there); otherwise `skip` (C01 / C02 tie the calculation)
    match hintOf h with
    | none => "bad-op\tn/a"
    | some hint =>
      match evalEntry Γ {} 0 hint (parseHex hexs), checkEntry Γ hint (parseHex hexs) with
      | some r, some c => if c.status == .ok then "skip\tx x" else s!"{showStatus r.status} {showErrs r.errors}\tx x"
      | some r, none => s!"{showStatus r.status} {showErrs r.errors}\tx x"
      | none, _ => "skip\tx x"
  | _ => "bad-op\tn/a"
end Driver.C04
