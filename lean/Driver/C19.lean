import CCVerif.Model.Oss
import Driver.Util
/-! Driver ops for C19 (operation schema): the OSS model next to the implementation, plus the
structural invariants evaluated by Lean on the implementation's own dump (`chk`) and the
oracles the harness evaluates on the implementation (`ichk`, `stale`, `execres`: the property
demands `1`). -/
namespace Driver.C19
open CCVerif.Oss Driver

structure State where
  st : St := {}
  v : Variant := Variant.pinned
  /-- the model is undefined from here on (inadmissible input, an ambiguous oracle, or a code
  variant the model does not know) -/
  bad : Bool := false

def sortNat (l : List Nat) : List Nat := (l.toArray.qsort (· < ·)).toList
def csv (l : List String) : String := if l.isEmpty then "-" else joinWith "," l

def typeName : OpType → String
  | .tba => "tba" | .merge => "merge" | .synt => "synt"
def typeOfName : String → OpType
  | "merge" => .merge | "synt" => .synt | _ => .tba
def optName : Opts → String
  | .none => "n" | .empty => "e" | .some => "v"
def optOfName : String → Opts
  | "e" => .empty | "v" => .some | _ => .none
def statusName : Status → String
  | .undefined => "undef" | .defined => "defined" | .done => "done" | .outdated => "outdated" | .broken => "broken"

def posLt (a b : Pos) : Bool := a.row < b.row || (a.row == b.row && a.col < b.col)

def dumpModel (st : St) : String :=
  let s := st.s; let d := st.d
  let picts := (sortNat s.storage).map fun p =>
    let cells := ((s.grid.filter (·.2 == p)).map (·.1)).toArray.qsort posLt |>.toList
    let cellS := if cells.isEmpty then "-" else joinWith "+" (cells.map fun c => s!"{c.row},{c.col}")
    let parents := csv ((s.graph.parentsOf p).map toString)
    let h := d.handle p
    let hS := if !s.srcKeys.contains p then "nohandle" else
      (if h.src.isSome then "c" else "u") ++ "," ++ (match h.desc with | some n => toString n | none => "-") ++ "," ++ toString h.coreHash
    let oS := if !s.isOperable p then "-" else
      let o := d.op p
      s!"{typeName o.type},{optName o.opts},{bit o.translations}{bit o.broken}{bit o.outdated}"
    s!"{p}:{cellS}:{parents}:{hS}:{oS}:{statusName (statusOf s d p)}"
  let edges := csv (s.graph.edgeList.map fun (c, p) => s!"{c}>{p}")
  let order := csv (s.graph.executeOrder.map toString)
  let srcs := csv (d.env.map fun x => s!"{x.name}:{bit x.opened}{bit x.saved}:{x.content}")
  let base := s!"n={s.storage.length}" ++ (if picts.isEmpty then "" else " " ++ joinWith " " picts) ++ s!" E={edges} X={order} S={srcs}"
  match d.fault with
  | some f => base ++ " FAULT=" ++ f.replace " " "_"
  | none => base

/-! ### the structural invariants of the property, evaluated on a dump of the implementation -/

structure DPict where
  pid : Nat
  cells : List String
  parents : List Nat
  handle : String
  op : String
deriving Inhabited

def parseDump (toks : List String) : List DPict × List (Nat × Nat) × List Nat :=
  let picts := toks.filterMap fun t =>
    match t.splitOn ":" with
    | [p, cells, parents, h, o, _] =>
      some { pid := parseNat p, cells := if cells == "-" then [] else cells.splitOn "+",
             parents := if parents == "-" then [] else (parents.splitOn ",").map parseNat, handle := h, op := o : DPict }
    | _ => none
  let field (k : String) : String := match toks.find? (·.startsWith (k ++ "=")) with
    | some t => (t.drop (k.length + 1)).toString
    | none => "-"
  let edges := if field "E" == "-" then [] else ((field "E").splitOn ",").filterMap fun e =>
    match e.splitOn ">" with
    | [c, p] => some (parseNat c, parseNat p)
    | _ => none
  let order := if field "X" == "-" then [] else ((field "X").splitOn ",").map parseNat
  (picts, edges, order)

/-- acyclicity of the parent relation by repeated removal of picts whose parents are all removed -/
def acyclicFuel : Nat → List DPict → List Nat → Bool
  | 0, rest, _ => rest.isEmpty
  | f + 1, rest, done =>
    let (ready, waiting) := rest.partition fun p => p.parents.all done.contains
    if waiting.isEmpty then true
    else if ready.isEmpty then false
    else acyclicFuel f waiting (done ++ ready.map (·.pid))

def checkDump (toks : List String) : String :=
  let (picts, edges, order) := parseDump toks
  let n := match toks.find? (·.startsWith "n=") with
    | some t => parseNat (t.drop 2).toString
    | none => 0
  let pids := picts.map (·.pid)
  let allCells := picts.flatMap (·.cells)
  let fails : List String :=
    (if picts.length == n then [] else ["count"]) ++
    (if pids.eraseDups.length == pids.length then [] else ["pid-dup"]) ++
    (if picts.all (·.cells.length == 1) then [] else ["one-cell"]) ++
    (if allCells.eraseDups.length == allCells.length then [] else ["cell-shared"]) ++
    (if picts.all (·.handle != "nohandle") then [] else ["one-handle"]) ++
    (if picts.all (fun p => if p.op == "-" then p.parents.isEmpty
        else match p.parents with
          | [a, b] => a != b && pids.contains a && pids.contains b
          | _ => false) then [] else ["two-distinct-existing-parents"]) ++
    (if acyclicFuel (picts.length + 1) picts [] then [] else ["cycle"]) ++
    (if edges.all (fun (c, p) => match picts.find? (·.pid == c) with
        | some d => d.parents.contains p
        | none => false) &&
        edges.length == (picts.map (·.parents.length)).foldl (· + ·) 0 then [] else ["edge-list"]) ++
    (if order == (order.filter fun p => (picts.find? (·.pid == p)).any (·.op != "-")) &&
        sortNat order == sortNat ((picts.filter (·.op != "-")).map (·.pid)) then [] else ["execute-order"])
  if fails.isEmpty then "1" else "0:" ++ joinWith "+" fails

/-! ### oracles carried by the op lines -/

def parseMap (s : String) : List (Nat × Nat) :=
  if s == "-" then [] else (s.splitOn ",").filterMap fun e =>
    match e.splitOn "=" with
    | [a, b] => some (parseNat a, parseNat b)
    | _ => none

def parseList (s : String) : List Nat := if s == "-" then [] else (s.splitOn ",").map parseNat

/-- `B` = final `broken` flags (answers of `CheckCall` for syntheses with both operands),
`R` = executions of this call in order with the content written -/
def mkOracle (broken : List (Nat × Nat)) (results : List (Nat × Nat)) (aggFail : List Nat := []) : Oracle :=
  { check := fun p => match broken.find? (·.1 == p) with
      | some (_, b) => b == 0
      | none => true
    synth := fun p _ _ _ => match (results.reverse).find? (·.1 == p) with
      | some (_, c) => c
      | none => 0
    aggOk := fun p => !aggFail.contains p
    execCheck := fun p => if results.any (·.1 == p) then true else
      match broken.find? (·.1 == p) with
      | some (_, b) => b == 0
      | none => true }

def ambiguous (res : List (Nat × Nat)) : Bool :=
  res.any fun (p, c) => res.any fun (q, c') => p == q && c != c'

def parseVariant (s : String) : Option Variant :=
  match s.toList with
  | ['p'] => some Variant.pinned
  | ['r'] => some Variant.repaired
  | ['m', m, 'n', n, 'i', i, 't', t] =>
    if m == '?' || n == '?' || i == '?' || t == '?' then none else some ⟨m.toNat - '0'.toNat, n == '1', i == '1', t == '1'⟩
  | _ => none

def parseEdges (s : String) : List (Nat × Nat) :=
  if s == "-" then [] else (s.splitOn ",").filterMap fun e =>
    match e.splitOn ">" with
    | [c, p] => some (parseNat c, parseNat p)
    | _ => none

def applyOp (s : State) (o : Oracle) (op : Op) (render : St → Bool → String) : State × String :=
  if s.bad then (s, "skip\tx") else
  match step s.v o s.st op with
  | none => ({ s with bad := true }, "skip\tx")
  | some (st', b) => ({ s with st := st' }, render st' b)

def boolOut (spec : String) : St → Bool → String := fun _ b => s!"{bit b}\t{spec}"

/-- `only leaves can be erased`, from the parent relation itself -/
def eraseSpec (st : St) (p : Nat) : String :=
  if !st.s.storage.contains p then "0"
  else if st.s.storage.any (fun c => (st.s.graph.parentsOf c).contains p) then "0" else "1"

/-- the freshness predicate of the model in the wording of the harness' oracle -/
def staleModel (st : St) : String :=
  let bad := (sortNat st.s.opKeys).filterMap fun p =>
    if (st.d.handle p).empty || statusOf st.s st.d p != .done then none
    else match (st.d.op p).built, st.s.graph.parentsOf p with
      | some (b1, b2), [p1, p2] =>
        let chk (q : Nat) (b : Option Nat) : Option String :=
          if (st.d.handle q).empty then some "gone"
          else match st.announcedOf q with
            | none => none
            | some c => if b == some c then none else some (if st.s.isOperable q then "exec" else "lost")
        match chk p1 b1 with
        | some k => some s!"0:{k}:{p}_done_but_parent_{p1}_changed"
        | none => (chk p2 b2).map fun k => s!"0:{k}:{p}_done_but_parent_{p2}_changed"
      | _, _ => none
  bad.headD "1"

def step (s : State) (args : List String) : State × String :=
  match args with
  | ["reset", v] =>
    match parseVariant v with
    | some v => ({ v := v }, "ok\tok")
    | none => ({ bad := true }, "ok\tok")
  | ["insbase", p] =>
    applyOp s (mkOracle [] []) (.insertBase (parseNat p)) fun _ _ => s!"{p}\tx"
  | ["insop", a, b, f] =>
    applyOp s (mkOracle [] []) (.insertOperation (parseNat a) (parseNat b) (parseNat f)) fun _ ok =>
      let spec := if a == b || !s.st.s.storage.contains (parseNat a) || !s.st.s.storage.contains (parseNat b) then "0" else "x"
      (if ok then f else "0") ++ "\t" ++ spec
  | ["erase", p, bm] =>
    applyOp s (mkOracle (parseMap bm) []) (.erase (parseNat p)) (boolOut (eraseSpec s.st (parseNat p)))
  | ["newsrc", n, c] => applyOp s (mkOracle [] []) (.newSource (parseNat n) (parseNat c)) fun _ _ => "ok\tok"
  | ["connect", p, n, bm] => applyOp s (mkOracle (parseMap bm) []) (.connect (parseNat p) (parseNat n)) (boolOut "x")
  | ["edit", n, c, _] => applyOp s (mkOracle [] []) (.edit (parseNat n) (parseNat c)) fun _ _ => "ok\tok"
  | ["announce", n, bm] => applyOp s (mkOracle (parseMap bm) []) (.announce (parseNat n)) fun _ _ => "ok\tok"
  | ["close", n] => applyOp s (mkOracle [] []) (.close (parseNat n)) fun _ _ => "ok\tok"
  | ["open", n, bm] => applyOp s (mkOracle (parseMap bm) []) (.openSrc (parseNat n)) fun _ _ => "ok\tok"
  | ["destroy", n] => applyOp s (mkOracle [] []) (.destroy (parseNat n)) fun _ _ => "ok\tok"
  | ["init", p, t, o, same, bm] =>
    applyOp s (mkOracle (parseMap bm) []) (.initFor (parseNat p) (typeOfName t) (optOfName o) (same == "1")) (boolOut "x")
  | ["exec", p, a, rm, bm, af] =>
    let res := parseMap rm
    -- an operation executed twice in one call with different results: the per-pict oracle is ambiguous
    if ambiguous res then ({ s with bad := true }, "skip\tx")
    else applyOp s (mkOracle (parseMap bm) res (parseList af)) (.execute (parseNat p) (a == "1")) (boolOut "x")
  | ["execall", rm, bm, af] =>
    let res := parseMap rm
    if ambiguous res then ({ s with bad := true }, "skip\tx")
    else applyOp s (mkOracle (parseMap bm) res (parseList af)) .executeAll fun _ _ => "ok\tok"
  | ["reload", items, edges] =>
    applyOp s (mkOracle [] []) (.reload (if items == "-" then [] else (items.splitOn ",").map parseNat) (parseEdges edges)) fun _ _ => "ok\tok"
  | "noop" :: _ => (s, "ok\tok")
  | "crash" :: _ => (s, "skip\tx")
  | ["dump"] => if s.bad then (s, "skip\tx") else (s, s!"{dumpModel s.st}\tx")
  | "chk" :: toks => (s, s!"skip\t{checkDump toks}")
  -- the freshness clause on the model (ghost fields) next to the harness' evaluation on the implementation
  | ["stale"] => if s.bad then (s, "skip\t1") else (s, s!"{staleModel s.st}\t1")
  | "ichk" :: _ => (s, "skip\t1")
  | "execres" :: _ => (s, "skip\t1")
  | _ => (s, "bad-op\tn/a")

end Driver.C19
