import CCVerif.Model.Schema
import Driver.Util
/-! Driver ops for C07: the incremental-analysis model (as in /repo now) next to analysis from
scratch of the same content (the specification). -/
namespace Driver.C07
open CCVerif.Schema Driver

structure State where
  st : St := {}

def parseDef (s : String) : Def :=
  if s == "-" then .empty
  else if s == "bad" then .bad
  else if s.startsWith "u:" then .union (((s.drop 2).toString.splitOn "+").filter (· ≠ ""))
  else .bad

def kindOf (s : String) : Kind := if s == "base" then .base else .term

def showStatus : Status → String
  | .unknown => "U" | .verified => "V" | .incorrect => "I"

def sortPairs (l : List (Nat × Nat)) : List (Nat × Nat) :=
  (l.toArray.qsort (fun a b => a.1 < b.1 || (a.1 == b.1 && a.2 < b.2))).toList

def showReport (st : St) : String :=
  let items := st.report.map fun (u, s, t) => s!"{u}:{showStatus s}:{t.getD "-"}"
  let edges := (sortPairs st.depEdges).map fun (a, b) => s!"{a}>{b}"
  let i := if items.isEmpty then "-" else joinWith "," items
  let e := if edges.isEmpty then "-" else joinWith "," edges
  s!"{i} edges={e}"

def parseMap (s : String) : List (String × String) :=
  if s == "-" then [] else
  (s.splitOn ",").filterMap fun p => match p.splitOn ">" with | [a, b] => some (a, b) | _ => none

def step (s : State) (args : List String) : State × String :=
  let go (op : Op) : State × String := ({ st := CCVerif.Schema.step false s.st op }, "ok\tok")
  match args with
  | ["reset"] => ({}, "ok\tok")
  | ["insert", u, a, k, d] => go (.insert { uid := parseNat u, alias := a, kind := kindOf k, defn := parseDef d })
  | ["load", u, a, k, d] => go (.load { uid := parseNat u, alias := a, kind := kindOf k, defn := parseDef d })
  | ["update"] => go .updateState
  | ["erase", u] => go (.erase (parseNat u))
  | ["setdef", u, d] => go (.setDef (parseNat u) (parseDef d))
  | ["setalias", u, a, sb] => go (.setAlias (parseNat u) a (sb == "1"))
  | ["subst", m] => go (.substitute (parseMap m))
  | ["noop"] => (s, "ok\tok")
  | ["report"] => (s, s!"{showReport s.st}\t{showReport s.st.scratch}")
  -- oracle evaluated by the harness on the implementation itself (copy + UpdateState): must be 1
  | "scratchimpl" :: _ => (s, "skip\t1")
  | _ => (s, "bad-op\tn/a")

end Driver.C07
