import CCVerif.Model.Schema
import CCVerif.Model.Thesaurus
import Driver.Util
/-! Driver ops for C07: the incremental-analysis model (as in /repo now) next to analysis from
scratch of the same content (the specification). -/
namespace Driver.C07
open CCVerif.Schema Driver

structure State where
  st : St := {}
  /-- text layer (`Model/Thesaurus.lean` over the C17 resolver model) -/
  th : CCVerif.Thesaurus.St CCVerif.Strings.Bytes CCVerif.Refs.Morph := CCVerif.Thesaurus.St.init CCVerif.Thesaurus.refsLang

def parseDef (s : String) : Def :=
  if s == "-" then .empty
  else if s == "bad" then .bad
  else if s.startsWith "u:" then .union (((s.drop 2).toString.splitOn "+").filter (· ≠ ""))
  else .bad

def kindOf (s : String) : Kind := if s == "base" then .base else .term

def showStatus : Status → String
  | .unknown => "U" | .verified => "V" | .incorrect => "I"

def sortPairs (l : List (Nat × Nat)) : List (Nat × Nat) :=
  (l.toArray.qsort (fun a b => a.1 < b.1 || (a.1 == b.1 && a.2 < b.2))).toList

def showReport (st : St) : String :=
  let items := st.report.map fun (u, s, t) => s!"{u}:{showStatus s}:{t.getD "-"}"
  let edges := (sortPairs st.depEdges).map fun (a, b) => s!"{a}>{b}"
  let i := if items.isEmpty then "-" else joinWith "," items
  let e := if edges.isEmpty then "-" else joinWith "," edges
  s!"{i} edges={e}"

def parseMap (s : String) : List (String × String) :=
  if s == "-" then [] else
  (s.splitOn ",").filterMap fun p => match p.splitOn ">" with | [a, b] => some (a, b) | _ => none

/-! text layer: `c07 t…` ops mirror `Thesaurus` histories; `c07 treport` prints every resolved term /
definition of the model and, as the specification, those of the model's from-scratch rebuild
(`n/a` when the term references of the content are cyclic) -/
section TextLayer
open CCVerif.Thesaurus

abbrev TSt := CCVerif.Thesaurus.St CCVerif.Strings.Bytes CCVerif.Refs.Morph
def TL := CCVerif.Thesaurus.refsLang

def showTReport (st : TSt) : String :=
  let items := (st.report TL).map fun (u, _, _, ts, _, ds) => s!"{u}:{toHex ts}|{toHex ds}"
  let body := if items.isEmpty then "-" else joinWith "," items
  if st.stuck then "stuck " ++ body else body

def termsAcyclic (st : TSt) : Bool := !(CCVerif.Graph.hasLoop (st.ensureT TL).tGraph)

def parseSubst (s : String) : List (String × String) :=
  if s == "-" then [] else
  (s.splitOn ",").filterMap fun p => match p.splitOn ">" with
    | [a, b] => some (nameStr (parseHex a), nameStr (parseHex b)) | _ => none

/-- the fixed manual form of the harness: {datv, plur} -/
def harnessForm : CCVerif.Refs.Morph := CCVerif.Refs.morphOfText [100, 97, 116, 118, 44, 112, 108, 117, 114]

def tstep (s : State) (args : List String) : Option (State × String) :=
  let go (op : Op CCVerif.Strings.Bytes CCVerif.Refs.Morph) : Option (State × String) :=
    some ({ s with th := CCVerif.Thesaurus.step TL s.th op }, "ok\tok")
  match args with
  | ["treset"] => some ({ s with th := St.init TL }, "ok\tok")
  | ["tins", u, a, t, d] => go (.insert ⟨parseNat u, nameStr (parseHex a), parseHex t, [], parseHex d⟩)
  | ["terase", u] => go (.erase (parseNat u))
  | ["tset", u, t] => go (.setTerm (parseNat u) (parseHex t))
  | ["dset", u, t] => go (.setDef (parseNat u) (parseHex t))
  | ["tform", u, t] => go (.setTermForm (parseNat u) (parseHex t) harnessForm)
  | ["talias", u, a, sb] => go (.setAlias (parseNat u) (nameStr (parseHex a)) (sb == "1"))
  | ["tsubst", m] => go (.substitute (parseSubst m))
  | ["ttr", u, m] => go (.translate (parseNat u) (parseSubst m))
  | ["ttrt", u, m] => go (.translateTerm (parseNat u) (parseSubst m))
  | ["ttrd", u, m] => go (.translateDef (parseNat u) (parseSubst m))
  | ["ttrall", m] => go (.translateAll (parseSubst m))
  | ["tupdate"] => go .updateState
  | ["treport"] =>
    let spec := if termsAcyclic (s.th.scratch TL) then showTReport (s.th.scratch TL) else "n/a"
    some (s, s!"{showTReport s.th}\t{spec}")
  -- replay of a history OUTSIDE the admissible class (`histTextDup` of Properties/C07.lean: shared alias erased):
  -- correspondence code = model only, for the incremental state and for the rebuilt one; no oracle
  | ["treportx"] => some (s, s!"{showTReport s.th}\tn/a")
  | ["tscratchx"] => some (s, s!"{showTReport (s.th.scratch TL)}\tn/a")
  | _ => none
end TextLayer

def step (s : State) (args : List String) : State × String :=
  let go (op : Op) : State × String := ({ st := CCVerif.Schema.step false s.st op }, "ok\tok")
  match tstep s args with
  | some r => r
  | none =>
  match args with
  | ["reset"] => ({}, "ok\tok")
  | ["insert", u, a, k, d] => go (.insert { uid := parseNat u, alias := a, kind := kindOf k, defn := parseDef d })
  | ["load", u, a, k, d] => go (.load { uid := parseNat u, alias := a, kind := kindOf k, defn := parseDef d })
  | ["update"] => go .updateState
  | ["erase", u] => go (.erase (parseNat u))
  | ["setdef", u, d] => go (.setDef (parseNat u) (parseDef d))
  | ["setalias", u, a, sb] => go (.setAlias (parseNat u) a (sb == "1"))
  | ["subst", m] => go (.substitute (parseMap m))
  | ["noop"] => (s, "ok\tok")
  | ["report"] => (s, s!"{showReport s.st}\t{showReport s.st.scratch}")
  -- oracle evaluated by the harness on the implementation itself (copy + UpdateState): must be 1
  | "scratchimpl" :: _ => (s, "skip\t1")
  | _ => (s, "bad-op\tn/a")

end Driver.C07
