import CCVerif.Model.Strings
import Driver.Util
/-! Driver ops for C20. Each op prints `model<TAB>spec`; spec is `n/a` when the documented
precondition of the C++ does not hold or the model *is* the definition. -/
namespace Driver.C20
open CCVerif.Strings Driver

/-- reference UTF-8 decoder (strict on structure, used only to decide well-formedness). -/
def decode : List Nat → Option (List Nat)
  | [] => some []
  | b :: rest =>
    if b < 0x80 then (decode rest).map (b :: ·)
    else if 0xC0 ≤ b ∧ b < 0xE0 then
      match rest with
      | c1 :: r => if 0x80 ≤ c1 ∧ c1 < 0xC0 then (decode r).map (((b - 0xC0) * 64 + (c1 - 0x80)) :: ·) else none
      | _ => none
    else if 0xE0 ≤ b ∧ b < 0xF0 then
      match rest with
      | c1 :: c2 :: r =>
        if 0x80 ≤ c1 ∧ c1 < 0xC0 ∧ 0x80 ≤ c2 ∧ c2 < 0xC0 then
          (decode r).map (((b - 0xE0) * 4096 + (c1 - 0x80) * 64 + (c2 - 0x80)) :: ·) else none
      | _ => none
    else if 0xF0 ≤ b ∧ b < 0xF8 then
      match rest with
      | c1 :: c2 :: c3 :: r =>
        if 0x80 ≤ c1 ∧ c1 < 0xC0 ∧ 0x80 ≤ c2 ∧ c2 < 0xC0 ∧ 0x80 ≤ c3 ∧ c3 < 0xC0 then
          (decode r).map (((b - 0xF0) * 262144 + (c1 - 0x80) * 4096 + (c2 - 0x80) * 64 + (c3 - 0x80)) :: ·) else none
      | _ => none
    else none
termination_by l => l.length

/-- canonical well-formedness: decodes and re-encodes to itself (excludes over-long forms). -/
def wellFormed (s : List Nat) : Option (List Nat) :=
  match decode s with
  | some cps => if encode cps == s ∧ cps.all (· < 0x110000) then some cps else none
  | none => none

def showPairs (l : List (Nat × Nat)) : String :=
  joinWith "," (l.map fun (a, b) => s!"{a}:{b}")

def specTrim (s : List Nat) : List Nat :=
  ((s.dropWhile isSpace).reverse.dropWhile isSpace).reverse

def specSplit (s : List Nat) (d : Nat) : List (List Nat) :=
  let rec go : List Nat → List Nat → List (List Nat)
    | [], cur => [cur.reverse]
    | c :: r, cur => if c == d then cur.reverse :: go r [] else go r (c :: cur)
  go s []

def rangeLine (a b c d : Int) : String :=
  let r : StrRange := ⟨a, b⟩; let s : StrRange := ⟨c, d⟩
  let isect := match r.intersect s with | none => "none" | some t => s!"{t.start}:{t.finish}"
  joinWith " " [bit (r.contains s), bit (r.isBefore s), bit (r.isAfter s), bit (r.meets s),
    bit (r.sharesBorder s), bit (r.overlaps s), bit (r.starts s), bit (r.finishes s), bit (r.isDuring s),
    bit (r.containsPos c), bit (decide (r = s)), isect]

/-- point-set oracle over a window, independent of the end-point formulas. -/
def rangeSpec (a b c d : Int) : String :=
  if a > b ∨ c > d then "n/a" else
  let lo := min a c - 1; let n := (max b d + 2 - lo).toNat
  let pts := (List.range n).map (fun (i : Nat) => lo + (i : Int))
  let inR (x y p : Int) : Bool := x ≤ p && p < y
  let both := pts.filter fun p => inR a b p && inR c d p
  let isect :=
    if b < c ∨ d < a then "none"
    else match both with
      | [] => s!"{max a c}:{min b d}"
      | p :: _ => s!"{p}:{both.getLast! + 1}"
  let ovl := if a < b ∧ c < d then bit (!both.isEmpty) else "x"
  let cont := if c < d then bit (pts.all fun p => !(inR c d p) || inR a b p) else bit (inR a b d)
  joinWith " " [cont, bit (b < c), bit (a > d), bit (b == c), bit (b == c || d == a), ovl,
    bit (a == c && b < d), bit (b == d && a > c), bit (a > c && b < d), bit (inR a b c),
    bit (a == c && b == d), isect]

def handle (args : List String) : String :=
  match args with
  | ["iter", h] =>
    let s := parseHex h
    let spec := match wellFormed s with
      | some cps => showPairs ((List.range cps.length).map fun i => (i, byteOffset cps i))
      | none => "n/a"
    s!"{showPairs (iterAll s)}\t{spec}"
  | ["size", h] =>
    let s := parseHex h
    let spec := match wellFormed s with | some cps => toString cps.length | none => "n/a"
    s!"{sizeCp s}\t{spec}"
  | ["substr", h, a, b] =>
    let s := parseHex h; let a := parseInt a; let b := parseInt b
    let spec := match wellFormed s with
      | some cps =>
        if a < 0 ∨ b < a then "n/a"
        else if a == b then "-"
        else if b.toNat ≤ cps.length then toHex (encode ((cps.drop a.toNat).take (b.toNat - a.toNat)))
        else "-"
      | none => "n/a"
    s!"{toHex (substr s a b)}\t{spec}"
  | ["split", h, d] =>
    let s := parseHex h; let d := parseNat d
    let f := fun (ps : List (List Nat)) => joinWith "," (ps.map toHex)
    s!"{f (splitBy s d)}\t{f (specSplit s d)}"
  | ["trim", h] =>
    let s := parseHex h
    s!"{toHex (trim s)}\t{toHex (specTrim s)}"
  | ["isint", h] =>
    let s := parseHex h
    let spec := match s with
      | [] => false
      | 45 :: r => !r.isEmpty && r.all isDigit
      | _ => s.all isDigit
    s!"{bit (isInteger s)}\t{bit spec}"
  | ["rng", a, b, c, d] =>
    let a := parseInt a; let b := parseInt b; let c := parseInt c; let d := parseInt d
    s!"{rangeLine a b c d}\t{rangeSpec a b c d}"
  | "rngsym" :: _ => "skip\t1 1 1 1"
  | "merge" :: rest =>
    let rec pairs : List String → List StrRange
      | a :: b :: r => ⟨parseInt a, parseInt b⟩ :: pairs r
      | _ => []
    let l := pairs rest
    let m := StrRange.merge l
    let spec := match l with
      | [] => "0:0"
      | x :: xs => s!"{xs.foldl (fun acc (r : StrRange) => min acc r.start) x.start}:{xs.foldl (fun acc (r : StrRange) => max acc r.finish) x.finish}"
    s!"{m.start}:{m.finish}\t{spec}"
  | _ => "bad-op\tn/a"

end Driver.C20
