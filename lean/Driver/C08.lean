import CCVerif.Model.Translate
import CCVerif.Model.TranslateSpec
import CCVerif.Model.Core
import Driver.Util
/-! Driver ops of C08 (`c08 …`). Each op prints `model<TAB>spec`.

Stateless (byte strings in hex, `-` = empty; a map is `k=v,k=v` in hex or `none`):
* `c08 tr <g|i> <text> <map>` — `TranslateRS` with `FilterGlobals` (`g`) / `FilterIdentifiers` (`i`):
  model = transcription (`<text> <count>`, `oob`, `stuck`; `skip` for ill-formed UTF-8; the model
  column also checks, on every case, the statement of `translateRS_tokens` — `weave-mismatch` — and
  of `relex_stable` — `relex-mismatch`); spec = word-level specification (no lexer model).
* `c08 sub <text> <map>` — `SubstituteGlobals`; same columns.
* `c08 ext <text>` — `ExtractUGlobals`: sorted distinct names; spec = word-level global names.
* `c08 refs <text> <map>` — `ManagedText::TranslateRaw`: model = `Refs.translateRaw` (C17); spec = C17's
  `translateSpec`. `c08 refstrict <text> <map>`: the same call judged by this package's own
  `translateRefsStrict` (only the bytes of the name of a renamed entity reference change, every other
  byte kept) — an ordinary oracle: the implementation must produce exactly these bytes
  (`translateRaw_strict`).
* `c08 trtok <g|i> <text> <map> <toks>` — any bytes (ill-formed UTF-8 included): `toks` is the token
  stream the real lexer reported (`code:start:len,…`); model `skip`; spec = the text with exactly
  the reported filter tokens replaced, by byte ranges of the ORIGINAL text.

Stateful (a history starts with `c08 reset`): the content of a schema (alias, definition,
convention, raw term text, raw definition text per constituent).
* `c08 add <uid> <alias> <kind> <def> <conv> <term> <text>` — as stored after the insertion or edit;
  `c08 del <uid>` — erased.
* `c08 setalias <uid> <new> <0|1>` — `RSForm::SetAliasFor`; model = accepted (`1`/`0`) by the
  identity-manager rule of `Model/Core.lean`, content updated through the transcription.
* `c08 resetaliases <map>` — `ResetAliases` with the observed map old alias ↦ new alias.
* `c08 content` — model = content through the transcription; spec = the previous content with
  exactly the whole-identifier occurrences / entity references renamed (word level, C17 spec).
* `c08 iso <report before>` — after a renaming with substitution: spec = the report before the
  renaming with the names substituted in the typifications, when the freshness proviso holds
  (`n/a` otherwise); the implementation's result is its report after the renaming.
-/
namespace Driver.C08
open CCVerif.Syntax CCVerif.Lexer CCVerif.Strings CCVerif.Translate CCVerif.Translate.Spec Driver

def parseMapB (s : String) : Substitutes :=
  if s == "none" then [] else
  (s.splitOn ",").filterMap fun p => match p.splitOn "=" with
    | [a, b] => some (parseHex a, parseHex b)
    | _ => none

def filterOf (s : String) : (Tok → Bool) × Bool :=
  if s == "i" then (filterIdentifiers, true) else (filterGlobals, false)

def insertSortedB (x : List Nat) : List (List Nat) → List (List Nat)
  | [] => [x]
  | y :: ys => if x == y then y :: ys else if decide (x < y) then x :: y :: ys else y :: insertSortedB x ys
def sortDedupB (l : List (List Nat)) : List (List Nat) := l.foldl (fun acc x => insertSortedB x acc) []

def showNames (l : List Bytes) : String :=
  let s := sortDedupB l
  if s.isEmpty then "none" else joinWith "," (s.map toHex)

/-- model column of `tr`: the transcription, cross-checked against the token-level statement -/
def trModel (f : Tok → Bool) (tr : Translator) (text : Bytes) : String :=
  match decode text with
  | none => "skip"
  | some cps =>
    match translateCps f tr cps with
    | .ok s c =>
      match lexMath cps with
      | none => "stuck"
      | some toks =>
        if weaveToks f tr cps 0 toks != s || changed f tr toks != c then s!"weave-mismatch {toHex s} {c}"
        else
          let relexOk : Bool :=
            match relexExpected f tr toks, decode s with
            | some exp, some cps' =>
              (match lexMath cps' with
               | some toks' => toks'.map (fun t => (t.id, encode t.text)) == exp
               | none => false)
            | _, _ => true
          if relexOk then s!"{toHex s} {c}" else s!"relex-mismatch {toHex s} {c}"
    | .oob => "fault:oob"
    | .lexStuck => "stuck"
    | .illFormed => "skip"

def trSpec (locals : Bool) (tr : Translator) (text : Bytes) : String :=
  match translateBytes locals tr text with
  | some (s, c) => s!"{toHex s} {c}"
  | none => "n/a"

/-- spec of `trtok`: replacement by the byte ranges of the reported tokens, right to left so that
no offset bookkeeping is needed -/
def trTokSpec (f : Tok → Bool) (tr : Translator) (text : Bytes) (toks : List (Nat × Nat × Nat)) : String :=
  let step (acc : Bytes × Nat) (t : Nat × Nat × Nat) : Bytes × Nat :=
    let (code, start, len) := t
    let name := (text.drop start).take len
    match Tok.ofCode code with
    | some k =>
      if f k then
        match tr name with
        | some n => if n != name then (acc.1.take start ++ n ++ acc.1.drop (start + len), acc.2 + 1) else acc
        | none => acc
      else acc
    | none => acc
  let r := toks.reverse.foldl step (text, 0)
  s!"{toHex r.1} {r.2}"

def parseToks (s : String) : List (Nat × Nat × Nat) :=
  if s == "-" then [] else
  (s.splitOn ",").filterMap fun p => match p.splitOn ":" with
    | [a, b, c] => some (parseNat a, parseNat b, parseNat c)
    | _ => none

def handle (args : List String) : Option String :=
  match args with
  | ["tr", fl, h, m] =>
    let (f, locals) := filterOf fl
    let tr := createTranslator (parseMapB m)
    some s!"{trModel f tr (parseHex h)}\t{trSpec locals tr (parseHex h)}"
  | ["sub", h, m] =>
    let tr := createTranslator (parseMapB m)
    some s!"{trModel filterGlobals tr (parseHex h)}\t{trSpec false tr (parseHex h)}"
  | ["ext", h] =>
    let model := match extractUGlobals (parseHex h) with
      | some l => showNames l
      | none => "skip"
    let spec := match decode (parseHex h) with
      | some cps => showNames (globalsOf cps)
      | none => "n/a"
    some s!"{model}\t{spec}"
  | ["refs", h, m] | ["refstrict", h, m] =>
    let tr := createTranslator (parseMapB m)
    let model := match CCVerif.Refs.translateRaw CCVerif.Refs.Variant.current tr (parseHex h) with
      | .ok b => toHex b
      | .stuck _ => "fault:stuck"
    let strict := args.head? == some "refstrict"
    let spec := match decode (parseHex h) with
      | some cps => toHex (if strict then translateRefsStrict tr cps else CCVerif.Refs.Spec.translateSpec tr cps)
      | none => "n/a"
    some s!"{model}\t{spec}"
  | ["trtok", fl, h, m, ts] =>
    let (f, _) := filterOf fl
    some s!"skip\t{trTokSpec f (createTranslator (parseMapB m)) (parseHex h) (parseToks ts)}"
  | _ => none

/-! ### stateful part -/

structure State where
  /-- content through the transcription (`none`: outside the model, e.g. ill-formed text) -/
  model : Option (List Concept) := some []
  /-- content through the specification -/
  spec : Option (List Concept) := some []
  kinds : List (Nat × CCVerif.Core.CstType) := []
  /-- content before the last renaming with substitution, and its map -/
  pre : Option (List Concept × Substitutes) := none

def kindOfCode (n : Nat) : CCVerif.Core.CstType :=
  (CCVerif.Core.CstType.all.find? (·.code == n)).getD .base

def insertConcept (c : Concept) : List Concept → List Concept
  | [] => [c]
  | d :: ds => if c.uid < d.uid then c :: d :: ds else if c.uid = d.uid then c :: ds else d :: insertConcept c ds

def showContent : Option (List Concept) → String
  | none => "skip"
  | some [] => "-"
  | some cs => joinWith ";" (cs.map fun c =>
      s!"{c.uid}:{toHex c.alias}:{toHex c.definition}:{toHex c.convention}:{toHex c.term}:{toHex c.textDef}")

def asString (b : Bytes) : String := String.ofList (b.map Char.ofNat)

/-- `RSCore::SetAliasFor` acceptance: the target exists, the name differs, and
`IdentityManager::TryAlias` (old name registered, new name free and of the constituent's kind) -/
def accepted (cs : List Concept) (kinds : List (Nat × CCVerif.Core.CstType)) (u : Nat) (new : Bytes) : Bool :=
  match cs.find? (·.uid = u) with
  | none => false
  | some c =>
    if c.alias = new then false
    else
      let names := cs.map (fun x => asString x.alias)
      let t := ((kinds.find? (·.1 == u)).map (·.2)).getD .base
      !CCVerif.Core.needNameChange names (asString new) t

/-- field-wise renaming of a report `uid:S:type:args:in=…;…` (type and args in hex) -/
def renameReport (tr : Translator) (r : String) : String :=
  if r == "-" then "-" else
  joinWith ";" ((r.splitOn ";").map fun item =>
    match item.splitOn ":" with
    | [u, s, t, a, i] =>
      let ren (h : String) : String :=
        match translateBytes false tr (parseHex h) with
        | some (b, _) => toHex b
        | none => h
      s!"{u}:{s}:{ren t}:{ren a}:{i}"
    | _ => item)

def step (s : State) (args : List String) : State × String :=
  match args with
  | ["reset"] => ({}, "ok\tok")
  | ["noop"] => (s, "ok\tok")
  | ["add", u, a, k, d, v, t, x] =>
    let c : Concept := ⟨parseNat u, parseHex a, parseHex d, parseHex v, parseHex t, parseHex x⟩
    ({ s with model := s.model.map (insertConcept c), spec := s.spec.map (insertConcept c),
              kinds := (c.uid, kindOfCode (parseNat k)) :: s.kinds.filter (·.1 != c.uid), pre := none }, "ok\tok")
  | ["del", u] =>
    let uid := parseNat u
    ({ s with model := s.model.map (·.filter (·.uid != uid)), spec := s.spec.map (·.filter (·.uid != uid)),
              kinds := s.kinds.filter (·.1 != uid), pre := none }, "ok\tok")
  | ["setalias", u, n, sb] =>
    match s.model with
    | none => (s, "skip\tn/a")
    | some cs =>
      let uid := parseNat u
      let new := parseHex n
      let subst := sb == "1"
      if accepted cs s.kinds uid new then
        let old := ((cs.find? (·.uid = uid)).map (·.alias)).getD []
        let m : Substitutes := [(old, new)]
        let model' := setAlias cs uid new subst
        let spec' := if subst then renameAll m cs
                     else some (cs.map fun x => if x.uid = uid then { x with alias := new } else x)
        ({ s with model := model', spec := spec', pre := if subst then some (cs, m) else none }, "1\tn/a")
      else ({ s with pre := none }, "0\tn/a")
  | ["resetaliases", m] =>
    match s.model with
    | none => (s, "skip\tn/a")
    | some cs =>
      let mp := parseMapB m
      ({ s with model := substituteAliases cs mp, spec := renameAll mp cs, pre := some (cs, mp) }, "ok\tok")
  | ["content"] =>
    -- from here on both columns continue from the model's content
    ({ s with spec := s.model }, s!"{showContent s.model}\t{match s.spec with | none => "n/a" | some _ => showContent s.spec}")
  | ["iso", before] =>
    match s.pre with
    | some (cs, m) =>
      if freshFor m cs then (s, s!"skip\t{renameReport (createTranslator m) before}")
      else (s, "skip\tn/a")
    | none => (s, "skip\tn/a")
  | _ =>
    match handle args with
    | some o => (s, o)
    | none => (s, "bad-op\tn/a")

end Driver.C08
