import CCVerif.Model.Syntax
import Driver.Util
/-! Parser for the AST wire form `NAME:data:lo:hi[kid,kid,…]` produced by harness/ast_wire.hpp. -/
namespace Driver
open CCVerif.Syntax

def bytesToString (bs : List Nat) : String :=
  match String.fromUTF8? (ByteArray.mk (bs.map (fun b => UInt8.ofNat b)).toArray) with
  | some s => s
  | none => "?"

def parseData (s : String) : TokData :=
  match s.toList with
  | ['_'] => .none
  | 'i' :: r => .int ((String.ofList r).toInt?.getD 0)
  | 't' :: r => .text (bytesToString (parseHex (if r.isEmpty then "-" else String.ofList r)))
  | 'x' :: r => if r.isEmpty then .tuple [] else .tuple (((String.ofList r).splitOn ".").map fun x => x.toInt?.getD 0)
  | _ => .none

/-- recursive descent over the character list; returns the node and the rest -/
partial def parseNode (cs : List Char) : Option (Ast × List Char) :=
  let (hd, rest) := cs.span (· != '[')
  match rest with
  | '[' :: rest =>
    match (String.ofList hd).splitOn ":" with
    | [name, d, lo, hi] =>
      match Tok.ofName name with
      | none => none
      | some t =>
        let rec kids (cs : List Char) (acc : List Ast) : Option (List Ast × List Char) :=
          match cs with
          | ']' :: r => some (acc.reverse, r)
          | ',' :: r => kids r acc
          | _ => match parseNode cs with
            | some (k, r) => kids r (k :: acc)
            | none => none
        match kids rest [] with
        | some (ks, r) => some (Ast.node t (parseData d) (parseInt lo) (parseInt hi) ks, r)
        | none => none
    | _ => none
  | _ => none

def parseAst (s : String) : Option Ast :=
  match parseNode s.toList with
  | some (a, []) => some a
  | _ => none

end Driver
