import CCVerif.Model.Extract
import Driver.Util
/-! Driver ops for C13. -/
namespace Driver.C13
open CCVerif.Extract Driver

structure State where
  src : Source := []

def parseNats (s : String) : List Nat := if s == "-" then [] else (s.splitOn ",").map parseNat

/-- `uid:inputs(;-separated or -):empty:base` items separated by `,` -/
def parseSource (s : String) : Source :=
  if s == "-" then [] else
  (s.splitOn ",").filterMap fun it =>
    match it.splitOn ":" with
    | [u, ins, e, b] =>
      some { uid := parseNat u, inputs := if ins == "-" then [] else (ins.splitOn ";").map parseNat,
             emptyDef := e == "1", isBaseSet := b == "1" }
    | _ => none

def showRes : Option (List Nat) → String
  | none => "none"
  | some [] => "-"
  | some l => joinWith "," (l.map toString)

/-- independent specification: Kleene iteration of the closure rule over the whole source -/
def specMax (s : Source) (args : List Nat) : Option (List Nat) :=
  if !maxPartDefined s args then none else
  let rec go (fuel : Nat) (cur : List Nat) : List Nat :=
    match fuel with
    | 0 => cur
    | f+1 =>
      let add := s.filter fun it => !cur.contains it.uid && !it.emptyDef && it.inputs.all (cur.contains ·)
      go f (cur ++ add.map (·.uid))
  some (sortSubset s (go (s.length + 1) args))

def specBasis (s : Source) (args : List Nat) : Option (List Nat) :=
  if args.isEmpty || !(args.all s.contains) then none else
  let rec go (fuel : Nat) (cur : List Nat) : List Nat :=
    match fuel with
    | 0 => cur
    | f+1 =>
      let more := (s.filter fun it => cur.contains it.uid).flatMap (·.inputs)
      go f (more.foldl (fun acc x => if acc.contains x then acc else acc ++ [x]) cur)
  some (sortSubset s (go (s.length + 1) (args.foldl (fun acc x => if acc.contains x then acc else acc ++ [x]) [])))

def step (st : State) (args : List String) : State × String :=
  match args with
  | ["source", s] => ({ src := parseSource s }, "ok\tok")
  | ["maxpart", sel] =>
    let sel := parseNats sel
    (st, s!"{showRes (maxPart false st.src sel)}\t{showRes (specMax st.src sel)}")
  | ["basis", sel] =>
    let sel := parseNats sel
    (st, s!"{showRes (extractBasis st.src sel)}\t{showRes (specBasis st.src sel)}")
  | "chk" :: _ => (st, "skip\t1")
  | _ => (st, "bad-op\tn/a")

end Driver.C13
