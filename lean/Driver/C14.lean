import CCVerif.Model.Graph
import Driver.Util
/-! Driver ops for C14: the CGraph model next to an independent mathematical digraph
(vertex list + edge list, reachability by closure). -/
namespace Driver.C14
open CCVerif.Graph Driver

/-- specification state: the mathematical digraph -/
structure Spec where
  V : List Nat := []
  E : List (Nat × Nat) := []

structure State where
  g : G := []
  s : Spec := {}

def ins (l : List Nat) (x : Nat) : List Nat := if l.contains x then l else l ++ [x]
def insE (l : List (Nat × Nat)) (x : Nat × Nat) : List (Nat × Nat) := if l.contains x then l else l ++ [x]

def Spec.addItem (s : Spec) (u : Nat) : Spec := { s with V := ins s.V u }
def Spec.erase (s : Spec) (u : Nat) : Spec :=
  { V := s.V.filter (· != u), E := s.E.filter (fun e => e.1 != u && e.2 != u) }
def Spec.conn (s : Spec) (a b : Nat) : Spec := { V := ins (ins s.V a) b, E := insE s.E (a, b) }
def Spec.setIn (s : Spec) (u : Nat) (srcs : List Nat) : Spec :=
  let V := srcs.foldl ins (ins s.V u)
  let E := srcs.foldl (fun E x => insE E (x, u)) (s.E.filter (fun e => e.2 != u))
  { V := V, E := E }

/-- one step of successors -/
def Spec.succ (s : Spec) (x : Nat) : List Nat := (s.E.filter (·.1 == x)).map (·.2)
def Spec.pred (s : Spec) (x : Nat) : List Nat := (s.E.filter (·.2 == x)).map (·.1)

/-- closure of a set under `f`, `n` rounds (n = |V| suffices) -/
def closure (f : Nat → List Nat) : Nat → List Nat → List Nat
  | 0, acc => acc
  | n+1, acc => closure f n (acc.foldl (fun a x => (f x).foldl ins a) acc)

def Spec.reachStar (s : Spec) (start : List Nat) : List Nat :=
  closure s.succ (s.V.length + 1) (start.filter (s.V.contains ·) |>.foldl ins [])
def Spec.coreachStar (s : Spec) (start : List Nat) : List Nat :=
  closure s.pred (s.V.length + 1) (start.filter (s.V.contains ·) |>.foldl ins [])
/-- reachable by a path of length ≥ 1 -/
def Spec.reachPlus (s : Spec) (a : Nat) : List Nat :=
  closure s.succ (s.V.length + 1) ((s.succ a).foldl ins [])
def Spec.cyclic (s : Spec) : Bool := s.V.any fun v => (s.reachPlus v).contains v

def sortNat (l : List Nat) : List Nat := (l.toArray.qsort (· < ·)).toList
def showSet (l : List Nat) : String := joinWith "," ((sortNat l).map toString)
def showList (l : List Nat) : String := joinWith "," (l.map toString)
def ltList : List Nat → List Nat → Bool
  | [], [] => false
  | [], _ => true
  | _, [] => false
  | a :: as, b :: bs => a < b || (a == b && ltList as bs)
def showGroups (gs : List (List Nat)) : String :=
  let gs := gs.map sortNat
  let gs := (gs.toArray.qsort ltList).toList
  joinWith "|" (gs.map showList)
def showEdges (es : List (Nat × Nat)) : String :=
  let es := (es.toArray.qsort (fun a b => a.1 < b.1 || (a.1 == b.1 && a.2 < b.2))).toList
  joinWith "," (es.map fun e => s!"{e.1}>{e.2}")

/-- SCCs that contain a cycle -/
def Spec.loopGroups (s : Spec) : List (List Nat) :=
  let onCycle := s.V.filter fun v => (s.reachPlus v).contains v
  let rec go (fuel : Nat) (todo : List Nat) (acc : List (List Nat)) : List (List Nat) :=
    match fuel, todo with
    | 0, _ => acc
    | _, [] => acc
    | f+1, v :: rest =>
      let rv := s.reachPlus v
      let comp := onCycle.filter fun w => rv.contains w && (s.reachPlus w).contains v
      go f (rest.filter (!comp.contains ·)) (comp :: acc)
  go (onCycle.length + 1) onCycle []

def parseList (s : String) : List Nat :=
  if s == "-" then [] else (s.splitOn ",").map parseNat

def isPerm (a b : List Nat) : Bool := sortNat a == sortNat b

def idxOf (l : List Nat) (x : Nat) : Nat := l.findIdx (· == x)

/-- a valid answer of TopologicalOrder for the spec graph -/
def Spec.validTopo (s : Spec) (order : List Nat) : Bool :=
  isPerm order s.V && order.eraseDups.length == order.length &&
  (s.cyclic || s.E.all fun e => idxOf order e.1 < idxOf order e.2)

def dumpModel (g : G) : String :=
  let inputs := joinWith ";" ((sortNat (liveUids g)).map fun u => s!"{u}:{showSet (inputsFor g u)}")
  s!"items={showSet (liveUids g)} edges={showEdges (edges g)} n={itemsCount g} m={connectionsCount g} loop={bit (hasLoop g)} topo={showList (topologicalOrder g)} inv={showList (inverseTopologicalOrder g)} groups={showGroups (getAllLoopsItems g)} in={inputs}"

def dumpSpec (s : Spec) : String :=
  let inputs := joinWith ";" ((sortNat s.V).map fun u => s!"{u}:{showSet (s.pred u)}")
  s!"items={showSet s.V} edges={showEdges s.E} n={s.V.length} m={s.E.length} loop={bit s.cyclic} x x groups={showGroups s.loopGroups} in={inputs}"

def step (st : State) (args : List String) : State × String :=
  match args with
  | ["reset"] => ({}, "ok\tok")
  | ["clear"] => ({}, "ok\tok")
  | ["add", u] => let u := parseNat u; ({ g := addItem st.g u, s := st.s.addItem u }, "ok\tok")
  | ["erase", u] => let u := parseNat u; ({ g := eraseItem st.g u, s := st.s.erase u }, "ok\tok")
  | ["conn", a, b] =>
    let a := parseNat a; let b := parseNat b
    ({ g := addConnection st.g a b, s := st.s.conn a b }, "ok\tok")
  | ["setin", u, l] =>
    let u := parseNat u; let l := parseList l
    ({ g := setItemInputs st.g u l, s := st.s.setIn u l }, "ok\tok")
  | ["dump"] => (st, s!"{dumpModel st.g}\t{dumpSpec st.s}")
  | ["has", u] => let u := parseNat u; (st, s!"{bit (contains st.g u)}\t{bit (st.s.V.contains u)}")
  | ["edge", a, b] =>
    let a := parseNat a; let b := parseNat b
    (st, s!"{bit (connectionExists st.g a b)}\t{bit (st.s.E.contains (a, b))}")
  | ["expout", l] =>
    let l := parseList l
    (st, s!"{showSet (expandOutputs st.g l)}\t{showSet (st.s.reachStar l)}")
  | ["expin", l] =>
    let l := parseList l
    (st, s!"{showSet (expandInputs st.g l)}\t{showSet (st.s.coreachStar l)}")
  | ["reach", d, s] =>
    let d := parseNat d; let s := parseNat s
    -- for s = d the code answers "direct self-loop"; a longer cycle through s is not reported:
    -- characterised by the model, not judged by the specification
    let spec := if s == d then (if st.s.E.contains (s, s) then "1" else "x") else bit ((st.s.reachPlus s).contains d)
    (st, s!"{bit (isReachableFrom st.g d s)}\t{spec}")
  | ["sort", l] =>
    let l := parseList l
    (st, s!"{showList (sort st.g l)}\tx")
  | ["chktopo", l] =>
    -- the implementation's TopologicalOrder, judged by the specification predicate
    (st, s!"skip\t{bit (st.s.validTopo (parseList l))}")
  | ["chkinv", l] =>
    (st, s!"skip\t{bit (st.s.validTopo (parseList l).reverse)}")
  | ["chksort", inp, res, topo] =>
    -- Sort(input) must be the sub-sequence of a valid topological order on input ∩ V
    let inp := parseList inp; let res := parseList res; let topo := parseList topo
    let want := inp.filter (st.s.V.contains ·)
    let ok := isPerm res want && (inp.isEmpty || res == topo.filter (inp.contains ·)) && res.eraseDups.length == res.length &&
      (st.s.cyclic || st.s.E.all fun e => !(res.contains e.1 && res.contains e.2) || idxOf res e.1 < idxOf res e.2)
    (st, s!"skip\t{bit ok}")
  | _ => (st, "bad-op\tn/a")

end Driver.C14
