import CCVerif.Model.SDataCompact
import Driver.Util
/-! Driver ops for C16 (compact data encoding). Each op prints `model<TAB>spec`.

Textual encodings (no blanks inside one argument):
* type:  `X1` (any identifier) | `B(<type>)` | `T(<type>,…)` (`T()` and `T(x)` are the
  degenerate arities the raw constructor of `Typification` allows);
* value: `-3` | `(<value>,…)` | `{<value>,…}` (`{}` = empty set; order = iteration order);
* table: `#` = no row; rows joined by `;`, cells by `,`; `-` = a row without cells.

Ops:
* `header <type>`            → header strings joined by `,`
* `pack <type> <value>`      → table, or `stuck` (precondition of the packer violated)
* `rt <type> <value>`        → `<unpack (pack v)> <bit: result == v>`; spec: `<v> 1` when the
                               hypotheses of `unpack_pack` hold (compatible, no set of
                               cardinality `unknownCount`, well-formed type)
* `unpack <type> <table>`    → value | `none` | `fault:<kind>`; spec `x` (judged by `compat`)
* `compat <type> <value>`    → `CheckCompatible` bit; spec: `1` iff the value satisfies the full
                               `compat` predicate (the harness sends every value the
                               implementation unpacked, so `0!` = "unpacked an incompatible value")
-/
namespace Driver.C16
open CCVerif.SDC Driver

/-! ### parsing -/

def isIdChar (c : Char) : Bool := c.isAlphanum || c == '_'

mutual
partial def parseTy : List Char → Option (Ty × List Char)
  | 'B' :: '(' :: rest =>
    match parseTy rest with
    | some (b, ')' :: rest') => some (.coll b, rest')
    | _ => none
  | 'T' :: '(' :: ')' :: rest => some (.tuple [], rest)
  | 'T' :: '(' :: rest =>
    match parseTyList rest with
    | some (cs, rest') => some (.tuple cs, rest')
    | none => none
  | cs =>
    let id := cs.takeWhile isIdChar
    if id.isEmpty then none else some (.base (String.ofList id), cs.dropWhile isIdChar)
partial def parseTyList (cs : List Char) : Option (List Ty × List Char) :=
  match parseTy cs with
  | some (t, ',' :: rest) =>
    match parseTyList rest with
    | some (ts, rest') => some (t :: ts, rest')
    | none => none
  | some (t, ')' :: rest) => some ([t], rest)
  | _ => none
end

def parseIntPrefix (cs : List Char) : Option (Int × List Char) :=
  let (neg, ds) := match cs with | '-' :: r => (true, r) | r => (false, r)
  let digits := ds.takeWhile Char.isDigit
  if digits.isEmpty then none else
  let n : Nat := digits.foldl (fun acc d => acc * 10 + (d.toNat - '0'.toNat)) 0
  some (if neg then -(n : Int) else (n : Int), ds.dropWhile Char.isDigit)

mutual
partial def parseVal : List Char → Option (Val × List Char)
  | '(' :: ')' :: rest => some (.t [], rest)
  | '(' :: rest =>
    match parseValList ')' rest with
    | some (vs, rest') => some (.t vs, rest')
    | none => none
  | '{' :: '}' :: rest => some (.s [], rest)
  | '{' :: rest =>
    match parseValList '}' rest with
    | some (vs, rest') => some (.s vs, rest')
    | none => none
  | cs =>
    match parseIntPrefix cs with
    | some (n, rest) => some (.e n, rest)
    | none => none
partial def parseValList (close : Char) (cs : List Char) : Option (List Val × List Char) :=
  match parseVal cs with
  | some (v, c :: rest) =>
    if c == ',' then
      match parseValList close rest with
      | some (vs, rest') => some (v :: vs, rest')
      | none => none
    else if c == close then some ([v], rest)
    else none
  | _ => none
end

def readTy (s : String) : Option Ty :=
  match parseTy s.toList with
  | some (t, []) => some t
  | _ => none

def readVal (s : String) : Option Val :=
  match parseVal s.toList with
  | some (v, []) => some v
  | _ => none

def readTable (s : String) : Table :=
  if s == "#" then [] else
  (s.splitOn ";").map fun r => if r == "-" then [] else (r.splitOn ",").map parseInt

/-! ### printing -/

mutual
partial def showVal : Val → String
  | .e n => toString n
  | .t cs => "(" ++ joinWith "," (cs.map showVal) ++ ")"
  | .s xs => "{" ++ joinWith "," (xs.map showVal) ++ "}"
end

def showTable (t : Table) : String :=
  if t.isEmpty then "#" else
  joinWith ";" (t.map fun r => if r.isEmpty then "-" else joinWith "," (r.map toString))

def showFault : Fault → String
  | .oob => "fault:oob"
  | .assertTuple => "fault:abort"
  | .underflow => "fault:underflow"
  | .fuel => "fault:fuel"

def showRes : Res Val → String
  | .ok v => showVal v
  | .none => "none"
  | .fault k => showFault k

def handle (args : List String) : String :=
  match args with
  | ["header", ty] =>
    match readTy ty with
    | some τ => s!"{joinWith "," (header τ)}\tn/a"
    | none => "bad-type\tn/a"
  | ["pack", ty, val] =>
    match readTy ty, readVal val with
    | some τ, some v =>
      match pack v τ with
      | some t => s!"{showTable t}\tn/a"
      | none => "stuck\tn/a"
    | _, _ => "bad-arg\tn/a"
  | ["rt", ty, val] =>
    match readTy ty, readVal val with
    | some τ, some v =>
      let model := match pack v τ with
        | some t =>
          match unpack t τ with
          | .ok w => s!"{showVal w} {bit (cmp w v == Cmp.equal)}"
          | r => s!"{showRes r} 0"
        | none => "stuck 0"
      let spec := if compat v τ && noMarker v && τ.wf then s!"{showVal v} 1" else "n/a"
      s!"{model}\t{spec}"
    | _, _ => "bad-arg\tn/a"
  | ["unpack", ty, tbl] =>
    match readTy ty with
    | some τ => s!"{showRes (unpack (readTable tbl) τ)}\tx"
    | none => "bad-type\tn/a"
  | ["compat", ty, val] =>
    match readTy ty, readVal val with
    | some τ, some v =>
      let spec := if !τ.wf then "n/a" else if compat v τ then "1" else "0!"
      s!"{bit (checkCompatible v τ)}\t{spec}"
    | _, _ => "bad-arg\tn/a"
  -- a sequence of round trips through ONE type object assigned in place, judged by the harness: every value of the
  -- sequence is compatible with its type and marker-free, so `unpack_pack_partial` demands `1`
  | "rtseq" :: _ => "skip\t1"
  | _ => "bad-op\tn/a"

end Driver.C16
