import CCVerif.Model.RefsSpec
import Driver.C20
import Driver.Util
/-! Driver ops for C17 (text references). Each op prints `model<TAB>spec`.

Encodings: byte strings in hex (`-` = empty).
* context `ctx`: `-` or `;`-separated entries `namehex=strhex[/f1.f2:formhex]*` (manual forms,
  grammeme numbers);
* translator `map`: `-` or `;`-separated `oldhex=newhex`;
* reference dump: `start:finish:K:tostringhex:resolvedhex` (`K` = `E`/`C`), `,`-separated, `-` = none.

Stateless ops: `parse`, `extract`, `resolve`, `output`, `translate`, `referals`.
History ops (state = context, current text, manager references): `reset`, `ins`, `erase`,
`first`, `out`. The alignment oracle of `ins` / `erase` (`x A1 x x`) applies when the current text is
well-formed UTF-8, the state is aligned and the position / range lies inside the text (the
hypotheses of `insert_aligned` / `erase_aligned`). -/
namespace Driver.C17
open CCVerif.Strings CCVerif.Refs Driver

structure State where
  ctx : List (Bytes × Term) := []
  text : Bytes := []
  refs : List Ref := []
  live : Bool := false

def ctxFun (entries : List (Bytes × Term)) : Ctx := fun n =>
  match entries.find? (fun e => e.1 == n) with
  | some e => some e.2
  | none => none

def parseForm (s : String) : Morph := (s.splitOn ".").filterMap (fun x => x.toNat?)

def parseCtx (s : String) : List (Bytes × Term) :=
  if s == "-" then [] else
  (s.splitOn ";").filterMap fun e =>
    match e.splitOn "=" with
    | [n, rhs] =>
      match rhs.splitOn "/" with
      | str :: forms =>
        let manual := forms.filterMap fun f =>
          match f.splitOn ":" with
          | [ids, h] => some (parseForm ids, parseHex h)
          | _ => none
        some (parseHex n, { str := parseHex str, manual := manual })
      | [] => none
    | _ => none

def parseMap (s : String) : Bytes → Option Bytes :=
  let entries : List (Bytes × Bytes) :=
    if s == "-" then [] else
    (s.splitOn ";").filterMap fun e =>
      match e.splitOn "=" with
      | [a, b] => some (parseHex a, parseHex b)
      | _ => none
  fun n => match entries.find? (fun e => e.1 == n) with
    | some e => some e.2
    | none => none

def faultStr : Fault → String
  | .terminate => "fault:signal:abort"
  | .stoiRange => "fault:exception:St12out_of_range"

def dumpRef (r : Ref) : String :=
  let k := if r.data.isEntity then "E" else "C"
  s!"{r.pos.start}:{r.pos.finish}:{k}:{toHex r.data.toString}:{toHex r.resolved}"

def dumpRefs (rs : List Ref) : String :=
  if rs.isEmpty then "-" else joinWith "," (rs.map dumpRef)

def dataStr : Option RefData → String
  | none => "inv"
  | some d => (if d.isEntity then "E:" else "C:") ++ toHex d.toString

/-- lexicographic order on byte strings, for the canonical output of `Referals`. -/
def bytesLt : Bytes → Bytes → Bool
  | [], [] => false
  | [], _ :: _ => true
  | _ :: _, [] => false
  | a :: as, b :: bs => if a < b then true else if a > b then false else bytesLt as bs

def insertSorted (x : Bytes) : List Bytes → List Bytes
  | [] => [x]
  | y :: ys => if x == y then y :: ys else if bytesLt x y then x :: y :: ys else y :: insertSorted x ys

def sortedSet (l : List Bytes) : List Bytes := l.foldl (fun acc x => insertSorted x acc) []

def namesStr (l : List Bytes) : String :=
  let s := sortedSet l
  if s.isEmpty then "-" else joinWith "," (s.map toHex)

def wf (b : Bytes) : Option (List Nat) := Driver.C20.wellFormed b

/-- byte offset of code point `w` (text length if beyond). -/
def cpOffset (text : Bytes) (w : Int) : Nat := min (advance text w.toNat 0) text.length

def insertText (text : Bytes) (w : Int) (ins : Bytes) : Bytes :=
  let o := cpOffset text w
  text.take o ++ ins ++ text.drop o

def eraseText (text : Bytes) (a b : Int) : Bytes :=
  let oa := cpOffset text a
  let ob := cpOffset text b
  text.take oa ++ text.drop (max oa ob)

def alignStr (text : Bytes) (refs : List Ref) : String :=
  if Spec.alignedB text refs then "A1" else "A0"

def stateStr (text : Bytes) (refs : List Ref) : String :=
  s!"{alignStr text refs} {toHex text} {dumpRefs refs}"

/-- are all resolutions well-formed UTF-8 (precondition for the position clauses) -/
def resolutionsWf (refs : List Ref) : Bool := refs.all (fun r => (wf r.resolved).isSome)

def firstSpec (refs : List Ref) (a b : Int) : String :=
  let rec go : List Ref → Nat → String
    | [], _ => "null"
    | r :: rest, i => if r.pos.finish < a then go rest (i + 1) else if b < r.pos.start then "null" else toString i
  go refs 0

def stepV (v : Variant) (st : State) (args : List String) : State × String :=
  match args with
  | ["parse", h] =>
    let b := parseHex h
    let model := match parse v b with
      | .ok d => dataStr d
      | .stuck f => faultStr f
    let spec := match wf b with
      | some cps => if Spec.cands cps == [(0, cps.length)] then dataStr (Spec.refOf b) else "n/a"
      | none => "n/a"
    (st, s!"{model}\t{spec}")
  | ["extract", h] =>
    let b := parseHex h
    let model := match extractAll v b with
      | .ok rs => dumpRefs rs
      | .stuck f => faultStr f
    let spec := match wf b with
      | some cps => dumpRefs ((Spec.refsOf cps).map fun (x : Nat × Nat × RefData) => (⟨x.2.2, ⟨x.1, x.2.1⟩, []⟩ : Ref))
      | none => "n/a"
    (st, s!"{model}\t{spec}")
  | ["resolve", c, h] =>
    let b := parseHex h
    let ctx := ctxFun (parseCtx c)
    let model := match resolve v ctx b with
      | .ok (t, rs) => s!"{toHex t} {dumpRefs rs}"
      | .stuck f => faultStr f
    let spec := match wf b with
      | some cps =>
        let r := Spec.resolveSpec ctx cps
        if resolutionsWf r.2 then s!"{toHex r.1} {dumpRefs r.2}" else s!"{toHex r.1} x"
      | none => "n/a"
    (st, s!"{model}\t{spec}")
  | "termchain" :: _ => (st, "skip\t1")   -- reused context vs a context built from scratch, judged on the implementation
  | ["mtstr", c, _how, _hp, h] =>
    -- a ManagedText re-initialised from the text `h`: `Str()` = the cached resolution, or the raw text when the
    -- cache is empty; `Raw()` = the text. Nothing of the previous content `_hp` may show.
    let b := parseHex h
    let ctx := ctxFun (parseCtx c)
    let strOf (resolved : List Nat) : List Nat := if resolved.isEmpty then b else resolved
    let model := match resolve v ctx b with
      | .ok (t, _) => s!"{toHex (strOf t)} {toHex b}"
      | .stuck f => faultStr f
    let spec := match wf b with
      | some cps => s!"{toHex (strOf (Spec.resolveSpec ctx cps).1)} {toHex b}"
      | none => "n/a"
    (st, s!"{model}\t{spec}")
  | ["output", c, h] =>
    let b := parseHex h
    let ctx := ctxFun (parseCtx c)
    let model := match resolve v ctx b with
      | .ok (t, rs) => toHex (outputRefs rs t)
      | .stuck f => faultStr f
    let spec := match wf b with
      | some cps =>
        if resolutionsWf (Spec.resolveSpec ctx cps).2 then toHex (Spec.canon cps) else "n/a"
      | none => "n/a"
    (st, s!"{model}\t{spec}")
  | ["translate", m, h] =>
    let b := parseHex h
    let tr := parseMap m
    let model := match translateRaw v tr b with
      | .ok t => toHex t
      | .stuck f => faultStr f
    let spec := match wf b with
      | some cps => toHex (Spec.translateSpec tr cps)
      | none => "n/a"
    (st, s!"{model}\t{spec}")
  | ["referals", h] =>
    let b := parseHex h
    let model := match referals v b with
      | .ok ns => namesStr ns
      | .stuck f => faultStr f
    let spec := match wf b with
      | some cps => namesStr (Spec.referalsSpec cps)
      | none => "n/a"
    (st, s!"{model}\t{spec}")
  | ["reset", c, h] =>
    let b := parseHex h
    let entries := parseCtx c
    let ctx := ctxFun entries
    let spec := match wf b with
      | some cps =>
        let r := Spec.resolveSpec ctx cps
        if resolutionsWf r.2 then stateStr r.1 r.2 else "n/a"
      | none => "n/a"
    match resolve v ctx b with
    | .ok (t, rs) => ({ ctx := entries, text := t, refs := rs, live := true }, s!"{stateStr t rs}\t{spec}")
    | .stuck f => ({ st with live := false }, s!"{faultStr f}\t{spec}")
  | ["ins", rh, w] =>
    if !st.live then (st, "nostate\tn/a") else
    let w := parseInt w
    let pre := (wf st.text).isSome && Spec.alignedB st.text st.refs && decide (0 ≤ w) && decide (w ≤ (sizeCp st.text : Int))
    match parse v (parseHex rh) with
    | .ok (some d) =>
      match insertRef (ctxFun st.ctx) st.refs d w with
      | none =>
        (st, s!"null {stateStr st.text st.refs}\t{if pre then "x A1 x x" else "n/a"}")
      | some (rs, idx) =>
        let res := (rs.getD idx ⟨d, ⟨0, 0⟩, []⟩).resolved
        let text := insertText st.text w res
        let pre := pre && (wf res).isSome
        ({ st with text := text, refs := rs }, s!"ok:{idx} {stateStr text rs}\t{if pre then "x A1 x x" else "n/a"}")
    | .ok none => (st, "invalid-ref\tn/a")
    | .stuck f => (st, s!"{faultStr f}\tn/a")
  | ["erase", a, b, e] =>
    if !st.live then (st, "nostate\tn/a") else
    let a := parseInt a; let b := parseInt b
    let pre := (wf st.text).isSome && Spec.alignedB st.text st.refs && decide (0 ≤ a) && decide (a ≤ b) && decide (b ≤ (sizeCp st.text : Int))
    let spec := if pre then "x A1 x x" else "n/a"
    match eraseIn st.refs ⟨a, b⟩ (e == "1") with
    | none => (st, s!"none {stateStr st.text st.refs}\t{spec}")
    | some (r, rs) =>
      let text := eraseText st.text r.start r.finish
      ({ st with text := text, refs := rs }, s!"{r.start}:{r.finish} {stateStr text rs}\t{spec}")
  | ["first", a, b] =>
    if !st.live then (st, "nostate\tn/a") else
    let a := parseInt a; let b := parseInt b
    let model := match firstIn st.refs ⟨a, b⟩ with
      | none => "null"
      | some i => toString i
    (st, s!"{model}\t{if a ≤ b then firstSpec st.refs a b else "n/a"}")
  | ["out", a, b] =>
    if !st.live then (st, "nostate\tn/a") else
    let a := parseInt a; let b := parseInt b
    (st, s!"{toHex (outputRefsIn st.refs st.text ⟨a, b⟩)}\tn/a")
  | _ => (st, "bad-op\tn/a")

/-- ops run against `Variant.current` (= the code in /repo, all three repairs applied). A leading
`old` runs the same op against `Variant.asIs` (the code before the repairs), a leading `fixed`
against `Variant.repaired` (diagnostics only; the harness emits neither). -/
def step (st : State) (args : List String) : State × String :=
  match args with
  | "fixed" :: rest => stepV Variant.repaired st rest
  | "old" :: rest => stepV Variant.asIs st rest
  | _ => stepV Variant.current st args

end Driver.C17
