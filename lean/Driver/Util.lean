/-! Shared helpers of the model driver: hex byte strings, integer parsing, list printing. -/
namespace Driver

def hexVal (c : Char) : Nat :=
  if '0' ≤ c ∧ c ≤ '9' then c.toNat - '0'.toNat
  else if 'a' ≤ c ∧ c ≤ 'f' then c.toNat - 'a'.toNat + 10
  else if 'A' ≤ c ∧ c ≤ 'F' then c.toNat - 'A'.toNat + 10
  else 0

/-- "-" is the empty byte string, otherwise two hex digits per byte. -/
def parseHex (s : String) : List Nat :=
  if s == "-" then [] else
  let rec go : List Char → List Nat
    | a :: b :: rest => (hexVal a * 16 + hexVal b) :: go rest
    | _ => []
  go s.toList

def hexDigit (n : Nat) : Char :=
  if n < 10 then Char.ofNat ('0'.toNat + n) else Char.ofNat ('a'.toNat + n - 10)

def toHex (bs : List Nat) : String :=
  if bs.isEmpty then "-" else
  String.ofList (bs.flatMap fun b => [hexDigit (b / 16 % 16), hexDigit (b % 16)])

def parseInt (s : String) : Int := s.toInt?.getD 0
def parseNat (s : String) : Nat := s.toNat?.getD 0

def joinWith (sep : String) (xs : List String) : String := sep.intercalate xs

def bit (b : Bool) : String := if b then "1" else "0"

end Driver
