import CCVerif.Model.SData
import CCVerif.Spec.SDataCard
import Driver.Util
/-! Driver ops for C15 (structured data).  Every op prints `model<TAB>spec`.

Values travel as construction expressions without blanks:
`-?digits` element, `T(a,b,…)` `Factory::Tuple`, `S(a,b,…)` `Factory::Set` (elements in the given
order, duplicates allowed), `G(a)` `Factory::Singleton`, `P(a)` `Factory::Boolean`,
`X(a,b,…)` `Factory::Decartian`.

* model column: the transcription (`CCVerif.SData`): `insert`-built enumerated sets, the lazy
  iterators as step functions, `LSet.has`, the `Store` for the copy/AddElement histories.
* spec column: an independent set-theoretic reference (`Spec`): a value is normalised by
  merge-sorting and deduplicating the element lists under the mathematical order (size, then
  lexicographic), the power set is the list of all sublists, the product the list of all tuples,
  and the operations are list comprehensions with `∈`; the histories are run on plain values.
-/
namespace Driver.C15
open CCVerif.SData Driver

/-! ### expressions -/

inductive Ex where
  | num (n : Int)
  | node (k : Char) (cs : List Ex)
deriving Inhabited

mutual
partial def parseEx : List Char → Option (Ex × List Char)
  | [] => none
  | c :: rest =>
    if c == 'T' || c == 'S' || c == 'P' || c == 'X' || c == 'G' then
      match rest with
      | '(' :: ')' :: r => some (.node c [], r)
      | '(' :: r => (parseArgs r []).map fun (as, r') => (.node c as, r')
      | _ => none
    else
      let digs := (c :: rest).takeWhile fun ch => ch == '-' || ch.isDigit
      if digs.isEmpty then none
      else (String.ofList digs).toInt?.map fun n => (.num n, (c :: rest).drop digs.length)
partial def parseArgs (cs : List Char) (acc : List Ex) : Option (List Ex × List Char) :=
  match parseEx cs with
  | some (e, ',' :: r) => parseArgs r (e :: acc)
  | some (e, ')' :: r) => some ((e :: acc).reverse, r)
  | _ => none
end

def parse (s : String) : Option Ex :=
  match parseEx s.toList with
  | some (e, []) => some e
  | _ => none

partial def showVal : Val → String
  | .e n => toString n
  | .t cs => "(" ++ ",".intercalate (cs.map showVal) ++ ")"
  | .s xs => "{" ++ ",".intercalate (xs.map showVal) ++ "}"

def showOpt : Option Val → String
  | some v => showVal v
  | none => "stuck"

def showCmp : Cmp → String
  | .lt => "lt" | .eq => "eq" | .gt => "gt" | .inc => "inc" | .stuck => "stuck"

/-! ### model evaluation (the transcription) -/

mutual
partial def evalL : Ex → Option LSet
  | .node 'S' cs => do
    let vs ← cs.mapM evalV
    pure (.enum (mkSet vs))
  | .node 'G' [x] => do
    let v ← evalV x
    pure (.enum (singleton v))
  | .node 'P' [b] => do
    let l ← evalL b
    pure (boolean l)
  | .node 'X' fs => do
    let ls ← fs.mapM evalL
    if ls.length < 2 then none else pure (decartian ls)
  | _ => none
partial def evalV : Ex → Option Val
  | .num n => some (.e n)
  | .node 'T' cs => do
    let vs ← cs.mapM evalV
    mkTuple vs
  | ex => do
    let l ← evalL ex
    l.materialise
end

def isSetEx : Ex → Bool
  | .node 'T' _ => false
  | .node _ _ => true
  | .num _ => false

/-! ### specification (independent reference) -/
namespace Spec

/-- the mathematical order: integers; tuples lexicographic; sets by size, then lexicographic over
the ascending element lists.  `none` = different shapes. -/
partial def ord (a b : Val) : Option Ordering :=
  let rec lex : List Val → List Val → Option Ordering
    | [], [] => some .eq
    | x :: xs, y :: ys =>
      match ord x y with
      | some .eq => lex xs ys
      | r => r
    | _, _ => none
  match a, b with
  | .e x, .e y => some (compare x y)
  | .t xs, .t ys => if xs.length == ys.length then lex xs ys else none
  | .s xs, .s ys =>
    match compare xs.length ys.length with
    | .eq => lex xs ys
    | r => some r
  | _, _ => none

def le (a b : Val) : Bool := ord a b != some .gt

def dedup : List Val → List Val
  | a :: b :: r => if a == b then dedup (b :: r) else a :: dedup (b :: r)
  | l => l

/-- a finite set as the ascending duplicate-free list of its (normalised) members. -/
def mkSet (xs : List Val) : Val := .s (dedup (xs.mergeSort le))

def sublists : List Val → List (List Val)
  | [] => [[]]
  | x :: xs => let r := sublists xs; r ++ r.map (x :: ·)

def tuples : List (List Val) → List (List Val)
  | [] => [[]]
  | f :: fs => f.flatMap fun x => (tuples fs).map (x :: ·)

def elems : Val → Option (List Val)
  | .s xs => some xs
  | _ => none

def tuple : List Val → Option Val
  | [] => none
  | [x] => some x
  | cs => some (.t cs)

partial def eval : Ex → Option Val
  | .num n => some (.e n)
  | .node 'T' cs => do tuple (← cs.mapM eval)
  | .node 'S' cs => do pure (mkSet (← cs.mapM eval))
  | .node 'G' [x] => do pure (.s [← eval x])
  | .node 'P' [b] => do
    let xs ← elems (← eval b)
    pure (mkSet ((sublists xs).map .s))
  | .node 'X' fs => do
    if fs.length < 2 then none
    let fss ← (← fs.mapM eval).mapM elems
    pure (mkSet ((tuples fss).map .t))
  | _ => none

def mem (x : Val) (a : List Val) : Bool := a.contains x

end Spec

/-- the shape of a set expression for `LSet.specCard`: enumerations carry the members of the
*specification* value (`Spec.eval`: merge-sorted, deduplicated), lazy sets stay symbolic; the model's
`evalL` / `decartian` / `insert` are not involved. -/
partial def specShape : Ex → Option LSet
  | .node 'P' [b] => do pure (.pow (← specShape b))
  | .node 'X' fs => do
    if fs.length < 2 then none
    pure (.prod (← fs.mapM specShape))
  | e => do
    if !isSetEx e then none
    let xs ← Spec.elems (← Spec.eval e)
    pure (.enum xs)

/-! ### stateless ops -/

def showCmpSpec (a b : Val) : String :=
  match Spec.ord a b with
  | some .lt => "lt 0 1"
  | some .eq => if a == b then "eq 1 0" else "spec-error"
  | some .gt => "gt 0 0"
  | none => "n/a"

def modelCmp (ea eb : Ex) : Cmp :=
  if isSetEx ea && isSetEx eb then
    match evalL ea, evalL eb with
    | some la, some lb => la.compare lb
    | _, _ => .stuck
  else
    match evalV ea, evalV eb with
    | some a, some b => cmp a b
    | _, _ => .stuck

def cmpLine (c : Cmp) : String :=
  s!"{showCmp c} {bit (c == .eq)} {bit (c == .lt)}"

/-- the order laws evaluated on three values with a comparison function. -/
def lawBits (c : Val → Val → Cmp) (x y z : Val) : String :=
  let all := [x, y, z]
  let refl := all.all fun a => c a a == .eq
  let anti := all.all fun a => all.all fun b =>
    ((c a b == .lt) == (c b a == .gt)) && ((c a b == .eq) == (c b a == .eq))
  let total := all.all fun a => all.all fun b => c a b == .lt || c a b == .eq || c a b == .gt
  let leq := fun a b => c a b == .lt || c a b == .eq
  let trans := all.all fun a => all.all fun b => all.all fun d =>
    !(leq a b && leq b d) ||
      (if c a b == .eq && c b d == .eq then c a d == .eq
       else if c a b == .lt || c b d == .lt then c a d == .lt else true)
  joinWith " " [bit refl, bit anti, bit trans, bit total]

def showList (xs : List Val) : String :=
  if xs.isEmpty then "-" else ";".intercalate (xs.map showVal)

def binModel (a b : View) : String :=
  joinWith " " [showVal (.s (union a b)), showVal (.s (intersect a b)),
    showVal (.s (diff a b)), showVal (.s (symDiff a b))]

def binSpec (a b : List Val) : String :=
  let inA := fun x => Spec.mem x a
  let inB := fun x => Spec.mem x b
  joinWith " " [showVal (Spec.mkSet (a ++ b)), showVal (Spec.mkSet (a.filter inB)),
    showVal (Spec.mkSet (a.filter fun x => !inB x)),
    showVal (Spec.mkSet ((a.filter fun x => !inB x) ++ (b.filter fun x => !inA x)))]

def parseIdx (s : String) : List Nat := (s.splitOn ",").map parseNat

def specComponent (v : Val) (i : Nat) : Option Val :=
  match v with
  | .t cs => if 1 ≤ i ∧ i ≤ cs.length then cs[i - 1]? else none
  | _ => none

def specProj (idx : List Nat) (a : List Val) : Option Val := do
  let ts ← a.mapM fun x => do Spec.tuple (← idx.mapM (specComponent x))
  pure (Spec.mkSet ts)

def specReduce (a : List Val) : Option Val := do
  let yss ← a.mapM Spec.elems
  pure (Spec.mkSet yss.flatten)

def orNA (o : Option String) : String := o.getD "n/a"
def orStuck (o : Option String) : String := o.getD "stuck"

def handle (args : List String) : String :=
  match args with
  | ["str", a] =>
    let m := orStuck do let e ← parse a; let v ← evalV e; pure (showVal v)
    let s := orNA do let e ← parse a; let v ← Spec.eval e; pure (showVal v)
    s!"{m}\t{s}"
  | ["cmp", a, b] =>
    match parse a, parse b with
    | some ea, some eb =>
      let m := cmpLine (modelCmp ea eb)
      let s := orNA do let x ← Spec.eval ea; let y ← Spec.eval eb; pure (showCmpSpec x y)
      s!"{m}\t{s}"
    | _, _ => "bad-expr\tn/a"
  | ["laws", a, b, c] =>
    match parse a, parse b, parse c with
    | some ea, some eb, some ec =>
      let m := orStuck do
        let x ← evalV ea; let y ← evalV eb; let z ← evalV ec
        pure (lawBits cmp x y z)
      let s := orNA do
        let x ← Spec.eval ea; let y ← Spec.eval eb; let z ← Spec.eval ec
        if (Spec.ord x y).isNone || (Spec.ord y z).isNone || (Spec.ord x z).isNone then none
        pure "1 1 1 1"
      s!"{m}\t{s}"
    | _, _, _ => "bad-expr\tn/a"
  | ["iter", a] =>
    let m := orStuck do
      let e ← parse a; let l ← evalL e; let xs ← l.iter; let c ← l.card
      pure s!"{c} {showList xs}"
    let s := orNA do
      let e ← parse a; let xs ← Spec.elems (← Spec.eval e)
      pure s!"{xs.length} {showList xs}"
    s!"{m}\t{s}"
  | ["card", a] =>
    -- `Cardinality()` and `IsEmpty()` of a (lazy) set, never iterated. Model: the transcription of UpdateSize with
    -- its saturation. Specification: emptiness is structural (a power set is never empty, a product is empty iff a
    -- factor is, an enumeration iff it has no member); the number is the set-theoretic cardinality (`LSet.specCard`
    -- over the shape built by `specShape`: distinct members of an enumeration, 2^n, product of the factor sizes)
    -- wherever `C15.card_exact` applies, `x` (unspecified) outside that range.
    let m := orStuck do
      let l ← evalL (← parse a); let c ← l.card
      pure s!"{c} {bit (c == 0)}"
    let rec emptySpec : Ex → Option Bool
      | .node 'S' cs => some cs.isEmpty
      | .node 'G' _ => some false
      | .node 'P' _ => some false
      | .node 'X' fs => (fs.mapM emptySpec).map (·.any id)
      | _ => none
    let s := orNA do
      let e ← parse a; let em ← emptySpec e
      -- an empty set has 0 members (`C15.card_zero_iff_empty`, `C15.factory_decartian_spec`)
      let exact : Option Nat := if em then some 0 else (specShape e).bind LSet.specCard
      pure s!"{(exact.map toString).getD "x"} {bit em}"
    s!"{m}\t{s}"
  | ["has", a, x] =>
    let m :=
      orStuck do
        let e ← parse a; let l ← evalL e; let ex ← parse x
        match ex with
        | .node 'P' _ | .node 'X' _ =>
          let r ← l.hasL (← evalL ex)
          pure (bit r)
        | _ =>
          let v ← evalV ex
          if l.hasDefined v then pure (bit (l.has v)) else none
    let s := orNA do
      let xs ← Spec.elems (← Spec.eval (← parse a)); let v ← Spec.eval (← parse x)
      pure (bit (Spec.mem v xs))
    s!"{m}\t{s}"
  | ["sub", a, b] =>
    let m :=
      orStuck do
        let va ← (← evalL (← parse a)).view; let vb ← (← evalL (← parse b)).view
        pure (bit (isSubsetOrEq va vb))
    let s := orNA do
      let xs ← Spec.elems (← Spec.eval (← parse a)); let ys ← Spec.elems (← Spec.eval (← parse b))
      pure (bit (xs.all fun x => Spec.mem x ys))
    s!"{m}\t{s}"
  | ["bin", a, b] =>
    let m :=
      orStuck do
        let va ← (← evalL (← parse a)).view; let vb ← (← evalL (← parse b)).view
        pure (binModel va vb)
    let s := orNA do
      let xs ← Spec.elems (← Spec.eval (← parse a)); let ys ← Spec.elems (← Spec.eval (← parse b))
      pure (binSpec xs ys)
    s!"{m}\t{s}"
  | ["proj", a, idx] =>
    let idx := parseIdx idx
    let m := orStuck do
      let xs ← (← evalL (← parse a)).iter
      pure (showVal (.s (← projection idx xs)))
    let s := orNA do
      let xs ← Spec.elems (← Spec.eval (← parse a))
      pure (showVal (← specProj idx xs))
    s!"{m}\t{s}"
  | ["red", a] =>
    let m := orStuck do
      let xs ← (← evalL (← parse a)).iter
      pure (showVal (.s (← reduce xs)))
    let s := orNA do
      let xs ← Spec.elems (← Spec.eval (← parse a))
      pure (showVal (← specReduce xs))
    s!"{m}\t{s}"
  | ["nest", a] =>
    let m := orStuck do
      let xs ← (← evalL (← parse a)).iter
      pure s!"{(xs.filter fun x => xs.any fun y => cmp x y == .eq).length} {xs.length * xs.length}"
    let s := orNA do
      let xs ← Spec.elems (← Spec.eval (← parse a))
      pure s!"{xs.length} {xs.length * xs.length}"
    s!"{m}\t{s}"
  | ["debool", a] =>
    let m := orStuck do
      let l ← evalL (← parse a); let xs ← l.iter; let c ← l.card
      if c = 1 then pure (showVal (← debool xs)) else none
    let s := orNA do
      let xs ← Spec.elems (← Spec.eval (← parse a))
      match xs with
      | [x] => pure (showVal x)
      | _ => none
    s!"{m}\t{s}"
  | _ => "bad-op\tn/a"

/-! ### histories on shared handles -/

structure State where
  store : Store := {}
  pure : List Val := []      -- the specification: every handle is an independent plain value
  ok : Bool := true
deriving Inhabited

def showHandles (vs : List (Option Val)) : String :=
  if vs.isEmpty then "-" else joinWith " " (vs.map showOpt)

def stateLine (st : State) (r : String) : String :=
  let m := if st.ok then s!"{r} {showHandles st.store.denoteAll}" else "stuck"
  m

def specAdd (v x : Val) : Option (Val × Bool) :=
  match v with
  | .s xs => some (Spec.mkSet (xs ++ [x]), !Spec.mem x xs)
  | _ => none

/-- one history op: new model state, result token of the model, spec state and spec token. -/
def stepState (st : State) (args : List String) : State × String :=
  let fail : State × String := ({ st with ok := false }, "stuck\tn/a")
  let out (st' : State) (rm rs : String) : State × String :=
    (st', s!"{rm} {showHandles st'.store.denoteAll}\t{rs} {showHandles (st'.pure.map some)}")
  match args with
  | ["reset"] => ({}, "ok\tok")
  | ["new", a] =>
    match (parse a).bind evalV, (parse a).bind Spec.eval with
    | some v, some sv => out { st with store := st.store.new v, pure := st.pure ++ [sv] } "-" "-"
    | _, _ => fail
  | ["copy", j] =>
    let j := parseNat j
    match st.store.copy j, st.pure[j]? with
    | some s', some sv => out { st with store := s', pure := st.pure ++ [sv] } "-" "-"
    | _, _ => fail
  | ["assign", k, j] =>
    let k := parseNat k; let j := parseNat j
    match st.store.assign k j, st.pure[j]? with
    | some s', some sv => out { st with store := s', pure := st.pure.set k sv } "-" "-"
    | _, _ => fail
  | ["add", k, a] =>
    let k := parseNat k
    match (parse a).bind evalV, (parse a).bind Spec.eval with
    | some v, some sv =>
      match st.store.addElement k v, (st.pure[k]?).bind (specAdd · sv) with
      | some (s', r), some (pv, pr) => out { st with store := s', pure := st.pure.set k pv } (bit r) (bit pr)
      | _, _ => fail
    | _, _ => fail
  | ["addh", k, j] =>
    let k := parseNat k; let j := parseNat j
    match st.store.addHandle k j, st.pure[j]? with
    | some (s', r), some sv =>
      match (st.pure[k]?).bind (specAdd · sv) with
      | some (pv, pr) => out { st with store := s', pure := st.pure.set k pv } (bit r) (bit pr)
      | none => fail
    | _, _ => fail
  | ["elem", j, i] =>
    let j := parseNat j; let i := parseNat i
    match (st.store.denote j), st.pure[j]? with
    | some (.s xs), some (.s ys) =>
      match xs[i]?, ys[i]? with
      | some v, some sv => out { st with store := st.store.newShared v, pure := st.pure ++ [sv] } "-" "-"
      | _, _ => fail
    | _, _ => fail
  | ["hdebool", j] =>
    let j := parseNat j
    match (st.store.denote j), st.pure[j]? with
    | some (.s xs), some (.s [sv]) =>
      match debool xs with
      | some v => out { st with store := st.store.newShared v, pure := st.pure ++ [sv] } "-" "-"
      | none => fail
    | _, _ => fail
  | _ => (st, "bad-op\tn/a")

def isStateOp (op : String) : Bool :=
  op == "reset" || op == "new" || op == "copy" || op == "assign" || op == "add" || op == "addh" ||
  op == "elem" || op == "hdebool"

/-- entry point: history ops thread the state, the others are stateless. -/
def step (st : State) (args : List String) : State × String :=
  match args with
  | op :: rest =>
    if isStateOp op then stepState st args else (st, handle (op :: rest))
  | [] => (st, "bad-op\tn/a")

end Driver.C15
