import CCVerif.Model.RSModel
import Driver.C07
/-! Driver ops for C11: value bookkeeping model (as in /repo now) next to a full recalculation
from the current content (the specification). -/
namespace Driver.C11
open CCVerif.RSModel CCVerif.Schema Driver

structure State where
  st : CCVerif.RSModel.St := {}

def showData : Option (List Int) → String
  | none => "-"
  | some [] => "e"
  | some l => joinWith "." (l.map toString)

def parseKeys (s : String) : List Int := if s == "-" then [] else (s.splitOn ",").map parseInt

def showReport (st : CCVerif.RSModel.St) : String :=
  let items := st.report.map fun (u, c, d) => s!"{u}:{bit c}:{showData d}"
  if items.isEmpty then "-" else joinWith " " items

/-- per constituent: the recomputed value where the model reports a calculated value, else `x` -/
def showSpec (st : CCVerif.RSModel.St) : String :=
  let re := st.recomputed
  let items := st.sch.store.map fun c =>
    if c.kind == .term && st.calcd.contains c.uid && (st.dataFor c.uid).isSome then
      s!"{c.uid}:1:{showData (re.dataFor c.uid)}"
    else "x"
  if items.isEmpty then "-" else joinWith " " items

def step (s : State) (args : List String) : State × String :=
  let go (op : CCVerif.RSModel.Op) : State × String := ({ st := CCVerif.RSModel.step false s.st op }, "ok\tok")
  match args with
  | ["reset"] => ({}, "ok\tok")
  | ["insert", u, a, k, d] => go (.schema (.insert { uid := parseNat u, alias := a, kind := C07.kindOf k, defn := C07.parseDef d }))
  | ["erase", u] => go (.schema (.erase (parseNat u)))
  | ["setdef", u, d] => go (.schema (.setDef (parseNat u) (C07.parseDef d)))
  | ["setalias", u, a, sb] => go (.schema (.setAlias (parseNat u) a (sb == "1")))
  | ["subst", m] => go (.schema (.substitute (C07.parseMap m)))
  | ["noop"] => (s, "ok\tok")
  | ["addelem", u] => go (.addElem (parseNat u))
  | ["settext", u, ks] => go (.setText (parseNat u) (parseKeys ks))
  | ["resetdata", u] => go (.resetData (parseNat u))
  | ["calc", u] => go (.calculate (parseNat u))
  | ["recalc"] => go .recalculateAll
  | ["report"] => (s, s!"{showReport s.st}\t{showSpec s.st}")
  | "freshimpl" :: _ => (s, "skip\t1")
  | "structvalid" :: _ => (s, "skip\t1")
  | _ => (s, "bad-op\tn/a")

end Driver.C11
