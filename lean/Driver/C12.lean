import CCVerif.Model.Translation
import CCVerif.Model.Dedup
import CCVerif.Model.Merge
import CCVerif.Model.Equate
import CCVerif.Model.Synth
import Driver.Util
/-! Driver ops for C12: the translation algebra (model = transcription on association lists in
the iteration order the implementation used; spec = per-key characterisation on finite maps). -/
namespace Driver.C12
open CCVerif.Translation Driver

def parseTr (s : String) : Tr :=
  if s == "-" then [] else
  (s.splitOn ",").filterMap fun p => match p.splitOn ">" with | [a, b] => some (parseNat a, parseNat b) | _ => none

def sortTr (t : Tr) : Tr := (t.toArray.qsort (fun a b => a.1 < b.1 || (a.1 == b.1 && a.2 < b.2))).toList
def showTr (t : Tr) : String :=
  if t.isEmpty then "-" else joinWith "," ((sortTr t).map fun p => s!"{p.1}>{p.2}")

/-- specification of `SubstituteValues` / `SuperposeWith` as functions on finite maps -/
def specSubst (t s : Tr) : Tr := (keys t).filterMap fun k => (lookup t k).map fun v => (k, (lookup s v).getD v)
def specSuperpose (t s : Tr) : Tr :=
  specSubst t s ++ ((keys s).filter (fun k => !(keys t).contains k)).filterMap fun k => (lookup s k).map (k, ·)

/-! ### `c12 dups <dump>`: `RSForm::DeleteDuplicatesInternal` (model `CCVerif.Dedup.dedup`)

The dump is `uid;alias;kind;definition;convention;term;textdef#…` in `List()` order, blanks
replaced by `_`; the observed value is the returned translation followed by the same dump of the
schema afterwards (both compared with the model). Tokenisation (the part of `TranslateAll` that is C08/C17's subject and an input of
the C12 model): in the definition and the convention every maximal `[XCSADFTP][0-9]+` is a mention
(what `TranslateRS` with `FilterGlobals` re-spells on the generated definitions); in the two texts
only the entity name right after `@{` is one (`ManagedText::TranslateRaw`). -/

def isGlobalLetter (c : Char) : Bool := "XCSADFTP".toList.contains c

structure TokSt where
  out : List CCVerif.Dedup.Tok := []     -- reversed
  sym : List Char := []                  -- reversed run of opaque characters
  cur : List Char := []                  -- reversed candidate: a global letter and the digits after it
  p1 : Char := ' '                       -- the two characters before the current one
  p2 : Char := ' '

def TokSt.closeCur (st : TokSt) : TokSt :=
  if st.cur.length ≥ 2 then
    let out := if st.sym.isEmpty then st.out else .sym (String.ofList st.sym.reverse) :: st.out
    { st with out := .mention (String.ofList st.cur.reverse) :: out, sym := [], cur := [] }
  else { st with sym := st.cur ++ st.sym, cur := [] }

/-- `refsOnly`: a mention must follow `@{` -/
def TokSt.step (refsOnly : Bool) (st : TokSt) (c : Char) : TokSt :=
  let st := if !st.cur.isEmpty && c.isDigit then { st with cur := c :: st.cur }
    else
      let st := st.closeCur
      if isGlobalLetter c && (!refsOnly || (st.p1 == '@' && st.p2 == '{')) then { st with cur := [c] }
      else { st with sym := c :: st.sym }
  { st with p1 := st.p2, p2 := c }

def tokenize (refsOnly : Bool) (cs : List Char) : List CCVerif.Dedup.Tok :=
  let st := (cs.foldl (TokSt.step refsOnly) {}).closeCur
  (if st.sym.isEmpty then st.out else .sym (String.ofList st.sym.reverse) :: st.out).reverse

def parseCst (s : String) : Option CCVerif.Dedup.Cst :=
  match s.splitOn ";" with
  | [uid, alias, kind, d, conv, term, tdef] =>
    some { uid := parseNat uid, alias := alias, kind := parseNat kind,
           definition := tokenize false d.toList,
           rest := [tokenize false conv.toList, tokenize true term.toList, tokenize true tdef.toList] }
  | _ => none

def parseDump (s : String) : Option CCVerif.Dedup.Schema :=
  ((s.splitOn "#").filter (· != "")).mapM parseCst

def showToks (ts : List CCVerif.Dedup.Tok) : String :=
  String.join (ts.map fun | .mention a => a | .sym t => t)

def showSchema (l : CCVerif.Dedup.Schema) : String :=
  String.join (l.map fun c =>
    s!"{c.uid};{c.alias};{c.kind};{showToks c.definition};" ++ joinWith ";" (c.rest.map showToks) ++ "#")

/-! ### `c12 mergeM <dump of the schema> <dump of the operand> <fresh uids>`: `MergeWith`
(model `CCVerif.Merge.mergeWith` with the real name rule). Observed: the returned translation and
the dump of the schema afterwards. The specification column keeps the identities the model gives
(uid, alias, position) and states the content: a constituent of the schema is untouched; the copy
of an operand constituent carries the operand's content with every mention of an operand alias
renamed ONCE to the alias of its image. -/

def parseNats (s : String) : List Nat := if s == "-" then [] else (s.splitOn ",").map parseNat

def specMerge (a b : CCVerif.Dedup.Schema) (r : CCVerif.Dedup.Schema) (tr : Tr) : CCVerif.Dedup.Schema :=
  let aliasIn (u : Nat) : Option String := (r.find? (·.uid == u)).map (·.alias)
  let m (x : String) : String :=
    match b.find? (·.alias == x) with
    | some c2 => ((lookup tr c2.uid).bind aliasIn).getD x
    | none => x
  r.map fun s =>
    match b.find? (fun c2 => lookup tr c2.uid == some s.uid) with
    | some c2 => if a.any (·.uid == s.uid) then s else { s with definition := c2.definition.map (CCVerif.Dedup.renTok m), rest := c2.rest.map (·.map (CCVerif.Dedup.renTok m)) }
    | none => s

/-! ### `c12 equateM <dump> <table> <verdict>`: `rsOperationFacet::Equate` (model
`CCVerif.Equate.equate`). The table is `key>value/mode/arg;…` in the iteration order of the
implementation's map; `verdict` (`acc` / `ref`) is the implementation's answer, used ONLY as the
semantic part of the admissibility check (reachability, typedness, equal typification — `semOk`);
the structural part is the model's own. Observed: `refused <dump>` or `<translation> <dump>`. -/

def parseTable (s : String) : List CCVerif.Equate.Entry :=
  if s == "-" then [] else
  (s.splitOn ";").filterMap fun e =>
    match e.splitOn "/" with
    | [kv, m, arg] =>
      match kv.splitOn ">" with
      | [k, v] => some { key := parseNat k, value := parseNat v, mode := parseNat m, arg := tokenize true arg.toList }
      | _ => none
    | _ => none

/-! ### `c12 synthM <dump of operand 1> <dump of operand 2> <table> <fresh uids> <verdict>`:
`BinarySynthes` (model `CCVerif.Synth.synth` with the real name rule). `verdict` is
`IsCorrectlyDefined()`, used only as the semantic part of the admissibility check. Observed:
`refused` or `<translation 1> <translation 2> <dump of the result>`. When two equations share
their value and one of them moves texts, the texts depend on the iteration order of a hash map
inside `BinarySynthes` that cannot be observed: `skip`. -/

def orderDependent (eqs : List CCVerif.Equate.Entry) : Bool :=
  eqs.any fun e => e.mode != 1 && eqs.any fun e' => e'.key != e.key && e'.value == e.value

def handle (args : List String) : String :=
  match args with
  | ["subst", a, b] =>
    let a := parseTr a; let b := parseTr b
    s!"{showTr (substituteValues a b)}\t{showTr (specSubst a b)}"
  | ["superpose", a, b] =>
    let a := parseTr a; let b := parseTr b
    s!"{showTr (superposeWith a b)}\t{showTr (specSuperpose a b)}"
  | ["swap", a, m, k] =>
    let e : Eqs := { tr := parseTr a, mode := parseTr m }
    let (e', ok) := e.swapKeyVal (parseNat k)
    s!"{bit ok} {showTr e'.tr} {showTr e'.mode}\tx"
  | "chk" :: _ => "skip\t1"
  | "synth" :: _ => "skip\tx"
  | "equate" :: _ => "skip\tx"
  | "merge" :: _ => "skip\tx"
  | ["synthM", da, db, table, fr, verdict] =>
    match parseDump da, parseDump db with
    | some a, some b =>
      let eqs := parseTable table
      if orderDependent eqs then "skip\tx" else
      match CCVerif.Synth.synth CCVerif.Merge.realNames (parseNats fr) (verdict == "acc") a b eqs with
      | .stuck => "stuck\tx"
      | .refused => "refused\tx"
      | .ok r t1 t2 => s!"{showTr t1} {showTr t2} {showSchema r}\tx"
    | _, _ => "bad-dump\tn/a"
  | ["equateM", dump, table, verdict] =>
    match parseDump dump with
    | none => "bad-dump\tn/a"
    | some l =>
      match CCVerif.Equate.equate (verdict == "acc") l (parseTable table) with
      | none => s!"refused {showSchema l}\tx"
      | some (r, tr) => s!"{showTr tr} {showSchema r}\tx"
  | [op, da, db, fr] =>
    if op != "mergeM" && op != "mergeM-selfcollide" then "bad-op\tn/a" else
    match parseDump da, parseDump db with
    | some a, some b =>
      match CCVerif.Merge.mergeWith CCVerif.Merge.realNames (parseNats fr) a b with
      | none => "stuck\tx"
      | some (r, tr) => s!"{showTr tr} {showSchema r}\t{showTr tr} {showSchema (specMerge a b r tr)}"
    | _, _ => "bad-dump\tn/a"
  | ["dups", dump] =>
    match parseDump dump with
    | none => "bad-dump\tn/a"
    | some l =>
      match CCVerif.Dedup.dedup l with
      | none => "out-of-fuel\tx"
      | some (r, tr) => s!"{showTr tr} {showSchema r}\tx"
  | _ => "bad-op\tn/a"

end Driver.C12
