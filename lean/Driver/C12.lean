import CCVerif.Model.Translation
import Driver.Util
/-! Driver ops for C12: the translation algebra (model = transcription on association lists in
the iteration order the implementation used; spec = per-key characterisation on finite maps). -/
namespace Driver.C12
open CCVerif.Translation Driver

def parseTr (s : String) : Tr :=
  if s == "-" then [] else
  (s.splitOn ",").filterMap fun p => match p.splitOn ">" with | [a, b] => some (parseNat a, parseNat b) | _ => none

def sortTr (t : Tr) : Tr := (t.toArray.qsort (fun a b => a.1 < b.1 || (a.1 == b.1 && a.2 < b.2))).toList
def showTr (t : Tr) : String :=
  if t.isEmpty then "-" else joinWith "," ((sortTr t).map fun p => s!"{p.1}>{p.2}")

/-- specification of `SubstituteValues` / `SuperposeWith` as functions on finite maps -/
def specSubst (t s : Tr) : Tr := (keys t).filterMap fun k => (lookup t k).map fun v => (k, (lookup s v).getD v)
def specSuperpose (t s : Tr) : Tr :=
  specSubst t s ++ ((keys s).filter (fun k => !(keys t).contains k)).filterMap fun k => (lookup s k).map (k, ·)

def handle (args : List String) : String :=
  match args with
  | ["subst", a, b] =>
    let a := parseTr a; let b := parseTr b
    s!"{showTr (substituteValues a b)}\t{showTr (specSubst a b)}"
  | ["superpose", a, b] =>
    let a := parseTr a; let b := parseTr b
    s!"{showTr (superposeWith a b)}\t{showTr (specSuperpose a b)}"
  | ["swap", a, m, k] =>
    let e : Eqs := { tr := parseTr a, mode := parseTr m }
    let (e', ok) := e.swapKeyVal (parseNat k)
    s!"{bit ok} {showTr e'.tr} {showTr e'.mode}\tx"
  | "chk" :: _ => "skip\t1"
  | "synth" :: _ => "skip\tx"
  | "equate" :: _ => "skip\tx"
  | "merge" :: _ => "skip\tx"
  | "dups" :: _ => "skip\tx"
  | _ => "bad-op\tn/a"

end Driver.C12
