import CCVerif.Model.Checker
import CCVerif.Spec.Infer
import Driver.AstWire
import Driver.Util
/-! Driver ops for C03 (type checker). Stateful: the state is the type context.

* `c03 reset` — new empty context
* `c03 traits <base id> <4 bits: iterable ordered operable convertsFromInt>`
* `c03 ctx <name> <type wire | LOGIC> [<argname>:<type wire> …]` — declare a global
  (type wire: base id, `B[t]`, `T[t1,t2,…]`)
* `c03 vc <name> value|props` — value class of a global
* `c03 ast <name> <ast wire>` — tree of a function's definition (for the value audit)
* `c03 check <ast wire>` → `verdict type e=<errs> a=<args> v=<vclass> ve=<value errs>`;
  spec column: the independent reference `Spec.infer` (`ok <type> x <args> x x` / `fail x x x x x`)
* `c03 chkerrs <lo> <hi> <errs>` → `skip` / spec `1` iff ≥ 1 critical error lies in `[lo, hi]`
-/
namespace Driver.C03
open CCVerif.Syntax CCVerif.Types CCVerif.Checker Driver

/-- type wire parser: returns the type and the rest -/
partial def parseTy (cs : List Char) : Option (Ty × List Char) :=
  match cs with
  | 'B' :: '[' :: rest =>
    match parseTy rest with
    | some (t, ']' :: r) => some (.coll t, r)
    | _ => none
  | 'T' :: '[' :: rest =>
    let rec go (cs : List Char) (acc : List Ty) : Option (List Ty × List Char) :=
      match cs with
      | ']' :: r => some (acc.reverse, r)
      | ',' :: r => go r acc
      | _ => match parseTy cs with
        | some (t, r) => go r (t :: acc)
        | none => none
    match go rest [] with
    | some (ts, r) => some (.tuple ts, r)
    | none => none
  | _ =>
    let (hd, rest) := cs.span (fun c => c != ',' && c != ']' && c != '[')
    if hd.isEmpty then none else some (.base (String.ofList hd), rest)

def parseTyStr (s : String) : Option Ty :=
  match parseTy s.toList with
  | some (t, []) => some t
  | _ => none

def parseExprTy (s : String) : Option ExprTy :=
  if s == "LOGIC" then some .logic else (parseTyStr s).map .ty

def setKey {α : Type} (l : List (String × α)) (k : String) (v : α) : List (String × α) :=
  (l.filter (·.1 != k)) ++ [(k, v)]

def parseArg (s : String) : Option (String × Ty) :=
  match s.splitOn ":" with
  | [n, t] => (parseTyStr t).map (n, ·)
  | _ => none

def sortErrs (l : List Err) : List Err :=
  (l.toArray.qsort (fun a b => a.1 < b.1 || (a.1 == b.1 && a.2 < b.2))).toList

def hex4 (n : Nat) : String := String.ofList (Nat.toDigits 16 n)

def showErrs (l : List Err) : String :=
  if l.isEmpty then "-" else joinWith "," ((sortErrs l).map fun e => s!"{hex4 e.1}@{e.2}")

def showArgs (l : List (String × Ty)) : String :=
  if l.isEmpty then "-" else joinWith ";" (l.map fun a => s!"{a.1}:{a.2.toStr}")

def showVC : VClass → String
  | .value => "value" | .props => "props" | .invalid => "invalid"

def parseErrs (s : String) : List Err :=
  if s == "-" then [] else (s.splitOn ",").filterMap fun e =>
    match e.splitOn "@" with
    | [a, b] => some ((a.toList.foldl (fun acc c => acc * 16 + hexVal c) 0), parseInt b)
    | _ => none

def modelLine (Γ : Ctx) (e : Ast) : String :=
  let r := check Γ e
  match r.out with
  | .ok t =>
    let vr := vcheck Γ (Ast.depth e + 40) e
    let v := match vr.stuck, vr.out with
      | some x, _ => s!"stuck:{x}"
      | none, some c => showVC c
      | none, none => "fail"
    s!"ok {t.toStr} e={showErrs r.errs} a={showArgs r.args} v={v} ve={showErrs vr.errs}"
  | .fail => s!"fail - e={showErrs r.errs} a=- v=- ve=-"
  | .stuck x => s!"stuck:{x} - e={showErrs r.errs} a=- v=- ve=-"

/-- value-class part of the specification column. `vclass_sound`, `vclass_complete`, `vclass_deterministic`
(Properties/C03.lean) prove that the audit model returns `some c` exactly when the declarative relation
`Spec.HasVClassTop` derives `c` (and that it logs nothing then); `vclass_reject_logs` says what a rejection logs.
So where the model is not stuck its answer IS the specified class; positions of the rejection are specified too. -/
def specVC (Γ : Ctx) (e : Ast) : String :=
  let vr := vcheck Γ (Ast.depth e + 40) e
  match vr.stuck, vr.out with
  | some _, _ => "x x"
  | none, some c => s!"v={showVC c} ve=-"
  | none, none => s!"v=fail ve={showErrs vr.errs}"

def specLine (Γ : Ctx) (e : Ast) : String :=
  match CCVerif.Spec.inferTop Γ e with
  | .ok t args => s!"ok {t.toStr} x a={showArgs args} {specVC Γ e}"
  | .ill => "fail x x x x x"
  | .unknown => "x x x x x x"

def step (Γ : Ctx) (args : List String) : Ctx × String :=
  match args with
  | ["reset"] => ({}, "ok\tok")
  | ["traits", id, bits] =>
    match bits.toList with
    | [a, b, c, d] =>
      let t : Traits := ⟨a == '1', b == '1', c == '1', d == '1'⟩
      ({ Γ with traits := setKey Γ.traits id t }, "ok\tok")
    | _ => (Γ, "bad-op\tn/a")
  | "ctx" :: name :: ty :: fargs =>
    match parseExprTy ty with
    | none => (Γ, "bad-type\tn/a")
    | some t =>
      let fa := fargs.filterMap parseArg
      if fa.length != fargs.length then (Γ, "bad-arg\tn/a") else
      let Γ1 := { Γ with types := setKey Γ.types name t }
      let Γ2 := if fargs.isEmpty then { Γ1 with funcs := Γ1.funcs.filter (·.1 != name) }
                else { Γ1 with funcs := setKey Γ1.funcs name fa }
      (Γ2, "ok\tok")
  | ["vc", name, c] =>
    let vc := if c == "value" then VClass.value else if c == "props" then VClass.props else VClass.invalid
    ({ Γ with vclass := setKey Γ.vclass name vc }, "ok\tok")
  | ["ast", name, wire] =>
    match parseAst wire with
    | some a => ({ Γ with asts := setKey Γ.asts name a }, "ok\tok")
    | none => (Γ, "bad-ast\tn/a")
  | ["check", wire] =>
    match parseAst wire with
    | some e => (Γ, s!"{modelLine Γ e}\t{specLine Γ e}")
    | none => (Γ, "bad-ast\tn/a")
  | ["check-recbound", a] =>
    -- recorded finding C03-recursion-deduction-bound: a recursion whose join chain needs more than typeDeductionDepth
    -- rounds is typable by the rules (recursion_needs_bound_counterexample) - the specification demands acceptance
    -- whenever the reference inference gives up at the bound; otherwise as `check`
    match parseAst a with
    | some e =>
      let spec := match CCVerif.Spec.inferTop Γ e with
        | .unknown => "ok x x x x x"
        | _ => specLine Γ e
      (Γ, s!"{modelLine Γ e}\t{spec}")
    | none => (Γ, "bad-ast\tn/a")
  | ["chkerrs", lo, hi, errs] =>
    let lo := parseInt lo; let hi := parseInt hi
    let ok := (parseErrs errs).any fun e => isCritical e.1 && lo ≤ e.2 && e.2 ≤ hi
    (Γ, s!"skip\t{bit ok}")
  | _ => (Γ, "bad-op\tn/a")

end Driver.C03
