import CCVerif.Model.Json
import Driver.Util
/-! Driver ops for C10: leaf codecs next to the property (decoded value = original). -/
namespace Driver.C10
open CCVerif.Json CCVerif.Translation Driver

def parseText (s : String) : TextInterp :=
  if s == "-" then [] else
  (s.splitOn ",").filterMap fun p => match p.splitOn ":" with | [k, v] => some (parseInt k, v) | _ => none
def showText (t : TextInterp) : String :=
  if t.isEmpty then "-" else joinWith "," (t.map fun p => s!"{p.1}:{p.2}")

def parseTr (s : String) : Tr :=
  if s == "-" then [] else
  (s.splitOn ",").filterMap fun p => match p.splitOn ">" with | [a, b] => some (parseNat a, parseNat b) | _ => none

def handle (args : List String) : String :=
  match args with
  | ["flags", a, t, d, c] =>
    let f : TrackingFlags := { allowEdit := a == "1", term := t == "1", definition := d == "1", convention := c == "1" }
    let rt := bit (TrackingFlags.fromJson f.toJson == some f)
    s!"{f.toJson.dump} {rt}\tx 1"
  | ["text", _, ks] =>
    let t := parseText ks
    let back := match TextInterp.fromJson t.toJson with | some u => showText u | none => "none"
    -- the property: what comes back is what was saved
    s!"{t.toJson.dump} {back}\tx {showText t}"
  | ["tr", ks] =>
    let t := parseTr ks
    let rt := bit (trFromJson (trToJson t) == some t)
    s!"{(trToJson t).dump} {rt}\tx 1"
  -- end-to-end oracles evaluated by the harness on the implementation: the property demands 1
  | "formrt" :: _ => "skip\t1"
  | "formanalysis" :: _ => "skip\t1"
  | "formstable" :: _ => "skip\t1"
  | "formapi" :: _ => "skip\t1"
  | "modelrt" :: _ => "skip\t1"
  | "modelanalysis" :: _ => "skip\t1"
  | "modelstable" :: _ => "skip\t1"
  | _ => "bad-op\tn/a"

end Driver.C10
