import CCVerif.Model.Json
import CCVerif.Model.JsonDoc
import CCVerif.Model.JsonOss
import Driver.Util
import Driver.C16
/-! Driver ops for C10: leaf codecs next to the property (decoded value = original), and the
document level (`Model/JsonDoc.lean`):
* `docsave form <hdr> <items>` / `docsave model <hdr> <items> <data>`: the abstract content of the
  real object (wire form, see harness/c10_main.cpp) → rendering of `toJson content`; the harness
  prints the rendering of the REAL document tree;
* `docload form <tree>` / `docload model <analysis> <tree>`: a (possibly mutated) document tree →
  observable content of `fromJson tree` (`none` = the loader throws); the harness prints the
  observable content of the really loaded object. The recomputed typifications / statuses the
  data part depends on are an input (`analysis`, read from the loaded object). -/
namespace Driver.C10
open CCVerif.Json CCVerif.Translation Driver

def parseText (s : String) : TextInterp :=
  if s == "-" then [] else
  (s.splitOn ",").filterMap fun p => match p.splitOn ":" with | [k, v] => some (parseInt k, v) | _ => none
def showText (t : TextInterp) : String :=
  if t.isEmpty then "-" else joinWith "," (t.map fun p => s!"{p.1}:{p.2}")

def parseTr (s : String) : Tr :=
  if s == "-" then [] else
  (s.splitOn ",").filterMap fun p => match p.splitOn ">" with | [a, b] => some (parseNat a, parseNat b) | _ => none

/-! ### document level -/
section Doc
open CCVerif.JsonDoc CCVerif.Core CCVerif.SDC

def hexToString (h : String) : String :=
  match String.fromUTF8? (ByteArray.mk ((parseHex h).map UInt8.ofNat).toArray) with
  | some s => s
  | none => "\uFFFD"
def stringToHex (s : String) : String := toHex (s.toUTF8.toList.map (·.toNat))

partial def render : Json → String
  | .null => "n"
  | .bool b => if b then "t" else "f"
  | .num n => "i" ++ toString n
  | .str s => "s" ++ stringToHex s
  | .arr xs => "[" ++ joinWith "," (xs.map render) ++ "]"
  | .obj kvs => "{" ++ joinWith "," (kvs.map fun (k, v) => stringToHex k ++ ":" ++ render v) ++ "}"

def isHexish (c : Char) : Bool := c.isDigit || ('a' ≤ c && c ≤ 'f') || c == '-'

mutual
partial def parseTree : List Char → Option (Json × List Char)
  | 'n' :: rest => some (.null, rest)
  | 't' :: rest => some (.bool true, rest)
  | 'f' :: rest => some (.bool false, rest)
  | 'i' :: rest =>
    match C16.parseIntPrefix rest with
    | some (n, rest') => some (.num n, rest')
    | none => none
  | 's' :: rest => some (.str (hexToString (String.ofList (rest.takeWhile isHexish))), rest.dropWhile isHexish)
  | '[' :: ']' :: rest => some (.arr [], rest)
  | '[' :: rest =>
    match parseElems rest with
    | some (xs, rest') => some (.arr xs, rest')
    | none => none
  | '{' :: '}' :: rest => some (.obj [], rest)
  | '{' :: rest =>
    match parseFields rest with
    | some (kvs, rest') => some (.obj kvs, rest')
    | none => none
  | _ => none
partial def parseElems (cs : List Char) : Option (List Json × List Char) :=
  match parseTree cs with
  | some (v, ',' :: rest) =>
    match parseElems rest with
    | some (vs, rest') => some (v :: vs, rest')
    | none => none
  | some (v, ']' :: rest) => some ([v], rest)
  | _ => none
partial def parseFields (cs : List Char) : Option (List (String × Json) × List Char) :=
  let k := hexToString (String.ofList (cs.takeWhile isHexish))
  match cs.dropWhile isHexish with
  | ':' :: rest =>
    match parseTree rest with
    | some (v, ',' :: rest') =>
      match parseFields rest' with
      | some (kvs, rest'') => some ((k, v) :: kvs, rest'')
      | none => none
    | some (v, '}' :: rest') => some ([(k, v)], rest')
    | _ => none
  | _ => none
end

def readTree (s : String) : Option Json :=
  match parseTree s.toList with
  | some (j, []) => some j
  | _ => none

def kindOfCode (n : Nat) : CstType := (CstType.all.find? (·.code == n)).getD .base

def readPairs (s : String) : List (String × String) :=
  if s == "#" then [] else
  (s.splitOn "+").filterMap fun p => match p.splitOn ":" with | [a, b] => some (hexToString a, hexToString b) | _ => none
def showPairs (ps : List (String × String)) : String :=
  if ps.isEmpty then "#" else joinWith "+" (ps.map fun (a, b) => stringToHex a ++ ":" ++ stringToHex b)

def readTrack (s : String) : Option TrackingFlags :=
  match s.toList with
  | [a, t, d, c] => some { allowEdit := a == '1', term := t == '1', definition := d == '1', convention := c == '1' }
  | _ => none
def showTrack : Option TrackingFlags → String
  | none => "-"
  | some f => bit f.allowEdit ++ bit f.term ++ bit f.definition ++ bit f.convention

def readRecord (s : String) : Option Record :=
  match s.splitOn "," with
  | [uid, kind, alias, conv, traw, tres, forms, formal, draw, dres, st, vc, typ, tree, args, track] =>
    some { uid := parseNat uid, type := kindOfCode (parseNat kind), alias := hexToString alias, convention := hexToString conv,
           term := { raw := hexToString traw, resolved := hexToString tres },
           forms := (readPairs forms).map fun (a, b) => ⟨a, b⟩,
           formal := hexToString formal,
           definition := { raw := hexToString draw, resolved := hexToString dres },
           parse := { status := (match st with | "1" => .verified | "2" => .incorrect | _ => .unknown),
                      valueClass := (match vc with | "1" => .value | "2" => .props | _ => .invalid),
                      typification := hexToString typ, syntaxTree := hexToString tree,
                      args := (readPairs args).map fun (a, b) => ⟨a, b⟩ },
           track := readTrack track }
  | _ => none
def readItems (s : String) : Option (List Record) :=
  if s == "#" then some [] else (s.splitOn ";").mapM readRecord

/-- observable fields only (the layout of the harness with `obsOnly`) -/
def showRecordObs (r : Record) : String :=
  joinWith "," [toString r.uid, toString r.type.code, stringToHex r.alias, stringToHex r.convention,
    stringToHex r.term.raw, "-", showPairs (r.forms.map fun f => (f.tags, f.text)), stringToHex r.formal,
    stringToHex r.definition.raw, "-", "0", "0", "-", "-", "#", showTrack r.track]
def showItemsObs (rs : List Record) : String := if rs.isEmpty then "#" else joinWith ";" (rs.map showRecordObs)

def readHdr (s : String) : String × String × String :=
  match s.splitOn "," with
  | [t, a, c] => (hexToString t, hexToString a, hexToString c)
  | _ => ("?", "?", "?")
def showHdr (t a c : String) : String := stringToHex t ++ "," ++ stringToHex a ++ "," ++ stringToHex c

def readTexts (s : String) : Option TextInterp :=
  if s == "-" then none else if s == "#" then some [] else
  some ((s.splitOn "+").filterMap fun p => match p.splitOn ":" with | [k, v] => some (parseInt k, hexToString v) | _ => none)
def showTexts : Option TextInterp → String
  | none => "-"
  | some [] => "#"
  | some t => joinWith "+" (t.map fun p => s!"{p.1}:{stringToHex p.2}")

def readEntry (s : String) : Option DataEntry :=
  match s.splitOn "|" with
  | [uid, wc, ty, val, texts, stmt] =>
    some { uid := parseNat uid, wasCalc := wc == "1",
           typif := if ty == "-" then none else C16.readTy ty,
           sdata := if val == "-" then none else C16.readVal val,
           texts := readTexts texts,
           stmt := if stmt == "-" then none else some (stmt == "1") }
  | _ => none
def readData (s : String) : Option (List DataEntry) :=
  if s == "#" then some [] else (s.splitOn ";").mapM readEntry

partial def showTy : Ty → String
  | .base id => id
  | .coll b => "B(" ++ showTy b ++ ")"
  | .tuple cs => "T(" ++ joinWith "," (cs.map showTy) ++ ")"

def showEntry (e : DataEntry) : String :=
  joinWith "|" [toString e.uid, bit e.wasCalc, (match e.typif with | some τ => showTy τ | none => "-"),
    (match e.sdata with | some v => C16.showVal v | none => "-"), showTexts e.texts,
    (match e.stmt with | some b => bit b | none => "-")]
def showData (es : List DataEntry) : String := if es.isEmpty then "#" else joinWith ";" (es.map showEntry)

/-- `uid|verified|type` rows -/
def readAnalysis (s : String) : List (Nat × Bool × Option Ty) :=
  if s == "#" then [] else
  (s.splitOn ";").filterMap fun row => match row.splitOn "|" with
    | [u, v, ty] => some (parseNat u, v == "1", if ty == "-" then none else C16.readTy ty)
    | _ => none

/-- loader inputs of the driver: no repeated uid / replaced alias occurs in the generated
documents (a repeated uid makes `registerID` reject the constant "fresh" uid 0 → `none`) -/
def envOf (an : List (Nat × Bool × Option Ty)) : Env :=
  { fresh := fun _ => 0
    rename := fun _ _ r => r
    analyse := fun _ u => { parse := { status := if (an.find? (·.1 == u)).any (·.2.1) then .verified else .unknown } }
    typif := fun _ u => (an.find? (·.1 == u)).bind (·.2.2) }

def handleDoc (args : List String) : String :=
  match args with
  | ["docsave", "form", hdr, items] =>
    match readItems items with
    | some rs =>
      let (t, a, c) := readHdr hdr
      s!"{render (Schema.toJson { title := t, alias := a, comment := c, items := rs })}\tx"
    | none => "bad-arg\tn/a"
  | ["docsave", "model", hdr, items, data] =>
    match readItems items, readData data with
    | some rs, some ds =>
      let (t, a, c) := readHdr hdr
      match Model.toJson { title := t, alias := a, comment := c, items := rs, data := ds } with
      | some j => s!"{render j}\tx"
      | none => "stuck\tx"
    | _, _ => "bad-arg\tn/a"
  | ["docload", "form", doc] =>
    match readTree doc with
    | some j =>
      match Schema.fromJson (envOf []) j with
      | some c => s!"{showHdr c.title c.alias c.comment} {showItemsObs c.items}\tx"
      | none => "none\tx"
    | none => "bad-arg\tn/a"
  | ["docload", "model", an, doc] =>
    match readTree doc with
    | some j =>
      match Model.fromJson (envOf (readAnalysis an)) j with
      | some c => s!"{showHdr c.title c.alias c.comment} {showItemsObs c.items} {showData c.data}\tx"
      | none => "none\tx"
    | none => "bad-arg\tn/a"
  | _ => "bad-op\tn/a"


/-! ### OSS documents (`Model/JsonOss.lean`); wire form: see harness/c10_main.cpp -/
section OssDoc
open CCVerif.JsonOss

def splitNE (s : String) (sep : String) : List String := if s == "#" then [] else s.splitOn sep

def readOpts (s : String) : Option EqRows :=
  if s == "~" then none else
  some ((splitNE s "+").filterMap fun r => match r.splitOn ">" with
    | [k, v, m, a] => some (parseNat k, parseNat v,
        ({ mode := (match m with | "2" => .keepDel | "3" => .createNew | _ => .keepHier), arg := hexToString a } : CCVerif.JsonOss.Equation))
    | _ => none)
def readTrs (s : String) : Option (List Tr) :=
  if s == "~" then none else
  some ((splitNE s "+").map fun t => if t == "@" then [] else
    (t.splitOn "/").filterMap fun p => match p.splitOn ">" with | [a, b] => some (parseNat a, parseNat b) | _ => none)
def readOssSrc (s : String) : Option SrcHandle :=
  match s.splitOn ":" with
  | [n, t, c, f] => some { name := hexToString n, type := if t == "1" then .rsDoc else .tba, coreHash := parseNat c, fullHash := parseNat f }
  | _ => none
def readOssOp (s : String) : Option OpHandle :=
  match s.splitOn ":" with
  | [t, b, o, opts, trs] =>
    some { type := (match t with | "4" => .merge | "8" => .synt | _ => .tba), broken := b == "1", outdated := o == "1",
           options := readOpts opts, translations := readTrs trs }
  | _ => none
def readPict (s : String) : Option Pict :=
  match s.splitOn "," with
  | [uid, dt, title, alias, comment, addr, sub, row, col, src, op] =>
    some { uid := parseNat uid, dataType := if dt == "1" then .rsSchema else .tba, title := hexToString title,
           alias := hexToString alias, comment := hexToString comment,
           link := { address := hexToString addr, subAddr := hexToString sub },
           pos := ⟨parseInt row, parseInt col⟩, src := readOssSrc src, op := readOssOp op }
  | _ => none
def readRows (s : String) : Rows :=
  (splitNE s ";").filterMap fun r => match (r.splitOn ">").map parseNat with
    | c :: ps => some (c, ps)
    | [] => none
def readOss (hdr items rows : String) : Option Oss :=
  match (splitNE items ";").mapM readPict with
  | some ps => let (t, c, d) := readHdr hdr; some { title := t, comment := c, domain := d, items := ps, rows := readRows rows }
  | none => none

def showOpts : Option EqRows → String
  | none => "~"
  | some [] => "#"
  | some rs => joinWith "+" (rs.map fun (k, v, e) =>
      s!"{k}>{v}>{match e.mode with | .keepHier => 1 | .keepDel => 2 | .createNew => 3}>{stringToHex e.arg}")
def showTrs : Option (List Tr) → String
  | none => "~"
  | some [] => "#"
  | some ts => joinWith "+" (ts.map fun t => if t.isEmpty then "@" else joinWith "/" (t.map fun p => s!"{p.1}>{p.2}"))
def showOssSrc : Option SrcHandle → String
  | none => "-"
  | some h => s!"{stringToHex h.name}:{match h.type with | .tba => 0 | .rsDoc => 1}:{h.coreHash}:{h.fullHash}"
def showOssOp : Option OpHandle → String
  | none => "-"
  | some h => s!"{match h.type with | .tba => 0 | .merge => 4 | .synt => 8}:{bit h.broken}:{bit h.outdated}:{showOpts h.options}:{showTrs h.translations}"
def showPict (p : Pict) : String :=
  joinWith "," [toString p.uid, (match p.dataType with | .tba => "0" | .rsSchema => "1"), stringToHex p.title, stringToHex p.alias,
    stringToHex p.comment, stringToHex p.link.address, stringToHex p.link.subAddr, toString p.pos.row, toString p.pos.col,
    showOssSrc p.src, showOssOp p.op]

def insSorted {α} (key : α → Nat) (x : α) : List α → List α
  | [] => [x]
  | y :: ys => if key x < key y then x :: y :: ys else y :: insSorted key x ys
def sortByKey {α} (key : α → Nat) (l : List α) : List α := l.foldl (fun acc x => insSorted key x acc) []

/-- the hash-ordered containers in the order the harness prints them -/
def canonPict (p : Pict) : Pict :=
  { p with op := p.op.map fun h => { h with options := h.options.map (sortByKey (·.1)), translations := h.translations.map (·.map (sortByKey (·.1))) } }
def showOssItems (ps : List Pict) : String :=
  if ps.isEmpty then "#" else joinWith ";" ((sortByKey (·.uid) ps).map fun p => showPict (canonPict p))
def showRows (g : Rows) : String :=
  let g := g.filter (!·.2.isEmpty)
  if g.isEmpty then "#" else joinWith ";" (g.map fun r => joinWith ">" ((r.1 :: r.2).map toString))
def showOss (c : Oss) : String := s!"{showHdr c.title c.comment c.domain} {showOssItems c.items} {showRows c.rows}"

def handleOss (args : List String) : String :=
  match args with
  | ["ossdocsave", hdr, items, rows] =>
    match readOss hdr items rows with
    | some c => s!"{render (ossToJson c)}\tx"
    | none => "bad-arg\tn/a"
  | ["ossdocload", fresh, doc] =>
    match readTree doc with
    | some j =>
      let env : CCVerif.JsonOss.Env := { fresh := fun _ => parseNat fresh }
      match ossFromJson env j with
      | .ok c => s!"{showOss c} wf={bit (structOkB c)}\tx"
      | .error (.format _) => "none-format\tx"
      | .error (.unmodelled w) => s!"unmodelled:{w}\tx"
    | none => "bad-arg\tn/a"
  | _ => "bad-op\tn/a"

end OssDoc

end Doc

def handle (args : List String) : String :=
  match args with
  | "docsave" :: _ => handleDoc args
  | "docload" :: _ => handleDoc args
  | "ossdocsave" :: _ => handleOss args
  | "ossdocload" :: _ => handleOss args
  | "ossrt" :: _ => "skip\t1"
  | "ossstable" :: _ => "skip\t1"
  -- the second TEXT: the order of hash containers is not specified by the model (informational)
  | "ossstableraw" :: _ => "skip\tx"
  | ["flags", a, t, d, c] =>
    let f : TrackingFlags := { allowEdit := a == "1", term := t == "1", definition := d == "1", convention := c == "1" }
    let rt := bit (TrackingFlags.fromJson f.toJson == some f)
    s!"{f.toJson.dump} {rt}\tx 1"
  | ["text", _, ks] =>
    let t := parseText ks
    let back := match TextInterp.fromJson t.toJson with | some u => showText u | none => "none"
    -- the property: what comes back is what was saved
    s!"{t.toJson.dump} {back}\tx {showText t}"
  | ["tr", ks] =>
    let t := parseTr ks
    let rt := bit (trFromJson (trToJson t) == some t)
    s!"{(trToJson t).dump} {rt}\tx 1"
  -- end-to-end oracles evaluated by the harness on the implementation: the property demands 1
  | "formrt" :: _ => "skip\t1"
  | "formanalysis" :: _ => "skip\t1"
  | "formstable" :: _ => "skip\t1"
  | "formapi" :: _ => "skip\t1"
  | "modelrt" :: _ => "skip\t1"
  | "modelanalysis" :: _ => "skip\t1"
  | "modelstable" :: _ => "skip\t1"
  | _ => "bad-op\tn/a"

end Driver.C10
