import CCVerif.Model.Json
import CCVerif.Model.JsonDoc
import Driver.Util
import Driver.C16
/-! Driver ops for C10: leaf codecs next to the property (decoded value = original), and the
document level (`Model/JsonDoc.lean`):
* `docsave form <hdr> <items>` / `docsave model <hdr> <items> <data>`: the abstract content of the
  real object (wire form, see harness/c10_main.cpp) → rendering of `toJson content`; the harness
  prints the rendering of the REAL document tree;
* `docload form <tree>` / `docload model <analysis> <tree>`: a (possibly mutated) document tree →
  observable content of `fromJson tree` (`none` = the loader throws); the harness prints the
  observable content of the really loaded object. The recomputed typifications / statuses the
  data part depends on are an input (`analysis`, read from the loaded object). -/
namespace Driver.C10
open CCVerif.Json CCVerif.Translation Driver

def parseText (s : String) : TextInterp :=
  if s == "-" then [] else
  (s.splitOn ",").filterMap fun p => match p.splitOn ":" with | [k, v] => some (parseInt k, v) | _ => none
def showText (t : TextInterp) : String :=
  if t.isEmpty then "-" else joinWith "," (t.map fun p => s!"{p.1}:{p.2}")

def parseTr (s : String) : Tr :=
  if s == "-" then [] else
  (s.splitOn ",").filterMap fun p => match p.splitOn ">" with | [a, b] => some (parseNat a, parseNat b) | _ => none

/-! ### document level -/
section Doc
open CCVerif.JsonDoc CCVerif.Core CCVerif.SDC

def hexToString (h : String) : String :=
  match String.fromUTF8? (ByteArray.mk ((parseHex h).map UInt8.ofNat).toArray) with
  | some s => s
  | none => "\uFFFD"
def stringToHex (s : String) : String := toHex (s.toUTF8.toList.map (·.toNat))

partial def render : Json → String
  | .null => "n"
  | .bool b => if b then "t" else "f"
  | .num n => "i" ++ toString n
  | .str s => "s" ++ stringToHex s
  | .arr xs => "[" ++ joinWith "," (xs.map render) ++ "]"
  | .obj kvs => "{" ++ joinWith "," (kvs.map fun (k, v) => stringToHex k ++ ":" ++ render v) ++ "}"

def isHexish (c : Char) : Bool := c.isDigit || ('a' ≤ c && c ≤ 'f') || c == '-'

mutual
partial def parseTree : List Char → Option (Json × List Char)
  | 'n' :: rest => some (.null, rest)
  | 't' :: rest => some (.bool true, rest)
  | 'f' :: rest => some (.bool false, rest)
  | 'i' :: rest =>
    match C16.parseIntPrefix rest with
    | some (n, rest') => some (.num n, rest')
    | none => none
  | 's' :: rest => some (.str (hexToString (String.ofList (rest.takeWhile isHexish))), rest.dropWhile isHexish)
  | '[' :: ']' :: rest => some (.arr [], rest)
  | '[' :: rest =>
    match parseElems rest with
    | some (xs, rest') => some (.arr xs, rest')
    | none => none
  | '{' :: '}' :: rest => some (.obj [], rest)
  | '{' :: rest =>
    match parseFields rest with
    | some (kvs, rest') => some (.obj kvs, rest')
    | none => none
  | _ => none
partial def parseElems (cs : List Char) : Option (List Json × List Char) :=
  match parseTree cs with
  | some (v, ',' :: rest) =>
    match parseElems rest with
    | some (vs, rest') => some (v :: vs, rest')
    | none => none
  | some (v, ']' :: rest) => some ([v], rest)
  | _ => none
partial def parseFields (cs : List Char) : Option (List (String × Json) × List Char) :=
  let k := hexToString (String.ofList (cs.takeWhile isHexish))
  match cs.dropWhile isHexish with
  | ':' :: rest =>
    match parseTree rest with
    | some (v, ',' :: rest') =>
      match parseFields rest' with
      | some (kvs, rest'') => some ((k, v) :: kvs, rest'')
      | none => none
    | some (v, '}' :: rest') => some ([(k, v)], rest')
    | _ => none
  | _ => none
end

def readTree (s : String) : Option Json :=
  match parseTree s.toList with
  | some (j, []) => some j
  | _ => none

def kindOfCode (n : Nat) : CstType := (CstType.all.find? (·.code == n)).getD .base

def readPairs (s : String) : List (String × String) :=
  if s == "#" then [] else
  (s.splitOn "+").filterMap fun p => match p.splitOn ":" with | [a, b] => some (hexToString a, hexToString b) | _ => none
def showPairs (ps : List (String × String)) : String :=
  if ps.isEmpty then "#" else joinWith "+" (ps.map fun (a, b) => stringToHex a ++ ":" ++ stringToHex b)

def readTrack (s : String) : Option TrackingFlags :=
  match s.toList with
  | [a, t, d, c] => some { allowEdit := a == '1', term := t == '1', definition := d == '1', convention := c == '1' }
  | _ => none
def showTrack : Option TrackingFlags → String
  | none => "-"
  | some f => bit f.allowEdit ++ bit f.term ++ bit f.definition ++ bit f.convention

def readRecord (s : String) : Option Record :=
  match s.splitOn "," with
  | [uid, kind, alias, conv, traw, tres, forms, formal, draw, dres, st, vc, typ, tree, args, track] =>
    some { uid := parseNat uid, type := kindOfCode (parseNat kind), alias := hexToString alias, convention := hexToString conv,
           term := { raw := hexToString traw, resolved := hexToString tres },
           forms := (readPairs forms).map fun (a, b) => ⟨a, b⟩,
           formal := hexToString formal,
           definition := { raw := hexToString draw, resolved := hexToString dres },
           parse := { status := (match st with | "1" => .verified | "2" => .incorrect | _ => .unknown),
                      valueClass := (match vc with | "1" => .value | "2" => .props | _ => .invalid),
                      typification := hexToString typ, syntaxTree := hexToString tree,
                      args := (readPairs args).map fun (a, b) => ⟨a, b⟩ },
           track := readTrack track }
  | _ => none
def readItems (s : String) : Option (List Record) :=
  if s == "#" then some [] else (s.splitOn ";").mapM readRecord

/-- observable fields only (the layout of the harness with `obsOnly`) -/
def showRecordObs (r : Record) : String :=
  joinWith "," [toString r.uid, toString r.type.code, stringToHex r.alias, stringToHex r.convention,
    stringToHex r.term.raw, "-", showPairs (r.forms.map fun f => (f.tags, f.text)), stringToHex r.formal,
    stringToHex r.definition.raw, "-", "0", "0", "-", "-", "#", showTrack r.track]
def showItemsObs (rs : List Record) : String := if rs.isEmpty then "#" else joinWith ";" (rs.map showRecordObs)

def readHdr (s : String) : String × String × String :=
  match s.splitOn "," with
  | [t, a, c] => (hexToString t, hexToString a, hexToString c)
  | _ => ("?", "?", "?")
def showHdr (t a c : String) : String := stringToHex t ++ "," ++ stringToHex a ++ "," ++ stringToHex c

def readTexts (s : String) : Option TextInterp :=
  if s == "-" then none else if s == "#" then some [] else
  some ((s.splitOn "+").filterMap fun p => match p.splitOn ":" with | [k, v] => some (parseInt k, hexToString v) | _ => none)
def showTexts : Option TextInterp → String
  | none => "-"
  | some [] => "#"
  | some t => joinWith "+" (t.map fun p => s!"{p.1}:{stringToHex p.2}")

def readEntry (s : String) : Option DataEntry :=
  match s.splitOn "|" with
  | [uid, wc, ty, val, texts, stmt] =>
    some { uid := parseNat uid, wasCalc := wc == "1",
           typif := if ty == "-" then none else C16.readTy ty,
           sdata := if val == "-" then none else C16.readVal val,
           texts := readTexts texts,
           stmt := if stmt == "-" then none else some (stmt == "1") }
  | _ => none
def readData (s : String) : Option (List DataEntry) :=
  if s == "#" then some [] else (s.splitOn ";").mapM readEntry

partial def showTy : Ty → String
  | .base id => id
  | .coll b => "B(" ++ showTy b ++ ")"
  | .tuple cs => "T(" ++ joinWith "," (cs.map showTy) ++ ")"

def showEntry (e : DataEntry) : String :=
  joinWith "|" [toString e.uid, bit e.wasCalc, (match e.typif with | some τ => showTy τ | none => "-"),
    (match e.sdata with | some v => C16.showVal v | none => "-"), showTexts e.texts,
    (match e.stmt with | some b => bit b | none => "-")]
def showData (es : List DataEntry) : String := if es.isEmpty then "#" else joinWith ";" (es.map showEntry)

/-- `uid|verified|type` rows -/
def readAnalysis (s : String) : List (Nat × Bool × Option Ty) :=
  if s == "#" then [] else
  (s.splitOn ";").filterMap fun row => match row.splitOn "|" with
    | [u, v, ty] => some (parseNat u, v == "1", if ty == "-" then none else C16.readTy ty)
    | _ => none

/-- loader inputs of the driver: no repeated uid / replaced alias occurs in the generated
documents (a repeated uid makes `registerID` reject the constant "fresh" uid 0 → `none`) -/
def envOf (an : List (Nat × Bool × Option Ty)) : Env :=
  { fresh := fun _ => 0
    rename := fun _ _ r => r
    analyse := fun _ u => { parse := { status := if (an.find? (·.1 == u)).any (·.2.1) then .verified else .unknown } }
    typif := fun _ u => (an.find? (·.1 == u)).bind (·.2.2) }

def handleDoc (args : List String) : String :=
  match args with
  | ["docsave", "form", hdr, items] =>
    match readItems items with
    | some rs =>
      let (t, a, c) := readHdr hdr
      s!"{render (Schema.toJson { title := t, alias := a, comment := c, items := rs })}\tx"
    | none => "bad-arg\tn/a"
  | ["docsave", "model", hdr, items, data] =>
    match readItems items, readData data with
    | some rs, some ds =>
      let (t, a, c) := readHdr hdr
      match Model.toJson { title := t, alias := a, comment := c, items := rs, data := ds } with
      | some j => s!"{render j}\tx"
      | none => "stuck\tx"
    | _, _ => "bad-arg\tn/a"
  | ["docload", "form", doc] =>
    match readTree doc with
    | some j =>
      match Schema.fromJson (envOf []) j with
      | some c => s!"{showHdr c.title c.alias c.comment} {showItemsObs c.items}\tx"
      | none => "none\tx"
    | none => "bad-arg\tn/a"
  | ["docload", "model", an, doc] =>
    match readTree doc with
    | some j =>
      match Model.fromJson (envOf (readAnalysis an)) j with
      | some c => s!"{showHdr c.title c.alias c.comment} {showItemsObs c.items} {showData c.data}\tx"
      | none => "none\tx"
    | none => "bad-arg\tn/a"
  | _ => "bad-op\tn/a"

end Doc

def handle (args : List String) : String :=
  match args with
  | "docsave" :: _ => handleDoc args
  | "docload" :: _ => handleDoc args
  | ["flags", a, t, d, c] =>
    let f : TrackingFlags := { allowEdit := a == "1", term := t == "1", definition := d == "1", convention := c == "1" }
    let rt := bit (TrackingFlags.fromJson f.toJson == some f)
    s!"{f.toJson.dump} {rt}\tx 1"
  | ["text", _, ks] =>
    let t := parseText ks
    let back := match TextInterp.fromJson t.toJson with | some u => showText u | none => "none"
    -- the property: what comes back is what was saved
    s!"{t.toJson.dump} {back}\tx {showText t}"
  | ["tr", ks] =>
    let t := parseTr ks
    let rt := bit (trFromJson (trToJson t) == some t)
    s!"{(trToJson t).dump} {rt}\tx 1"
  -- end-to-end oracles evaluated by the harness on the implementation: the property demands 1
  | "formrt" :: _ => "skip\t1"
  | "formanalysis" :: _ => "skip\t1"
  | "formstable" :: _ => "skip\t1"
  | "formapi" :: _ => "skip\t1"
  | "modelrt" :: _ => "skip\t1"
  | "modelanalysis" :: _ => "skip\t1"
  | "modelstable" :: _ => "skip\t1"
  | _ => "bad-op\tn/a"

end Driver.C10
