import Driver.Util
/-! Driver ops for C18: every op is a reused-vs-fresh comparison made by the harness on the
implementation; the property demands `1`. -/
namespace Driver.C18
def handle (args : List String) : String :=
  match args with
  | "reset" :: _ => "ok\tok"
  | "context-edit" :: _ => "ok\tok"
  | _ => "skip\t1"
end Driver.C18
