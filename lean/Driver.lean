import Driver.AstWire
import Driver.C07
import Driver.C09
import Driver.C14
import Driver.C20
import Driver.Main
import Driver.Util
