import CCVerif.Model.Syntax
import CCVerif.Model.Types
/-
Declarative specification of the VALUE CLASS of an RSLang expression (C03, value-class audit):
`Γ; P ⊢ e ⇓ c` as an inductive relation in inference-rule form, one rule per construct.

* `c = value`: the expression denotes a set / element that can be computed (enumerated);
* `c = props`: the expression denotes a *property* — a set that is only a membership test
  (`Z`, `ℬ(…)`, a product with such a factor, …). A property may be used only where nothing has
  to be enumerated: right of `∈ ∉ ⊆`, as a factor of `×`, under `ℬ`, as an operand of `∪ ∩ \ ∆`
  (where the class of the result follows the rules below), as the domain of `D{…}`, as a filter
  parameter, or as an actual argument of a function.

`Γ.vclass` gives the class of a global (absent / `invalid` = the global has no value and cannot be
used), `Γ.asts` the stored definition `F:==[x1∈D1, …] body` of a function; `P` = the parameters of
the function body under audit whose actual arguments are properties (empty for the input itself).
There is no rule for a construct that needs a value and gets a property: such an expression has no
class (it is rejected).

Written from the reading of `ValueAuditor.cpp` as the rules of the language; independent of the
transcription `Model/Checker.lean` (`vDispatch`), against which Lemmas/VClassSpec.lean proves it
sound and complete.
-/
namespace CCVerif.Spec
open CCVerif.Syntax CCVerif.Types

/-- the name declared by an argument declaration `x ∈ dom` -/
def argName : Ast → Option String
  | .node _ _ _ _ (.node _ (.text x) _ _ _ :: _) => some x
  | _ => none

/-- `PropParams decls cs ps`: `ps` are the declared names at the positions whose actual argument
class is `props` (one declaration per actual argument) -/
inductive PropParams : List Ast → List VClass → List String → Prop where
  | nil : PropParams [] [] []
  | props {d : Ast} {ds : List Ast} {cs : List VClass} {x : String} {ps : List String} :
      argName d = some x → PropParams ds cs ps → PropParams (d :: ds) (.props :: cs) (x :: ps)
  | other {d : Ast} {ds : List Ast} {c : VClass} {cs : List VClass} {ps : List String} :
      c ≠ .props → PropParams ds cs ps → PropParams (d :: ds) (c :: cs) ps

mutual
/-- `Γ; P ⊢ e ⇓ c` -/
inductive HasVClass (Γ : Ctx) : List String → Ast → VClass → Prop where
  /-- a global has the class the context gives it; a global without a class has none -/
  | global {P : List String} {tok : Tok} {x : String} {c : VClass} {lo hi : Int} {ks : List Ast} :
      tok = .ID_GLOBAL ∨ tok = .ID_FUNCTION ∨ tok = .ID_PREDICATE →
      lookup Γ.vclass x = some c → c ≠ .invalid →
      HasVClass Γ P (.node tok (.text x) lo hi ks) c
  /-- a bound variable is a value … -/
  | localValue {P : List String} {x : String} {lo hi : Int} {ks : List Ast} :
      x ∉ P → HasVClass Γ P (.node .ID_LOCAL (.text x) lo hi ks) .value
  /-- … except a parameter that stands for a property -/
  | localProps {P : List String} {x : String} {lo hi : Int} {ks : List Ast} :
      x ∈ P → HasVClass Γ P (.node .ID_LOCAL (.text x) lo hi ks) .props
  /-- radicals, integer literals and `∅` are values -/
  | const {P : List String} {tok : Tok} {d : TokData} {lo hi : Int} {ks : List Ast} :
      tok = .ID_RADICAL ∨ tok = .LIT_INTEGER ∨ tok = .LIT_EMPTYSET →
      HasVClass Γ P (.node tok d lo hi ks) .value
  /-- `Z` is a property -/
  | intset {P : List String} {d : TokData} {lo hi : Int} {ks : List Ast} :
      HasVClass Γ P (.node .LIT_INTSET d lo hi ks) .props
  /-- arithmetic, order comparisons and binary connectives: the operands only have to have a class -/
  | valueOp {P : List String} {tok : Tok} {d : TokData} {lo hi : Int} {a b : Ast} {c1 c2 : VClass} :
      tok = .PLUS ∨ tok = .MINUS ∨ tok = .MULTIPLY ∨ tok = .AND ∨ tok = .OR ∨ tok = .IMPLICATION ∨
      tok = .EQUIVALENT ∨ tok = .GREATER ∨ tok = .LESSER ∨ tok = .GREATER_OR_EQ ∨ tok = .LESSER_OR_EQ →
      HasVClass Γ P a c1 → HasVClass Γ P b c2 →
      HasVClass Γ P (.node tok d lo hi [a, b]) .value
  | not {P : List String} {d : TokData} {lo hi : Int} {a : Ast} {c : VClass} :
      HasVClass Γ P a c → HasVClass Γ P (.node .NOT d lo hi [a]) .value
  /-- `card`, `bool`, `debool`, `Pr`, `pr`, `red` need a value -/
  | needValue {P : List String} {tok : Tok} {d : TokData} {lo hi : Int} {a : Ast} :
      tok = .CARD ∨ tok = .BOOL ∨ tok = .DEBOOL ∨ tok = .BIGPR ∨ tok = .SMALLPR ∨ tok = .REDUCE →
      HasVClass Γ P a .value → HasVClass Γ P (.node tok d lo hi [a]) .value
  /-- `∀ p ∈ dom body`, `∃ p ∈ dom body`: the domain is enumerated -/
  | quant {P : List String} {tok : Tok} {d : TokData} {lo hi : Int} {p dom body : Ast} {c : VClass} :
      tok = .FORALL ∨ tok = .EXISTS →
      HasVClass Γ P dom .value → HasVClass Γ P body c →
      HasVClass Γ P (.node tok d lo hi [p, dom, body]) c
  /-- `a = b`, `a ≠ b`, `a ⊂ b`, `a ⊄ b` compare two values -/
  | compare {P : List String} {tok : Tok} {d : TokData} {lo hi : Int} {a b : Ast} :
      tok = .EQUAL ∨ tok = .NOTEQUAL ∨ tok = .SUBSET ∨ tok = .NOTSUBSET →
      HasVClass Γ P a .value → HasVClass Γ P b .value →
      HasVClass Γ P (.node tok d lo hi [a, b]) .value
  /-- `a ∈ b`, `a ∉ b`, `a ⊆ b`: a property is admissible on the right -/
  | elem {P : List String} {tok : Tok} {d : TokData} {lo hi : Int} {a b : Ast} {c : VClass} :
      tok = .IN ∨ tok = .NOTIN ∨ tok = .SUBSET_OR_EQ →
      HasVClass Γ P b c → HasVClass Γ P a .value →
      HasVClass Γ P (.node tok d lo hi [a, b]) .value
  /-- `D{p ∈ dom | body}` has the class of its domain -/
  | declarative {P : List String} {d : TokData} {lo hi : Int} {p dom body : Ast} {cb c : VClass} :
      HasVClass Γ P body cb → HasVClass Γ P dom c →
      HasVClass Γ P (.node .NT_DECLARATIVE_EXPR d lo hi [p, dom, body]) c
  /-- `I{value | blocks}` -/
  | imperative {P : List String} {d : TokData} {lo hi : Int} {value : Ast} {blocks : List Ast} {cs : List VClass} :
      HasVClasses Γ P blocks cs → HasVClass Γ P value .value →
      HasVClass Γ P (.node .NT_IMPERATIVE_EXPR d lo hi (value :: blocks)) .value
  /-- `p :∈ dom`, `p := e` -/
  | block {P : List String} {tok : Tok} {d : TokData} {lo hi : Int} {p x : Ast} :
      tok = .ITERATE ∨ tok = .ASSIGN →
      HasVClass Γ P x .value → HasVClass Γ P (.node tok d lo hi [p, x]) .value
  /-- `R{p := init | step}`: everything is a value, the pattern included (a variable of the pattern
  must not be a property parameter) -/
  | recShort {P : List String} {d : TokData} {lo hi : Int} {p init step : Ast} :
      HasVClass Γ P p .value → HasVClass Γ P init .value → HasVClass Γ P step .value →
      HasVClass Γ P (.node .NT_RECURSIVE_SHORT d lo hi [p, init, step]) .value
  | recFull {P : List String} {d : TokData} {lo hi : Int} {p init cond step : Ast} :
      HasVClass Γ P p .value → HasVClass Γ P init .value → HasVClass Γ P cond .value →
      HasVClass Γ P step .value →
      HasVClass Γ P (.node .NT_RECURSIVE_FULL d lo hi [p, init, cond, step]) .value
  /-- a tuple pattern `(p1, …, pn)` -/
  | tupleDecl {P : List String} {d : TokData} {lo hi : Int} {ks : List Ast} {cs : List VClass} :
      HasVClasses Γ P ks cs → HasVClass Γ P (.node .NT_TUPLE_DECL d lo hi ks) .value
  /-- `A × B × …` is a property as soon as one factor is -/
  | decart {P : List String} {d : TokData} {lo hi : Int} {a b : Ast} {ks : List Ast} {cs : List VClass} :
      HasVClasses Γ P (a :: b :: ks) cs →
      HasVClass Γ P (.node .DECART d lo hi (a :: b :: ks)) (if VClass.props ∈ cs then .props else .value)
  /-- `ℬ(A)` is a property -/
  | boolean {P : List String} {d : TokData} {lo hi : Int} {a : Ast} {c : VClass} :
      HasVClass Γ P a c → HasVClass Γ P (.node .BOOLEAN d lo hi [a]) .props
  /-- `{a, b, …}`, `(a, b, …)`: every component is a value -/
  | collect {P : List String} {tok : Tok} {d : TokData} {lo hi : Int} {a : Ast} {ks : List Ast} {cs : List VClass} :
      tok = .NT_ENUMERATION ∨ tok = .NT_TUPLE →
      HasVClasses Γ P (a :: ks) cs → (∀ c ∈ cs, c = VClass.value) →
      HasVClass Γ P (.node tok d lo hi (a :: ks)) .value
  /-- `A ∪ B`, `A ∆ B`: a value when both operands are -/
  | union {P : List String} {tok : Tok} {d : TokData} {lo hi : Int} {a b : Ast} {c1 c2 : VClass} :
      tok = .UNION ∨ tok = .SYMMINUS →
      HasVClass Γ P a c1 → HasVClass Γ P b c2 →
      HasVClass Γ P (.node tok d lo hi [a, b]) (if c1 = .value ∧ c2 = .value then .value else .props)
  /-- `A ∩ B`: a value when one operand is -/
  | inter {P : List String} {d : TokData} {lo hi : Int} {a b : Ast} {c1 c2 : VClass} :
      HasVClass Γ P a c1 → HasVClass Γ P b c2 →
      HasVClass Γ P (.node .INTERSECTION d lo hi [a, b]) (if c1 = .value ∨ c2 = .value then .value else .props)
  /-- `A \ B`: a value when the first operand is -/
  | minus {P : List String} {d : TokData} {lo hi : Int} {a b : Ast} {c1 c2 : VClass} :
      HasVClass Γ P a c1 → HasVClass Γ P b c2 →
      HasVClass Γ P (.node .SET_MINUS d lo hi [a, b]) (if c1 = .value then .value else .props)
  /-- `Fi i,j [params](A)` has the class of `A`; the parameters may be properties -/
  | filter {P : List String} {d : TokData} {lo hi : Int} {p : Ast} {ks : List Ast} {cs : List VClass} {c : VClass} :
      HasVClasses Γ P (p :: ks) cs → ks ≠ [] → cs.getLast? = some c →
      HasVClass Γ P (.node .FILTER d lo hi (p :: ks)) c
  /-- `F[a1, …, an]` with value arguments: the class the context gives `F` -/
  | callValues {P : List String} {d : TokData} {lo hi : Int} {fn : Ast} {f : String} {as : List Ast}
      {ft : VClass} {cs : List VClass} :
      fn.data = .text f → lookup Γ.vclass f = some ft → ft ≠ .invalid →
      HasVClasses Γ P as cs → (∀ c ∈ cs, c = VClass.value) →
      HasVClass Γ P (.node .NT_FUNC_CALL d lo hi (fn :: as)) ft
  /-- `F[a1, …, an]` with a property among the arguments: the class of the body of the stored
  definition `F:==[x1∈D1, …, xn∈Dn] body` (child 1 of the stored tree is the function definition,
  its children the declarations and the body), audited with the parameters at the property
  positions standing for properties -/
  | callProps {P : List String} {d : TokData} {lo hi : Int} {fn : Ast} {f : String} {as : List Ast}
      {ft c : VClass} {cs : List VClass} {tree fd decl body : Ast} {ps : List String} :
      fn.data = .text f → lookup Γ.vclass f = some ft → ft ≠ .invalid →
      HasVClasses Γ P as cs → (∃ c' ∈ cs, c' ≠ VClass.value) →
      lookup Γ.asts f = some tree → tree.kid 1 = some fd → fd.kid 0 = some decl → fd.kid 1 = some body →
      PropParams decl.kids cs ps → HasVClass Γ ps body c →
      HasVClass Γ P (.node .NT_FUNC_CALL d lo hi (fn :: as)) c

/-- classes of a list of expressions, position by position -/
inductive HasVClasses (Γ : Ctx) : List String → List Ast → List VClass → Prop where
  | nil {P : List String} : HasVClasses Γ P [] []
  | cons {P : List String} {k : Ast} {ks : List Ast} {c : VClass} {cs : List VClass} :
      HasVClass Γ P k c → HasVClasses Γ P ks cs → HasVClasses Γ P (k :: ks) (c :: cs)
end

/-- the domains of the argument declarations `x1∈D1, …` of a function definition have a class -/
inductive ArgDomains (Γ : Ctx) : List Ast → Prop where
  | nil : ArgDomains Γ []
  | cons {d : TokData} {lo hi ll hl : Int} {x : String} {kl ds : List Ast} {dom : Ast} {c : VClass} :
      HasVClass Γ [] dom c → ArgDomains Γ ds →
      ArgDomains Γ (.node .NT_ARG_DECL d lo hi [.node .ID_LOCAL (.text x) ll hl kl, dom] :: ds)

/-- an expression, or a function definition `[x1∈D1, …] body` (the class of its body) -/
inductive HasVClassDef (Γ : Ctx) : Ast → VClass → Prop where
  | expr {e : Ast} {c : VClass} : HasVClass Γ [] e c → HasVClassDef Γ e c
  | funcdef {d da : TokData} {lo hi la ha : Int} {decls : List Ast} {body : Ast} {c : VClass} :
      ArgDomains Γ decls → HasVClass Γ [] body c →
      HasVClassDef Γ (.node .NT_FUNC_DEFINITION d lo hi [.node .NT_ARGUMENTS da la ha decls, body]) c

/-- the whole input: `e`, `[args] e`, `X:==` (a value), `X:==e`, `X:==[args] e`, `S::=dom` (a value
when the domain has a class) -/
inductive HasVClassTop (Γ : Ctx) : Ast → VClass → Prop where
  | ofDef {e : Ast} {c : VClass} : HasVClassDef Γ e c → HasVClassTop Γ e c
  | define1 {d : TokData} {lo hi : Int} {nm : Ast} :
      HasVClassTop Γ (.node .PUNC_DEFINE d lo hi [nm]) .value
  | define2 {d : TokData} {lo hi : Int} {nm ex : Ast} {c : VClass} :
      HasVClassDef Γ ex c → HasVClassTop Γ (.node .PUNC_DEFINE d lo hi [nm, ex]) c
  | struct {d : TokData} {lo hi : Int} {nm ex : Ast} {c : VClass} :
      HasVClass Γ [] ex c → HasVClassTop Γ (.node .PUNC_STRUCT d lo hi [nm, ex]) .value

end CCVerif.Spec
