import CCVerif.Model.Lexer
/-!
Specification vocabulary of C04 for the lexers: what it means that a token list *tiles* a text with
consistent positions, independent of how `Lexer.lexGo` keeps its `lineBase` / `col` counters.

* `properRules syn`: every rule of the `.l` file except the catch-all `.` (the last rule).
* `NoRuleAt syn s`: no proper rule matches at the head of `s` — the head of `s` is an *unknown symbol*.
* `Tiled syn off s ts`: `s` (whose first unit has absolute offset `off`) is
  `skipped* tok₁ skipped* tok₂ … skipped*` and `ts` lists exactly these tokens followed by END, every
  token carrying `lo` = absolute offset of its first unit, `hi = lo + columns(text)`, and the kind
  INTERRUPT exactly where no proper rule matches (then the token is that single unit).
-/
namespace CCVerif.Scan
open CCVerif.Syntax CCVerif.Generated CCVerif.Lexer

/-- all rules but the last one (the catch-all `.` → INTERRUPT, see `Analysis.rules_split`) -/
def properRules (syn : Syn) : List LexRule := (rulesOf syn).dropLast

/-- the head of `s` is an unknown symbol: no rule other than the catch-all matches there -/
def NoRuleAt (syn : Syn) (s : List Nat) : Prop :=
  ∀ r ∈ properRules syn, matchPat syn s r.pat = none

/-- units the scanners drop between tokens: blank, tab, newline; carriage return in ASCII only
(`{ws}` = `[ \t\r\n]+`; MATH has `[ \t]+` and `\n`, a `\r` there is an unknown symbol) -/
def isSkipped (syn : Syn) (c : Nat) : Bool :=
  c == 32 || c == 9 || c == 10 || (syn == .ascii && c == 13)

inductive Tiled (syn : Syn) : Nat → List Nat → List RawTok → Prop where
  /-- end of input: the END token with the empty range at the end -/
  | eof (off : Nat) : Tiled syn off [] [⟨.END, off, off, []⟩]
  /-- a skipped unit produces nothing and advances the offset by one -/
  | skip (off c : Nat) (s : List Nat) (ts : List RawTok) :
      isSkipped syn c = true → Tiled syn (off + 1) s ts → Tiled syn off (c :: s) ts
  /-- a token with text `m` at offset `off` -/
  | tok (off : Nat) (id : Tok) (m s : List Nat) (ts : List RawTok) :
      m ≠ [] → id ≠ .END →
      (id = .INTERRUPT ↔ NoRuleAt syn (m ++ s)) → (id = .INTERRUPT → m.length = 1) →
      Tiled syn (off + m.length) s ts →
      Tiled syn off (m ++ s) (⟨id, off, off + width syn m, m⟩ :: ts)

end CCVerif.Scan
