import CCVerif.Model.Syntax
import CCVerif.Model.EvalVal
/-
Reference semantics of RSLang expressions (property C01): `⟦e⟧ρ : Option SemVal`.

Written from the set-theoretic meaning of the constructs, on the tree **as parsed** (no
normalisation), with ordinary lexically scoped environments:

* a set is the finite set of its members (represented canonically: `Val.mkSet` of any listing of
  the members; membership is structural equality of canonical values), tuples are positional,
  integers are ℤ;
* quantifiers, set-builders, `I{…}` enumerate the denoted domain; enumerated declarations
  `∀a,b∈D` range over all combinations; tuple binders `(a,b)` bind by projection;
* a call `F[args]` is the body of `F` with the arguments substituted for the parameters
  (call by name: a parameter is bound to the argument expression closed over the caller's scope);
* `R{x:=init | cond | body}` is the iteration `x₀ = init, xₙ₊₁ = body(xₙ)` stopped at the first
  `xₙ` falsifying `cond` or at the first repetition;
* `I{v | blocks}` is the nested comprehension of its iterate / assign / guard blocks;
* connectives and quantifiers are **strong Kleene**: `none` (no value: `debool` of a non-singleton,
  the infinite set `Z` as a domain, an unbound global, a resource bound of this reference) is
  absorbed wherever the other operand decides the result, so an evaluator that short-circuits
  refines this semantics.
-/
namespace CCVerif.Spec
open CCVerif.Syntax CCVerif.Eval

inductive SemVal where
  | val (v : Val)
  | bool (b : Bool)
deriving Repr, Inhabited, DecidableEq

/-- scoped local environment: values (bound variables) and call-by-name parameters -/
inductive LEnv where
  | nil
  | val (name : String) (v : Val) (rest : LEnv)
  | thunk (name : String) (a : Ast) (closure : LEnv) (rest : LEnv)
deriving Inhabited

inductive Binding where
  | val (v : Val)
  | thunk (a : Ast) (closure : LEnv)

def LEnv.find (n : String) : LEnv → Option Binding
  | .nil => none
  | .val m v rest => if m == n then some (.val v) else rest.find n
  | .thunk m a cl rest => if m == n then some (.thunk a cl) else rest.find n

/-- interpretation of the globals and definitions of the term functions / predicates -/
structure SEnv where
  globals : List (String × Val) := []
  funcs : List (String × Ast) := []

def assoc {α} (k : String) : List (String × α) → Option α
  | [] => none
  | (k', v) :: r => if k == k' then some v else assoc k r

/-! ### finite sets -/

/-- the set with exactly the listed members (canonical representative) -/
def setOf (xs : List Val) : Val := Val.mkSet xs
def members : Val → Option (List Val)
  | .s xs => some xs
  | _ => none
def isMember (x : Val) (xs : List Val) : Bool := xs.contains x
def isSubset (xs ys : List Val) : Bool := xs.all (fun x => isMember x ys)

def subsets : List Val → List (List Val)
  | [] => [[]]
  | x :: xs => let r := subsets xs; r ++ r.map (x :: ·)

def tuples : List (List Val) → List (List Val)
  | [] => [[]]
  | f :: fs => f.flatMap (fun x => (tuples fs).map (x :: ·))

/-- the members of a listing that carry the flag `true` -/
def keep (l : List (Val × Bool)) : Val := setOf ((l.filter (·.2)).map (·.1))

/-- reference bound: power sets of more than `2^POW_BOUND` and products of more than
`PROD_BOUND` members have no value here -/
def POW_BOUND : Nat := 12
def PROD_BOUND : Nat := 4096

def nth (v : Val) (i : Int) : Option Val :=
  match v with
  | .t cs => if i ≥ 1 then cs[(i - 1).toNat]? else none
  | _ => none

/-- `pr i,j,…`: one index selects the component, several build the tuple of the components -/
def select (v : Val) (idx : List Int) : Option Val :=
  match idx.mapM (nth v) with
  | some [c] => some c
  | some (c :: d :: r) => some (.t (c :: d :: r))
  | _ => none

/-! ### three-valued logic -/
def kAll (l : List (Option Bool)) : Option Bool :=
  if l.any (· == some false) then some false else if l.all (· == some true) then some true else none
def kAny (l : List (Option Bool)) : Option Bool :=
  if l.any (· == some true) then some true else if l.all (· == some false) then some false else none
def kAnd : Option Bool → Option Bool → Option Bool
  | some false, _ => some false
  | _, some false => some false
  | some true, some true => some true
  | _, _ => none
def kOr : Option Bool → Option Bool → Option Bool
  | some true, _ => some true
  | _, some true => some true
  | some false, some false => some false
  | _, _ => none
def kNot : Option Bool → Option Bool
  | some b => some (!b)
  | none => none

/-! ### binders -/
def idNameOf (a : Ast) : String :=
  match a.data with
  | .text s => s
  | _ => ""

mutual
/-- bind a declaration (`x` or a tuple pattern) to a value -/
def bindPat : Ast → Val → LEnv → Option LEnv
  | .node t d _ _ ks, v, ρ =>
    if t == .ID_LOCAL then some (.val (match d with | .text s => s | _ => "") v ρ)
    else if t == .NT_TUPLE_DECL then
      match v with
      | .t cs => bindPats ks cs ρ
      | _ => none
    else none
def bindPats : List Ast → List Val → LEnv → Option LEnv
  | [], [], ρ => some ρ
  | p :: ps, v :: vs, ρ =>
    match bindPat p v ρ with
    | some ρ' => bindPats ps vs ρ'
    | none => none
  | _, _, _ => none
end

/-- `Q d₁,…,dₖ ∈ D . body` -/
def quantSem (univ : Bool) (dom : List Val) (body : LEnv → Option Bool) : List Ast → LEnv → Option Bool
  | [], ρ => body ρ
  | d :: ds, ρ =>
    let rs := dom.map fun x =>
      match bindPat d x ρ with
      | none => none
      | some ρ' => quantSem univ dom body ds ρ'
    if univ then kAll rs else kAny rs

/-- iteration of `R{…}`; `none` beyond the bound -/
def recSem (cond : Val → Option Bool) (body : Val → Option Val) : Nat → Val → Option Val
  | 0, _ => none
  | n + 1, cur =>
    match cond cur with
    | none => none
    | some false => some cur
    | some true =>
      match body cur with
      | none => none
      | some nxt => if nxt = cur then some nxt else recSem cond body n nxt

/-- members of `I{value | blocks}` as a nested comprehension -/
def impSem (value : LEnv → Option Val) (dval : LEnv → Ast → Option Val) (dbool : LEnv → Ast → Option Bool) :
    List Ast → LEnv → Option (List Val)
  | [], ρ => (value ρ).map ([·])
  | b :: bs, ρ =>
    if b.id == .ITERATE then
      match b.kids with
      | [decl, dom] =>
        match dval ρ dom with
        | some (.s xs) =>
          (xs.mapM fun x =>
            match bindPat decl x ρ with
            | none => none
            | some ρ' => impSem value dval dbool bs ρ').map List.flatten
        | _ => none
      | _ => none
    else if b.id == .ASSIGN then
      match b.kids with
      | [decl, e] =>
        match dval ρ e with
        | none => none
        | some v =>
          match bindPat decl v ρ with
          | none => none
          | some ρ' => impSem value dval dbool bs ρ'
      | _ => none
    else
      match dbool ρ b with
      | some true => impSem value dval dbool bs ρ
      | some false => some []
      | none => none

def REC_BOUND : Nat := 100001

/-- `⟦a⟧ρ`; the first argument bounds the nesting depth (tree depth + call unfolding) -/
def denote (env : SEnv) : Nat → LEnv → Ast → Option SemVal
  | 0, _, _ => none
  | fuel + 1, ρ, a =>
    let D := denote env fuel
    let dv (ρ : LEnv) (x : Ast) : Option Val :=
      match D ρ x with
      | some (.val v) => some v
      | _ => none
    let db (ρ : LEnv) (x : Ast) : Option Bool :=
      match D ρ x with
      | some (.bool b) => some b
      | _ => none
    let ds (ρ : LEnv) (x : Ast) : Option (List Val) := (dv ρ x).bind members
    let di (ρ : LEnv) (x : Ast) : Option Int :=
      match dv ρ x with
      | some (.e n) => some n
      | _ => none
    let kid (i : Nat) : Ast := a.kids[i]?.getD (.node .INTERRUPT .none 0 0 [])
    let val (o : Option Val) : Option SemVal := o.map SemVal.val
    let bool (o : Option Bool) : Option SemVal := o.map SemVal.bool
    match a.id with
    | .PUNC_DEFINE =>
      match a.kids with
      | [g, e] => if g.id == .ID_GLOBAL then D ρ e else none
      | _ => none
    | .ID_GLOBAL => val (assoc (idNameOf a) env.globals)
    | .ID_LOCAL =>
      match ρ.find (idNameOf a) with
      | some (.val v) => some (.val v)
      | some (.thunk x cl) => D cl x
      | none => none
    | .LIT_INTEGER =>
      match a.data with
      | .int n => some (.val (.e n))
      | _ => none
    | .LIT_EMPTYSET => some (.val (.s []))
    | .PLUS => val ((di ρ (kid 0)).bind fun x => (di ρ (kid 1)).map fun y => .e (x + y))
    | .MINUS => val ((di ρ (kid 0)).bind fun x => (di ρ (kid 1)).map fun y => .e (x - y))
    | .MULTIPLY => val ((di ρ (kid 0)).bind fun x => (di ρ (kid 1)).map fun y => .e (x * y))
    | .CARD => val ((ds ρ (kid 0)).map fun xs => .e xs.length)
    | .FORALL | .EXISTS =>
      match ds ρ (kid 1) with
      | none => none
      | some dom =>
        let decl := kid 0
        let decls := if decl.id == .NT_ENUM_DECL then decl.kids else [decl]
        bool (quantSem (a.id == .FORALL) dom (fun ρ' => db ρ' (kid 2)) decls ρ)
    | .NOT => bool (kNot (db ρ (kid 0)))
    | .AND => bool (kAnd (db ρ (kid 0)) (db ρ (kid 1)))
    | .OR => bool (kOr (db ρ (kid 0)) (db ρ (kid 1)))
    | .IMPLICATION => bool (kOr (kNot (db ρ (kid 0))) (db ρ (kid 1)))
    | .EQUIVALENT => bool ((db ρ (kid 0)).bind fun x => (db ρ (kid 1)).map fun y => x == y)
    | .EQUAL => bool ((dv ρ (kid 0)).bind fun x => (dv ρ (kid 1)).map fun y => decide (x = y))
    | .NOTEQUAL => bool ((dv ρ (kid 0)).bind fun x => (dv ρ (kid 1)).map fun y => !decide (x = y))
    | .GREATER => bool ((di ρ (kid 0)).bind fun x => (di ρ (kid 1)).map fun y => decide (x > y))
    | .LESSER => bool ((di ρ (kid 0)).bind fun x => (di ρ (kid 1)).map fun y => decide (x < y))
    | .GREATER_OR_EQ => bool ((di ρ (kid 0)).bind fun x => (di ρ (kid 1)).map fun y => decide (x ≥ y))
    | .LESSER_OR_EQ => bool ((di ρ (kid 0)).bind fun x => (di ρ (kid 1)).map fun y => decide (x ≤ y))
    | .IN | .NOTIN =>
      let neg := a.id == .NOTIN
      let r : Option Bool :=
        if (kid 1).id == .BOOLEAN then
          -- x ∈ ℬ(A) ⟺ x ⊆ A  (defining property of the power set; no enumeration)
          (ds ρ (kid 0)).bind fun xs => (ds ρ ((kid 1).kids[0]?.getD (kid 1))).map fun ys => isSubset xs ys
        else
          (dv ρ (kid 0)).bind fun x => (ds ρ (kid 1)).map fun ys => isMember x ys
      bool (r.map fun b => b != neg)
    | .SUBSET_OR_EQ => bool ((ds ρ (kid 0)).bind fun xs => (ds ρ (kid 1)).map fun ys => isSubset xs ys)
    | .SUBSET =>
      bool ((ds ρ (kid 0)).bind fun xs => (ds ρ (kid 1)).map fun ys => isSubset xs ys && !isSubset ys xs)
    | .NOTSUBSET =>
      bool ((ds ρ (kid 0)).bind fun xs => (ds ρ (kid 1)).map fun ys => !(isSubset xs ys && !isSubset ys xs))
    | .UNION => val ((ds ρ (kid 0)).bind fun xs => (ds ρ (kid 1)).map fun ys => setOf (xs ++ ys))
    | .INTERSECTION =>
      val ((ds ρ (kid 0)).bind fun xs => (ds ρ (kid 1)).map fun ys => setOf (xs.filter (isMember · ys)))
    | .SET_MINUS =>
      val ((ds ρ (kid 0)).bind fun xs => (ds ρ (kid 1)).map fun ys => setOf (xs.filter (!isMember · ys)))
    | .SYMMINUS =>
      val ((ds ρ (kid 0)).bind fun xs => (ds ρ (kid 1)).map fun ys =>
        setOf (xs.filter (!isMember · ys) ++ ys.filter (!isMember · xs)))
    | .DECART =>
      match a.kids.mapM (ds ρ) with
      | none => none
      | some fs =>
        if (fs.foldl (fun n f => n * f.length) 1) > PROD_BOUND then none
        else some (.val (setOf ((tuples fs).map Val.t)))
    | .BOOLEAN =>
      match ds ρ (kid 0) with
      | none => none
      | some xs => if xs.length > POW_BOUND then none else some (.val (setOf ((subsets xs).map setOf)))
    | .NT_TUPLE =>
      match a.kids.mapM (dv ρ) with
      | some (c :: d :: r) => some (.val (.t (c :: d :: r)))
      | _ => none
    | .NT_ENUMERATION => val ((a.kids.mapM (dv ρ)).map setOf)
    | .BOOL => val ((dv ρ (kid 0)).map fun v => setOf [v])
    | .DEBOOL =>
      match ds ρ (kid 0) with
      | some [x] => some (.val x)
      | _ => none
    | .REDUCE =>
      match ds ρ (kid 0) with
      | none => none
      | some xs => val ((xs.mapM members).map fun ls => setOf ls.flatten)
    | .BIGPR =>
      match ds ρ (kid 0), a.data with
      | some xs, .tuple idx => val ((xs.mapM (select · idx)).map setOf)
      | _, _ => none
    | .SMALLPR =>
      match dv ρ (kid 0), a.data with
      | some v, .tuple idx => val (select v idx)
      | _, _ => none
    | .FILTER =>
      let n := a.kids.length
      match a.data with
      | .tuple idx =>
        match ds ρ (kid (n - 1)) with
        | none => none
        | some arg =>
          if arg.isEmpty then some (.val (.s [])) else
          if idx.length == n - 1 then
            -- {x ∈ arg | ∀i. x.idxᵢ ∈ Pᵢ}
            let ps := (a.kids.take (n - 1)).map (ds ρ)
            if ps.any (fun p => p == some []) then some (.val (.s [])) else
            match ps.mapM id with
            | none => none
            | some pl =>
              val ((arg.mapM fun x =>
                ((idx.zip pl).mapM fun (ip : Int × List Val) => (nth x ip.1).map (isMember · ip.2)).map
                  fun flags => (x, flags.all id)).map keep)
          else
            -- {x ∈ arg | pr_idx(x) ∈ P}
            match ds ρ (kid 0) with
            | none => none
            | some p =>
              val ((arg.mapM fun x => (select x idx).map fun tp => (x, isMember tp p)).map
                keep)
      | _ => none
    | .NT_DECLARATIVE_EXPR =>
      match ds ρ (kid 1) with
      | none => none
      | some dom =>
        val ((dom.mapM fun x =>
          match bindPat (kid 0) x ρ with
          | none => none
          | some ρ' => (db ρ' (kid 2)).map fun b => (x, b)).map keep)
    | .NT_RECURSIVE_SHORT =>
      match dv ρ (kid 1) with
      | none => none
      | some init =>
        val (recSem (fun _ => some true)
          (fun cur => (bindPat (kid 0) cur ρ).bind fun ρ' => dv ρ' (kid 2)) REC_BOUND init)
    | .NT_RECURSIVE_FULL =>
      match dv ρ (kid 1) with
      | none => none
      | some init =>
        val (recSem (fun cur => (bindPat (kid 0) cur ρ).bind fun ρ' => db ρ' (kid 2))
          (fun cur => (bindPat (kid 0) cur ρ).bind fun ρ' => dv ρ' (kid 3)) REC_BOUND init)
    | .NT_IMPERATIVE_EXPR =>
      val ((impSem (fun ρ' => dv ρ' (kid 0)) dv db (a.kids.drop 1) ρ).map setOf)
    | .NT_FUNC_CALL =>
      match a.kids with
      | fn :: args =>
        match assoc (idNameOf fn) env.funcs with
        | none => none
        | some tree =>
          match tree.kids with
          | [_, fdef] =>
            match fdef.kids with
            | [adecl, body] =>
              if fdef.id != .NT_FUNC_DEFINITION || adecl.kids.length != args.length then none else
              let params := adecl.kids.map fun d => idNameOf (d.kids[0]?.getD d)
              let ρ' := (params.zip args).foldl (fun acc (pa : String × Ast) => LEnv.thunk pa.1 pa.2 ρ acc) LEnv.nil
              D ρ' body
            | _ => none
          | _ => none
      | [] => none
    | _ => none

def FUEL : Nat := 400

/-- `⟦a⟧` of a closed expression -/
def denoteTop (env : SEnv) (a : Ast) : Option SemVal := denote env FUEL .nil a

end CCVerif.Spec
