import CCVerif.Model.Syntax
import CCVerif.Model.Types
import CCVerif.Spec.Infer
/-
Declarative typing of RSLang (C03): `Γ; Δ ⊢ e : τ` as an inductive relation in inference-rule
form, one rule per construct. `Γ` = global context (types of globals, declared arguments of
term-functions / predicates, traits of the base sets), `Δ` = lexical environment (bound
variables; `Δ.fd` = inside the argument declarations of a function definition).

Side conditions use the type algebra of `Model/Types.lean` (`merge`, `compat`, `isOrdered`,
`isArithmetic`) and, for templated calls, the constraint solver of `Spec/Infer.lean`
(`matchArg`/`solve`: "there is a most general instantiation σ of the radicals such that every
actual argument type is compatible with σ(declared type)").

Reading of the language (the repository has no normative document): a name in scope cannot be
declared again (no shadowing); a variable is visible from its declaration to the end of the
construct that declares it (quantifier, declarative/recursive/imperative term, function
definition); in an imperative term declarations are visible in the following blocks and in the
value expression; `∅` has type ℬ(R0) where R0 is the any-type, and is not an admissible
operand of card, debool, ∪, ∩, \, ∆, red, Pr, pr. The name of a statement (a LOGIC-typed
global: axiom, theorem) is an expression of type LOGIC; every operand position requires a
typification, so it is admissible only as the whole input, directly under `:==`, or as the body
of a function definition.
-/
namespace CCVerif.Spec
open CCVerif.Syntax CCVerif.Types

/-- `Debool t d`: a set-typed operand of type `t` has elements of type `d` -/
inductive Debool : Ty → Ty → Prop where
  | coll (d : Ty) : Debool (.coll d) d
  | any : Debool Ty.R0 Ty.R0

/-- left-to-right merge of the element types of an enumeration -/
def mergeAll (te : TraitEnv) : Ty → List Ty → Option Ty
  | t, [] => some t
  | t, x :: xs => match merge te t x with
    | some m => mergeAll te m xs
    | none => none

def notEmptyLit (a : Ast) : Prop := a.id ≠ .LIT_EMPTYSET

mutual
/-- `Binds Δ p t Δ'`: declaring pattern `p` (variable / tuple of patterns / list of patterns)
for an element of type `t` extends `Δ` to `Δ'`; a name in scope cannot be declared again -/
inductive Binds : Env → Ast → Ty → Env → Prop where
  | var {Δ : Env} {x : String} {t : Ty} {lo hi : Int} {ks : List Ast} :
      Δ.has x = false → Binds Δ (.node .ID_LOCAL (.text x) lo hi ks) t (Δ.add x t)
  | tuple {Δ Δ' : Env} {d : TokData} {lo hi : Int} {ks : List Ast} {cs : List Ty} :
      BindsEach Δ ks cs Δ' → Binds Δ (.node .NT_TUPLE_DECL d lo hi ks) (.tuple cs) Δ'
  | enum {Δ Δ' : Env} {d : TokData} {lo hi : Int} {ks : List Ast} {t : Ty} :
      BindsAll Δ ks t Δ' → Binds Δ (.node .NT_ENUM_DECL d lo hi ks) t Δ'
/-- component-wise: pattern `i` gets component `i` (equal lengths) -/
inductive BindsEach : Env → List Ast → List Ty → Env → Prop where
  | nil {Δ : Env} : BindsEach Δ [] [] Δ
  | cons {Δ Δ1 Δ2 : Env} {k : Ast} {ks : List Ast} {c : Ty} {cs : List Ty} :
      Binds Δ k c Δ1 → BindsEach Δ1 ks cs Δ2 → BindsEach Δ (k :: ks) (c :: cs) Δ2
/-- every pattern of the list gets the same type -/
inductive BindsAll : Env → List Ast → Ty → Env → Prop where
  | nil {Δ : Env} {t : Ty} : BindsAll Δ [] t Δ
  | cons {Δ Δ1 Δ2 : Env} {k : Ast} {ks : List Ast} {t : Ty} :
      Binds Δ k t Δ1 → BindsAll Δ1 ks t Δ2 → BindsAll Δ (k :: ks) t Δ2
end

mutual
/-- `Γ; Δ ⊢ e : τ` -/
inductive HasType (Γ : Ctx) : Env → Ast → ExprTy → Prop where
  /-- a global (not a term-function / predicate name without arguments) has its declared type -/
  | global {Δ : Env} {tok : Tok} {x : String} {τ : ExprTy} {lo hi : Int} {ks : List Ast} :
      tok = .ID_GLOBAL ∨ tok = .ID_FUNCTION ∨ tok = .ID_PREDICATE →
      lookup Γ.funcs x = none → lookup Γ.types x = some τ →
      HasType Γ Δ (.node tok (.text x) lo hi ks) τ
  | local_ {Δ : Env} {x : String} {t : Ty} {lo hi : Int} {ks : List Ast} :
      Δ.get? x = some t → HasType Γ Δ (.node .ID_LOCAL (.text x) lo hi ks) (.ty t)
  /-- a radical `Rn` denotes the set ℬ(Rn); only inside the argument declarations of a function -/
  | radical {Δ : Env} {x : String} {lo hi : Int} {ks : List Ast} :
      Δ.fd = true ∨ Γ.isTypification = true →
      HasType Γ Δ (.node .ID_RADICAL (.text x) lo hi ks) (.ty (.coll (.base x)))
  | int {Δ : Env} {d : TokData} {lo hi : Int} {ks : List Ast} :
      HasType Γ Δ (.node .LIT_INTEGER d lo hi ks) (.ty Ty.Z)
  | intset {Δ : Env} {d : TokData} {lo hi : Int} {ks : List Ast} :
      HasType Γ Δ (.node .LIT_INTSET d lo hi ks) (.ty (.coll Ty.Z))
  | emptyset {Δ : Env} {d : TokData} {lo hi : Int} {ks : List Ast} :
      HasType Γ Δ (.node .LIT_EMPTYSET d lo hi ks) (.ty Ty.emptySet)
  /-- `a + b`, `a - b`, `a * b` -/
  | arith {Δ : Env} {tok : Tok} {d : TokData} {lo hi : Int} {a b : Ast} {t1 t2 t : Ty} :
      tok = .PLUS ∨ tok = .MINUS ∨ tok = .MULTIPLY →
      HasType Γ Δ a (.ty t1) → HasType Γ Δ b (.ty t2) →
      isArithmetic Γ.traits t1 = true → isArithmetic Γ.traits t2 = true →
      merge Γ.traits t1 t2 = some t →
      HasType Γ Δ (.node tok d lo hi [a, b]) (.ty t)
  | card {Δ : Env} {d : TokData} {lo hi : Int} {a : Ast} {t e : Ty} :
      notEmptyLit a → HasType Γ Δ a (.ty t) → Debool t e →
      HasType Γ Δ (.node .CARD d lo hi [a]) (.ty Ty.Z)
  /-- `a < b`, `a > b`, `a ≤ b`, `a ≥ b` -/
  | order {Δ : Env} {tok : Tok} {d : TokData} {lo hi : Int} {a b : Ast} {t1 t2 : Ty} :
      tok = .GREATER ∨ tok = .LESSER ∨ tok = .GREATER_OR_EQ ∨ tok = .LESSER_OR_EQ →
      HasType Γ Δ a (.ty t1) → HasType Γ Δ b (.ty t2) →
      isOrdered Γ.traits t1 = true → isOrdered Γ.traits t2 = true → compat Γ.traits t1 t2 = true →
      HasType Γ Δ (.node tok d lo hi [a, b]) .logic
  /-- `a = b`, `a ≠ b` -/
  | equal {Δ : Env} {tok : Tok} {d : TokData} {lo hi : Int} {a b : Ast} {t1 t2 : Ty} :
      tok = .EQUAL ∨ tok = .NOTEQUAL →
      HasType Γ Δ a (.ty t1) → HasType Γ Δ b (.ty t2) → compat Γ.traits t1 t2 = true →
      HasType Γ Δ (.node tok d lo hi [a, b]) .logic
  /-- `a ∈ b`, `a ∉ b` -/
  | elem {Δ : Env} {tok : Tok} {d : TokData} {lo hi : Int} {a b : Ast} {t1 t2 e : Ty} :
      tok = .IN ∨ tok = .NOTIN →
      HasType Γ Δ a (.ty t1) → HasType Γ Δ b (.ty t2) → Debool t2 e → compat Γ.traits t1 e = true →
      HasType Γ Δ (.node tok d lo hi [a, b]) .logic
  /-- `a ⊂ b`, `a ⊆ b`, `a ⊄ b` -/
  | subset {Δ : Env} {tok : Tok} {d : TokData} {lo hi : Int} {a b : Ast} {t1 t2 e : Ty} :
      tok = .SUBSET ∨ tok = .SUBSET_OR_EQ ∨ tok = .NOTSUBSET →
      HasType Γ Δ a (.ty t1) → HasType Γ Δ b (.ty t2) → Debool t2 e → compat Γ.traits t1 (.coll e) = true →
      HasType Γ Δ (.node tok d lo hi [a, b]) .logic
  | not {Δ : Env} {d : TokData} {lo hi : Int} {a : Ast} :
      HasType Γ Δ a .logic → HasType Γ Δ (.node .NOT d lo hi [a]) .logic
  /-- `a & b`, `a ∨ b`, `a ⇒ b`, `a ⇔ b` -/
  | logbin {Δ : Env} {tok : Tok} {d : TokData} {lo hi : Int} {a b : Ast} :
      tok = .AND ∨ tok = .OR ∨ tok = .IMPLICATION ∨ tok = .EQUIVALENT →
      HasType Γ Δ a .logic → HasType Γ Δ b .logic →
      HasType Γ Δ (.node tok d lo hi [a, b]) .logic
  /-- `∀ p ∈ dom  body`, `∃ p ∈ dom  body` -/
  | quant {Δ Δ' : Env} {tok : Tok} {d : TokData} {lo hi : Int} {p dom body : Ast} {t e : Ty} :
      tok = .FORALL ∨ tok = .EXISTS →
      HasType Γ Δ dom (.ty t) → Debool t e → Binds Δ p e Δ' → HasType Γ Δ' body .logic →
      HasType Γ Δ (.node tok d lo hi [p, dom, body]) .logic
  /-- `D{p ∈ dom | body}` -/
  | declarative {Δ Δ' : Env} {d : TokData} {lo hi : Int} {p dom body : Ast} {t e : Ty} :
      HasType Γ Δ dom (.ty t) → Debool t e → Binds Δ p e Δ' → HasType Γ Δ' body .logic →
      HasType Γ Δ (.node .NT_DECLARATIVE_EXPR d lo hi [p, dom, body]) (.ty (.coll e))
  /-- `I{value | block; …; block}` -/
  | imperative {Δ Δ' : Env} {d : TokData} {lo hi : Int} {value : Ast} {blocks : List Ast} {t : Ty} :
      Blocks Γ Δ blocks Δ' → HasType Γ Δ' value (.ty t) →
      HasType Γ Δ (.node .NT_IMPERATIVE_EXPR d lo hi (value :: blocks)) (.ty (.coll t))
  /-- `R{p := init | step}`: the variable holds the initial value first and the values of the step
  afterwards, so its type `τ` bounds both: the type of the first step (variable typed as `init`) must be
  compatible with the type `t0` of `init`; `τ` is reached from the join of the two by the chain
  `StepReach` (join the type of the step into the type of the variable) and is a fixed point of it:
  with the variable at `τ` the step has a type `tτ` that stays within `τ` (`tτ ⊔ τ = τ`). `τ` is the
  type of the term -/
  | recShort {Δ Δ0 Δτ : Env} {d : TokData} {lo hi : Int} {p init step : Ast} {t0 t1 v0 τ tτ : Ty} :
      HasType Γ Δ init (.ty t0) → Binds Δ p t0 Δ0 → HasType Γ Δ0 step (.ty t1) →
      compat Γ.traits t1 t0 = true → merge Γ.traits t1 t0 = some v0 → StepReach Γ Δ p step v0 τ →
      Binds Δ p τ Δτ → HasType Γ Δτ step (.ty tτ) → merge Γ.traits tτ τ = some τ →
      HasType Γ Δ (.node .NT_RECURSIVE_SHORT d lo hi [p, init, step]) (.ty τ)
  /-- `R{p := init | cond | step}`: as above; the condition is a statement about the variable at its
  type `τ` -/
  | recFull {Δ Δ0 Δτ : Env} {d : TokData} {lo hi : Int} {p init cond step : Ast} {t0 t1 v0 τ tτ : Ty} :
      HasType Γ Δ init (.ty t0) → Binds Δ p t0 Δ0 → HasType Γ Δ0 step (.ty t1) →
      compat Γ.traits t1 t0 = true → merge Γ.traits t1 t0 = some v0 → StepReach Γ Δ p step v0 τ →
      Binds Δ p τ Δτ → HasType Γ Δτ step (.ty tτ) → merge Γ.traits tτ τ = some τ →
      HasType Γ Δτ cond .logic →
      HasType Γ Δ (.node .NT_RECURSIVE_FULL d lo hi [p, init, cond, step]) (.ty τ)
  /-- `A × B × …` -/
  | decart {Δ : Env} {d : TokData} {lo hi : Int} {a b : Ast} {ks : List Ast} {es : List Ty} :
      HasSets Γ Δ (a :: b :: ks) es →
      HasType Γ Δ (.node .DECART d lo hi (a :: b :: ks)) (.ty (.coll (.tuple es)))
  /-- `ℬ(A)` -/
  | boolean {Δ : Env} {d : TokData} {lo hi : Int} {a : Ast} {t e : Ty} :
      HasType Γ Δ a (.ty t) → Debool t e →
      HasType Γ Δ (.node .BOOLEAN d lo hi [a]) (.ty (.coll (.coll e)))
  /-- `(a, b, …)` -/
  | tuple {Δ : Env} {d : TokData} {lo hi : Int} {a b : Ast} {ks : List Ast} {ts : List Ty} :
      HasTypes Γ Δ (a :: b :: ks) ts →
      HasType Γ Δ (.node .NT_TUPLE d lo hi (a :: b :: ks)) (.ty (.tuple ts))
  /-- `{a, b, …}` and `bool(a)` -/
  | enumeration {Δ : Env} {tok : Tok} {d : TokData} {lo hi : Int} {a : Ast} {ks : List Ast} {t m : Ty} {ts : List Ty} :
      tok = .NT_ENUMERATION ∨ tok = .BOOL →
      HasTypes Γ Δ (a :: ks) (t :: ts) → mergeAll Γ.traits t ts = some m →
      HasType Γ Δ (.node tok d lo hi (a :: ks)) (.ty (.coll m))
  | debool {Δ : Env} {d : TokData} {lo hi : Int} {a : Ast} {t e : Ty} :
      notEmptyLit a → HasType Γ Δ a (.ty t) → Debool t e →
      HasType Γ Δ (.node .DEBOOL d lo hi [a]) (.ty e)
  /-- `A ∪ B`, `A ∩ B`, `A \ B`, `A ∆ B` -/
  | setbin {Δ : Env} {tok : Tok} {d : TokData} {lo hi : Int} {a b : Ast} {t1 t2 e1 e2 m : Ty} :
      tok = .UNION ∨ tok = .INTERSECTION ∨ tok = .SET_MINUS ∨ tok = .SYMMINUS →
      notEmptyLit a → notEmptyLit b →
      HasType Γ Δ a (.ty t1) → Debool t1 e1 → HasType Γ Δ b (.ty t2) → Debool t2 e2 →
      merge Γ.traits e1 e2 = some m →
      HasType Γ Δ (.node tok d lo hi [a, b]) (.ty (.coll m))
  /-- `Pr i,j (A)` on a set of tuples -/
  | bigpr {Δ : Env} {idx : List Int} {lo hi : Int} {a : Ast} {t : Ty} {cs comps : List Ty} :
      notEmptyLit a → HasType Γ Δ a (.ty t) → Debool t (.tuple cs) →
      pick cs idx = some comps → comps ≠ [] →
      HasType Γ Δ (.node .BIGPR (.tuple idx) lo hi [a]) (.ty (.coll (Ty.tupleOf comps)))
  | bigprAny {Δ : Env} {idx : List Int} {lo hi : Int} {a : Ast} {t : Ty} :
      notEmptyLit a → HasType Γ Δ a (.ty t) → Debool t Ty.R0 →
      HasType Γ Δ (.node .BIGPR (.tuple idx) lo hi [a]) (.ty Ty.emptySet)
  /-- `pr i,j (a)` on a tuple -/
  | smallpr {Δ : Env} {idx : List Int} {lo hi : Int} {a : Ast} {cs comps : List Ty} :
      notEmptyLit a → HasType Γ Δ a (.ty (.tuple cs)) →
      pick cs idx = some comps → comps ≠ [] →
      HasType Γ Δ (.node .SMALLPR (.tuple idx) lo hi [a]) (.ty (Ty.tupleOf comps))
  | smallprAny {Δ : Env} {idx : List Int} {lo hi : Int} {a : Ast} :
      notEmptyLit a → HasType Γ Δ a (.ty Ty.R0) →
      HasType Γ Δ (.node .SMALLPR (.tuple idx) lo hi [a]) (.ty Ty.R0)
  /-- `red(A)` on a set of sets -/
  | reduce {Δ : Env} {d : TokData} {lo hi : Int} {a : Ast} {e : Ty} :
      notEmptyLit a → HasType Γ Δ a (.ty (.coll (.coll e))) →
      HasType Γ Δ (.node .REDUCE d lo hi [a]) (.ty (.coll e))
  | reduceAny {Δ : Env} {d : TokData} {lo hi : Int} {a : Ast} {t : Ty} :
      notEmptyLit a → HasType Γ Δ a (.ty t) → (t = Ty.R0 ∨ t = Ty.emptySet) →
      HasType Γ Δ (.node .REDUCE d lo hi [a]) (.ty Ty.emptySet)
  /-- `Fi i,j [P1, P2](A)`: one parameter set per index -/
  | filterEach {Δ : Env} {idx : List Int} {lo hi : Int} {params : List Ast} {arg : Ast}
      {cs bases pts : List Ty} :
      idx ≠ [] → params.length = idx.length →
      HasType Γ Δ arg (.ty (.coll (.tuple cs))) → pick cs idx = some bases →
      HasTypes Γ Δ params pts →
      (∀ p ∈ pts.zip bases, ∃ pb, p.1 = .coll pb ∧ compat Γ.traits p.2 pb = true) →
      HasType Γ Δ (.node .FILTER (.tuple idx) lo hi (params ++ [arg])) (.ty (.coll (.tuple cs)))
  /-- `Fi i,j [P](A)`: a single parameter, a set of tuples of the selected components -/
  | filterOne {Δ : Env} {idx : List Int} {lo hi : Int} {param arg : Ast} {cs bases : List Ty} {pt : Ty} :
      idx ≠ [] → idx.length ≠ 1 →
      HasType Γ Δ arg (.ty (.coll (.tuple cs))) → pick cs idx = some bases →
      HasType Γ Δ param (.ty pt) → pt.isColl = true → compat Γ.traits (.coll (Ty.tupleOf bases)) pt = true →
      HasType Γ Δ (.node .FILTER (.tuple idx) lo hi [param, arg]) (.ty (.coll (.tuple cs)))
  | filterAny {Δ : Env} {idx : List Int} {lo hi : Int} {params : List Ast} {arg : Ast} {t : Ty} {pts : List Ty} :
      idx ≠ [] → (params.length = idx.length ∨ params.length = 1) →
      HasType Γ Δ arg (.ty t) → (t = Ty.R0 ∨ t = Ty.emptySet) → HasTypes Γ Δ params pts →
      HasType Γ Δ (.node .FILTER (.tuple idx) lo hi (params ++ [arg])) (.ty Ty.emptySet)
  /-- `F[a1, …, an]`: the radicals of the declared argument types are instantiated by the most
  general σ that makes every actual argument compatible; the result is σ(declared result) -/
  | call {Δ : Env} {d : TokData} {lo hi : Int} {fn : Ast} {f : String} {as : List Ast}
      {ft : ExprTy} {decl : List (String × Ty)} {ats : List Ty} {cons σ : List (String × Ty)} :
      fn.data = .text f → lookup Γ.types f = some ft → lookup Γ.funcs f = some decl →
      HasTypes Γ Δ as ats → ats.length = decl.length →
      (decl.zip ats).foldl (fun acc (p : (String × Ty) × Ty) =>
          match acc, matchArg Γ.traits (depthTy p.1.2 + 1) p.1.2 p.2 with
          | some l, some l' => some (l ++ l')
          | _, _ => none) (some []) = some cons →
      solve Γ.traits cons [] = some σ →
      HasType Γ Δ (.node .NT_FUNC_CALL d lo hi (fn :: as))
        (match ft with | .logic => .logic | .ty t => .ty (instantiate f σ (depthTy t + 1) t))

/-- types of a list of expressions -/
inductive HasTypes (Γ : Ctx) : Env → List Ast → List Ty → Prop where
  | nil {Δ : Env} : HasTypes Γ Δ [] []
  | cons {Δ : Env} {k : Ast} {ks : List Ast} {t : Ty} {ts : List Ty} :
      HasType Γ Δ k (.ty t) → HasTypes Γ Δ ks ts → HasTypes Γ Δ (k :: ks) (t :: ts)

/-- element types of a list of set-typed expressions -/
inductive HasSets (Γ : Ctx) : Env → List Ast → List Ty → Prop where
  | nil {Δ : Env} : HasSets Γ Δ [] []
  | cons {Δ : Env} {k : Ast} {ks : List Ast} {t e : Ty} {es : List Ty} :
      HasType Γ Δ k (.ty t) → Debool t e → HasSets Γ Δ ks es → HasSets Γ Δ (k :: ks) (e :: es)

/-- blocks of an imperative term, left to right -/
inductive Blocks (Γ : Ctx) : Env → List Ast → Env → Prop where
  | nil {Δ : Env} : Blocks Γ Δ [] Δ
  /-- `p :∈ dom` -/
  | iterate {Δ Δ1 Δ2 : Env} {d : TokData} {lo hi : Int} {p dom : Ast} {bs : List Ast} {t e : Ty} :
      HasType Γ Δ dom (.ty t) → Debool t e → Binds Δ p e Δ1 → Blocks Γ Δ1 bs Δ2 →
      Blocks Γ Δ (.node .ITERATE d lo hi [p, dom] :: bs) Δ2
  /-- `p := e` -/
  | assign {Δ Δ1 Δ2 : Env} {d : TokData} {lo hi : Int} {p ex : Ast} {bs : List Ast} {t : Ty} :
      HasType Γ Δ ex (.ty t) → Binds Δ p t Δ1 → Blocks Γ Δ1 bs Δ2 →
      Blocks Γ Δ (.node .ASSIGN d lo hi [p, ex] :: bs) Δ2
  | cond {Δ Δ2 : Env} {b : Ast} {bs : List Ast} :
      b.id ≠ .ITERATE → b.id ≠ .ASSIGN → HasType Γ Δ b .logic → Blocks Γ Δ bs Δ2 →
      Blocks Γ Δ (b :: bs) Δ2

/-- the chain of type deduction for a recursion variable: `σ ⟶ σ ⊔ σ'` when `step` has type `σ'`
with the variable at type `σ` (the join `merge` must exist) -/
inductive StepReach (Γ : Ctx) : Env → Ast → Ast → Ty → Ty → Prop where
  | refl {Δ : Env} {p step : Ast} {σ : Ty} : StepReach Γ Δ p step σ σ
  | step {Δ Δσ : Env} {p step : Ast} {σ σ' σ'' τ : Ty} :
      Binds Δ p σ Δσ → HasType Γ Δσ step (.ty σ') → merge Γ.traits σ' σ = some σ'' →
      StepReach Γ Δ p step σ'' τ → StepReach Γ Δ p step σ τ
end

/-- argument declarations `x ∈ dom, …` of a function definition, left to right -/
inductive ArgDecls (Γ : Ctx) : Env → List Ast → Env → List (String × Ty) → Prop where
  | nil {Δ : Env} : ArgDecls Γ Δ [] Δ []
  | cons {Δ Δ' : Env} {d dv : TokData} {lo hi lv hv : Int} {x : String} {dom : Ast} {kv ds : List Ast}
      {t e : Ty} {rest : List (String × Ty)} :
      HasType Γ { Δ with fd := true } dom (.ty t) → Debool t e → Δ.has x = false →
      ArgDecls Γ (Δ.add x e) ds Δ' rest →
      ArgDecls Γ Δ (.node .NT_ARG_DECL d lo hi [.node .ID_LOCAL dv lv hv kv, dom] :: ds) Δ' ((x, e) :: rest)

/-- the whole input: expression, function definition `[args] body`, or global declaration;
also gives the declared argument list -/
inductive HasTopType (Γ : Ctx) : Ast → ExprTy → List (String × Ty) → Prop where
  | expr {e : Ast} {τ : ExprTy} :
      e.id ≠ .NT_FUNC_DEFINITION → e.id ≠ .PUNC_DEFINE → e.id ≠ .PUNC_STRUCT →
      HasType Γ {} e τ → HasTopType Γ e τ []
  | funcdef {d da : TokData} {lo hi la ha : Int} {decls : List Ast} {body : Ast} {Δ : Env}
      {τ : ExprTy} {args : List (String × Ty)} :
      ArgDecls Γ {} decls Δ args → HasType Γ { Δ with fd := false } body τ →
      HasTopType Γ (.node .NT_FUNC_DEFINITION d lo hi [.node .NT_ARGUMENTS da la ha decls, body]) τ args
  /-- `X1:==` (base or constant set) -/
  | defineEmpty {d dn : TokData} {lo hi ln hn : Int} {x : String} {tok : Tok} {kn : List Ast} :
      HasTopType Γ (.node .PUNC_DEFINE d lo hi [.node tok (.text x) ln hn kn]) (.ty (.coll (.base x))) []
  /-- `D1:==e` -/
  | define {d : TokData} {lo hi : Int} {nm e : Ast} {τ : ExprTy} {args : List (String × Ty)} :
      e.id ≠ .PUNC_DEFINE → e.id ≠ .PUNC_STRUCT → HasTopType Γ e τ args →
      HasTopType Γ (.node .PUNC_DEFINE d lo hi [nm, e]) τ args
  /-- `S1::=dom`: the domain is built from Z, globals, ℬ, × and enumerations and is a set -/
  | struct {d : TokData} {lo hi : Int} {nm e : Ast} {t : Ty} :
      structShape (depth e + 1) e = true → HasType Γ {} e (.ty (.coll t)) →
      HasTopType Γ (.node .PUNC_STRUCT d lo hi [nm, e]) (.ty t) []

end CCVerif.Spec
