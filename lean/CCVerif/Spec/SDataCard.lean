import CCVerif.Model.SData
/-!
C15: the set-theoretic cardinality of the (lazy) set implementations, and the exact range in which
`Cardinality()` (`SDPowerSet::UpdateSize`, `SDDecartian::UpdateSize`) reports it.

Core Lean only (the driver uses `LSet.specCard` for the specification column of `c15 card`).
Nothing here looks at `LSet.card` / `prodCount`: `trueCard` is the mathematical size
(`|ℬ(A)| = 2^|A|`, `|A₁×…×Aₙ| = |A₁|·…·|Aₙ|`), `cardExact` the arithmetic side condition, both
functions of the member counts only.  The theorems are in `Lemmas/SDataCard.lean`.
-/
namespace CCVerif.SData

mutual
/-- the number of members of the set an implementation denotes: the members of an enumeration
(`std::set`: no duplicates), `2 ^ |base|`, the product of the factors' sizes. -/
def LSet.trueCard : LSet → Nat
  | .enum xs => xs.length
  | .pow b => 2 ^ LSet.trueCard b
  | .prod fs => (LSet.trueCards fs).foldr (· * ·) 1
termination_by structural a => a
def LSet.trueCards : List LSet → List Nat
  | [] => []
  | f :: fs => LSet.trueCard f :: LSet.trueCards fs
termination_by structural a => a
end

/-- the arithmetic side condition of a product: going through the factor sizes from the left with
the running product `c`, every step satisfies `c * d ≤ SET_INFINITY` (this is
`SET_INFINITY / d ≥ c`, the test of `SDDecartian::UpdateSize`): every partial product fits.  For
non-zero sizes the partial products grow, so `prodFits ds 1` says that the whole product is at most
`SET_INFINITY`, whatever the order of the factors (`Lemmas/SDataCard.lean: prodFits_iff`). -/
def prodFits : List Nat → Nat → Bool
  | [], _ => true
  | d :: ds, c => decide (c * d ≤ SET_INFINITY) && prodFits ds (c * d)

mutual
/-- the sets whose `Cardinality()` is the set-theoretic one: an enumeration; a power set over at most
`BOOL_INFINITY` members (of an exact base); a product of exact factors all of whose partial products
are at most `SET_INFINITY` (`prodFits`).  Every set of at most `SET_INFINITY` members is exact
(`Lemmas/SDataCard.lean: LSet.cardExact_of_small`). -/
def LSet.cardExact : LSet → Bool
  | .enum _ => true
  | .pow b => LSet.cardExact b && decide (LSet.trueCard b ≤ BOOL_INFINITY)
  | .prod fs => LSet.cardExactList fs && prodFits (LSet.trueCards fs) 1
termination_by structural a => a
def LSet.cardExactList : List LSet → Bool
  | [] => true
  | f :: fs => LSet.cardExact f && LSet.cardExactList fs
termination_by structural a => a
end

mutual
/-- no product, at any depth, has an empty factor (what `Factory::Decartian` guarantees: it answers
`EmptySet()` instead of building such an `SDDecartian`). -/
def LSet.factorsNonempty : LSet → Bool
  | .enum _ => true
  | .pow b => LSet.factorsNonempty b
  | .prod fs => LSet.factorsNonemptyList fs
termination_by structural a => a
def LSet.factorsNonemptyList : List LSet → Bool
  | [] => true
  | f :: fs => LSet.factorsNonempty f && decide (LSet.trueCard f ≠ 0) && LSet.factorsNonemptyList fs
termination_by structural a => a
end

mutual
/-- the specified value of `Cardinality()`: the set-theoretic cardinality where `cardExact` holds,
`none` (unspecified, only bounded from below) elsewhere.  Computed bottom-up so that no number above
`2 ^ BOOL_INFINITY` is ever formed. -/
def LSet.specCard : LSet → Option Nat
  | .enum xs => some xs.length
  | .pow b =>
    match LSet.specCard b with
    | some n => if n ≤ BOOL_INFINITY then some (2 ^ n) else none
    | none => none
  | .prod fs =>
    match LSet.specCards fs with
    | some ds => if prodFits ds 1 then some (ds.foldr (· * ·) 1) else none
    | none => none
termination_by structural a => a
def LSet.specCards : List LSet → Option (List Nat)
  | [] => some []
  | f :: fs =>
    match LSet.specCard f, LSet.specCards fs with
    | some d, some ds => some (d :: ds)
    | _, _ => none
termination_by structural a => a
end

end CCVerif.SData
