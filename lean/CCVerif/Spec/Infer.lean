import CCVerif.Model.Syntax
import CCVerif.Model.Types
/-
Reference type inference for RSLang (C03), written from the typing rules of `Spec/Typing.lean`
and *not* from `TypeAuditor.cpp`: a pure function over a lexical environment (no visitor
state, no scope levels, no use counters, no error log, no guards). It shares with the model
only the type algebra of `Model/Types.lean` (merge / compatibility / traits), which the rules
use as side conditions. The driver prints its answer in the `spec` column.

`ill` = no rule applies (the expression has no type); `unknown` = the reference does not
decide (recursion whose type deduction does not reach a fixed point within the bound).
-/
namespace CCVerif.Spec
open CCVerif.Syntax CCVerif.Types

inductive IR (α : Type) where
  | ok (a : α)
  | ill
  | unknown
deriving Repr

def IR.bind {α β} (m : IR α) (f : α → IR β) : IR β :=
  match m with
  | .ok a => f a
  | .ill => .ill
  | .unknown => .unknown

instance : Monad IR where
  pure := IR.ok
  bind := IR.bind

/-- lexical environment: variables in scope (innermost last) and whether we are inside the
argument declarations of a function definition (radicals allowed) -/
structure Env where
  vars : List (String × Ty) := []
  fd : Bool := false

def Env.has (Δ : Env) (x : String) : Bool := Δ.vars.any (·.1 == x)
def Env.get? (Δ : Env) (x : String) : Option Ty := (Δ.vars.find? (·.1 == x)).map (·.2)
def Env.add (Δ : Env) (x : String) (t : Ty) : Env := { Δ with vars := Δ.vars ++ [(x, t)] }

/-- "the element type of a set-typed expression": ℬ(t) ↦ t, and the any-type stays any -/
def debool (t : Ty) : IR Ty :=
  if t.isAny then .ok t else match t with
    | .coll b => .ok b
    | _ => .ill

def needTy : ExprTy → IR Ty
  | .ty t => .ok t
  | .logic => .ill

def needLogic : ExprTy → IR Unit
  | .logic => .ok ()
  | .ty _ => .ill

def nameOf (a : Ast) : IR String :=
  match a.data with | .text s => .ok s | _ => .ill

def isEmptyLit (a : Ast) : Bool := a.id == .LIT_EMPTYSET

/-- binding a declaration pattern (variable, tuple of patterns, list of patterns) to a type;
a name already in scope may not be declared again -/
def bindDecl : Nat → Env → Ast → Ty → IR Env
  | 0, _, _, _ => .unknown
  | n+1, Δ, p, t =>
    match p.id with
    | .ID_LOCAL => do
      let x ← nameOf p
      if Δ.has x then .ill else pure (Δ.add x t)
    | .NT_TUPLE_DECL =>
      match t with
      | .tuple cs =>
        if cs.length != p.kids.length then .ill
        else
          let rec goT (Δ : Env) : List Ast → List Ty → IR Env
            | k :: ks, c :: cs => do let Δ' ← bindDecl n Δ k c; goT Δ' ks cs
            | _, _ => pure Δ
          goT Δ p.kids cs
      | _ => .ill
    | .NT_ENUM_DECL =>
      let rec goE (Δ : Env) : List Ast → IR Env
        | [] => pure Δ
        | k :: ks => do let Δ' ← bindDecl n Δ k t; goE Δ' ks
      goE Δ p.kids
    | _ => .ill

/-- pattern matching of a declared (templated) argument type against an actual type:
the constraints `radical ↦ actual` in order of occurrence; non-radical parts must be compatible -/
def matchArg (te : TraitEnv) : Nat → Ty → Ty → Option (List (String × Ty))
  | 0, _, _ => none
  | n+1, pat, act =>
    match pat with
    | .base a =>
      if isRadical a then some [(a, act)]
      else if act.isAny then some []
      else match act with
        | .base b => if a == b || (commonType te pat act).isSome then some [] else none
        | _ => none
    | .coll pb =>
      if act.isAny then some []
      else match act with
        | .coll ab => matchArg te n pb ab
        | _ => none
    | .tuple ps =>
      if act.isAny then some []
      else match act with
        | .tuple as =>
          if ps.length != as.length then none
          else
            let rec go : List Ty → List Ty → Option (List (String × Ty))
              | p :: ps, a :: as =>
                match matchArg te n p a, go ps as with
                | some l1, some l2 => some (l1 ++ l2)
                | _, _ => none
              | _, _ => some []
            go ps as
        | _ => none

/-- solve the constraints: every radical is bound to the merge of all its occurrences -/
def solve (te : TraitEnv) : List (String × Ty) → List (String × Ty) → Option (List (String × Ty))
  | [], σ => some σ
  | (r, t) :: rest, σ =>
    match lookup σ r with
    | none => solve te rest (σ ++ [(r, t)])
    | some old =>
      match merge te old t with
      | none => none
      | some m => solve te rest (σ.map fun p => if p.1 == r then (r, m) else p)

def depthTy : Ty → Nat
  | .base _ => 1
  | .coll b => depthTy b + 1
  | .tuple cs => go cs + 1
where go : List Ty → Nat
  | [] => 0
  | c :: cs => max (depthTy c) (go cs)

/-- instantiate the radicals of a declared type; a radical of the callee the actual arguments say
nothing about (it only met `∅`-like arguments of the any-type) is the any-type `R0` in the principal
typification -/
def instantiate (fn : String) (σ : List (String × Ty)) : Nat → Ty → Ty
  | 0, t => t
  | n+1, t =>
    match t with
    | .base a => if isRadical a then (match lookup σ a with | some s => s | none => .base "R0") else t
    | .coll b => .coll (instantiate fn σ n b)
    | .tuple cs => .tuple (cs.map (instantiate fn σ n))

def pick (cs : List Ty) : List Int → Option (List Ty)
  | [] => some []
  | i :: is =>
    if 1 ≤ i ∧ i ≤ cs.length then
      match cs[(i - 1).toNat]?, pick cs is with
      | some c, some r => some (c :: r)
      | _, _ => none
    else none

def indicesOf (a : Ast) : IR (List Int) :=
  match a.data with | .tuple l => .ok l | _ => .ill

/-- syntactic shape of a structure's domain: built from `Z`, globals, ℬ, × and enumerations -/
def structShape : Nat → Ast → Bool
  | 0, _ => false
  | n+1, a =>
    (match a.id with
     | .LIT_INTSET | .ID_GLOBAL | .BOOLEAN | .DECART | .NT_ENUMERATION => true
     | _ => false) && a.kids.all (structShape n)

/-- the join chain of a recursion variable: join the type of the step (variable at `τ`) into `τ` until
`τ` no longer grows (at most `r` rounds); no join = no type -/
def joinRounds (te : TraitEnv) (step : Ty → IR Ty) : Nat → Ty → IR Ty
  | 0, _ => .unknown
  | r+1, τ => do
    let t' ← step τ
    match merge te t' τ with
    | none => .ill
    | some τ' => if τ' == τ then pure τ else joinRounds te step r τ'

mutual
/-- type of an expression in environment `Δ` -/
def infer (Γ : Ctx) : Nat → Env → Ast → IR ExprTy
  | 0, _, _ => .unknown
  | n+1, Δ, e =>
    let tyOf (a : Ast) : IR Ty := do let t ← infer Γ n Δ a; needTy t
    let setOf (a : Ast) : IR Ty := do let t ← tyOf a; debool t
    let kid (i : Nat) : IR Ast := match e.kid i with | some k => .ok k | none => .ill
    match e.id with
    | .ID_GLOBAL | .ID_FUNCTION | .ID_PREDICATE => do
      let x ← nameOf e
      if (lookup Γ.funcs x).isSome then .ill
      else match lookup Γ.types x with
        | some t => pure t
        | none => .ill
    | .ID_LOCAL => do
      let x ← nameOf e
      match Δ.get? x with
      | some t => pure (.ty t)
      | none => .ill
    | .ID_RADICAL => do
      let x ← nameOf e
      if Δ.fd || Γ.isTypification then pure (.ty (.coll (.base x))) else .ill
    | .LIT_INTEGER => pure (.ty Ty.Z)
    | .LIT_INTSET => pure (.ty (.coll Ty.Z))
    | .LIT_EMPTYSET => pure (.ty Ty.emptySet)
    | .PLUS | .MINUS | .MULTIPLY => do
      let t1 ← tyOf (← kid 0); let t2 ← tyOf (← kid 1)
      if isArithmetic Γ.traits t1 && isArithmetic Γ.traits t2 then
        match merge Γ.traits t1 t2 with
        | some t => pure (.ty t)
        | none => .ill
      else .ill
    | .CARD => do
      let k ← kid 0
      if isEmptyLit k then .ill else
      let _ ← setOf k
      pure (.ty Ty.Z)
    | .GREATER | .LESSER | .GREATER_OR_EQ | .LESSER_OR_EQ => do
      let t1 ← tyOf (← kid 0); let t2 ← tyOf (← kid 1)
      if isOrdered Γ.traits t1 && isOrdered Γ.traits t2 && compat Γ.traits t1 t2 then pure .logic else .ill
    | .EQUAL | .NOTEQUAL => do
      let t1 ← tyOf (← kid 0); let t2 ← tyOf (← kid 1)
      if compat Γ.traits t1 t2 then pure .logic else .ill
    | .IN | .NOTIN => do
      let d ← setOf (← kid 1); let t1 ← tyOf (← kid 0)
      if compat Γ.traits t1 d then pure .logic else .ill
    | .SUBSET | .SUBSET_OR_EQ | .NOTSUBSET => do
      let d ← setOf (← kid 1); let t1 ← tyOf (← kid 0)
      if compat Γ.traits t1 (.coll d) then pure .logic else .ill
    | .NOT => do
      let t ← infer Γ n Δ (← kid 0); needLogic t; pure .logic
    | .AND | .OR | .IMPLICATION | .EQUIVALENT => do
      let t1 ← infer Γ n Δ (← kid 0); needLogic t1
      let t2 ← infer Γ n Δ (← kid 1); needLogic t2
      pure .logic
    | .FORALL | .EXISTS => do
      let d ← setOf (← kid 1)
      let Δ' ← bindDecl n Δ (← kid 0) d
      let _ ← infer Γ n Δ' (← kid 2)
      pure .logic
    | .NT_DECLARATIVE_EXPR => do
      let d ← setOf (← kid 1)
      let Δ' ← bindDecl n Δ (← kid 0) d
      let _ ← infer Γ n Δ' (← kid 2)
      pure (.ty (.coll d))
    | .NT_IMPERATIVE_EXPR => do
      let Δ' ← inferBlocks Γ n Δ (e.kids.drop 1)
      let t ← infer Γ n Δ' (← kid 0)
      let t ← needTy t
      pure (.ty (.coll t))
    | .NT_RECURSIVE_SHORT | .NT_RECURSIVE_FULL => do
      let full := e.id == .NT_RECURSIVE_FULL
      let decl ← kid 0
      let body ← kid (if full then 3 else 2)
      let t0 ← tyOf (← kid 1)
      let Δ0 ← bindDecl n Δ decl t0
      let tb ← infer Γ n Δ0 body
      let tb ← needTy tb
      if !compat Γ.traits tb t0 then .ill else
      -- the variable holds the initial value first and the values of the step afterwards: its type
      -- is the least type above both that the step stays within
      match merge Γ.traits tb t0 with
      | none => .ill
      | some v0 =>
      let τ ← joinRounds Γ.traits (fun τ => do
          let Δτ ← bindDecl n Δ decl τ
          let t' ← infer Γ n Δτ body
          needTy t') 5 v0
      if full then
        let Δτ ← bindDecl n Δ decl τ
        let _ ← infer Γ n Δτ (← kid 2)
      pure (.ty τ)
    | .DECART => do
      let ts ← inferSets Γ n Δ e.kids
      if ts.length < 2 then .ill else pure (.ty (.coll (.tuple ts)))
    | .BOOLEAN => do
      let d ← setOf (← kid 0)
      pure (.ty (.coll (.coll d)))
    | .NT_TUPLE => do
      let ts ← inferTys Γ n Δ e.kids
      if ts.length < 2 then .ill else pure (.ty (.tuple ts))
    | .NT_ENUMERATION | .BOOL => do
      let ts ← inferTys Γ n Δ e.kids
      match ts with
      | [] => .ill
      | t :: rest =>
        match rest.foldl (fun acc x => acc.bind fun a => merge Γ.traits a x) (some t) with
        | some m => pure (.ty (.coll m))
        | none => .ill
    | .DEBOOL => do
      let k ← kid 0
      if isEmptyLit k then .ill else
      let d ← setOf k
      pure (.ty d)
    | .UNION | .INTERSECTION | .SET_MINUS | .SYMMINUS => do
      let k0 ← kid 0; let k1 ← kid 1
      if isEmptyLit k0 || isEmptyLit k1 then .ill else
      let d1 ← setOf k0; let d2 ← setOf k1
      match merge Γ.traits d1 d2 with
      | some m => pure (.ty (.coll m))
      | none => .ill
    | .BIGPR => do
      let k ← kid 0
      if isEmptyLit k then .ill else
      let d ← setOf k
      let idx ← indicesOf e
      if d.isAny then pure (.ty Ty.emptySet) else
      match d with
      | .tuple cs =>
        match pick cs idx with
        | some (c :: cs') => pure (.ty (.coll (Ty.tupleOf (c :: cs'))))
        | _ => .ill
      | _ => .ill
    | .SMALLPR => do
      let k ← kid 0
      if isEmptyLit k then .ill else
      let t ← tyOf k
      let idx ← indicesOf e
      if t.isAny then pure (.ty t) else
      match t with
      | .tuple cs =>
        match pick cs idx with
        | some (c :: cs') => pure (.ty (Ty.tupleOf (c :: cs')))
        | _ => .ill
      | _ => .ill
    | .REDUCE => do
      let k ← kid 0
      if isEmptyLit k then .ill else
      let t ← tyOf k
      if t.isAny then pure (.ty Ty.emptySet) else
      match t with
      | .coll (.coll b) => pure (.ty (.coll b))
      | .coll b => if b.isAny then pure (.ty Ty.emptySet) else .ill
      | _ => .ill
    | .FILTER => do
      let idx ← indicesOf e
      let nk := e.kids.length
      if nk < 2 then .ill else
      let params := e.kids.take (nk - 1)
      let argT ← tyOf (← kid (nk - 1))
      let pts ← inferTys Γ n Δ params
      if idx.isEmpty then .ill else
      if pts.length != idx.length && pts.length != 1 then .ill else
      let anyArg := argT.isAny || (match argT with | .coll b => b.isAny | _ => false)
      if anyArg then pure (.ty Ty.emptySet) else
      match argT with
      | .coll (.tuple cs) =>
        match pick cs idx with
        | none => .ill
        | some bases =>
          if pts.length == idx.length then
            -- one parameter per index: parameter i is a set of candidates for component i
            let okAll := (pts.zip bases).all fun (pt, b) =>
              match pt with | .coll pb => compat Γ.traits b pb | _ => false
            if okAll then pure (.ty argT) else .ill
          else
            -- a single parameter for several indices: a set of tuples
            match pts with
            | [pt] => if pt.isColl && compat Γ.traits (.coll (Ty.tupleOf bases)) pt then pure (.ty argT) else .ill
            | _ => .ill
      | _ => .ill
    | .NT_FUNC_CALL => do
      let f ← nameOf (← kid 0)
      match lookup Γ.types f, lookup Γ.funcs f with
      | some ft, some decl =>
        let ats ← inferTys Γ n Δ (e.kids.drop 1)
        if ats.length != decl.length then .ill else
        let cons := (decl.zip ats).foldl (fun acc (d, a) =>
          match acc, matchArg Γ.traits (depthTy d.2 + 1) d.2 a with
          | some l, some l' => some (l ++ l')
          | _, _ => none) (some [])
        match cons with
        | none => .ill
        | some cs =>
          match solve Γ.traits cs [] with
          | none => .ill
          | some σ =>
            match ft with
            | .logic => pure .logic
            | .ty t => pure (.ty (instantiate f σ (depthTy t + 1) t))
      | _, _ => .ill
    | _ => .ill

/-- types of a list of set-typed operands, each de-booleaned -/
def inferSets (Γ : Ctx) : Nat → Env → List Ast → IR (List Ty)
  | 0, _, _ => .unknown
  | n+1, Δ, ks =>
    match ks with
    | [] => pure []
    | k :: ks => do
      let t ← infer Γ n Δ k; let t ← needTy t; let d ← debool t
      let ds ← inferSets Γ n Δ ks
      pure (d :: ds)

def inferTys (Γ : Ctx) : Nat → Env → List Ast → IR (List Ty)
  | 0, _, _ => .unknown
  | n+1, Δ, ks =>
    match ks with
    | [] => pure []
    | k :: ks => do
      let t ← infer Γ n Δ k; let t ← needTy t
      let ts ← inferTys Γ n Δ ks
      pure (t :: ts)

/-- the blocks of an imperative expression, left to right; declarations extend the scope -/
def inferBlocks (Γ : Ctx) : Nat → Env → List Ast → IR Env
  | 0, _, _ => .unknown
  | n+1, Δ, bs =>
    match bs with
    | [] => pure Δ
    | b :: bs =>
      match b.id with
      | .ITERATE => do
        match b.kid 0, b.kid 1 with
        | some decl, some dom =>
          let t ← infer Γ n Δ dom; let t ← needTy t; let d ← debool t
          let Δ' ← bindDecl n Δ decl d
          inferBlocks Γ n Δ' bs
        | _, _ => .ill
      | .ASSIGN => do
        match b.kid 0, b.kid 1 with
        | some decl, some ex =>
          let t ← infer Γ n Δ ex; let t ← needTy t
          let Δ' ← bindDecl n Δ decl t
          inferBlocks Γ n Δ' bs
        | _, _ => .ill
      | _ => do
        let _ ← infer Γ n Δ b
        inferBlocks Γ n Δ bs
end

/-- argument declarations of a function definition, left to right -/
def inferArgs (Γ : Ctx) (fuel : Nat) : Env → List Ast → IR (Env × List (String × Ty))
  | Δ, [] => pure (Δ, [])
  | Δ, d :: ds => do
    match d.kid 0, d.kid 1 with
    | some v, some dom =>
      let t ← infer Γ fuel { Δ with fd := true } dom
      let t ← needTy t
      let dt ← debool t
      let x ← nameOf v
      if Δ.has x then .ill else
      let (Δ', rest) ← inferArgs Γ fuel (Δ.add x dt) ds
      pure (Δ', (x, dt) :: rest)
    | _, _ => .ill

/-- an expression or a function definition -/
def inferDef (Γ : Ctx) (fuel : Nat) (e : Ast) : IR (ExprTy × List (String × Ty)) :=
  if e.id == .NT_FUNC_DEFINITION then
    match e.kid 0, e.kid 1 with
    | some args, some body => do
      let (Δ, decl) ← inferArgs Γ fuel {} args.kids
      let t ← infer Γ fuel { Δ with fd := false } body
      pure (t, decl)
    | _, _ => .ill
  else do
    let t ← infer Γ fuel {} e
    pure (t, [])

def depth : Ast → Nat
  | .node _ _ _ _ ks => 1 + go ks
where go : List Ast → Nat
  | [] => 0
  | k :: ks => max (depth k) (go ks)

def size : Ast → Nat
  | .node _ _ _ _ ks => 1 + go ks
where go : List Ast → Nat
  | [] => 0
  | k :: ks => size k + go ks

inductive Verdict where
  | ok (t : ExprTy) (args : List (String × Ty))
  | ill
  | unknown

/-- whole input: an expression, a function definition, or a global declaration -/
def inferTop (Γ : Ctx) (e : Ast) : Verdict :=
  let fuel := 2 * size e + 8
  let r : IR (ExprTy × List (String × Ty)) :=
    match e.id with
    | .PUNC_DEFINE =>
      match e.kids with
      | [nm] => do let x ← nameOf nm; pure (.ty (.coll (.base x)), [])
      | [_, ex] => inferDef Γ fuel ex
      | _ => .ill
    | .PUNC_STRUCT =>
      match e.kids with
      | [_, ex] =>
        if !structShape (depth ex + 1) ex then .ill else do
          let t ← infer Γ fuel {} ex
          match t with
          | .ty (.coll b) => pure (.ty b, [])
          | _ => .ill
      | _ => .ill
    | _ => inferDef Γ fuel e
  match r with
  | .ok (t, args) => .ok t args
  | .ill => .ill
  | .unknown => .unknown

end CCVerif.Spec
