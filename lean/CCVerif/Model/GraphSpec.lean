import CCVerif.Model.Graph
/-!
Specification side of C14: the mathematical digraph `(V, E)` with `E` a list of uid pairs,
paths as an inductive relation, and the abstract effect of every update operation.
(Moved here from `Properties/C14.lean` so that lemma files can import it.)
-/
namespace CCVerif.Graph

/-! ## the mathematical digraph -/

/-- reflexive-transitive reachability along edges of `E` -/
inductive Reach (E : List (Nat × Nat)) : Nat → Nat → Prop
  | refl (a : Nat) : Reach E a a
  | step {a b c : Nat} : (a, b) ∈ E → Reach E b c → Reach E a c

/-- reachability by a path of length ≥ 1 -/
def ReachPlus (E : List (Nat × Nat)) (a c : Nat) : Prop := ∃ b, (a, b) ∈ E ∧ Reach E b c

def Cyclic (E : List (Nat × Nat)) : Prop := ∃ v, ReachPlus E v v

/-- `a` and `b` lie on a common cycle (same SCC, and that SCC contains a cycle) -/
def SameLoop (E : List (Nat × Nat)) (a b : Nat) : Prop := ReachPlus E a b ∧ ReachPlus E b a

/-- abstract effect of an update on `(V, E)` (as sets) -/
def specV (V : List Nat) : Op → List Nat
  | .addItem u => u :: V
  | .eraseItem u => V.filter (· ≠ u)
  | .addConnection s d => s :: d :: V
  | .setItemInputs u srcs => u :: (srcs ++ V)
  | .clear => []

def specE (E : List (Nat × Nat)) : Op → List (Nat × Nat)
  | .addItem _ => E
  | .eraseItem u => E.filter (fun e => e.1 ≠ u ∧ e.2 ≠ u)
  | .addConnection s d => (s, d) :: E
  | .setItemInputs u srcs => srcs.map (·, u) ++ E.filter (fun e => e.2 ≠ u)
  | .clear => []

/-- the argument of `SetItemInputs` is a `std::unordered_set`: no duplicates -/
def WfOp : Op → Prop
  | .setItemInputs _ srcs => srcs.Nodup
  | _ => True
def WfOps (ops : List Op) : Prop := ∀ op ∈ ops, WfOp op

end CCVerif.Graph
