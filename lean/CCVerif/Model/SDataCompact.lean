/-
Model of ccl/rslang/src/SDataCompact.cpp (C16): `SDCompact::CreateHeader`, the `Packer`
(`Pack`, `CreateCompactFrom`, `AddElementData`, `AddTupleData`, `AddBoolData`, `AddSet`,
`AddEmpty`) and the `Unpacker` (`Unpack`, `UnpackFor`, `UnpackBasic`, `UnpackTuple`,
`UnpackBool`, `SkipEmpty`, `ReadElementInto`, `UnpackSet`), together with the part of
ccl/rslang/src/StructuredData.cpp they rely on (`Compare`, `SDEnumSet::AddElement`,
`Factory::Tuple`, `CheckCompatible`).

Line-by-line transcription: each definition names the C++ it follows.  Cells are `Int`
(`int32_t` in the C++; the harness feeds `int32_t` values only), cursors are `Nat` (`size_t`).
Every access the C++ does without a check of its own (`.at()`, `back()`, `--pos_x` on a
`size_t`, `Factory::Tuple` on no components, `type.T()` / `type.B()` through `*std::get_if`)
is an explicit outcome (`Res.fault …` / `Option.none` of the packer), never a default value.
-/
namespace CCVerif.SDC

/-- `rslang::Typification`: `EchelonBase` / `EchelonTuple` / `EchelonBool`. -/
inductive Ty where
  | base (id : String)
  | tuple (cs : List Ty)
  | coll (b : Ty)

/-- `object::StructuredData`: `SDBasicElement` / `SDTuple` / `SDSet`. The list of a set is the
iteration order `begin() … end()` of the C++ object. -/
inductive Val where
  | e (n : Int)
  | t (cs : List Val)
  | s (xs : List Val)

/-- `ccl::Comparison`. -/
inductive Cmp where
  | less | equal | greater | incomparable
deriving DecidableEq, Repr

/-! ### StructuredData.cpp: `Compare` -/

mutual
/-- `StructuredData::Compare` → `SDBasicElement::Compare` / `SDTuple::Compare` /
`SDSet::Compare`. (The pointer short cut `data == rhs.data ⇒ EQUAL` agrees with the structural
result, see `cmp_refl`.) -/
def cmp : Val → Val → Cmp
  | .e a, .e b => if a = b then .equal else if a < b then .less else .greater
  | .t as, .t bs => if as.length ≠ bs.length then .incomparable else cmpSeq as bs
  | .s as, .s bs =>
    if as.length > bs.length then .greater
    else if as.length < bs.length then .less
    else cmpSeq as bs
  | .e _, .t _ => .incomparable
  | .e _, .s _ => .incomparable
  | .t _, .e _ => .incomparable
  | .t _, .s _ => .incomparable
  | .s _, .e _ => .incomparable
  | .s _, .t _ => .incomparable
/-- the element-wise loop shared by `SDTuple::Compare` and `SDSet::Compare`: the first result
that is not `EQUAL` is returned. Only called on sequences of equal length. -/
def cmpSeq : List Val → List Val → Cmp
  | a :: as, b :: bs =>
    match cmp a b with
    | .equal => cmpSeq as bs
    | r => r
  | [], _ => .equal
  | _ :: _, [] => .equal
end

/-- `StructuredData::operator<` (`Compare == LESS`). -/
def lt (a b : Val) : Bool := cmp a b == .less

/-- `SDEnumSet::AddElement` = `std::set<StructuredData>::insert(x).second`, the set being the
sorted sequence of its elements: `none` = an equivalent element is already there (`false`). -/
def insert (x : Val) : List Val → Option (List Val)
  | [] => some [x]
  | a :: rest =>
    if lt a x then (insert x rest).map (a :: ·)
    else if lt x a then some (x :: a :: rest)
    else none

/-- `Factory::Set`-like canonical order test: strictly ascending under `operator<`, every pair. -/
def sorted : List Val → Bool
  | [] => true
  | a :: rest => rest.all (fun b => lt a b) && sorted rest

/-! ### Typification.h `ConstVisit` with the three visitors of SDataCompact.cpp -/

mutual
/-- `SDCompact::CreateHeader`: pre-order visit; basic → its id, collection → "B", tuple → nothing. -/
def header : Ty → List String
  | .base id => [id]
  | .coll b => "B" :: header b
  | .tuple cs => headerL cs
def headerL : List Ty → List String
  | [] => []
  | c :: cs => header c ++ headerL cs
end

mutual
/-- `Unpacker::SkipEmpty`: the visitor does `++pos_y` on every basic / collection node. -/
def skipEmpty : Ty → Nat → Nat
  | .base _, y => y + 1
  | .coll b, y => skipEmpty b (y + 1)
  | .tuple cs, y => skipEmptyL cs y
def skipEmptyL : List Ty → Nat → Nat
  | [], y => y
  | c :: cs, y => skipEmptyL cs (skipEmpty c y)
end

/-! ### Packer -/

abbrev Row := List Int
abbrev Table := List Row

/-- `SDCompact::unknownCount`. -/
def unknownCount : Int := 10000000

/-- `Packer::compact` is kept with its LAST row first: `back()` is the head, `emplace_back(row)`
is `cons`, `pop_back()` is `tail`. `none` = `back()` of an empty vector. -/
abbrev PSt := List Row

/-- `compact.back().emplace_back(x)`. -/
def emplaceCell (x : Int) : PSt → Option PSt
  | r :: rest => some ((r ++ [x]) :: rest)
  | [] => none

mutual
/-- the visitor of `Packer::AddEmpty`: one `0` per basic / collection node, pre-order. -/
def addEmptyV : Ty → PSt → Option PSt
  | .base _, st => emplaceCell 0 st
  | .coll b, st =>
    match emplaceCell 0 st with
    | some st' => addEmptyV b st'
    | none => none
  | .tuple cs, st => addEmptyVL cs st
def addEmptyVL : List Ty → PSt → Option PSt
  | [], st => some st
  | c :: cs, st =>
    match addEmptyV c st with
    | some st' => addEmptyVL cs st'
    | none => none
end

mutual
/-- `Packer::CreateCompactFrom`: dispatch on the structure of the DATA.
`none` = undefined behaviour / assertion of the C++ (`type.T()`, `type.B()` on the wrong
alternative, `assert(type.IsCollection())`, `factors.at()` out of range). -/
def packVal : Val → Ty → PSt → Option PSt
  | .e n, _, st => emplaceCell n st                    -- AddElementData (type not inspected)
  | .t cs, τ, st =>                                    -- AddTupleData
    match τ with
    | .tuple ts => packTuple cs ts st
    | _ => none
  | .s xs, τ, st =>                                    -- AddBoolData
    if xs.isEmpty then
      match τ with                                     -- AddEmpty: assert(type.IsCollection())
      | .coll _ => addEmptyV τ st
      | _ => none
    else
      match τ with                                     -- AddSet
      | .coll b =>
        match emplaceCell (xs.length : Int) st with    -- emplace_back(Cardinality())
        | none => none
        | some st1 =>
          match st1 with
          | [] => none
          | baseRowCopy :: _ =>
            match packElems xs b baseRowCopy st1 with
            | none => none
            | some st2 =>
              match st2 with                           -- compact.pop_back()
              | [] => none
              | _ :: st3 => some st3
      | _ => none
/-- the loop of `AddTupleData` over `tuple.T().Arity()` components of the data. -/
def packTuple : List Val → List Ty → PSt → Option PSt
  | [], _, st => some st
  | _ :: _, [], _ => none                              -- type.T().Component(index): factors.at() throws
  | c :: cs, t :: ts, st =>
    match packVal c t st with
    | some st' => packTuple cs ts st'
    | none => none
/-- the loop of `AddSet`: pack the element, then `compact.emplace_back(baseRowCopy)`. -/
def packElems : List Val → Ty → Row → PSt → Option PSt
  | [], _, _, st => some st
  | x :: xs, b, baseRowCopy, st =>
    match packVal x b st with
    | some st' => packElems xs b baseRowCopy (baseRowCopy :: st')
    | none => none
end

/-- `Packer::Pack` (`compact` starts as one empty row). -/
def pack (v : Val) (τ : Ty) : Option Table :=
  (packVal v τ [[]]).map List.reverse

/-! ### Unpacker -/

/-- what the C++ does besides returning: `oob` = `std::out_of_range` from `.at()`;
`assertTuple` = `Factory::Tuple` on an empty component list (`assert`, then `*begin()`);
`underflow` = `--pos_x` at 0; `fuel` = the model's loop bound exhausted. -/
inductive Fault where
  | oob | assertTuple | underflow | fuel
deriving DecidableEq, Repr

inductive Res (α : Type) where
  | ok (a : α)
  | none
  | fault (k : Fault)

/-- `input.at(x).at(y)`. -/
def cellAt (T : Table) (x y : Nat) : Option Int :=
  match T[x]? with
  | some r => r[y]?
  | none => none

/-- negation of the guard of `UnpackFor`: `size(input) <= pos_x || size(input.at(pos_x)) <= pos_y`. -/
def inBounds (T : Table) (x y : Nat) : Bool :=
  match T[x]? with
  | some r => y < r.length
  | none => false

/-- `Factory::Tuple`: one component is returned as it is. -/
def mkTuple : List Val → Res Val
  | [] => .fault .assertTuple
  | [v] => .ok v
  | v :: w :: vs => .ok (.t (v :: w :: vs))

/-- value, `pos_x`, `pos_y`. -/
abbrev Cur (α : Type) := α × Nat × Nat

/-- leaving a loop of `UnpackSet`: known count → `count == 0 ? (--pos_x, result) : nullopt`;
unknown count → `--pos_x, result`. -/
def loopExit (unknown : Bool) (count : Int) (x y : Nat) (acc : List Val) : Res (Cur (List Val)) :=
  if unknown ∨ count = 0 then
    (if x = 0 then .fault .underflow else .ok (acc, x - 1, y))
  else .none

/-- the two `for` loops of `UnpackSet` (`unknown = false`:
`for (; pos_x < size(input) && count > 0; ++pos_x, --count)`; `unknown = true`:
`for (; pos_x < size(input); ++pos_x)`), body `pos_y = base_y + 1; ReadElementInto(...)`.
`dec` is `UnpackFor(baseType)`; the first argument bounds the number of iterations. -/
def setLoop (T : Table) (dec : Nat → Nat → Res (Cur Val)) (baseY : Nat) (unknown : Bool) :
    Nat → Int → Nat → Nat → List Val → Res (Cur (List Val))
  | 0, count, x, y, acc =>
    if x < T.length ∧ (unknown ∨ count > 0) then .fault .fuel
    else loopExit unknown count x y acc
  | fuel + 1, count, x, y, acc =>
    if x < T.length ∧ (unknown ∨ count > 0) then
      match dec x (baseY + 1) with
      | .ok (v, x', y') =>
        match insert v acc with
        | some acc' =>
          setLoop T dec baseY unknown fuel (if unknown then count else count - 1) (x' + 1) y' acc'
        | none => .none
      | .none => .none
      | .fault k => .fault k
    else loopExit unknown count x y acc

mutual
/-- `Unpacker::UnpackFor` with `UnpackBasic`, `UnpackBool` (+ `UnpackSet`) and `UnpackTuple`
inlined at their only call sites. -/
def unpackFor (T : Table) : Ty → Nat → Nat → Res (Cur Val)
  | .base _, x, y =>
    if inBounds T x y then
      match cellAt T x y with                              -- UnpackBasic
      | some c => .ok (.e c, x, y + 1)
      | none => .fault .oob
    else .none
  | .coll b, x, y =>
    if inBounds T x y then
      match cellAt T x y with                              -- UnpackBool
      | none => .fault .oob
      | some c =>
        if c = 0 then .ok (.s [], x, skipEmpty (.coll b) y)
        else
          match cellAt T x y with                          -- UnpackSet: input.at(pos_x).at(base_y)
          | none => .fault .oob
          | some count =>
            match setLoop T (fun x' y' => unpackFor T b x' y') y (count == unknownCount)
                    T.length count x y [] with
            | .ok (vs, x', y') => .ok (.s vs, x', y')
            | .none => .none
            | .fault k => .fault k
    else .none
  | .tuple cs, x, y =>
    if inBounds T x y then
      match unpackTuple T cs x y with                      -- UnpackTuple
      | .ok (vs, x', y') =>
        match mkTuple vs with
        | .ok v => .ok (v, x', y')
        | .none => .none
        | .fault k => .fault k
      | .none => .none
      | .fault k => .fault k
    else .none
/-- the loop of `UnpackTuple` over the components of the type. -/
def unpackTuple (T : Table) : List Ty → Nat → Nat → Res (Cur (List Val))
  | [], x, y => .ok ([], x, y)
  | c :: cs, x, y =>
    match unpackFor T c x y with
    | .ok (v, x', y') =>
      match unpackTuple T cs x' y' with
      | .ok (vs, x'', y'') => .ok (v :: vs, x'', y'')
      | .none => .none
      | .fault k => .fault k
    | .none => .none
    | .fault k => .fault k
end

/-- `Unpacker::Unpack`: `UnpackFor(type)`, then `pos_x + 1 != size(input)` → `nullopt`. -/
def unpack (T : Table) (τ : Ty) : Res Val :=
  match unpackFor T τ 0 0 with
  | .ok (v, x, _) => if x + 1 ≠ T.length then .none else .ok v
  | .none => .none
  | .fault k => .fault k

/-! ### Compatibility (independent notion the theorems are stated against) -/

mutual
/-- full structural compatibility of a value with a typification: every element of every set
(not only the first one, as `CheckCompatible` tests), tuples component-wise with equal arity,
sets strictly ascending in the order of `Compare` (hence duplicate-free). -/
def compat : Val → Ty → Bool
  | .e _, .base _ => true
  | .t cs, .tuple ts => compatL cs ts
  | .s xs, .coll b => compatAll xs b && sorted xs
  | .e _, .tuple _ => false
  | .e _, .coll _ => false
  | .t _, .base _ => false
  | .t _, .coll _ => false
  | .s _, .base _ => false
  | .s _, .tuple _ => false
def compatL : List Val → List Ty → Bool
  | [], [] => true
  | c :: cs, t :: ts => compat c t && compatL cs ts
  | [], _ :: _ => false
  | _ :: _, [] => false
def compatAll : List Val → Ty → Bool
  | [], _ => true
  | x :: xs, b => compat x b && compatAll xs b
end

mutual
/-- `CheckCompatible` of StructuredData.cpp (looks at the first element of a set only). -/
def checkCompatible : Val → Ty → Bool
  | .e _, .base _ => true
  | .t cs, .tuple ts => cs.length == ts.length && checkCompatibleL cs ts
  | .s [], .coll _ => true
  | .s (x :: _), .coll b => checkCompatible x b
  | .e _, .tuple _ => false
  | .e _, .coll _ => false
  | .t _, .base _ => false
  | .t _, .coll _ => false
  | .s _, .base _ => false
  | .s _, .tuple _ => false
def checkCompatibleL : List Val → List Ty → Bool
  | c :: cs, t :: ts => checkCompatible c t && checkCompatibleL cs ts
  | [], _ => true
  | _ :: _, [] => true
end

mutual
/-- a typification as the type checker produces it: every tuple has at least two components
(`Typification::Tuple` returns the single factor itself). -/
def Ty.wf : Ty → Bool
  | .base _ => true
  | .coll b => b.wf
  | .tuple cs => decide (2 ≤ cs.length) && Ty.wfL cs
def Ty.wfL : List Ty → Bool
  | [] => true
  | c :: cs => c.wf && Ty.wfL cs
end

mutual
/-- no set inside the value has exactly `unknownCount` elements (its cardinality cell would be
read back as the marker). -/
def noMarker : Val → Bool
  | .e _ => true
  | .t cs => noMarkerL cs
  | .s xs => decide ((xs.length : Int) ≠ unknownCount) && noMarkerL xs
def noMarkerL : List Val → Bool
  | [] => true
  | c :: cs => noMarker c && noMarkerL cs
end

end CCVerif.SDC
