import CCVerif.Model.SData
/-!
C15: a pinned record of `SDDecartian::UpdateSize` as it was before the fix 9d0a596 of /repo
(`SET_INFINITY / factorSize > count`, now `>=`).  Not used by the model (`prodCount` in Model/SData.lean
follows the fixed code); kept so that the old, order dependent behaviour stays a closed fact
(`C15.pinned_product_size_order_counterexample`).
-/
namespace CCVerif.SData

/-- the loop of `SDDecartian::UpdateSize` before 9d0a596: the step is taken only when
`(count + 1) * factorSize ≤ SET_INFINITY`. -/
def prodCountPinned : List Nat → Nat → Option Nat
  | [], count => some count
  | fs :: rest, count =>
    if fs = 0 then none
    else if SET_INFINITY / fs > count then prodCountPinned rest (count * fs)
    else prodCountPinned rest SET_INFINITY

end CCVerif.SData
