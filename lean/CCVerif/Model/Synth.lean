import CCVerif.Model.Equate
/-!
Model of `ops::BinarySynthes` (ccl/core/src/ops/RSOperations.cpp) and of `RSCore::ResetAliases`
(ccl/core/src/semantic/rscore/RSCore.cpp) — C12: the composition
copy of operand 1 → `MergeWith(operand 2)` → `Equate(TranslateEquations())` (or `DeleteDuplicates()`
for an empty table) → `ResetAliases()` → `translations[i].SubstituteValues(equatedTranslations)`.

```
PrecreateResult:  resultSchema = copy(operand1);  translations = { Identity(), MergeWith(operand2) }
ResetResult:      empty table ⇒ correct;  a key not in operand1 or a value not in operand2 ⇒ not correct;
                  else isCorrect = resultSchema->Ops().IsEquatable(TranslateEquations())
TranslateEquations: result = equations; result.SubstituteValues(translations[1]);
                  every entry whose key is not a base set, whose value is a base notion and whose kinds differ
                  is swapped (`SwapKeyVal`: refused when the value is already a key; keepHier ⇄ keepDel)
Execute:          not correct ⇒ nullptr
                  equated = empty table ? DeleteDuplicates() : Equate(TranslateEquations()).value()
                  ResetAliases();  translations[1].SubstituteValues(equated);  translations[0].SubstituteValues(equated)
```

`ResetAliases`: the name generator is cleared; in list order every constituent gets
`NewNameFor(kind)` (a generated name that is taken is the outcome `none`, see `Model/Merge.lean`);
then aliases and all mentions are substituted simultaneously.

The equation table is the list of `Equate.Entry` (iteration order of the hash map: immaterial for
the outcome except for the texts when two equations share their value, see `Model/Equate.lean`).
The semantic part of `IsEquatable` is the input `semOk`, as in `Model/Equate.lean`.
-/
namespace CCVerif.Synth
open CCVerif.Translation CCVerif.Dedup CCVerif.Merge CCVerif.Equate

/-! ### `RSCore::ResetAliases` -/

structure RState where
  taken : List String := []
  subs : List (String × String) := []
deriving Repr

def resetStep (g : Names) (st : RState) (c : Cst) : Option RState :=
  let n := g.newName st.taken c.kind
  if st.taken.contains n then none
  else some { taken := st.taken ++ [n], subs := if c.alias ≠ n then st.subs ++ [(c.alias, n)] else st.subs }

/-- `Schema::SubstitueAliases` + `Thesaurus::SubstitueAliases`: the alias field and every mention -/
def substAliases (f : String → String) (c : Cst) : Cst :=
  { (c.rename f) with alias := f c.alias }

def resetAliases (g : Names) (l : Schema) : Option Schema :=
  match l.foldlM (resetStep g) {} with
  | none => none
  | some st => some (l.map (substAliases (ctxFn st.subs)))

/-! ### `EquationOptions::SwapKeyVal`, `BinarySynthes::TranslateEquations` -/

def flipMode (m : Nat) : Nat := if m = 3 then 3 else if m = 1 then 2 else 1

def swapKeyVal (t : List Entry) (key : Nat) : List Entry :=
  match t.find? (·.key == key) with
  | none => t
  | some e =>
    if t.any (·.key == e.value) then t
    else t.filter (·.key != key) ++ [{ key := e.value, value := key, mode := flipMode e.mode, arg := e.arg }]

def needsSwap (m : Schema) (e : Entry) : Bool :=
  match findUid m e.key, findUid m e.value with
  | some k, some v => k.kind != v.kind && !isBaseSet k.kind && isBaseNotion v.kind
  | _, _ => false

def translateEquations (m : Schema) (tr2 : Tr) (eqs : List Entry) : List Entry :=
  let eqs1 := eqs.map fun e => { e with value := (lookup tr2 e.value).getD e.value }
  ((eqs1.filter (needsSwap m)).map (·.key)).foldl swapKeyVal eqs1

/-! ### `BinarySynthes` -/

inductive Res where
  /-- a generator handed out something taken / out of fuel: never (see the theorems) -/
  | stuck
  /-- `IsCorrectlyDefined() == false`, `Execute()` returns `nullptr` -/
  | refused
  /-- the result schema and `Translations()` -/
  | ok (r : Schema) (tr1 tr2 : Tr)
deriving Repr, DecidableEq

def synth (g : Names) (freshs : List Nat) (semOk : Bool) (op1 op2 : Schema) (eqs : List Entry) : Res :=
  match mergeWith g freshs op1 op2 with
  | none => .stuck
  | some (m, trM) =>
    let tr1 := identity (uids op1)
    let finish (e : Schema) (trE : Tr) : Res :=
      match resetAliases g e with
      | none => .stuck
      | some r => .ok r (substituteValues tr1 trE) (substituteValues trM trE)
    if eqs.isEmpty then
      match dedup m with
      | none => .stuck
      | some (e, trE) => finish e trE
    else if !(eqs.all fun e => (uids op1).contains e.key && (uids op2).contains e.value) then .refused
    else
      match equate semOk m (translateEquations m trM eqs) with
      | none => .refused
      | some (e, trE) => finish e trE

end CCVerif.Synth
