import CCVerif.Model.Dedup
/-!
Model of `rsOperationFacet::MergeWith` (ccl/core/src/semantic/rsform/rsOperationFacet.cpp) — C12,
on the schema content of `Model/Dedup.lean` (constituents in `List()` order, definitions and texts
as token sequences).

```
for (const auto entity : schema2.List()) insertionOrder.emplace_back(entity);
const auto inserted = core.InsertCopy(insertionOrder, schema2.Core());
for (index …) equateParams.Insert(insertionOrder.at(index), inserted.at(index));
return equateParams;
```

`RSCore::InsertCopy(const VectorOfEntities& input, const RSCore& source)`
(ccl/core/src/semantic/rscore/RSCore.cpp):

```
for (const auto uid : input) {
  const auto newID = identifiers.RegisterID(uid, source.GetRS(uid).alias, source.GetRS(uid).type);
  … schema.Load / thesaurus.Load of the copy with newID.uid, newID.alias, content untouched …
  cstList.Insert(newID.uid);  result.emplace_back(newID.uid);
  if (source.GetRS(uid).alias != newID.alias) replMap.insert({ source.GetRS(uid).alias, newID.alias });
}
if (!std::empty(replMap)) for (const auto uid : result) Translate(uid, CreateTranslator(replMap));
```

`identifiers.RegisterID(uid, alias, type)` keeps the uid unless it is taken (then
`EntityGenerator::NewUID()`: a random uid that is not taken — an explicit input here, the list
`freshs`; a supplied uid that is taken is the outcome `none`, the generator never returns one) and
keeps the alias unless `NeedNameChangeFor` (taken, or not a name of that kind), then
`CstNameGenerator::NewNameFor(type)`. The uid goes into the list at
`CstList::InsertPositionFor(type)`: a basic kind (base, constant, structured) after the last
constituent whose kind is not greater, in front when there is none; every other kind at the end.

The identity manager is taken to be in step with the content: "taken" uids / names are those of
the constituents present (`RSCore::Erase` frees both, every insertion registers both).

The name generator is a parameter (`Names`): `newName taken kind` and `okFor alias kind`
(`GetTypeForName(alias) == kind`). The driver instantiates it with the real rule (kind letter and
the least free index from 1). `NewNameFor` loops until the name is not taken: a generated name
that is taken is the outcome `none` (as for uids), so the theorems need no hypothesis about the rule.

`replMap.insert` does not overwrite: the association list is scanned from the front (`ctxFn`),
entries are appended.

`mergeWithPinned` (end of the file) is the code before repair d6a760d: per-constituent
`InsertCopy(target, source)` — which renames the copy's own alias inside its content — followed by
the operand-wide translation; kept for the closed counterexample only.
-/
namespace CCVerif.Merge
open CCVerif.Translation CCVerif.Dedup

structure Names where
  newName : List String → Nat → String
  okFor : String → Nat → Bool

/-- `IsBasic(CstType)`: base = 1, constant = 2, structured = 4 -/
def isBasic (k : Nat) : Bool := k == 1 || k == 2 || k == 4

/-- insert `c` after the last element satisfying `p`; `none` when there is no such element -/
def insertAfterLast (p : Cst → Bool) (c : Cst) : Schema → Option Schema
  | [] => none
  | x :: xs =>
    match insertAfterLast p c xs with
    | some r => some (x :: r)
    | none => if p x then some (x :: c :: xs) else none

/-- `CstList::Insert` -/
def listInsert (l : Schema) (c : Cst) : Schema :=
  if isBasic c.kind then (insertAfterLast (fun x => x.kind ≤ c.kind) c l).getD (c :: l)
  else l ++ [c]

structure MState where
  a : Schema
  /-- `replMap`: operand alias ↦ new alias, changed aliases only -/
  repl : List (String × String) := []
  /-- `result`: the uids of the copies, in insertion order -/
  inserted : List Nat := []
  freshs : List Nat
deriving Repr

/-- `CreateTranslator(map)` completed by the identity -/
def ctxFn (ctx : List (String × String)) (x : String) : String :=
  ((ctx.find? (·.1 == x)).map (·.2)).getD x

/-- the alias `RegisterID` gives: kept unless `NeedNameChangeFor` -/
def newAlias (g : Names) (a : Schema) (c2 : Cst) : String :=
  if (aliases a).contains c2.alias || !g.okFor c2.alias c2.kind then g.newName (aliases a) c2.kind
  else c2.alias

/-- the body of the loop of the bulk `InsertCopy` once the uid is settled -/
def finish (g : Names) (st : MState) (c2 : Cst) (uid' : Nat) (freshs : List Nat) : MState :=
  { a := listInsert st.a { c2 with uid := uid', alias := newAlias g st.a c2 },
    repl := if c2.alias ≠ newAlias g st.a c2 then st.repl ++ [(c2.alias, newAlias g st.a c2)] else st.repl,
    inserted := st.inserted ++ [uid'],
    freshs := freshs }

/-- one iteration of the loop of the bulk `InsertCopy` -/
def mergeStep (g : Names) (st : MState) (c2 : Cst) : Option MState :=
  if (aliases st.a).contains (newAlias g st.a c2) then none   -- `NewNameFor` loops until the name is free
  else if (uids st.a).contains c2.uid then
    match st.freshs with
    | [] => none
    | f :: fs => if (uids st.a).contains f then none else some (finish g st c2 f fs)
  else some (finish g st c2 c2.uid st.freshs)

/-- `MergeWith(schema2)`: the content afterwards and the returned translation -/
def mergeWith (g : Names) (freshs : List Nat) (a b : Schema) : Option (Schema × Tr) :=
  match b.foldlM (mergeStep g) { a := a, freshs := freshs } with
  | none => none
  | some st =>
    let r := if st.repl.isEmpty then st.a
      else st.a.map (fun s => if st.inserted.contains s.uid then s.rename (ctxFn st.repl) else s)
    some (r, ((uids b).zip st.inserted).foldl (fun t p => Translation.insert t p.1 p.2) [])

/-! ### the real name rule (used by the driver and the examples) -/

def kindLetter (k : Nat) : String :=
  match k with
  | 2 => "C" | 4 => "S" | 5 => "A" | 6 => "D" | 7 => "F" | 8 => "T" | 9 => "P" | _ => "X"

/-- `NewNameFor`: the least index from 1 whose name is free (at most `taken.length + 1` tries) -/
def firstFree (taken : List String) (letter : String) : Nat → Nat → String
  | 0, i => letter ++ toString i
  | fuel + 1, i => if taken.contains (letter ++ toString i) then firstFree taken letter fuel (i + 1) else letter ++ toString i

/-- `GetTypeForName(name) == kind`: the kind letter followed by digits only -/
def nameOkFor (name : String) (k : Nat) : Bool :=
  match name.toList with
  | c :: d :: ds => (k == 1 || k == 2 || (4 ≤ k && k ≤ 9)) && String.ofList [c] == kindLetter k && (d :: ds).all Char.isDigit
  | _ => false

def realNames : Names where
  newName taken k := firstFree taken (kindLetter k) taken.length 1
  okFor := nameOkFor

/-! ### the code before repair d6a760d (regression witness) -/

structure PState where
  a : Schema
  ctx : List (String × String) := []
  inserted : List Nat := []
  tr : Tr := []
  freshs : List Nat
deriving Repr

/-- `RSCore::InsertCopy(target, source)`: new identity, and the copy's own alias renamed inside its
content when the alias changed -/
def copyOfPinned (c2 : Cst) (uid' : Nat) (alias' : String) : Cst :=
  let c : Cst := { c2 with uid := uid', alias := alias' }
  if c2.alias ≠ alias' then c.rename (subst1 c2.alias alias') else c

def finishPinned (g : Names) (st : PState) (c2 : Cst) (uid' : Nat) (freshs : List Nat) : PState :=
  { a := listInsert st.a (copyOfPinned c2 uid' (newAlias g st.a c2)),
    ctx := st.ctx ++ [(c2.alias, newAlias g st.a c2)],
    inserted := st.inserted ++ [uid'],
    tr := Translation.insert st.tr c2.uid uid',
    freshs := freshs }

def mergeStepPinned (g : Names) (st : PState) (c2 : Cst) : Option PState :=
  if (aliases st.a).contains (newAlias g st.a c2) then none
  else if (uids st.a).contains c2.uid then
    match st.freshs with
    | [] => none
    | f :: fs => if (uids st.a).contains f then none else some (finishPinned g st c2 f fs)
  else some (finishPinned g st c2 c2.uid st.freshs)

def mergeWithPinned (g : Names) (freshs : List Nat) (a b : Schema) : Option (Schema × Tr) :=
  match b.foldlM (mergeStepPinned g) { a := a, freshs := freshs } with
  | none => none
  | some st =>
    some (st.a.map (fun s => if st.inserted.contains s.uid then s.rename (ctxFn st.ctx) else s), st.tr)

end CCVerif.Merge
