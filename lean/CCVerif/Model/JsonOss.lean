import CCVerif.Model.Json
import CCVerif.Model.Oss
/-
Model of the OSS DOCUMENT of ccl/core/src/JSON.cpp (C10): `to_json` / `from_json` of `oss::OSSchema`,
`ExtractPicts` / `LoadPicts`, `oss::Pict`, `oss::MediaLink`, `oss::GridPosition`, `oss::Grid`,
`oss::OperationHandle`, `src::Handle`, `ops::EquationOptions`, `ops::Equation`, `ops::TranslationData`,
`EntityTranslation`, and of what the loader calls: `OSSchema::LoadPict` (OSSchema.cpp),
`ossGraphFacet::LoadParent` / `EdgeList` (ossGraphFacet.cpp), `ossGridFacet::ClosestFreePos`.

## abstract content

`Oss` = what the writer reads from the object, field by field, in the order of the writer's iteration:

* `Oss.items` — one `Pict` per entry of `OSSchema::storage` with `Src()(uid)`, `Ops()(uid)`, `Grid()(uid)`;
* `Oss.rows`  — the graph facet (`items` / `graph`, index order) with the indices of a row resolved to
  pictogram identifiers: `(child, parents)`; `EdgeList()` lists the rows in index order.

Hash containers: `storage`, `grid`, the map of an `EntityTranslation` (equations, translations) are
`std::unordered_map`s. Their iteration order is NOT modelled: the content lists them in one order and
the writer model emits that order (`layout` = the grid in the order of `items`); the harness sorts these
arrays of the real document (items / layout by uid, equations by `operand1`, translation pairs by key)
before comparing. The loader model keeps document order. [The real order after a reload differs from the
order before it — see `Properties/C10.lean`, section OSS.]

Fields by the way the loader treats them:

| field | on load |
|---|---|
| `title`, `comment`, `sourceDomain`, `items`, `connections` | required (`at`) |
| `type` (`"oss"`), `layout`                          | written, never read (positions come from `items[i].position`) |
| `items[i].pictUID/dataType/title/alias/comment/position{row,column}` | required |
| `items[i].link` | optional (default empty link); written always; `address`, `subAddr` required inside |
| `items[i].attachedSource` | optional: default `Handle{}` (type `tba`, no name, hashes 0); written for every stored pictogram; four keys required inside |
| `items[i].attachedOperation` | optional: present = operation pictogram; `operationType/isBroken/isOutdated` required |
| `attachedOperation.options` | optional; `options.data` required inside, `options.type` written, never read; a repeated `operand1` keeps its first row (`emplace`) |
| `attachedOperation.translations` | optional; array of arrays of pairs; a repeated key keeps its first pair |
| enum strings (`dataType`, `resourceType`, `operationType`, `equationType`) | an unknown value (any JSON type) is read as the FIRST table entry — no exception (`NLOHMANN_JSON_SERIALIZE_ENUM`) |
| a `pictUID` that is already taken | replaced by `idGen.NewUID()` (random: `Env.fresh`); connections keep naming the first holder |
| a `position` that is already occupied | replaced by `ClosestFreePos(position)` |
| `connections[i]` = `[child, parent]` | `LoadParent`: ignored when `child == parent`, when the connection or its reverse exists; NOT checked: that child / parent are pictograms of `items`, that the child is an operation, the number of parents, cycles longer than 2 |

`ossFromJson … = .error (.format _)` = the C++ throws an `nlohmann::json::exception` (`at` on a missing key:
`out_of_range`; `get<T>` on a wrong JSON type: `type_error`) — the documented JSON format error;
`.error (.unmodelled _)` = the document is outside the modelled class: a number that is not an integer
`0 ≤ n` where an unsigned is read (nlohmann converts silently), a non-array where the code iterates,
a translation pair with fewer than two elements (`next(begin(*it))` is dereferenced unchecked).
-/
namespace CCVerif.JsonOss
open CCVerif.Json CCVerif.Translation
open CCVerif.Oss (Pos Pid OpType)

/-! ### enumerations (EnumJSON.hpp) -/

inductive DataType | tba | rsSchema
deriving DecidableEq, Repr, Inhabited
inductive SrcType | tba | rsDoc
deriving DecidableEq, Repr, Inhabited
inductive EqMode | keepHier | keepDel | createNew
deriving DecidableEq, Repr, Inhabited

def DataType.name : DataType → String | .tba => "tba" | .rsSchema => "schema"
def SrcType.name : SrcType → String | .tba => "tba" | .rsDoc => "rsDocument"
def opTypeName : OpType → String | .tba => "tba" | .merge => "rsMerge" | .synt => "rsSynt"
def EqMode.name : EqMode → String | .keepHier => "keepSecond" | .keepDel => "keepFirst" | .createNew => "createNew"

/-- `from_json` of the enum macro: first table entry whose JSON value equals `j`, else the first entry -/
def dataTypeOfJson : Json → DataType
  | .str "schema" => .rsSchema
  | _ => .tba
def srcTypeOfJson : Json → SrcType
  | .str "rsDocument" => .rsDoc
  | _ => .tba
def opTypeOfJson : Json → OpType
  | .str "rsMerge" => .merge
  | .str "rsSynt" => .synt
  | _ => .tba
def eqModeOfJson : Json → EqMode
  | .str "keepFirst" => .keepDel
  | .str "createNew" => .createNew
  | _ => .keepHier

/-! ### content -/

structure MediaLink where
  address : String := ""
  subAddr : String := ""
deriving DecidableEq, Repr, Inhabited

/-- `src::Handle` as far as the document stores it (`src`, the pointer, is not saved) -/
structure SrcHandle where
  name : String := ""
  type : SrcType := .tba
  coreHash : Nat := 0
  fullHash : Nat := 0
deriving DecidableEq, Repr, Inhabited

structure Equation where
  mode : EqMode := .keepHier
  arg : String := ""
deriving DecidableEq, Repr, Inhabited

/-- `EquationOptions`: (key, value, `PropsFor(key)`) in the iteration order of the translation -/
abbrev EqRows := List (Nat × Nat × Equation)

/-- `OperationHandle` -/
structure OpHandle where
  type : OpType := .tba
  broken : Bool := false
  outdated : Bool := false
  /-- `dynamic_cast<const EquationOptions*>(options.get())` (`none` = null) -/
  options : Option EqRows := none
  /-- `*translations` (`none` = null) -/
  translations : Option (List Tr) := none
deriving DecidableEq, Repr, Inhabited

/-- one stored pictogram with its facet entries -/
structure Pict where
  uid : Nat
  dataType : DataType := .rsSchema
  title : String := ""
  alias : String := ""
  comment : String := ""
  link : MediaLink := {}
  /-- `oss.Src()(uid)` (`none` = null: never for a stored pictogram) -/
  src : Option SrcHandle := some {}
  /-- `oss.Ops()(uid)` -/
  op : Option OpHandle := none
  /-- `oss.Grid()(uid).value()` -/
  pos : Pos := ⟨0, 0⟩
deriving DecidableEq, Repr, Inhabited

/-- the graph facet with indices resolved: items in index order, each with its parents -/
abbrev Rows := List (Pid × List Pid)

structure Oss where
  title : String := ""
  comment : String := ""
  domain : String := ""
  items : List Pict := []
  rows : Rows := []
deriving DecidableEq, Repr, Inhabited

/-- `ossGraphFacet::EdgeList` -/
def edgeList (g : Rows) : List (Pid × Pid) := g.flatMap fun r => r.2.map fun p => (r.1, p)

/-! ### writer -/

def MediaLink.toJson (l : MediaLink) : Json := .obj [("address", .str l.address), ("subAddr", .str l.subAddr)]

def Pos.toJson (p : Pos) : Json := .obj [("row", .num p.row), ("column", .num p.col)]

def SrcHandle.toJson (h : SrcHandle) : Json :=
  .obj [("resourceID", .str h.name), ("resourceType", .str h.type.name),
        ("coreHash", .num h.coreHash), ("fullHash", .num h.fullHash)]

def Equation.toJson (e : Equation) : Json := .obj [("equationType", .str e.mode.name), ("newTerm", .str e.arg)]

/-- `to_json(EquationOptions)` -/
def eqRowsToJson (t : EqRows) : Json :=
  .arr (t.map fun (k, v, e) => .obj [("operand1", .num k), ("operand2", .num v), ("parameters", e.toJson)])

/-- `to_json(OperationHandle)` -/
def OpHandle.toJson (h : OpHandle) : Json :=
  .obj ([("operationType", .str (opTypeName h.type)), ("isBroken", .bool h.broken), ("isOutdated", .bool h.outdated)]
    ++ (match h.options with
        | some t => [("options", Json.obj [("type", .str "equations"), ("data", eqRowsToJson t)])]
        | none => [])
    ++ (match h.translations with
        | some ts => [("translations", Json.arr (ts.map trToJson))]
        | none => []))

/-- `to_json(Pict)` (the second assignment of `link` for a non-empty link rewrites the same value)
followed by the body of the loop of `ExtractPicts` -/
def Pict.toJson (p : Pict) : Json :=
  .obj ([("pictUID", .num p.uid), ("dataType", .str p.dataType.name), ("title", .str p.title),
         ("alias", .str p.alias), ("comment", .str p.comment), ("link", p.link.toJson)]
    ++ (match p.src with | some h => [("attachedSource", h.toJson)] | none => [])
    ++ (match p.op with | some h => [("attachedOperation", h.toJson)] | none => [])
    ++ [("position", Pos.toJson p.pos)])

/-- `to_json(Grid)`, listed in the order of the pictograms -/
def layoutToJson (items : List Pict) : Json :=
  .arr (items.map fun p => .obj [("row", .num p.pos.row), ("column", .num p.pos.col), ("pictUID", .num p.uid)])

def edgesToJson (es : List (Pid × Pid)) : Json := .arr (es.map fun e => .arr [.num e.1, .num e.2])

/-- `to_json(JSON&, const OSSchema&)` -/
def ossToJson (c : Oss) : Json :=
  .obj [("type", .str "oss"), ("title", .str c.title), ("comment", .str c.comment),
        ("sourceDomain", .str c.domain), ("items", .arr (c.items.map Pict.toJson)),
        ("layout", layoutToJson c.items), ("connections", edgesToJson (edgeList c.rows))]

/-! ### loader -/

inductive LoadErr where
  /-- an `nlohmann::json::exception`: the documented JSON format error -/
  | format (what : String)
  /-- outside the modelled class of documents -/
  | unmodelled (what : String)
deriving DecidableEq, Repr, Inhabited

abbrev R := Except LoadErr

/-- `j.at(k)` -/
def at' (j : Json) (k : String) : R Json :=
  match j with
  | .obj _ => match j.get k with
    | some v => .ok v
    | none => .error (.format s!"out_of_range {k}")
  | _ => .error (.format s!"type_error at {k}")

def getStr (j : Json) : R String :=
  match j with | .str s => .ok s | _ => .error (.format "type_error string")
def getBool (j : Json) : R Bool :=
  match j with | .bool b => .ok b | _ => .error (.format "type_error bool")
/-- `get<uint32_t>()` -/
def getNat (j : Json) : R Nat :=
  match j with
  | .num n => if 0 ≤ n then .ok n.toNat else .error (.unmodelled "negative number read as unsigned")
  | _ => .error (.format "type_error number")
/-- `get<int32_t>()` -/
def getInt (j : Json) : R Int :=
  match j with | .num n => .ok n | _ => .error (.format "type_error number")
/-- `begin(j)` … `end(j)` where the code iterates -/
def getArr (j : Json) : R (List Json) :=
  match j with | .arr xs => .ok xs | _ => .error (.unmodelled "iteration of a non-array")

def MediaLink.fromJson (j : Json) : R MediaLink := do
  let a ← at' j "address" >>= getStr
  let s ← at' j "subAddr" >>= getStr
  pure { address := a, subAddr := s }

def Pos.fromJson (j : Json) : R Pos := do
  let r ← at' j "row" >>= getInt
  let c ← at' j "column" >>= getInt
  pure ⟨r, c⟩

def SrcHandle.fromJson (j : Json) : R SrcHandle := do
  let n ← at' j "resourceID" >>= getStr
  let t ← at' j "resourceType"
  let c ← at' j "coreHash" >>= getNat
  let f ← at' j "fullHash" >>= getNat
  pure { name := n, type := srcTypeOfJson t, coreHash := c, fullHash := f }

def Equation.fromJson (j : Json) : R Equation := do
  let m ← at' j "equationType"
  let a ← at' j "newTerm" >>= getStr
  pure { mode := eqModeOfJson m, arg := a }

def eqRowFromJson (x : Json) : R (Nat × Nat × Equation) := do
  let k ← at' x "operand1" >>= getNat
  let v ← at' x "operand2" >>= getNat
  let e ← at' x "parameters" >>= Equation.fromJson
  pure (k, v, e)

/-- `EquationOptions::Insert`: `emplace` / `insert` — a repeated key keeps its first row -/
def insertRow (acc : EqRows) (r : Nat × Nat × Equation) : EqRows :=
  if acc.any (·.1 == r.1) then acc else acc ++ [r]

/-- `from_json(EquationOptions)` into an empty table -/
def eqRowsFromJson (j : Json) : R EqRows := do
  let xs ← getArr j
  let rows ← xs.mapM eqRowFromJson
  pure (rows.foldl insertRow [])

/-- one `[key, value]` of `from_json(EntityTranslation)`: `begin(*it)`, `next(begin(*it))` -/
def pairFromJson' (x : Json) : R (Nat × Nat) :=
  match x with
  | .arr (k :: v :: _) => do
    let k ← getNat k
    let v ← getNat v
    pure (k, v)
  | _ => .error (.unmodelled "translation pair")

/-- `from_json(EntityTranslation)` into an empty translation -/
def trFromJson' (j : Json) : R Tr := do
  let xs ← getArr j
  let ps ← xs.mapM pairFromJson'
  pure (ps.foldl (fun acc p => insert acc p.1 p.2) [])

/-- `from_json(OperationHandle)` into a fresh handle -/
def OpHandle.fromJson (j : Json) : R OpHandle := do
  let t ← at' j "operationType"
  let b ← at' j "isBroken" >>= getBool
  let o ← at' j "isOutdated" >>= getBool
  let opts ← match j.get "options" with
    | none => pure none
    | some x => do
      let d ← at' x "data"
      let rows ← eqRowsFromJson d
      pure (some rows)
  let trs ← match j.get "translations" with
    | none => pure none
    | some x => do
      let xs ← match x with
        | .arr xs => pure xs
        | _ => .error (.format "type_error array")
      let ts ← xs.mapM trFromJson'
      pure (some ts)
  pure { type := opTypeOfJson t, broken := b, outdated := o, options := opts, translations := trs }

/-- one element of `items` as `LoadPicts` reads it (before `LoadPict`) -/
def Pict.fromJson (j : Json) : R Pict := do
  let uid ← at' j "pictUID" >>= getNat
  let dt ← at' j "dataType"
  let title ← at' j "title" >>= getStr
  let alias ← at' j "alias" >>= getStr
  let comment ← at' j "comment" >>= getStr
  let link ← match j.get "link" with
    | none => pure {}
    | some l => MediaLink.fromJson l
  let pos ← at' j "position" >>= Pos.fromJson
  let src ← match j.get "attachedSource" with
    | none => pure {}
    | some h => SrcHandle.fromJson h
  let op ← match j.get "attachedOperation" with
    | none => pure none
    | some h => (OpHandle.fromJson h).map some
  pure { uid := uid, dataType := dataTypeOfJson dt, title := title, alias := alias, comment := comment,
         link := link, src := some src, op := op, pos := pos }

/-- explicit input of the loader: `EntityGenerator::NewUID()` given the taken identifiers (random) -/
structure Env where
  fresh : List Nat → Nat

/-- the grid of the pictograms loaded so far -/
def gridOf (items : List Pict) : CCVerif.Oss.Grid := items.map fun p => (p.pos, p.uid)

/-- `OSSchema::LoadPict` + `InsertInternal` on the pictograms loaded so far (document order) -/
def loadPict (env : Env) (loaded : List Pict) (p : Pict) : R (List Pict) := do
  let g := gridOf loaded
  let pos ← if (g.cell p.pos).isSome then
      match g.closestFreePos p.pos with
      | some q => pure q
      | none => .error (.unmodelled "ClosestFreePos fuel")
    else pure p.pos
  let ids := loaded.map (·.uid)
  let uid ← if ids.contains p.uid then
      let f := env.fresh ids
      if ids.contains f then .error (.unmodelled "inadmissible fresh uid") else pure f
    else pure p.uid
  pure (loaded ++ [{ p with uid := uid, pos := pos }])

def loadPicts (env : Env) : List Pict → List Pict → R (List Pict)
  | loaded, [] => pure loaded
  | loaded, p :: ps => loadPict env loaded p >>= fun l => loadPicts env l ps

/-- `Item2ID` / `InsertKeyValue` -/
def item2ID (g : Rows) (p : Pid) : Rows := if g.any (·.1 == p) then g else g ++ [(p, [])]

/-- the row of an item (`graph.at(index)`) -/
def rowOf (g : Rows) (p : Pid) : List Pid := ((g.find? (·.1 == p)).map (·.2)).getD []

/-- `ossGraphFacet::LoadParent` -/
def loadParent (g : Rows) (child parent : Pid) : Rows :=
  if child == parent then g
  else
    let g := item2ID (item2ID g child) parent
    if (rowOf g child).contains parent || (rowOf g parent).contains child then g
    else g.map fun r => if r.1 == child then (r.1, r.2 ++ [parent]) else r

def loadEdges (g : Rows) (es : List (Pid × Pid)) : Rows := es.foldl (fun g e => loadParent g e.1 e.2) g

/-- `get<std::pair<PictID, PictID>>()` -/
def edgeFromJson (x : Json) : R (Pid × Pid) :=
  match x with
  | .arr (c :: p :: _) => do
    let c ← getNat c
    let p ← getNat p
    pure (c, p)
  | .arr _ => .error (.format "out_of_range pair")
  | _ => .error (.format "type_error array")

/-- `from_json(const JSON&, OSSchema&)` into a fresh `OSSchema` -/
def ossFromJson (env : Env) (j : Json) : R Oss := do
  let title ← at' j "title" >>= getStr
  let comment ← at' j "comment" >>= getStr
  let domain ← at' j "sourceDomain" >>= getStr
  let xs ← at' j "items" >>= getArr
  let ps ← xs.mapM Pict.fromJson
  let items ← loadPicts env [] ps
  let cs ← at' j "connections"
  let cs ← match cs with
    | .arr xs => pure xs
    | _ => .error (.format "type_error array")
  let es ← cs.mapM edgeFromJson
  pure { title := title, comment := comment, domain := domain, items := items, rows := loadEdges [] es }

/-! ### projection to the structural model of C19 (`Model/Oss.lean`) -/

/-- adjacency rows as indices into the item list -/
def toGraph (g : Rows) : CCVerif.Oss.Graph :=
  { items := g.map (·.1), adj := g.map fun r => r.2.map fun p => (g.map (·.1)).idxOf p }

/-- the five key tables of the loaded schema (`Struct` lists the newest key first) -/
def toStruct (c : Oss) : CCVerif.Oss.Struct :=
  { storage := (c.items.map (·.uid)).reverse
    ids := (c.items.map (·.uid)).reverse
    graph := toGraph c.rows
    grid := (gridOf c.items).reverse
    srcKeys := ((c.items.filter (·.src.isSome)).map (·.uid)).reverse
    opKeys := ((c.items.filter (·.op.isSome)).map (·.uid)).reverse }

/-- the document items as the C19 model reads them (`Oss.DocItem`; handle values abstracted) -/
def toDocItem (p : Pict) : CCVerif.Oss.DocItem :=
  { uid := p.uid, pos := p.pos, handle := {}, op := p.op.map fun _ => {} }

end CCVerif.JsonOss

/-! ### the structural invariant of C19 evaluated on a content (driver; compared with the same check
made on the real schema through its public API) -/
namespace CCVerif.JsonOss
open CCVerif.Oss (Pid)

/-- no pictogram is its own ancestor: vertices are marked once all their parents are marked -/
def acyclicB (rows : Rows) : Bool :=
  let verts := rows.map (·.1)
  let step (done : List Pid) : List Pid :=
    verts.filter fun v => done.contains v || (rowOf rows v).all (fun p => done.contains p || !verts.contains p)
  let final := (List.range (verts.length + 1)).foldl (fun d _ => step d) []
  verts.all final.contains

def structOkB (c : Oss) : Bool :=
  let uids := c.items.map (·.uid)
  c.items.all (fun p =>
    ((c.items.filter (fun q => q.pos == p.pos)).length == 1) && p.src.isSome &&
    (match p.op, rowOf c.rows p.uid with
     | some _, [a, b] => a != b
     | some _, _ => false
     | none, [] => true
     | none, _ => false)) &&
  (edgeList c.rows).all (fun e => uids.contains e.1 && uids.contains e.2) &&
  acyclicB c.rows

end CCVerif.JsonOss
