import CCVerif.Model.Syntax
/-
Transcription of `ccl/rslang/src/ASTNormalizer.cpp` (`Normalizer`, run by
`SyntaxTree::Normalize` between type checking and evaluation):

* tuple patterns `(a,b)` in binders → one local named `'@' + concatenated component names` (with
  `'@'` appended until the name is not that of a pattern with other component names), every
  use of a component replaced by a chain of `pr<i>` around that local;
* enumerated declarations `∀a,b∈D P` → nested quantifiers;
* calls `F[args]` of term functions whose definition tree is known → the body with argument
  nodes substituted for the parameters and every other local renamed to `__var<n>`, skipping
  the names the expression itself uses
  (`NState` is the explicit name-generation state of one `Normalizer` object).

Node ranges are carried exactly as the C++ does (`SubstituteArgs` overwrites them with the range
of the call, `ExtendChild` copies the range of the wrapped node).
-/
namespace CCVerif.Norm
open CCVerif.Syntax

/-- `SyntaxTreeContext`: definition trees (`F1:==[a∈ℬ(X1)] body`, un-normalised) by name -/
abbrev Funcs := List (String × Ast)

def lookup {α} (k : String) : List (String × α) → Option α
  | [] => none
  | (k', v) :: r => if k == k' then some v else lookup k r

def textOf (a : Ast) : String :=
  match a.data with
  | .text s => s
  | _ => ""

def setKids : Ast → List Ast → Ast
  | .node t d lo hi _, ks => .node t d lo hi ks

def isLocal (a : Ast) : Bool := a.id == .ID_LOCAL

/-! ### `ProcessTupleDeclaration` -/
mutual
/-- pre-order walk of the declaration: `(name, path)` for every `ID_LOCAL`, path = 1-based child
indices from the root of the pattern -/
def declPaths (path : List Int) : Ast → List (String × List Int)
  | .node t d _ _ ks =>
    if t == .ID_LOCAL then [(match d with | .text s => s | _ => "", path)]
    else declPathsKids path 1 ks
def declPathsKids (path : List Int) (i : Int) : List Ast → List (String × List Int)
  | [] => []
  | k :: ks => declPaths (path ++ [i]) k ++ declPathsKids path (i + 1) ks
end

/-- `tupleSubstitutes.insert` keeps the first entry of a name -/
def firstWins : List (String × List Int) → List (String × List Int)
  | [] => []
  | (n, p) :: r => (n, p) :: (firstWins r).filter (fun e => e.1 != n)

/-- state of one `Normalizer` object -/
structure NState where
  base : Nat := 0                              -- `localVarBase`
  tupleNames : List (String × String) := []    -- `tupleNames`: signature ↦ generated name
  usedTupleNames : List String := []           -- `usedTupleNames`
  userLocals : List String := []               -- `userLocals` (collected at the first `Normalize`)

mutual
/-- `CollectLocals` -/
def collectLocals : Ast → List String
  | .node t d _ _ ks =>
    (if t == .ID_LOCAL then [match d with | .text s => s | _ => ""] else []) ++ collectLocalsKids ks
def collectLocalsKids : List Ast → List String
  | [] => []
  | k :: ks => collectLocals k ++ collectLocalsKids ks
end

/-- `while (usedTupleNames.contains(newName)) newName += '@';` (at most one round per used name) -/
def freshTupleName (used : List String) : Nat → String → String
  | 0, n => n
  | k + 1, n => if used.contains n then freshTupleName used k (n ++ "@") else n

/-- `ProcessTupleDeclaration`: new name and substitution table; the declaration node becomes
`ID_LOCAL newName`.  A pattern with the same component names (signature) as an earlier one of
this normalisation re-uses that name; otherwise the candidate gets `'@'` appended until free. -/
def processTupleDecl (decl : Ast) (st : NState) : String × List (String × List Int) × Ast × NState :=
  let paths := declPaths [] decl
  let cand := "@" ++ String.join (paths.map (·.1))
  let sig := String.join (paths.map (fun p => p.1 ++ ","))
  let (newName, st') :=
    match lookup sig st.tupleNames with
    | some n => (n, st)
    | none =>
      let n := freshTupleName st.usedTupleNames (st.usedTupleNames.length + 1) cand
      (n, { st with usedTupleNames := n :: st.usedTupleNames, tupleNames := (sig, n) :: st.tupleNames })
  (newName, firstWins paths, .node .ID_LOCAL (.text newName) decl.lo decl.hi [], st')

/-- chain of `SMALLPR` nodes around the renamed local; every new node has the local's range -/
def wrapPr (path : List Int) (lo hi : Int) (inner : Ast) : Ast :=
  path.foldl (fun acc i => .node .SMALLPR (.tuple [i]) lo hi [acc]) inner

mutual
/-- `SubstituteTupleVariables(target, newName)`: only *children* of the target are examined -/
def substTuple (subs : List (String × List Int)) (nn : String) : Ast → Ast
  | .node t d lo hi ks => .node t d lo hi (substTupleKids subs nn ks)
def substTupleKids (subs : List (String × List Int)) (nn : String) : List Ast → List Ast
  | [] => []
  | k :: ks =>
    (if isLocal k then
      match lookup (textOf k) subs with
      | some path => wrapPr path k.lo k.hi (.node .ID_LOCAL (.text nn) k.lo k.hi k.kids)
      | none => k
    else substTuple subs nn k) :: substTupleKids subs nn ks
end

def mapIdx {α β} (f : Nat → α → β) (l : List α) : List β :=
  (l.zipIdx).map (fun p => f p.2 p.1)

/-- `Normalizer::Quantifier` for a tuple declaration (`TupleDeclaration(quant(0), quant(2))`) -/
def quantTuple (q : Ast) (st : NState) : Ast × NState :=
  match q.kids with
  | [decl, dom, pred] =>
    let (nn, subs, decl', st') := processTupleDecl decl st
    (setKids q [decl', dom, substTuple subs nn pred], st')
  | _ => (q, st)

/-- `Normalizer::Quantifier` for a tuple declaration that was the first variable of an enumerated
declaration: the body is the quantifier over the remaining variables, and only ITS predicate is in the
scope of the pattern (`TupleDeclaration(quant(0), quant(2)(2))`) - not its copy of the domain -/
def quantTupleEnum (q : Ast) (st : NState) : Ast × NState :=
  match q.kids with
  | [decl, dom, inner] =>
    match inner.kids with
    | [idecl, idom, pred] =>
      let (nn, subs, decl', st') := processTupleDecl decl st
      (setKids q [decl', dom, setKids inner [idecl, idom, substTuple subs nn pred]], st')
    | _ => quantTuple q st
  | _ => (q, st)

/-- `Normalizer::EnumDeclaration` -/
def enumDecl (q : Ast) : Ast :=
  match q with
  | .node t d lo hi [decl, dom, pred] =>
    match decl.kids with
    | d0 :: d1 :: rest =>
      let inner := if rest.isEmpty then d1 else setKids decl (d1 :: rest)
      .node t d lo hi [d0, dom, .node t d lo hi [inner, dom, pred]]
    | _ => q
  | _ => q

/-- `Normalizer::Declarative`: the pattern variables are in scope in the condition only -/
def declarative (r : Ast) (st : NState) : Ast × NState :=
  match r.kids with
  | [decl, dom, pred] =>
    if decl.id != .NT_TUPLE_DECL then (r, st) else
    let (nn, subs, decl', st') := processTupleDecl decl st
    (setKids r [decl', dom, substTuple subs nn pred], st')
  | _ => (r, st)

/-- `Normalizer::Recursion` -/
def recursion (r : Ast) (st : NState) : Ast × NState :=
  match r.kids with
  | [decl, init, body] =>
    if decl.id != .NT_TUPLE_DECL then (r, st) else
    let (nn, subs, decl', st') := processTupleDecl decl st
    (setKids r [decl', init, substTuple subs nn body], st')
  | [decl, init, cond, body] =>
    if decl.id != .NT_TUPLE_DECL then (r, st) else
    let (nn, subs, decl', st') := processTupleDecl decl st
    (setKids r [decl', init, substTuple subs nn cond, substTuple subs nn body], st')
  | _ => (r, st)

/-- one step of the loop of `Normalizer::Imperative` for block `child` -/
def imperativeStep (r : Ast) (child : Nat) (st : NState) : Ast × NState :=
  match r.kids[child]? with
  | none => (r, st)
  | some blk =>
    if blk.id != .ITERATE && blk.id != .ASSIGN then (r, st) else
    match blk.kids with
    | decl :: brest =>
      if decl.id != .NT_TUPLE_DECL then (r, st) else
      let (nn, subs, decl', st') := processTupleDecl decl st
      let blk' := setKids blk (decl' :: brest)
      -- the pattern variables are visible in the result expression and in the following blocks only
      let one (k : Ast) : Ast := match substTupleKids subs nn [k] with | [k'] => k' | _ => k
      (setKids r (mapIdx (fun i k => if i == child then blk' else if i == 0 || i > child then one k else k) r.kids), st')
    | [] => (r, st)

def imperative (r : Ast) (st : NState) : Ast × NState :=
  (List.range r.kids.length).foldl (fun (acc : Ast × NState) i => if i == 0 then acc else imperativeStep acc.1 i acc.2) (r, st)

/-! ### `Normalizer::Function` -/

/-- `ArgNames(funcTree->root->At(1).At(0))` -/
def argNames (args : Ast) : List String := args.kids.map (fun d => match d.kids with | n :: _ => textOf n | [] => "")

structure SubSt where
  names : List (String × String) := []   -- `nameSubstitutes`
  base : Nat                             -- `localVarBase`
  userLocals : List String := []         -- `userLocals`

/-- `do { ++localVarBase; } while (userLocals.contains("__var" + localVarBase))`: the new base -/
def freshVar (userLocals : List String) : Nat → Nat → Nat
  | 0, b => b + 1
  | k + 1, b => if userLocals.contains ("__var" ++ toString (b + 1)) then freshVar userLocals k (b + 1) else b + 1

mutual
/-- `SubstituteArgs(target, pos)` -/
def substArgs (nodes : List (String × Ast)) (lo hi : Int) : Ast → SubSt → Ast × SubSt
  | .node t d _ _ ks, st =>
    if t != .ID_LOCAL then
      let (ks', st') := substArgsKids nodes lo hi ks st
      (.node t d lo hi ks', st')
    else
      let name := match d with | .text s => s | _ => ""
      match lookup name nodes with
      | some arg => (arg, st)
      | none =>
        match lookup name st.names with
        | some nn => (.node t (.text nn) lo hi ks, st)
        | none =>
          let b := freshVar st.userLocals (st.userLocals.length + 1) st.base
          let nn := "__var" ++ toString b
          (.node t (.text nn) lo hi ks, { st with names := st.names ++ [(name, nn)], base := b })
def substArgsKids (nodes : List (String × Ast)) (lo hi : Int) : List Ast → SubSt → List Ast × SubSt
  | [], st => ([], st)
  | k :: ks, st =>
    let (k', st1) := substArgs nodes lo hi k st
    let (ks', st2) := substArgsKids nodes lo hi ks st1
    (k' :: ks', st2)
end

/-- the part of `Function` before the recursive `Normalize(func)`; `none` = no definition tree
for the name (the call node stays) or a definition tree of unexpected shape -/
def inlineCall (fs : Funcs) (call : Ast) (st : NState) : Option (Ast × NState) :=
  match call.kids with
  | fn :: args =>
    match lookup (textOf fn) fs with
    | none => none
    | some tree =>
      match tree.kids with
      | [_, fdef] =>
        match fdef.kids with
        | [adecl, body] =>
          let nodes := (argNames adecl).zip args
          if args.length > (argNames adecl).length then none else
          let (body', sub) := substArgs nodes call.lo call.hi body { base := st.base, userLocals := st.userLocals }
          some (body', { st with base := sub.base })
        | _ => none
      | _ => none
  | [] => none

/-- `Normalizer::Normalize` (after `CollectLocals`); `none` = out of fuel (fuel bounds the nesting
depth of the result) -/
def normalize (fs : Funcs) : Nat → Ast → NState → Option (Ast × NState)
  | 0, _, _ => none
  | fuel + 1, root, st =>
    let step : Option (Ast × NState) :=
      match root.id with
      | .FORALL | .EXISTS =>
        match root.kids.head? with
        | some decl =>
          let r1 := if decl.id == .NT_ENUM_DECL then enumDecl root else root
          match r1.kids.head? with
          | some d1 =>
            if d1.id == .NT_TUPLE_DECL then
              some (if decl.id == .NT_ENUM_DECL then quantTupleEnum r1 st else quantTuple r1 st)
            else some (r1, st)
          | none => some (r1, st)
        | none => some (root, st)
      | .NT_RECURSIVE_FULL | .NT_RECURSIVE_SHORT => some (recursion root st)
      | .NT_DECLARATIVE_EXPR => some (declarative root st)
      | .NT_IMPERATIVE_EXPR => some (imperative root st)
      | .NT_FUNC_CALL =>
        match inlineCall fs root st with
        | none => some (root, st)
        | some (body, st') => normalize fs fuel body st'
      | _ => some (root, st)
    match step with
    | none => none
    | some (root1, st1) =>
      let r := root1.kids.foldl (fun acc k =>
        match acc with
        | none => none
        | some (done, b) =>
          match normalize fs fuel k b with
          | none => none
          | some (k', b') => some (done ++ [k'], b')) (some (([] : List Ast), st1))
      match r with
      | none => none
      | some (ks, b) => some (setKids root1 ks, b)

/-- `SyntaxTree::Normalize(termFuncs)`: a fresh `Normalizer`; the first `Normalize` collects the
local names of the tree -/
def normalizeTree (fs : Funcs) (fuel : Nat) (root : Ast) : Option Ast :=
  (normalize fs fuel root { userLocals := collectLocals root }).map (·.1)

end CCVerif.Norm
