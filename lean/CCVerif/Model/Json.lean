import CCVerif.Model.Translation
/-
Model of the JSON codecs of ccl/core/src/JSON.cpp (C10), between in-memory values and JSON trees
(nlohmann's text parser / printer is not modelled; `Json.dump` reproduces its compact output for
the correspondence run only).
-/
namespace CCVerif.Json
open CCVerif.Translation

inductive Json where
  | null
  | bool (b : Bool)
  | num (n : Int)
  | str (s : String)
  | arr (xs : List Json)
  | obj (kvs : List (String × Json))
deriving Repr, Inhabited

def Json.get (j : Json) (k : String) : Option Json :=
  match j with
  | .obj kvs => (kvs.find? (·.1 == k)).map (·.2)
  | _ => none
def Json.asBool : Json → Option Bool | .bool b => some b | _ => none
def Json.asInt : Json → Option Int | .num n => some n | _ => none
def Json.asStr : Json → Option String | .str s => some s | _ => none
def Json.asArr : Json → Option (List Json) | .arr xs => some xs | _ => none

def escape (s : String) : String :=
  String.join (s.toList.map fun c =>
    if c == '"' then "\\\"" else if c == '\\' then "\\\\" else if c == '\n' then "\\n" else String.singleton c)

mutual
/-- compact dump in nlohmann's format -/
def Json.dump : Json → String
  | .null => "null"
  | .bool b => if b then "true" else "false"
  | .num n => toString n
  | .str s => "\"" ++ escape s ++ "\""
  | .arr xs => "[" ++ dumpList xs ++ "]"
  | .obj kvs => "{" ++ dumpFields kvs ++ "}"
def dumpList : List Json → String
  | [] => ""
  | [x] => x.dump
  | x :: xs => x.dump ++ "," ++ dumpList xs
def dumpFields : List (String × Json) → String
  | [] => ""
  | [(k, v)] => "\"" ++ escape k ++ "\":" ++ v.dump
  | (k, v) :: kvs => "\"" ++ escape k ++ "\":" ++ v.dump ++ "," ++ dumpFields kvs
end

/-! ### TrackingFlags -/

structure TrackingFlags where
  allowEdit : Bool := false
  term : Bool := false
  definition : Bool := false
  convention : Bool := false
deriving Repr, DecidableEq

def TrackingFlags.toJson (f : TrackingFlags) : Json :=
  .obj [("mutable", .bool f.allowEdit), ("editTerm", .bool f.term),
        ("editDefinition", .bool f.definition), ("editConvention", .bool f.convention)]

def TrackingFlags.fromJson (j : Json) : Option TrackingFlags := do
  let a ← (j.get "mutable") >>= Json.asBool
  let t ← (j.get "editTerm") >>= Json.asBool
  let d ← (j.get "editDefinition") >>= Json.asBool
  let c ← (j.get "editConvention") >>= Json.asBool
  pure { allowEdit := a, term := t, definition := d, convention := c }

/-! ### TextInterpretation: `std::map<int32_t, string>`, ascending keys -/

abbrev TextInterp := List (Int × String)

/-- `to_json`: the array of the texts only (keys are dropped) -/
def TextInterp.toJson (t : TextInterp) : Json := .arr (t.map (fun p => .str p.2))

/-- `PushBack`: first free key starting from size+1 -/
def pushBack (t : TextInterp) (v : String) : TextInterp :=
  let rec go (fuel : Nat) (k : Int) : Int :=
    match fuel with
    | 0 => k
    | f+1 => if t.any (·.1 == k) then go f (k+1) else k
  t ++ [(go (t.length + 1) (t.length + 1), v)]

/-- `from_json`: `PushBack` of every element into an empty interpretation -/
def TextInterp.fromJson (j : Json) : Option TextInterp :=
  match j with
  | .arr xs => (xs.mapM Json.asStr).map (fun ss => ss.foldl pushBack [])
  | _ => none

/-- keys are exactly 1..n in order -/
def Contiguous (t : TextInterp) : Prop := t.map (·.1) = (List.range t.length).map (fun (i : Nat) => (i : Int) + 1)

instance (t : TextInterp) : Decidable (Contiguous t) := by unfold Contiguous; infer_instance

/-! ### EntityTranslation -/

def trToJson (t : Tr) : Json := .arr (t.map fun p => .arr [.num p.1, .num p.2])

def pairFromJson (x : Json) : Option (Nat × Nat) :=
  match x with
  | .arr [.num k, .num v] => if 0 ≤ k ∧ 0 ≤ v then some (k.toNat, v.toNat) else none
  | _ => none

def trFromJson (j : Json) : Option Tr :=
  match j with
  | .arr xs => (xs.mapM pairFromJson).map (fun ps => ps.foldl (fun acc p => insert acc p.1 p.2) [])
  | _ => none

/-! ### Equation / EquationOptions -/

structure Equation where
  mode : Nat := 1
  arg : String := ""
deriving Repr, DecidableEq

def Equation.toJson (e : Equation) : Json := .obj [("equationType", .num e.mode), ("newTerm", .str e.arg)]
def Equation.fromJson (j : Json) : Option Equation := do
  let m ← (j.get "equationType") >>= Json.asInt
  let a ← (j.get "newTerm") >>= Json.asStr
  if 0 ≤ m then pure { mode := m.toNat, arg := a } else none

/-- equation table as (key, value, parameters) in the map's iteration order -/
abbrev EqTable := List (Nat × Nat × Equation)

def eqTableToJson (t : EqTable) : Json :=
  .arr (t.map fun (k, v, e) => .obj [("operand1", .num k), ("operand2", .num v), ("parameters", e.toJson)])

def eqTableFromJson (j : Json) : Option EqTable := do
  let xs ← j.asArr
  let rows ← xs.mapM fun x => do
    let k ← (x.get "operand1") >>= Json.asInt
    let v ← (x.get "operand2") >>= Json.asInt
    let e ← (x.get "parameters") >>= Equation.fromJson
    if 0 ≤ k ∧ 0 ≤ v then pure (k.toNat, v.toNat, e) else none
  -- `Insert` = emplace: a repeated key keeps its first entry
  pure (rows.foldl (fun acc r => if acc.any (·.1 == r.1) then acc else acc ++ [r]) [])

end CCVerif.Json
