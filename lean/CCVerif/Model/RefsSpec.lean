import CCVerif.Model.Refs
/-!
Specification side of C17 (what the property demands), independent of the transcription in
`CCVerif.Model.Refs`. It is executable: the driver prints it as the oracle column and the
theorems of `CCVerif.Properties.C17` are stated against it.

The text is a list of code points `cps` (the theorems are about `encode cps`).

* `cands` — the candidate occurrences: one left-to-right pass; outside a candidate an `@`
  immediately followed by `{` opens one; inside, braces are counted and the `}` that closes
  the opening brace ends it; scanning continues after it; a candidate that is never closed
  swallows the rest of the text (nothing more is found).
* `refOf` — the reference grammar: `@{` fields separated by `|` `}`; 2–4 fields; an entity
  reference has a first field starting with a letter and at least one known grammeme among its
  tags (2 fields: tags separated by `,`; 3–4 fields: one tag per field, a last field starting
  with a digit is a legacy marker and ignored); a collaboration has exactly 2 fields, the first an
  integer literal whose value fits the `int16_t` offset field. Everything else is not a
  reference. The grammar is total: no spelling is a fault.
* `weave` — text with replacements: the gaps byte-for-byte, each found range replaced.
-/
namespace CCVerif.Refs.Spec
open CCVerif.Strings CCVerif.Refs

/-! ### candidates -/

inductive Scan
  | out (sawAt : Bool)
  | inside (start extra : Nat)   -- `extra` = number of braces opened inside the candidate and not yet closed
deriving Repr, DecidableEq

def candsGo : List Nat → Nat → Scan → List (Nat × Nat)
  | [], _, _ => []
  | c :: rest, i, .out sawAt =>
    if sawAt && c == cOpen then candsGo rest (i + 1) (.inside (i - 1) 0)
    else candsGo rest (i + 1) (.out (c == cAt))
  | c :: rest, i, .inside s d =>
    if c == cOpen then candsGo rest (i + 1) (.inside s (d + 1))
    else if c == cClose then
      match d with
      | 0 => (s, i + 1) :: candsGo rest (i + 1) (.out false)
      | d' + 1 => candsGo rest (i + 1) (.inside s d')
    else candsGo rest (i + 1) (.inside s d)

/-- `Cands`: half-open code-point ranges of the candidate occurrences, left to right. -/
def cands (cps : List Nat) : List (Nat × Nat) := candsGo cps 0 (.out false)

def slice (cps : List Nat) (a b : Nat) : List Nat := (cps.drop a).take (b - a)

/-! ### reference grammar -/

/-- the grammemes named by a list of tags: set semantics, unknown names ignored, enumeration order. -/
def formOf (tags : List Bytes) : Morph :=
  (List.range 36).filter (fun g => g != 0 && tags.any (fun t => str2Grammem (trim t) == g))

/-- the tags of an entity reference from the fields after the name. -/
def tagsOf (fs : List Bytes) : List Bytes :=
  match fs with
  | [single] => splitBy single cComma
  | _ =>
    match fs.getLast? with
    | some (c :: _) => if isDigit c then fs.dropLast else fs
    | _ => fs

/-- the reference denoted by the bytes of one candidate `@{…}`; `none` = not a reference. -/
def refOf (b : Bytes) : Option RefData :=
  match splitBy ((b.drop 2).dropLast) cBar with
  | [] => none
  | name :: rest =>
    if rest.length < 1 || rest.length > 3 then none
    else match name with
      | [] => none
      | c :: _ =>
        if isAlpha c then
          let f := formOf (tagsOf rest)
          if f.isEmpty then none else some (.entity name f)
        else
          match rest with
          | [nominal] =>
            if isInteger name && decide (-32768 ≤ intVal name) && decide (intVal name ≤ 32767)
            then some (.collab nominal (intVal name)) else none
          | _ => none

/-- found references: the candidates that are references, with their ranges. -/
def refsOf (cps : List Nat) : List (Nat × Nat × RefData) :=
  (cands cps).filterMap (fun se =>
    match refOf (encode (slice cps se.1 se.2)) with
    | some d => some (se.1, se.2, d)
    | none => none)

/-! ### resolution -/

/-- does the `|off|`-th entity reference after (`off > 0`) / before (`off < 0`) reference `i` exist -/
def masterExists (datas : List RefData) (i : Nat) (off : Int) : Bool :=
  if off > 0 then decide (off.natAbs ≤ ((datas.drop (i + 1)).filter RefData.isEntity).length)
  else if off < 0 then decide (off.natAbs ≤ ((datas.take i).filter RefData.isEntity).length)
  else false

/-- the text reference `i` stands for. -/
def resolutionOf (ctx : Ctx) (datas : List RefData) (i : Nat) (d : RefData) : Bytes :=
  match d with
  | .entity n f => resolveEntity ctx n f
  | .collab nom off => resolveCollab nom off (if masterExists datas i off then some [] else none)

def resolutionsFrom (ctx : Ctx) (all : List RefData) : Nat → List RefData → List Bytes
  | _, [] => []
  | i, d :: rest => resolutionOf ctx all i d :: resolutionsFrom ctx all (i + 1) rest

/-- the resolution of every reference of the list. -/
def resolutions (ctx : Ctx) (datas : List RefData) : List Bytes := resolutionsFrom ctx datas 0 datas

/-- a found reference (code-point range `[s, e)` of the text, what it denotes) together with
the text that replaces it. -/
structure Found where
  s : Nat
  e : Nat
  data : RefData
  text : Bytes
deriving Repr, DecidableEq

def attach : List (Nat × Nat × RefData) → List Bytes → List Found
  | x :: xs, t :: ts => ⟨x.1, x.2.1, x.2.2, t⟩ :: attach xs ts
  | _, _ => []

/-- gaps (byte-for-byte) interleaved with replacements, from code point `cur` on. -/
def weave (cps : List Nat) : Nat → List Found → Bytes
  | cur, [] => encode (cps.drop cur)
  | cur, x :: rest => encode (slice cps cur x.s) ++ x.text ++ weave cps x.e rest

/-- where the replacements lie in the woven text: each one starts at its original start moved by
the accumulated length difference `sh` and is as long as its replacement. -/
def wovenRefs : Int → List Found → List Ref
  | _, [] => []
  | sh, x :: rest =>
    ⟨x.data, ⟨(x.s : Int) + sh, (x.s : Int) + sh + (sizeCp x.text : Int)⟩, x.text⟩ ::
      wovenRefs (sh + ((sizeCp x.text : Int) - ((x.e : Int) - (x.s : Int)))) rest

/-- the found references with their resolutions. -/
def resolvedItems (ctx : Ctx) (cps : List Nat) : List Found :=
  let refs := refsOf cps
  attach refs (resolutions ctx (refs.map (fun x => x.2.2)))

/-- resolved text, and for every found reference its data, range in the resolved text and
resolution. -/
def resolveSpec (ctx : Ctx) (cps : List Nat) : Bytes × List Ref :=
  let items := resolvedItems ctx cps
  (weave cps 0 items, wovenRefs 0 items)

/-- the text with every found reference re-spelled canonically, everything else intact. -/
def canon (cps : List Nat) : Bytes :=
  weave cps 0 ((refsOf cps).map (fun x => ⟨x.1, x.2.1, x.2.2, x.2.2.toString⟩))

/-- what `TranslateRaw` must put in place of one found reference: in an entity reference whose
name is mapped to a different name the name - the bytes right after `@{` - is replaced and the
rest of the reference keeps its original bytes (tags as typed); every other reference keeps its
original bytes. -/
def translatedItem (tr : Bytes → Option Bytes) (cps : List Nat) (x : Nat × Nat × RefData) : Found :=
  let orig := encode (slice cps x.1 x.2.1)
  match x.2.2 with
  | .entity n _ =>
    match tr n with
    | some n' => if n' = n then ⟨x.1, x.2.1, x.2.2, orig⟩ else ⟨x.1, x.2.1, x.2.2, orig.take 2 ++ n' ++ orig.drop (2 + n.length)⟩
    | none => ⟨x.1, x.2.1, x.2.2, orig⟩
  | .collab .. => ⟨x.1, x.2.1, x.2.2, orig⟩

/-- `TranslateRaw`: only the entity field of the affected entity references changes; everything
else stays byte-for-byte. -/
def translateSpec (tr : Bytes → Option Bytes) (cps : List Nat) : Bytes :=
  weave cps 0 ((refsOf cps).map (translatedItem tr cps))

/-- mentioned entities = names of the entity references. -/
def referalsSpec (cps : List Nat) : List Bytes :=
  (refsOf cps).filterMap (fun x => match x.2.2 with | .entity n _ => some n | .collab .. => none)

/-! ### alignment of a manager state with its text -/

/-- ranges ordered and non-overlapping, starting at or after `lo`. -/
def orderedFrom : Int → List Ref → Bool
  | _, [] => true
  | lo, r :: rest => decide (lo ≤ r.pos.start) && decide (r.pos.start ≤ r.pos.finish) && orderedFrom r.pos.finish rest

/-- every recorded range delimits its replacement in `text`, ranges ordered and disjoint. -/
def alignedB (text : Bytes) (refs : List Ref) : Bool :=
  orderedFrom 0 refs && refs.all (fun r => substr text r.pos.start r.pos.finish == r.resolved)

end CCVerif.Refs.Spec
