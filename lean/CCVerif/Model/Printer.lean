import CCVerif.Generated.Tokens
/-!
Model of the text generator of RSLang (C05): a transcription of
`ccl/rslang/src/GeneratorImplAST.cpp` (`GeneratorImplAST::FromTree` and its `Vi…` visitors),
the dispatch `SyntaxTree::Cursor::DispatchVisit` (`include/ccl/rslang/SyntaxTree.h`), and of
`Token::ToString`, `Token::Str`, `ConvertID`, `Token::CompareOperations`
(`ccl/rslang/src/RSToken.cpp`). Spelling tables, the substitution string of `ConvertID`, the
operation set and the precedence pairs are the generated ones (`Generated/Tokens.lean`).

Output text is a list of Unicode code points (the C++ builds UTF-8; for the ASCII syntax all
code points are < 128, i.e. also bytes). `none` = the C++ makes an unchecked / asserted access
that fails on this tree: `std::any_cast` of the wrong payload, `*begin()` of an empty index
vector (`pr0`), `children.at(i)` past the end, a failing `assert(ChildrenCount() …)` of
`DispatchVisit` (asserts are live in the harness build).
-/
namespace CCVerif.Printer
open CCVerif.Syntax CCVerif.Generated

/-! ## `Token::CompareOperations` -/

inductive Cmp where
  | less | greater | equal | incomparable
deriving Repr, DecidableEq

def compareOps (l r : Tok) : Cmp :=
  if !opSet.contains l || !opSet.contains r then .incomparable
  else if precPairs.contains (l, r) then .less
  else if precPairs.contains (r, l) then .greater
  else .equal

/-! ## `Token::Str`, `ConvertID`, `Token::ToString` -/

/-- `Token::Str(id, syntax)` -/
def str (syn : Syn) (id : Tok) : List Nat :=
  match syn with
  | .math => rsStr id
  | .ascii => asciiStr id

def decGo : Nat → Nat → List Nat → List Nat
  | 0, _, acc => acc
  | f+1, n, acc => if n < 10 then (48 + n) :: acc else decGo f (n / 10) ((48 + n % 10) :: acc)

/-- `std::to_string` of a non-negative number -/
def decNat (n : Nat) : List Nat := decGo (n + 1) n []

/-- `std::to_string(int)` -/
def decInt (n : Int) : List Nat :=
  if n < 0 then 45 :: decNat n.natAbs else decNat n.natAbs

/-- number of UTF-8 bytes of a code point (`UTF8Iterator::SymbolSize`) -/
def utf8Size (c : Nat) : Nat := if c < 0x80 then 1 else if c < 0x800 then 2 else if c < 0x10000 then 3 else 4

/-- `ConvertID` on one code point for the ASCII syntax -/
def convertCp (c : Nat) : List Nat :=
  if c < 0x80 then [c]
  else
    let other := convertOtherOpen :: ((List.replicate (utf8Size c) convertOtherPerByte).flatten ++ [convertOtherClose])
    if c < 0x800 then
      let fb := 0xC0 + c / 64
      let sb := 0x80 + c % 64
      let (f1, lo1, hi1, b1) := convertRange1
      let (f2, lo2, hi2, b2) := convertRange2
      if fb == f1 && lo1 ≤ sb && sb ≤ hi1 then
        match convertSubst[convertRange1Offset + (sb - b1)]? with
        | some x => [x]
        | none => other   -- `.at()` would throw; unreachable for the generated constants
      else if fb == f2 && lo2 ≤ sb && sb ≤ hi2 then
        match convertSubst[convertRange2Offset + (sb - b2)]? with
        | some x => [x]
        | none => other
      else other
    else other

/-- `ConvertID(id, syntax)` -/
def convertID (syn : Syn) (id : List Nat) : List Nat :=
  match syn with
  | .math => id
  | .ascii => id.flatMap convertCp

def stringUnits (s : String) : List Nat := s.toList.map Char.toNat

/-- `Token::ToString(syntax)` -/
def tokToString (syn : Syn) (id : Tok) (data : TokData) : Option (List Nat) :=
  match id with
  | .ID_LOCAL =>
    match data with
    | .text s => some (convertID syn (stringUnits s))
    | _ => none
  | .ID_GLOBAL | .ID_FUNCTION | .ID_PREDICATE | .ID_RADICAL =>
    match data with
    | .text s => some (stringUnits s)
    | _ => none
  | .LIT_INTEGER =>
    match data with
    | .int n => some (decInt n)
    | _ => none
  | .BIGPR | .SMALLPR | .FILTER =>
    match data with
    | .tuple (i :: rest) => some (str .math id ++ decInt i ++ rest.flatMap (fun j => 44 :: decInt j))
    | _ => none
  | _ => some (str syn id)

/-! ## the visitors -/

def sequence : List (Option (List Nat)) → Option (List (List Nat))
  | [] => some []
  | none :: _ => none
  | some x :: r => match sequence r with | some xs => some (x :: xs) | none => none

def joinSep (sep : List Nat) : List (List Nat) → List Nat
  | [] => []
  | [x] => x
  | x :: r => x ++ sep ++ joinSep sep r

def commaSp : List Nat := [44, 32]
def barSp : List Nat := [32, 124, 32]
def semiSp : List Nat := [59, 32]

/-- `OutputChild(iter, index, addBrackets)` on already printed children -/
def kidAt (ps : List (Option (List Nat))) (i : Nat) (brackets : Bool := false) : Option (List Nat) :=
  match ps[i]? with
  | some (some s) => some (if brackets then 40 :: (s ++ [41]) else s)
  | _ => none

def idAt (ids : List Tok) (i : Nat) : Option Tok := ids[i]?

/-- one visitor call: `id`/`data` of the node, ids of its children, printed children -/
def assemble (syn : Syn) (id : Tok) (data : TokData) (ids : List Tok) (ps : List (Option (List Nat))) :
    Option (List Nat) :=
  let n := ids.length
  match id with
  -- leaves: `assert(ChildrenCount() == 0)`, VisitDefault
  | .ID_GLOBAL | .ID_FUNCTION | .ID_PREDICATE | .ID_LOCAL | .ID_RADICAL
  | .LIT_INTSET | .LIT_INTEGER | .LIT_EMPTYSET =>
    if n == 0 then tokToString syn id data else none
  | .NT_FUNC_DEFINITION =>
    if n == 2 then do
      let a ← kidAt ps 0; let b ← kidAt ps 1
      some (a ++ [32] ++ b)
    else none
  | .NT_FUNC_CALL =>
    if n > 1 then do
      let f ← kidAt ps 0
      let args ← sequence (ps.drop 1)
      some (f ++ [91] ++ joinSep commaSp args ++ [93])
    else none
  | .NT_TUPLE_DECL | .NT_TUPLE =>
    if n > 1 then do
      let ks ← sequence ps
      some (40 :: (joinSep commaSp ks ++ [41]))
    else none
  | .NT_ENUM_DECL => do
      let ks ← sequence ps
      some (joinSep commaSp ks)
  | .NT_ARGUMENTS =>
    if n > 0 then do
      let ks ← sequence ps
      some (91 :: (joinSep commaSp ks ++ [93]))
    else none
  | .NT_ARG_DECL =>
    if n == 2 then do
      let a ← kidAt ps 0; let b ← kidAt ps 1
      some (a ++ str syn .IN ++ b)
    else none
  -- ViArithmetic (also ViSetexprBinary)
  | .PLUS | .MINUS | .MULTIPLY | .UNION | .INTERSECTION | .SET_MINUS | .SYMMINUS =>
    if n == 2 then do
      let l ← idAt ids 0; let r ← idAt ids 1
      let needL := id != l && compareOps id l == .greater
      let needR := id == r || compareOps id r == .equal || compareOps id r == .greater
      let a ← kidAt ps 0 needL
      let me ← tokToString syn id data
      let b ← kidAt ps 1 needR
      some (a ++ me ++ b)
    else none
  -- ViCard
  | .CARD | .BOOL | .DEBOOL | .BIGPR | .SMALLPR | .REDUCE =>
    if n == 1 then do
      let me ← tokToString syn id data
      let a ← kidAt ps 0 true
      some (me ++ a)
    else none
  | .FILTER =>
    if n > 1 then do
      let me ← tokToString syn id data
      let params ← sequence (ps.take (n - 1))
      let arg ← kidAt ps (n - 1)
      some (me ++ [91] ++ joinSep commaSp params ++ [93, 40] ++ arg ++ [41])
    else none
  | .FORALL | .EXISTS =>
    if n == 3 then do
      let me ← tokToString syn id data
      let v ← kidAt ps 0
      let d ← kidAt ps 1
      let b ← idAt ids 2
      let body ← kidAt ps 2 (compareOps id b == .greater)
      some (me ++ v ++ str syn .IN ++ d ++ [32] ++ body)
    else none
  | .NOT =>
    if n == 1 then do
      let me ← tokToString syn id data
      let b ← idAt ids 0
      let body ← kidAt ps 0 (compareOps id b == .greater)
      some (me ++ body)
    else none
  | .AND | .OR | .IMPLICATION | .EQUIVALENT =>
    if n == 2 then do
      let l ← idAt ids 0; let r ← idAt ids 1
      let needL := id != l && compareOps id l == .greater
      let needR := id == r || compareOps id r == .greater
      let a ← kidAt ps 0 needL
      let me ← tokToString syn id data
      let b ← kidAt ps 1 needR
      some (a ++ [32] ++ me ++ [32] ++ b)
    else none
  -- OutputBinary
  | .EQUAL | .NOTEQUAL | .GREATER | .LESSER | .GREATER_OR_EQ | .LESSER_OR_EQ
  | .IN | .NOTIN | .SUBSET | .SUBSET_OR_EQ | .NOTSUBSET | .ITERATE | .ASSIGN =>
    if n == 2 then do
      let a ← kidAt ps 0
      let me ← tokToString syn id data
      let b ← kidAt ps 1
      some (a ++ me ++ b)
    else none
  | .NT_DECLARATIVE_EXPR =>
    if n == 3 then do
      let v ← kidAt ps 0; let d ← kidAt ps 1; let p ← kidAt ps 2
      some (str syn .DECLARATIVE ++ [123] ++ v ++ str syn .IN ++ d ++ barSp ++ p ++ [125])
    else none
  | .NT_IMPERATIVE_EXPR =>
    if n > 1 then do
      let v ← kidAt ps 0
      let blocks ← sequence (ps.drop 1)
      some (str syn .IMPERATIVE ++ [123] ++ v ++ barSp ++ joinSep semiSp blocks ++ [125])
    else none
  | .NT_RECURSIVE_FULL =>
    if n == 4 then do
      let v ← kidAt ps 0; let d ← kidAt ps 1; let c ← kidAt ps 2; let s ← kidAt ps 3
      some (str syn .RECURSIVE ++ [123] ++ v ++ str syn .ASSIGN ++ d ++ barSp ++ c ++ barSp ++ s ++ [125])
    else none
  | .NT_RECURSIVE_SHORT =>
    if n == 3 then do
      let v ← kidAt ps 0; let d ← kidAt ps 1; let s ← kidAt ps 2
      some (str syn .RECURSIVE ++ [123] ++ v ++ str syn .ASSIGN ++ d ++ barSp ++ s ++ [125])
    else none
  | .DECART =>
    if n > 1 then do
      -- ViDecart: a factor is bracketed when it is a product, when `×` binds tighter than it, or
      -- when it binds equally and is not the first factor
      let ks ← sequence ((List.range n).map fun i =>
        match ids[i]? with
        | some c =>
          let order := compareOps .DECART c
          kidAt ps i (c == .DECART || order == .greater || (i > 0 && order == .equal))
        | none => none)
      some (joinSep (str syn .DECART) ks)
    else none
  | .BOOLEAN =>
    if n == 1 then do
      let k ← idAt ids 0
      let a ← kidAt ps 0 (k != .BOOLEAN)
      some (str syn .BOOLEAN ++ a)
    else none
  | .NT_ENUMERATION => do
      let ks ← sequence ps
      some (123 :: (joinSep commaSp ks ++ [125]))
  -- `default:` and PUNC_DEFINE / PUNC_STRUCT: ViGlobalDeclaration, `assert(ChildrenCount() != 0)`
  | _ =>
    if n != 0 then do
      let a ← kidAt ps 0
      let me ← tokToString syn id data
      if n > 1 then do
        let b ← kidAt ps 1
        some (a ++ me ++ b)
      else some (a ++ me)
    else none

mutual
/-- `GeneratorImplAST::FromTree(ast, syntax)` -/
def print (syn : Syn) : Ast → Option (List Nat)
  | .node id data _ _ kids => assemble syn id data (kidIds kids) (printKids syn kids)
def printKids (syn : Syn) : List Ast → List (Option (List Nat))
  | [] => []
  | k :: ks => print syn k :: printKids syn ks
def kidIds : List Ast → List Tok
  | [] => []
  | .node id _ _ _ _ :: ks => id :: kidIds ks
end

mutual
/-- the tree the ASCII text denotes: local names transliterated by `ConvertID`
(identity for MATH); ranges untouched -/
def translit (syn : Syn) : Ast → Ast
  | .node id data lo hi kids =>
    let data' := match id, data with
      | .ID_LOCAL, .text s => TokData.text (String.ofList ((convertID syn (stringUnits s)).map Char.ofNat))
      | _, d => d
    .node id data' lo hi (translitKids syn kids)
def translitKids (syn : Syn) : List Ast → List Ast
  | [] => []
  | k :: ks => translit syn k :: translitKids syn ks
end

end CCVerif.Printer
