import CCVerif.Model.PPFragment2
/-! The fragment `E3` of syntax trees covered by `parse_print_fragment3` (C05): everything of `E2`
(`Model/PPFragment2.lean`) plus the recursive construction `R{v := d | s}` (short) and `R{v := d | c | s}` (full) and
the imperative construction `I{val | b ; …}` whose blocks are formulas, `v :∈ s` and `v := s` (`v` a local name or a
tuple of variables). Definitions only (token-level printing `toks`, the raw tree `raw` the parser builds, the final
tree `ast`); the proofs are in `Lemmas/ParsePrint3*.lean` / `Lemmas/PrintLex3*.lean`.

Lists of blocks are first-order like lists of phrases: `bone b` = `[b]` with `b` a formula, `boneK op v s` = the one
block `v op s` (`op` = `:∈` / `:=`), `bmore b l` = `b ; l`, `bmoreK op v s l` = `v op s ; l`. An assignment block is not a
phrase of its own: the grammar accepts `v := s` as a `logic_predicates` anywhere, but `SemanticCheck` rejects it
everywhere except directly below `I{…}`, so it exists only inside the block-list constructors. The pseudo-root of a
block list in `raw` / `ast` is `NT_IMPERATIVE_EXPR` (only the children of a list's tree are ever used). -/
namespace CCVerif.PP3
open CCVerif.Syntax CCVerif.Generated CCVerif.Lexer CCVerif.Parser CCVerif.Printer CCVerif.PP

inductive E3 where
  | atom (id : Tok) (d : TokData)
  | text (f : Tok) (d : TokData) (a : E3)
  | sbin (op : Tok) (l r : E3)
  | prod2 (a b : E3)
  | prodN (p k : E3)
  | pred (op : Tok) (l r : E3)
  | neg (x : E3)
  | lbin (op : Tok) (l r : E3)
  /-- `ℬ(a)`; `ℬ` directly in front of another `ℬ` is printed without parentheses -/
  | pow (a : E3)
  /-- the one-element list -/
  | one (a : E3)
  /-- `a, l` -/
  | more (a l : E3)
  /-- `{l}` -/
  | enum (l : E3)
  /-- `(a, l)` -/
  | tuple (a l : E3)
  /-- `F1[l]` -/
  | fcall (d : TokData) (l : E3)
  /-- `P1[l]` -/
  | pcall (d : TokData) (l : E3)
  /-- `Fi1,2[ps](arg)` -/
  | filter (d : TokData) (ps arg : E3)
  /-- `∀vs∈dom body`; `vs` is a list of variables (local names or tuples of variables) -/
  | quant (q : Tok) (vs dom body : E3)
  /-- `D{v∈dom | body}` -/
  | decl (v dom body : E3)
  /-- `R{v := d | s}` -/
  | recS (v d s : E3)
  /-- `R{v := d | c | s}` -/
  | recF (v d c s : E3)
  /-- `I{val | bs}`; `bs` is a list of blocks -/
  | imp (val bs : E3)
  /-- the one-block list `b`, `b` a formula -/
  | bone (b : E3)
  /-- the one-block list `v op s`, `op` = `:∈` or `:=` -/
  | boneK (op : Tok) (v s : E3)
  /-- `b ; l` -/
  | bmore (b l : E3)
  /-- `v op s ; l` -/
  | bmoreK (op : Tok) (v s l : E3)
deriving Repr

namespace E3

/-- set expression -/
def isS : E3 → Bool
  | .atom .. | .text .. | .sbin .. | .prod2 .. | .prodN .. | .pow _ | .enum _ | .tuple .. | .fcall .. | .filter ..
  | .decl .. | .recS .. | .recF .. | .imp .. => true
  | _ => false

/-- formula -/
def isL : E3 → Bool
  | .pred .. | .neg _ | .lbin .. | .pcall .. | .quant .. => true
  | _ => false

/-- list of phrases -/
def isA : E3 → Bool
  | .one _ | .more .. => true
  | _ => false

/-- list of blocks -/
def isB : E3 → Bool
  | .bone _ | .boneK .. | .bmore .. | .bmoreK .. => true
  | _ => false

def isProd : E3 → Bool
  | .prod2 .. | .prodN .. => true
  | _ => false

def isPow : E3 → Bool
  | .pow _ => true
  | _ => false

/-- a variable of a declaration (local name or tuple of variables); for a list: every element is one -/
def isVar : E3 → Bool
  | .atom id _ => id == .ID_LOCAL
  | .tuple a l => a.isVar && l.isVar
  | .one a => a.isVar
  | .more a l => a.isVar && l.isVar
  | _ => false

/-- token id of the root -/
def top : E3 → Tok
  | .atom id _ => id
  | .text f _ _ => f
  | .sbin op _ _ => op
  | .prod2 .. | .prodN .. => .DECART
  | .pred op _ _ => op
  | .neg _ => .NOT
  | .lbin op _ _ => op
  | .pow _ => .BOOLEAN
  | .one _ | .more .. => .PUNC_COMMA
  | .enum _ => .NT_ENUMERATION
  | .tuple .. => .NT_TUPLE
  | .fcall .. | .pcall .. => .NT_FUNC_CALL
  | .filter .. => .FILTER
  | .quant q .. => q
  | .decl .. => .NT_DECLARATIVE_EXPR
  | .recS .. => .NT_RECURSIVE_SHORT
  | .recF .. => .NT_RECURSIVE_FULL
  | .imp .. | .bone _ | .boneK .. | .bmore .. | .bmoreK .. => .NT_IMPERATIVE_EXPR

/-- `:∈` or `:=` -/
def isBlkOp (op : Tok) : Bool := op == .ITERATE || op == .ASSIGN

def wf : E3 → Bool
  | .atom id _ => isAtomId id
  | .text f _ a => isTextFn f && a.isS && a.wf
  | .sbin op l r => isSetOp7 op && l.isS && r.isS && l.wf && r.wf
  | .prod2 a b => a.isS && b.isS && a.wf && b.wf
  | .prodN p k => p.isProd && k.isS && p.wf && k.wf
  | .pred op l r => isPredOp op && l.isS && r.isS && l.wf && r.wf
  | .neg x => x.isL && x.wf
  | .lbin op l r => isLogicOp op && l.isL && r.isL && l.wf && r.wf
  | .pow a => a.isS && a.wf
  | .one a => a.isS && a.wf
  | .more a l => a.isS && l.isA && a.wf && l.wf
  | .enum l => l.isA && l.wf
  | .tuple a l => a.isS && l.isA && a.wf && l.wf
  | .fcall _ l => l.isA && l.wf
  | .pcall _ l => l.isA && l.wf
  | .filter _ ps arg => ps.isA && arg.isS && ps.wf && arg.wf
  | .quant q vs dom body =>
    (q == .FORALL || q == .EXISTS) && vs.isA && vs.isVar && dom.isS && body.isL && vs.wf && dom.wf && body.wf
  | .decl v dom body => v.isS && v.isVar && dom.isS && body.isL && v.wf && dom.wf && body.wf
  | .recS v d s => v.isS && v.isVar && d.isS && s.isS && v.wf && d.wf && s.wf
  | .recF v d c s => v.isS && v.isVar && d.isS && c.isL && s.isS && v.wf && d.wf && c.wf && s.wf
  | .imp val bs => val.isS && bs.isB && val.wf && bs.wf
  | .bone b => b.isL && b.wf
  | .boneK op v s => isBlkOp op && v.isS && v.isVar && s.isS && v.wf && s.wf
  | .bmore b l => b.isL && l.isB && b.wf && l.wf
  | .bmoreK op v s l => isBlkOp op && v.isS && v.isVar && s.isS && l.isB && v.wf && s.wf && l.wf

/-- a variable (or list of variables) as a declaration tree: tuples become `NT_TUPLE_DECL`; the children of the
result of a list are its elements -/
def dast : E3 → Ast
  | .atom id d => .node id d 0 0 []
  | .tuple a l => .node .NT_TUPLE_DECL .none 0 0 (a.dast :: l.dast.kids)
  | .one a => .node .PUNC_COMMA .none 0 0 [a.dast]
  | .more a l => .node .PUNC_COMMA .none 0 0 (a.dast :: l.dast.kids)
  | _ => .node .PUNC_COMMA .none 0 0 []

/-- the declaration node of a quantifier: the single variable, or `NT_ENUM_DECL` over all of them -/
def declOf : E3 → Ast
  | .one v => v.dast
  | vs => .node .NT_ENUM_DECL .none 0 0 vs.dast.kids

/-- the tree as the shared `Ast` (all positions 0); the children of the result of a list are its elements -/
def ast : E3 → Ast
  | .atom id d => .node id d 0 0 []
  | .text f d a => .node f d 0 0 [a.ast]
  | .sbin op l r => .node op .none 0 0 [l.ast, r.ast]
  | .prod2 a b => .node .DECART .none 0 0 [a.ast, b.ast]
  | .prodN p k => .node .DECART .none 0 0 (p.ast.kids ++ [k.ast])
  | .pred op l r => .node op .none 0 0 [l.ast, r.ast]
  | .neg x => .node .NOT .none 0 0 [x.ast]
  | .lbin op l r => .node op .none 0 0 [l.ast, r.ast]
  | .pow a => .node .BOOLEAN .none 0 0 [a.ast]
  | .one a => .node .PUNC_COMMA .none 0 0 [a.ast]
  | .more a l => .node .PUNC_COMMA .none 0 0 (a.ast :: l.ast.kids)
  | .enum l => .node .NT_ENUMERATION .none 0 0 l.ast.kids
  | .tuple a l => .node .NT_TUPLE .none 0 0 (a.ast :: l.ast.kids)
  | .fcall d l => .node .NT_FUNC_CALL .none 0 0 (.node .ID_FUNCTION d 0 0 [] :: l.ast.kids)
  | .pcall d l => .node .NT_FUNC_CALL .none 0 0 (.node .ID_PREDICATE d 0 0 [] :: l.ast.kids)
  | .filter d ps arg => .node .FILTER d 0 0 (ps.ast.kids ++ [arg.ast])
  | .quant q vs dom body => .node q .none 0 0 [vs.declOf, dom.ast, body.ast]
  | .decl v dom body => .node .NT_DECLARATIVE_EXPR .none 0 0 [v.dast, dom.ast, body.ast]
  | .recS v d s => .node .NT_RECURSIVE_SHORT .none 0 0 [v.dast, d.ast, s.ast]
  | .recF v d c s => .node .NT_RECURSIVE_FULL .none 0 0 [v.dast, d.ast, c.ast, s.ast]
  | .imp val bs => .node .NT_IMPERATIVE_EXPR .none 0 0 (val.ast :: bs.ast.kids)
  | .bone b => .node .NT_IMPERATIVE_EXPR .none 0 0 [b.ast]
  | .boneK op v s => .node .NT_IMPERATIVE_EXPR .none 0 0 [.node op .none 0 0 [v.dast, s.ast]]
  | .bmore b l => .node .NT_IMPERATIVE_EXPR .none 0 0 (b.ast :: l.ast.kids)
  | .bmoreK op v s l => .node .NT_IMPERATIVE_EXPR .none 0 0 (.node op .none 0 0 [v.dast, s.ast] :: l.ast.kids)

/-- the token sequence of the printed text -/
def toks : E3 → Toks
  | .atom id d => [tk id d]
  | .text f d a => tk f d :: tk .PUNC_PL :: (a.toks ++ [tk .PUNC_PR])
  | .sbin op l r => wrap (brSet op l.top .left) l.toks ++ tk op :: wrap (brSet op r.top .right) r.toks
  | .prod2 a b => wrap (brProd true a.top) a.toks ++ tk .DECART :: wrap (brProd false b.top) b.toks
  | .prodN p k => p.toks ++ tk .DECART :: wrap (brProd false k.top) k.toks
  | .pred op l r => l.toks ++ tk op :: r.toks
  | .neg x => tk .NOT :: wrap (brNot x.top) x.toks
  | .lbin op l r => wrap (brLogic op l.top .left) l.toks ++ tk op :: wrap (brLogic op r.top .right) r.toks
  | .pow a => if a.isPow then tk .BOOLEAN :: a.toks else tk .BOOLEAN :: tk .PUNC_PL :: (a.toks ++ [tk .PUNC_PR])
  | .one a => a.toks
  | .more a l => a.toks ++ tk .PUNC_COMMA :: l.toks
  | .enum l => tk .PUNC_CL :: (l.toks ++ [tk .PUNC_CR])
  | .tuple a l => tk .PUNC_PL :: (a.toks ++ tk .PUNC_COMMA :: (l.toks ++ [tk .PUNC_PR]))
  | .fcall d l => tk .ID_FUNCTION d :: tk .PUNC_SL :: (l.toks ++ [tk .PUNC_SR])
  | .pcall d l => tk .ID_PREDICATE d :: tk .PUNC_SL :: (l.toks ++ [tk .PUNC_SR])
  | .filter d ps arg => tk .FILTER d :: tk .PUNC_SL :: (ps.toks ++ tk .PUNC_SR :: tk .PUNC_PL :: (arg.toks ++ [tk .PUNC_PR]))
  | .quant q vs dom body => tk q :: (vs.toks ++ tk .IN :: (dom.toks ++ wrap (brQ q body.top) body.toks))
  | .decl v dom body =>
    tk .DECLARATIVE :: tk .PUNC_CL :: (v.toks ++ tk .IN :: (dom.toks ++ tk .PUNC_BAR :: (body.toks ++ [tk .PUNC_CR])))
  | .recS v d s =>
    tk .RECURSIVE :: tk .PUNC_CL :: (v.toks ++ tk .ASSIGN :: (d.toks ++ tk .PUNC_BAR :: (s.toks ++ [tk .PUNC_CR])))
  | .recF v d c s =>
    tk .RECURSIVE :: tk .PUNC_CL :: (v.toks ++ tk .ASSIGN :: (d.toks ++ tk .PUNC_BAR :: (c.toks ++ tk .PUNC_BAR ::
      (s.toks ++ [tk .PUNC_CR]))))
  | .imp val bs => tk .IMPERATIVE :: tk .PUNC_CL :: (val.toks ++ tk .PUNC_BAR :: (bs.toks ++ [tk .PUNC_CR]))
  | .bone b => b.toks
  | .boneK op v s => v.toks ++ tk op :: s.toks
  | .bmore b l => b.toks ++ tk .PUNC_SEMICOLON :: l.toks
  | .bmoreK op v s l => v.toks ++ tk op :: (s.toks ++ tk .PUNC_SEMICOLON :: l.toks)

/-- the raw tree the parser builds before `CreateSyntaxTree` (bracket nodes kept); the children of the result of a
list are the raw trees of its elements -/
def raw : E3 → Ast
  | .atom id d => .node id d 0 0 []
  | .text f d a => .node f d 0 0 [a.raw]
  | .sbin op l r => .node op .none 0 0 [wrapRaw (brSet op l.top .left) l.raw, wrapRaw (brSet op r.top .right) r.raw]
  | .prod2 a b => .node .DECART .none 0 0 [wrapRaw (brProd true a.top) a.raw, wrapRaw (brProd false b.top) b.raw]
  | .prodN p k => .node .DECART .none 0 0 (p.raw.kids ++ [wrapRaw (brProd false k.top) k.raw])
  | .pred op l r => .node op .none 0 0 [l.raw, r.raw]
  | .neg x => .node .NOT .none 0 0 [wrapRaw (brNot x.top) x.raw]
  | .lbin op l r => .node op .none 0 0 [wrapRaw (brLogic op l.top .left) l.raw, wrapRaw (brLogic op r.top .right) r.raw]
  | .pow a => .node .BOOLEAN .none 0 0 [a.raw]
  | .one a => .node .PUNC_COMMA .none 0 0 [a.raw]
  | .more a l => .node .PUNC_COMMA .none 0 0 (a.raw :: l.raw.kids)
  | .enum l => .node .NT_ENUMERATION .none 0 0 l.raw.kids
  | .tuple a l => .node .NT_TUPLE .none 0 0 (a.raw :: l.raw.kids)
  | .fcall d l => .node .NT_FUNC_CALL .none 0 0 (.node .ID_FUNCTION d 0 0 [] :: l.raw.kids)
  | .pcall d l => .node .NT_FUNC_CALL .none 0 0 (.node .ID_PREDICATE d 0 0 [] :: l.raw.kids)
  | .filter d ps arg => .node .FILTER d 0 0 (ps.raw.kids ++ [arg.raw])
  | .quant q vs dom body => .node q .none 0 0 [vs.declOf, dom.raw, wrapRaw (brQ q body.top) body.raw]
  | .decl v dom body => .node .NT_DECLARATIVE_EXPR .none 0 0 [v.dast, dom.raw, body.raw]
  | .recS v d s => .node .NT_RECURSIVE_SHORT .none 0 0 [v.dast, d.raw, s.raw]
  | .recF v d c s => .node .NT_RECURSIVE_FULL .none 0 0 [v.dast, d.raw, c.raw, s.raw]
  | .imp val bs => .node .NT_IMPERATIVE_EXPR .none 0 0 (val.raw :: bs.raw.kids)
  | .bone b => .node .NT_IMPERATIVE_EXPR .none 0 0 [b.raw]
  | .boneK op v s => .node .NT_IMPERATIVE_EXPR .none 0 0 [.node op .none 0 0 [v.dast, s.raw]]
  | .bmore b l => .node .NT_IMPERATIVE_EXPR .none 0 0 (b.raw :: l.raw.kids)
  | .bmoreK op v s l => .node .NT_IMPERATIVE_EXPR .none 0 0 (.node op .none 0 0 [v.dast, s.raw] :: l.raw.kids)

/-- nonterminal of the phrase -/
def kind : E3 → K
  | .sbin .. | .prod2 .. | .prodN .. => .setBin
  | .pred .. => .pred
  | .neg _ | .pcall .. | .quant .. => .unary
  | .lbin .. => .lbin
  | _ => .set

/-- lowest precedence on the unbracketed left spine = precedence of the root operator; other
phrases bind tighter than anything -/
def low : E3 → Nat
  | .sbin op _ _ => prec op
  | .prod2 .. | .prodN .. => prec .DECART
  | .lbin op _ _ => prec op
  | _ => 100

/-- a generous size measure: the fuel any sub-parser needs on this phrase -/
def sz : E3 → Nat
  | .atom .. => 4
  | .text _ _ a => a.sz + 8
  | .sbin _ l r => l.sz + r.sz + 16
  | .prod2 a b => a.sz + b.sz + 16
  | .prodN p k => p.sz + k.sz + 16
  | .pred _ l r => l.sz + r.sz + 8
  | .neg x => x.sz + 16
  | .lbin _ l r => l.sz + r.sz + 16
  | .pow a => a.sz + 8
  | .one a => a.sz
  | .more a l => a.sz + l.sz + 8
  | .enum l => l.sz + 16
  | .tuple a l => a.sz + l.sz + 16
  | .fcall _ l => l.sz + 16
  | .pcall _ l => l.sz + 16
  | .filter _ ps arg => ps.sz + arg.sz + 16
  | .quant _ vs dom body => vs.sz + dom.sz + body.sz + 16
  | .decl v dom body => v.sz + dom.sz + body.sz + 16
  | .recS v d s => v.sz + d.sz + s.sz + 16
  | .recF v d c s => v.sz + d.sz + c.sz + s.sz + 16
  | .imp val bs => val.sz + bs.sz + 16
  | .bone b => b.sz
  | .boneK _ v s => v.sz + s.sz + 16
  | .bmore b l => b.sz + l.sz + 16
  | .bmoreK _ v s l => v.sz + s.sz + l.sz + 24

/-- root operator of a binary set phrase -/
def binTop? : E3 → Option Tok
  | .sbin cop _ _ => some cop
  | .prod2 .. | .prodN .. => some .DECART
  | _ => none

end E3

/-! ## what the grammar needs from the bracket decisions (as for `E2`) -/

def okChildS2 (p : Tok) (c : E3) (side : Side) : Bool :=
  match c.binTop? with
  | some cop => brSet p cop side || condOK p cop side
  | none => !brSet p c.top side

def okFactor2 (first : Bool) (c : E3) : Bool :=
  match c.binTop? with
  | some cop => brProd first cop || (cop != .DECART && condOK .DECART cop (if first then .left else .right))
  | none => !brProd first c.top

def okChildL2 (p : Tok) (c : E3) (side : Side) : Bool :=
  match c with
  | .lbin cop _ _ => brLogic p cop side || condOK p cop side
  | .pred .. => true
  | _ => !brLogic p c.top side

/-- the operand of a prefix operator (`¬`, `∀`, `∃`) must be a `logic_no_binary`: a connective is bracketed, a
predicate may be, nothing else is; `br` = the bracket decision of the operator as a function of the operand's root -/
def okBody (br : Tok → Bool) (c : E3) : Bool :=
  match c with
  | .lbin cop _ _ => br cop
  | .pred .. => true
  | _ => !br c.top

def okNot2 (c : E3) : Bool := okBody brNot c

def okQ2 (q : Tok) (c : E3) : Bool := okBody (brQ q) c

def E3.ok : E3 → Bool
  | .atom .. => true
  | .text _ _ a => a.ok
  | .sbin op l r => okChildS2 op l .left && okChildS2 op r .right && l.ok && r.ok
  | .prod2 a b => okFactor2 true a && okFactor2 false b && a.ok && b.ok
  | .prodN p k => okFactor2 false k && p.ok && k.ok
  | .pred _ l r => l.ok && r.ok
  | .neg x => okNot2 x && x.ok
  | .lbin op l r => okChildL2 op l .left && okChildL2 op r .right && l.ok && r.ok
  | .pow a => a.ok
  | .one a => a.ok
  | .more a l => a.ok && l.ok
  | .enum l => l.ok
  | .tuple a l => a.ok && l.ok
  | .fcall _ l => l.ok
  | .pcall _ l => l.ok
  | .filter _ ps arg => ps.ok && arg.ok
  | .quant q vs dom body => okQ2 q body && vs.ok && dom.ok && body.ok
  | .decl v dom body => v.ok && dom.ok && body.ok
  | .recS v d s => v.ok && d.ok && s.ok
  | .recF v d c s => v.ok && d.ok && c.ok && s.ok
  | .imp val bs => val.ok && bs.ok
  | .bone b => b.ok
  | .boneK _ v s => v.ok && s.ok
  | .bmore b l => b.ok && l.ok
  | .bmoreK _ v s l => v.ok && s.ok && l.ok

/-! ## the fragment `E2` inside `E3` -/

def emb3 : E2 → E3
  | .atom id d => .atom id d
  | .text f d a => .text f d (emb3 a)
  | .sbin op l r => .sbin op (emb3 l) (emb3 r)
  | .prod2 a b => .prod2 (emb3 a) (emb3 b)
  | .prodN p k => .prodN (emb3 p) (emb3 k)
  | .pred op l r => .pred op (emb3 l) (emb3 r)
  | .neg x => .neg (emb3 x)
  | .lbin op l r => .lbin op (emb3 l) (emb3 r)
  | .pow a => .pow (emb3 a)
  | .one a => .one (emb3 a)
  | .more a l => .more (emb3 a) (emb3 l)
  | .enum l => .enum (emb3 l)
  | .tuple a l => .tuple (emb3 a) (emb3 l)
  | .fcall d l => .fcall d (emb3 l)
  | .pcall d l => .pcall d (emb3 l)
  | .filter d ps arg => .filter d (emb3 ps) (emb3 arg)
  | .quant q vs dom body => .quant q (emb3 vs) (emb3 dom) (emb3 body)
  | .decl v dom body => .decl (emb3 v) (emb3 dom) (emb3 body)

end CCVerif.PP3
