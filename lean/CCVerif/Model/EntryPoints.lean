import CCVerif.Generated.Lalr
import CCVerif.Model.Convert
import CCVerif.Model.Checker
import CCVerif.Model.Normalize
import CCVerif.Model.Eval

/-!
# The composed entry points on byte strings (C04)

Transcription of the public entry points as a user calls them, with the error log:

* `parseEntry`   = `Parser::Parse(text, hint)` (Parser.cpp): `log.Clear()`, lexer chosen by the hint / `EstimateSyntax`,
  `RSParser::Parse` (RSParser.cpp) on the lazy token stream — `yylex` turns INTERRUPT into end of input and counts a
  critical error, `LexerBase::Stream` logs `unknownSymbol` when the INTERRUPT token is PULLED, the bison automaton
  (tables regenerated from RSParserImpl.cpp: `Generated/Lalr.lean`) runs its error recovery and the error
  productions log a `ParseEID` at `currentPosition` = start of the last token pulled, `TupleDeclaration` /
  `SemanticCheck` log at the start of a node, and the `ParseEID::syntax` fallback fires when nothing critical was counted.
* `checkEntry`   = `Auditor::CheckType(text, hint)` then, on success, `Auditor::CheckValue()` (Auditor.cpp).
* `evalEntry`    = `Interpreter::Evaluate(text, hint)` (Interpreter.cpp): empty text returns early WITHOUT an error,
  parse, type check (no value audit), normalise, evaluate (name collection + calculation, `unknownError` fallback).
* `convertEntry` = `ConvertTo(text, target)` (RSGenerator.cpp) = `Convert.convertTo`.

The LR automaton is the real parser's; the TREE is the one of the recursive-descent model `Parser.parse` (tied to the real
parser by C05/C06). Where the two disagree (automaton accepts, recursive descent rejects, or the reverse) the status
is `gap` — never observed by the correspondence run, not proved impossible.
-/
namespace CCVerif.Entry
open CCVerif.Syntax CCVerif.Lexer CCVerif.Parser CCVerif.Convert CCVerif.Types CCVerif.Checker
open CCVerif.Gen

abbrev Err := Nat × Int

def eidUnknownSymbol : Nat := 0x8203

/-! ## the bison automaton (skeleton lalr1.cc) -/

/-- `yylex` + `yytranslate_`: INTERRUPT and END end the input (symbol 0 = YYEOF); other tokens are translated through
`translate_table`; beyond `code_max`: YYUNDEF = 2 -/
def symOf (t : LTok) : Int :=
  if t.id == .INTERRUPT || t.id == .END then 0
  else
    let c : Nat := t.id.code
    if (c : Int) ≤ Lalr.codeMax then Lalr.translate.getD c 2 else 2

/-- how `impl->parse()` ends -/
inductive LROut where
  /-- YYACCEPT: `parse() == 0` -/
  | accept
  /-- YYABORT out of the error recovery (no state shifts the error token, or end of input while discarding): nothing logged -/
  | abort
  /-- an error production `{ state->OnError(eid); YYABORT; }`: logged at `currentPosition` -/
  | errProd (eid : Nat)
  /-- `TupleDeclaration` (`expectedLocal`) or `SemanticCheck` (`invalidImperative`) failed: logged at a node's start -/
  | posErr (eid : Nat) (pos : Int)
  /-- the recursive-descent model does not deliver the tree the automaton has reduced, or a table index is out of range -/
  | gap (why : String)
  | outOfFuel
deriving Repr, DecidableEq

structure LRState where
  /-- (state, index of the first token of the symbol), top first -/
  stack : List (Int × Nat)
  /-- lookahead symbol kind (`none` = empty) -/
  la : Option Int
  /-- tokens pulled from the lexer so far -/
  read : Nat
  /-- tokens shifted so far -/
  shifted : Nat
  errstatus : Nat

inductive Step where
  | next (s : LRState)
  | done (o : LROut) (read : Nat)

mutual
/-- `TupleDeclaration`'s walk (explicit stack: a node, then its children from the LAST to the first): start of the first
node that is neither `NT_TUPLE` nor `ID_LOCAL` -/
def tupleErr : Ast → Option Int
  | .node id _ lo _ kids =>
    if id == .NT_TUPLE || id == .ID_LOCAL then tupleErrList kids else some lo
def tupleErrList : List Ast → Option Int
  | [] => none
  | k :: ks =>
    match tupleErrList ks with
    | some p => some p
    | none => tupleErr k
end

mutual
/-- `SemanticCheck`'s walk (same order): start of the first `ASSIGN` / `ITERATE` node not directly below `NT_IMPERATIVE_EXPR` -/
def semErr (parent : Option Tok) : Ast → Option Int
  | .node id _ lo _ kids =>
    if (id == .ASSIGN || id == .ITERATE) && !(parent == some .NT_IMPERATIVE_EXPR) then some lo
    else semErrList (some id) kids
def semErrList (parent : Option Tok) : List Ast → Option Int
  | [] => none
  | k :: ks =>
    match semErrList parent ks with
    | some p => some p
    | none => semErr parent k
end

/-- the action of `variable: tuple` over the tokens `[first, last)`: the tuple the automaton has just reduced, as the
recursive-descent model builds it -/
def tupleCheck (ts : Toks) (first last : Nat) : Option LROut :=
  let slice := (ts.drop first).take (last - first)
  match primary (fuelFor slice.length) slice with
  | some (_, e, []) =>
    match tupleErr e with
    | some p => some (.posErr Lalr.eidExpectedLocal p)
    | none => none
  | _ => some (.gap "tuple")

/-- the `Finalize*` actions after `shifted` tokens: `SemanticCheck` on the raw tree -/
def finalizeCheck (ts : Toks) (shifted : Nat) : Option LROut :=
  let pre := ts.take shifted
  match expression (fuelFor pre.length) pre with
  | some raw =>
    match semErr none raw with
    | some p => some (.posErr Lalr.eidInvalidImperative p)
    | none => none
  | none => some (.gap "finalize")

/-- `yy_lr_goto_state_` -/
def gotoState (st sym : Int) : Option Int :=
  let i := (sym - Lalr.ntokens).toNat
  match Lalr.pgoto[i]? with
  | none => none
  | some pg =>
    let r := pg + st
    if 0 ≤ r ∧ r ≤ Lalr.last then
      match Lalr.check[r.toNat]? with
      | some c => if c == st then Lalr.table[r.toNat]? else Lalr.defgoto[i]?
      | none => none
    else Lalr.defgoto[i]?

/-- `yyerrlab1`: pop until a state shifts the error token (symbol 1); `some none` = YYABORT, `none` = table index -/
def popToError : List (Int × Nat) → Option (Option (Int × List (Int × Nat)))
  | [] => some none
  | (s, f) :: rest =>
    match Lalr.pact[s.toNat]? with
    | none => none
    | some yyn =>
      let hit : Option Int :=
        if yyn != Lalr.pactNinf then
          let k := yyn + 1
          if 0 ≤ k ∧ k ≤ Lalr.last ∧ Lalr.check[k.toNat]? == some 1 then
            match Lalr.table[k.toNat]? with
            | some v => if 0 < v then some v else none
            | none => none
          else none
        else none
      match hit with
      | some v => some (some (v, (s, f) :: rest))
      | none => if rest.isEmpty then some none else popToError rest

/-- `yyerrlab` (+ `yyerrlab1`) -/
def onError (s : LRState) : Step :=
  if s.errstatus == 3 && s.la == some 0 then .done .abort s.read
  else
    let la := if s.errstatus == 3 then none else s.la
    match popToError s.stack with
    | none => .done (.gap "table") s.read
    | some none => .done .abort s.read
    | some (some (v, stack)) => .next { s with stack := (v, s.shifted) :: stack, la := la, errstatus := 3 }

/-- `yyreduce` with rule `n` -/
def reduce (ts : Toks) (s : LRState) (n : Nat) : Step :=
  match Lalr.r2[n]?, Lalr.r1[n]? with
  | some len, some lhs =>
    let len := len.toNat
    let first := if len == 0 then s.shifted else ((s.stack.drop (len - 1)).head?.map (·.2)).getD s.shifted
    let act : Option LROut :=
      match Lalr.actions.find? (fun a => a.1 == n) with
      | some (_, 1, eid) => some (.errProd eid)
      | some (_, 2, _) => tupleCheck ts first s.shifted
      | some (_, 3, _) => finalizeCheck ts s.shifted
      | some _ => some (.gap "action")
      | none => none
    match act with
    | some o => .done o s.read
    | none =>
      match s.stack.drop len with
      | (base, bf) :: rest =>
        match gotoState base lhs with
        | some g => .next { s with stack := (g, first) :: (base, bf) :: rest }
        | none => .done (.gap "table") s.read
      | [] => .done (.gap "stack") s.read
  | _, _ => .done (.gap "table") s.read

/-- `yydefault` -/
def default (ts : Toks) (s : LRState) (state : Int) : Step :=
  match Lalr.defact[state.toNat]? with
  | none => .done (.gap "table") s.read
  | some d => if d == 0 then onError s else reduce ts s d.toNat

/-- one round of the skeleton's loop: `yynewstate` / `yybackup` -/
def step (ts : Toks) (s : LRState) : Step :=
  match s.stack with
  | [] => .done (.gap "stack") s.read
  | (state, _) :: _ =>
    if state == Lalr.final then .done .accept s.read
    else
      match Lalr.pact[state.toNat]? with
      | none => .done (.gap "table") s.read
      | some yyn =>
        if yyn == Lalr.pactNinf then default ts s state
        else
          -- read a lookahead token
          let pulled : Option (Int × Nat) :=
            match s.la with
            | some k => some (k, s.read)
            | none =>
              match ts[s.read]? with
              | some t => some (symOf t, s.read + 1)
              | none => none
          match pulled with
          | none => .done (.gap "read past the end") s.read
          | some (la, read) =>
            let s := { s with la := some la, read := read }
            let k := yyn + la
            if k < 0 ∨ Lalr.last < k ∨ Lalr.check[k.toNat]? != some la then default ts s state
            else
              match Lalr.table[k.toNat]? with
              | none => .done (.gap "table") s.read
              | some v =>
                if v ≤ 0 then
                  if v == Lalr.tableNinf then onError s else reduce ts s (-v).toNat
                else
                  .next { s with stack := (v, s.shifted) :: s.stack, la := none, shifted := s.shifted + 1,
                                 errstatus := s.errstatus - 1 }

/-- the loop; the result and the number of tokens pulled -/
def lrLoop (ts : Toks) : Nat → LRState → LROut × Nat
  | 0, s => (.outOfFuel, s.read)
  | fuel + 1, s =>
    match step ts s with
    | .done o read => (o, read)
    | .next s' => lrLoop ts fuel s'

def lrFuel (n : Nat) : Nat := 64 * n + 256

/-- `impl->parse()` on the token list (tokens after the first INTERRUPT / END are never pulled) -/
def lrRun (ts : Toks) : LROut × Nat :=
  lrLoop ts (lrFuel ts.length) { stack := [(0, 0)], la := none, read := 0, shifted := 0, errstatus := 0 }

/-! ## Parser::Parse -/

inductive Status where
  | ok
  | failed
  /-- outside what the model determines (automaton and recursive descent disagree, fuel, a faulting site of the checker /
  evaluator / printer model) -/
  | gap (why : String)
deriving Repr, DecidableEq

/-- `state.currentPosition` after `read` tokens were pulled -/
def curPos (ts : Toks) (read : Nat) : Int :=
  if read == 0 then 0 else
    match ts[read - 1]? with
    | some t => t.lo
    | none => 0

/-- what `LexerBase::Stream` logged: `unknownSymbol` at the INTERRUPT token if it is among the `read` tokens pulled -/
def lexErrs (ts : Toks) (read : Nat) : List Err :=
  ((ts.take read).filter (fun t => t.id == .INTERRUPT)).map (fun t => (eidUnknownSymbol, t.lo))

structure ParseRes where
  syn : Syn
  units : List Nat
  status : Status
  /-- the log in the order of logging -/
  errors : List Err
  /-- `parser.AST()` when `status = ok` -/
  tree : Option Ast
deriving Repr

/-- `RSParser::Parse(stream)` with the log -/
def parseStream (syn : Syn) (units : List Nat) (ts : Toks) : ParseRes :=
  let (out, read) := lrRun ts
  let lx := lexErrs ts read
  let rd := parseToks ts
  let failedWith (errs : List Err) : ParseRes :=
    match rd with
    | none => ⟨syn, units, .failed, errs, none⟩
    | some _ => ⟨syn, units, .gap "automaton rejects, recursive descent accepts", errs, none⟩
  match out with
  | .accept =>
    if lx.isEmpty then
      match rd with
      | some t => ⟨syn, units, .ok, [], some t⟩
      | none => ⟨syn, units, .gap "automaton accepts, recursive descent rejects", [], none⟩
    else failedWith lx                      -- `countCriticalErrors != 0`: no fallback
  | .abort =>
    if lx.isEmpty then failedWith [(Lalr.eidSyntax, curPos ts read)]    -- the `ParseEID::syntax` fallback
    else failedWith lx
  | .errProd eid =>
    if isCritical eid then failedWith (lx ++ [(eid, curPos ts read)])
    else ⟨syn, units, .gap "non-critical ParseEID", lx, none⟩
  | .posErr eid pos =>
    if isCritical eid then failedWith (lx ++ [(eid, pos)])
    else ⟨syn, units, .gap "non-critical ParseEID", lx, none⟩
  | .gap why => ⟨syn, units, .gap why, lx, none⟩
  | .outOfFuel => ⟨syn, units, .gap "fuel", lx, none⟩

/-- `Parser::Parse(text, hint)`; `none` = the text is outside the lexer model (MATH, ill-formed UTF-8) -/
def parseEntry (hint : Option Syn) (bytes : List Nat) : Option ParseRes :=
  let syn := chooseSyntax hint bytes
  match unitsOf syn bytes with
  | none => none
  | some units =>
    match lex syn units with
    | none => some ⟨syn, units, .gap "lexer", [], none⟩
    | some ts => some (parseStream syn units ts)

/-! ## Auditor::CheckType / CheckValue -/

structure CheckResE where
  parse : ParseRes
  /-- verdict of `CheckType(text, hint)` and `Errors()` after it -/
  status : Status
  errors : List Err
  type : Option ExprTy
  /-- `CheckValue()` as a second call (only when `CheckType` returned true): verdict and `Errors()` after it -/
  vstatus : Option Status
  verrors : List Err
  vclass : Option VClass
deriving Repr

/-- fuel of the value audit: the tree's depth plus the depth of every inlined function body -/
def vfuel (Γ : Ctx) (t : Ast) : Nat := Ast.depth t + 40 + (Γ.asts.map (fun a => Ast.depth a.2)).foldl (· + ·) 0

def checkEntry (Γ : Ctx) (hint : Option Syn) (bytes : List Nat) : Option CheckResE :=
  match parseEntry hint bytes with
  | none => none
  | some p =>
    match p.status, p.tree with
    | .ok, some t =>
      let r := check Γ t
      match r.out with
      | .ok τ =>
        let v := vcheck Γ (vfuel Γ t) t
        let (vs, vc) : Status × Option VClass :=
          match v.stuck, v.out with
          | some site, _ => (.gap site, none)
          | none, some c => (.ok, some c)
          | none, none => (.failed, none)
        some ⟨p, .ok, p.errors ++ r.errs, some τ, some vs, p.errors ++ r.errs ++ v.errs, vc⟩
      | .fail => some ⟨p, .failed, p.errors ++ r.errs, none, none, [], none⟩
      | .stuck site => some ⟨p, .gap site, p.errors ++ r.errs, none, none, [], none⟩
    | .ok, none => some ⟨p, .gap "no tree", p.errors, none, none, [], none⟩
    | st, _ => some ⟨p, st, p.errors, none, none, [], none⟩

/-! ## Interpreter::Evaluate -/

structure EvalResE where
  status : Status
  errors : List Err
  value : Option CCVerif.Eval.EvalRes
  /-- the documented early return on an empty text: `nullopt` with an EMPTY log -/
  emptyInput : Bool := false
deriving Repr

def evalEntry (Γ : Ctx) (env : CCVerif.Eval.Env) (fuel : Nat) (hint : Option Syn) (bytes : List Nat) : Option EvalResE :=
  if bytes.isEmpty then some ⟨.failed, [], none, true⟩
  else
    match parseEntry hint bytes with
    | none => none
    | some p =>
      match p.status, p.tree with
      | .ok, some t =>
        let r := check Γ t
        match r.out with
        | .ok _ =>
          match (CCVerif.Eval.evaluate fuel env t).1 with
          | .ok v => some ⟨.ok, p.errors ++ r.errs, some (.ok v), false⟩
          | .okBool b => some ⟨.ok, p.errors ++ r.errs, some (.okBool b), false⟩
          | .err eid pos =>
            if isCritical eid then some ⟨.failed, p.errors ++ r.errs ++ [(eid, pos)], some (.err eid pos), false⟩
            else some ⟨.gap "non-critical ValueEID", p.errors ++ r.errs, none, false⟩
          | .stuck site => some ⟨.gap site, p.errors ++ r.errs, none, false⟩
          | .outOfFuel => some ⟨.gap "fuel", p.errors ++ r.errs, none, false⟩
        | .fail => some ⟨.failed, p.errors ++ r.errs, none, false⟩
        | .stuck site => some ⟨.gap site, p.errors ++ r.errs, none, false⟩
      | .ok, none => some ⟨.gap "no tree", p.errors, none, false⟩
      | st, _ => some ⟨st, p.errors, none, false⟩

/-! ## ConvertTo -/

/-- `ConvertTo(input, target)` -/
def convertEntry (target : Syn) (input : List Nat) : Conv := convertTo target input

end CCVerif.Entry
