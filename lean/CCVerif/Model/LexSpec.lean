import CCVerif.Model.Syntax
/-!
Vocabulary of the tables that `tools/gen_tables.py` extracts from the RE-flex lexer
specifications (`MathLexerImpl.l`, `AsciiLexerImpl.l`) and the bison grammar
(`RSParserImpl.y`). The generated file `CCVerif/Generated/Tokens.lean` only contains *data* of
these types; the meaning of a pattern (which strings it matches) is given by
`CCVerif/Model/Lexer.lean`.

Text is a list of *units* (`Nat`): code points for the MATH lexer (`%option unicode`), bytes for
the ASCII lexer.
-/
namespace CCVerif.Syntax

/-- left-hand side of a rule of the `.l` rules section, by syntactic shape -/
inductive LexPat where
  /-- `"+"`, `\x{2265}`, `card`, `:\x{2208}` … a fixed sequence of units -/
  | lit (s : List Nat)
  /-- `pr{index}`: fixed prefix followed by `{number}(,{number})*` -/
  | withIndex (pre : List Nat)
  /-- `F{number}`: fixed prefix followed by `{digit}+` -/
  | withNumber (pre : List Nat)
  /-- `{number}` -/
  | number
  /-- `{global_id}` = `[||{upper}--[B]]{alnum}*` -/
  | globalId
  /-- `{local_id}` = `(_|{lower}){alnum}*` -/
  | localId
  /-- `\n` (MATH only) -/
  | newline
  /-- `[ \t]+` (MATH) -/
  | blanks
  /-- `{ws}` = `[ \t\r\n]+` (ASCII) -/
  | ws
  /-- `.` : any single unit except `\n` -/
  | any
  /-- `<<EOF>>` -/
  | eof
deriving Repr, DecidableEq

/-- right-hand side of a rule -/
inductive LexAct where
  /-- `{ return TokenID::X; }` -/
  | tok (t : Tok)
  /-- `;` -/
  | skip
  /-- `{ lineBase += static_cast<StrPos>(columno() + 1); }` -/
  | newline
deriving Repr, DecidableEq

structure LexRule where
  pat : LexPat
  act : LexAct
deriving Repr, DecidableEq

inductive Assoc where
  | left | right | nonassoc
deriving Repr, DecidableEq

/-- the two concrete syntaxes (`enum class Syntax`, without `UNDEF`) -/
inductive Syn where
  | math | ascii
deriving Repr, DecidableEq

end CCVerif.Syntax
