/-
Model of ccl/rslang/src/StructuredData.cpp, ccl/rslang/src/SDImplementation.cpp and
ccl/rslang/header/SDImplementation.h (C15): structured data as a finite-set algebra.

* `Val` is the materialised form of a `StructuredData`: element / tuple / set, a set being the
  list of its elements *in iteration order* (`begin()..end()`).
* `cmp` transcribes `StructuredData::Compare` (`SDBasicElement::Compare`, `SDTuple::Compare`,
  `SDSet::Compare`).  The pointer short cut `data == rhs.data → EQUAL` has no counterpart in a
  tree model; it is sound because `cmp a a = eq` (theorem `cmp_refl`).
* `SDEnumSet` is a `std::set<StructuredData>` ordered by `operator<` (`Compare == LESS`); the
  red-black tree is modelled by a `lt`-sorted list: `insert` = `std::set::insert`,
  `containsEnum` = `std::set::contains` (both as a linear scan of the sorted sequence; libstdc++
  is trusted to implement a search tree over a strict weak order).
* the lazy sets `SDPowerSet` / `SDDecartian` are `LSet.pow` / `LSet.prod`; their iterators are
  index vectors into the iteration of the base / of the factors, and `Increment`,
  `IncrementLastItem`, `IncrementComponent` are step functions on them.  The element cache
  (`CachedSD`) only memoises `operator*` and is not modelled (memory safety of the cache is an
  observation of the harness, not of this model).
* unchecked accesses (`T()` / `B()` on the wrong alternative, `components.at`, `*begin()` of an
  empty set, failed `assert`) are the explicit outcome `none` (= stuck), never a default value.
* `Store` is the handle/heap model of `std::shared_ptr<Impl>` + `UniqueData` (copy-on-write).
-/
namespace CCVerif.SData

inductive Val where
  | e (n : Int)
  | t (cs : List Val)
  | s (xs : List Val)
deriving Repr, Inhabited, BEq

mutual
def Val.decEq : (a b : Val) → Decidable (a = b)
  | .e a, .e b => if h : a = b then isTrue (by rw [h]) else isFalse (by intro h'; cases h'; exact h rfl)
  | .t as, .t bs => match Val.decEqList as bs with
    | isTrue h => isTrue (by rw [h])
    | isFalse h => isFalse (by intro h'; cases h'; exact h rfl)
  | .s as, .s bs => match Val.decEqList as bs with
    | isTrue h => isTrue (by rw [h])
    | isFalse h => isFalse (by intro h'; cases h'; exact h rfl)
  | .e _, .t _ => isFalse (by intro h; cases h)
  | .e _, .s _ => isFalse (by intro h; cases h)
  | .t _, .e _ => isFalse (by intro h; cases h)
  | .t _, .s _ => isFalse (by intro h; cases h)
  | .s _, .e _ => isFalse (by intro h; cases h)
  | .s _, .t _ => isFalse (by intro h; cases h)
def Val.decEqList : (as bs : List Val) → Decidable (as = bs)
  | [], [] => isTrue rfl
  | [], _ :: _ => isFalse (by intro h; cases h)
  | _ :: _, [] => isFalse (by intro h; cases h)
  | a :: as, b :: bs => match Val.decEq a b, Val.decEqList as bs with
    | isTrue h1, isTrue h2 => isTrue (by rw [h1, h2])
    | isFalse h1, _ => isFalse (by intro h; cases h; exact h1 rfl)
    | _, isFalse h2 => isFalse (by intro h; cases h; exact h2 rfl)
end
instance : DecidableEq Val := Val.decEq

/-- `ccl::Comparison` plus the outcome of an unchecked access. -/
inductive Cmp where
  | lt | eq | gt | inc | stuck
deriving DecidableEq, Repr, Inhabited

/-! ### Compare -/

mutual
/-- `StructuredData::Compare`: different `Structure()` → INCOMPARABLE; `SDBasicElement::Compare`
by value; `SDTuple::Compare`: different arity → INCOMPARABLE, else first non-EQUAL component;
`SDSet::Compare`: cardinality first, then first non-EQUAL pair in iteration order. -/
def cmp : Val → Val → Cmp
  | .e a, .e b => if a = b then .eq else if a < b then .lt else .gt
  | .t as, .t bs => if as.length ≠ bs.length then .inc else cmpLex as bs
  | .s as, .s bs =>
    if as.length > bs.length then .gt else if as.length < bs.length then .lt else cmpLex as bs
  | .e _, .t _ => .inc
  | .e _, .s _ => .inc
  | .t _, .e _ => .inc
  | .t _, .s _ => .inc
  | .s _, .e _ => .inc
  | .s _, .t _ => .inc
termination_by structural a => a
/-- the two element-wise loops (`for index …` in `SDTuple::Compare`, `for iter, iter2 …` in
`SDSet::Compare`); running off the right-hand side is `rhs.Component(index)` throwing /
`*iter2` past the end, guarded in both callers by the size test. -/
def cmpLex : List Val → List Val → Cmp
  | [], _ => .eq
  | _ :: _, [] => .stuck
  | a :: as, b :: bs =>
    match cmp a b with
    | .eq => cmpLex as bs
    | r => r
termination_by structural a => a
end

/-- `operator<` : `data != rhs.data && Compare(rhs) == LESS`. -/
def lt (a b : Val) : Bool := cmp a b = .lt

/-- `operator==`. -/
def eqv (a b : Val) : Bool := cmp a b = .eq

/-! ### SDEnumSet (std::set ordered by `operator<`) -/

/-- `std::set::insert`: position by `operator<`; an equivalent element (neither less) blocks the
insertion. -/
def insert (x : Val) : List Val → List Val
  | [] => [x]
  | y :: ys =>
    if lt x y then x :: y :: ys
    else if lt y x then y :: insert x ys
    else y :: ys

/-- `.second` of `std::set::insert` (`SDEnumSet::AddElement`). -/
def insertNew (x : Val) : List Val → Bool
  | [] => true
  | y :: ys => if lt x y then true else if lt y x then insertNew x ys else false

/-- `std::set::contains` (`SDEnumSet::Contains`). -/
def containsEnum (x : Val) : List Val → Bool
  | [] => false
  | y :: ys => if lt x y then false else if lt y x then containsEnum x ys else true

/-- `Factory::Set` / a loop of `result.ModifyB().AddElement(…)` starting from `EmptySet()`. -/
def mkSet (xs : List Val) : List Val := xs.foldl (fun acc x => insert x acc) []

/-- `acc` followed by AddElement of every member of `xs`. -/
def addAll (acc xs : List Val) : List Val := xs.foldl (fun acc x => insert x acc) acc

/-- strictly `lt`-ascending (the std::set invariant). -/
def sortedLt : List Val → Bool
  | [] => true
  | [_] => true
  | a :: b :: r => lt a b && sortedLt (b :: r)

mutual
/-- canonical form: every set, at every depth, is strictly `lt`-ascending (hence duplicate-free). -/
def canon : Val → Bool
  | .e _ => true
  | .t cs => canonList cs
  | .s xs => canonList xs && sortedLt xs
termination_by structural a => a
def canonList : List Val → Bool
  | [] => true
  | x :: xs => canon x && canonList xs
termination_by structural a => a
end

/-! ### typifications (only their shape matters for data) -/

inductive Ty where
  | base
  | tup (cs : List Ty)
  | coll (b : Ty)
deriving Repr, Inhabited

mutual
/-- `CheckCompatible`, made hereditary (the C++ inspects only the first element of a set). -/
def hasTy : Val → Ty → Bool
  | .e _, .base => true
  | .t cs, .tup ts => hasTys cs ts
  | .s xs, .coll b => allTy xs b
  | .e _, .tup _ => false
  | .e _, .coll _ => false
  | .t _, .base => false
  | .t _, .coll _ => false
  | .s _, .base => false
  | .s _, .tup _ => false
termination_by structural a => a
def hasTys : List Val → List Ty → Bool
  | [], [] => true
  | c :: cs, t :: ts => hasTy c t && hasTys cs ts
  | [], _ :: _ => false
  | _ :: _, [] => false
termination_by structural a => a
def allTy : List Val → Ty → Bool
  | [], _ => true
  | x :: xs, b => hasTy x b && allTy xs b
termination_by structural a => a
end

/-! ### tuples -/

/-- `Factory::Tuple`: one component is returned as is; zero components fail the `assert`. -/
def mkTuple : List Val → Option Val
  | [] => none
  | [x] => some x
  | cs => some (.t cs)

/-- `thisElement.T().Component(index)`, `index` counted from `PR_START = 1`; `T()` of a
non-tuple and a missing index are stuck. -/
def component (v : Val) (index : Nat) : Option Val :=
  match v with
  | .t cs => if index = 0 then none else cs[index - 1]?
  | _ => none

/-! ### lazy sets -/

def BOOL_INFINITY : Nat := 30
def SET_INFINITY : Nat := 0x0FFFFFFF

/-- `SDEnumSet` / `SDPowerSet` / `SDDecartian` behind an `SDSet`. -/
inductive LSet where
  | enum (xs : List Val)
  | pow (base : LSet)
  | prod (factors : List LSet)
deriving Inhabited

/-! #### SDPowerSet::Iterator -/

/-- the probing loop of `IncrementLastItem`: `++test` `count` times, failing when `end()` (position
`n`) is reached. -/
def probe (n : Nat) : Nat → Nat → Bool
  | _, 0 => true
  | p, c + 1 => if p + 1 = n then false else probe n (p + 1) c

/-- the refill loop of `IncrementLastItem`: `++it; emplace_back(it)` `count` times.  The vector
`itemIterators` is kept **reversed** (head = `back()`), so `emplace_back` is `::`. -/
def refill : Nat → Nat → List Nat → List Nat
  | _, 0, acc => acc
  | p, c + 1, acc => refill (p + 1) c ((p + 1) :: acc)

/-- `IncrementLastItem(offset)`; `none` = `false` (vector untouched). -/
def incrementLastItem (n : Nat) (ritems : List Nat) (offset : Nat) : Option (List Nat) :=
  match ritems with
  | [] => none
  | p :: rest => if probe n p (offset + 1) then some (refill (p + 1) offset ((p + 1) :: rest)) else none

/-- the `while (!empty(itemIterators))` loop of `Increment`: result vector or the final offset. -/
def popLoop (n : Nat) : List Nat → Nat → Sum (List Nat) Nat
  | [], offset => .inr offset
  | p :: rest, offset =>
    match incrementLastItem n (p :: rest) offset with
    | some r => .inl r
    | none => popLoop n rest (offset + 1)

/-- positions `0 … k-1` pushed in order (`for i < offset + 1: emplace_back(it), ++it`). -/
def firstRun : Nat → List Nat
  | 0 => []
  | k + 1 => k :: firstRun k

/-- `SDPowerSet::Iterator::Increment`; `none` = `false`. -/
def increment (n : Nat) (ritems : List Nat) : Option (List Nat) :=
  match ritems with
  | [] => if n ≠ 0 then some [0] else none
  | _ =>
    match popLoop n ritems 0 with
    | .inl r => some r
    | .inr offset => if offset ≠ n then some (firstRun (offset + 1)) else none

/-- `for (it = begin(); it != end(); ++it)` with `operator++` = `step` (`none` = the iterator
becomes `isCompleted`, which is what `== end()` tests): all states visited. `fuel` bounds the walk. -/
def iterGo {σ : Type} (step : σ → Option σ) : Nat → σ → List σ
  | 0, _ => []
  | fuel + 1, s =>
    s :: (match step s with
      | some s' => iterGo step fuel s'
      | none => [])

/-- iteration of an `SDPowerSet` with `n` base elements: the index vectors (in push order) of all
positions visited, starting from the empty vector (`Iterator(*this)`). -/
def powIdxAll (n : Nat) : List (List Nat) := (iterGo (increment n) (2 ^ n + 1) []).map List.reverse

/-- `*iter` for every member of a vector of base iterators; a position outside the base is stuck. -/
def derefAll (base : List Val) : List Nat → Option (List Val)
  | [] => some []
  | i :: is =>
    match base[i]?, derefAll base is with
    | some v, some vs => some (v :: vs)
    | _, _ => none

/-- `SDPowerSet::Iterator::operator*`: `EmptySet()` + `AddElement(*iter)` for every item. -/
def powDeref (base : List Val) (idx : List Nat) : Option Val :=
  (derefAll base idx).map fun vs => .s (mkSet vs)

def allSome {α} : List (Option α) → Option (List α)
  | [] => some []
  | none :: _ => none
  | some x :: r => (allSome r).map (x :: ·)

/-- full iteration of `SDPowerSet` over a base with the given iteration. -/
def powIter (base : List Val) : Option (List Val) :=
  allSome ((powIdxAll base.length).map (powDeref base))

/-! #### SDDecartian::Iterator -/

/-- `operator++`: `IncrementComponent` from the last component backwards.  The vector of
(position, factor size) pairs is kept **reversed**; `none` = all wrapped = `isCompleted`. -/
def stepProd : List (Nat × Nat) → Option (List (Nat × Nat))
  | [] => none
  | (p, d) :: rest =>
    if p + 1 = d then (stepProd rest).map ((0, d) :: ·)   -- wrapped: reset to begin, go on
    else some ((p + 1, d) :: rest)

/-- all index vectors visited by iterating an `SDDecartian` whose factors have sizes `dims`;
the constructor sets `isCompleted` when `Cardinality() == 0`. -/
def prodIdxAll (dims : List Nat) : List (List Nat) :=
  let total := dims.foldl (· * ·) 1
  if total = 0 then []
  else (iterGo stepProd (total + 1) (dims.reverse.map fun d => (0, d))).map fun r => r.reverse.map Prod.fst

def derefEach : List (List Val) → List Nat → Option (List Val)
  | [], [] => some []
  | f :: fs, i :: is =>
    match f[i]?, derefEach fs is with
    | some v, some vs => some (v :: vs)
    | _, _ => none
  | _, _ => none

/-- `SDDecartian::Iterator::operator*`: `Factory::Tuple` of the dereferenced components. -/
def prodDeref (facs : List (List Val)) (idx : List Nat) : Option Val :=
  (derefEach facs idx).bind mkTuple

def prodIter (facs : List (List Val)) : Option (List Val) :=
  allSome ((prodIdxAll (facs.map List.length)).map (prodDeref facs))

/-! #### the SetImpl interface -/

mutual
/-- `begin() … end()`; `none` = an unchecked access would be hit. -/
def LSet.iter : LSet → Option (List Val)
  | .enum xs => some xs
  | .pow b => (LSet.iter b).bind powIter
  | .prod fs => (LSet.iterList fs).bind prodIter
termination_by structural a => a
def LSet.iterList : List LSet → Option (List (List Val))
  | [] => some []
  | f :: fs =>
    match LSet.iter f, LSet.iterList fs with
    | some a, some r => some (a :: r)
    | _, _ => none
termination_by structural a => a
end

mutual
/-- `Contains`: `std::set::contains` / `element.B().IsSubsetOrEq(base.B())` / arity test and
component-wise `Contains`. -/
def LSet.has : LSet → Val → Bool
  | .enum xs, x => containsEnum x xs
  | .pow b, x =>
    match x with
    | .s ys => ys.all fun y => LSet.has b y
    | _ => false
  | .prod fs, x =>
    match x with
    | .t cs => cs.length == fs.length && LSet.hasAll fs cs
    | _ => false
termination_by structural a => a
def LSet.hasAll : List LSet → List Val → Bool
  | [], _ => true
  | f :: fs, cs =>
    match cs with
    | c :: cs' => LSet.has f c && LSet.hasAll fs cs'
    | [] => false
termination_by structural a => a
end

mutual
/-- `false` = the call of `Contains` performs an unchecked access (`B()` / `T()` of the wrong
alternative): the answer of `LSet.has` is then meaningless (stuck). -/
def LSet.hasDefined : LSet → Val → Bool
  | .enum _, _ => true
  | .pow b, x =>
    match x with
    | .s ys => ys.all fun y => LSet.hasDefined b y
    | _ => false
  | .prod fs, x =>
    match x with
    | .t cs => cs.length != fs.length || LSet.hasDefinedAll fs cs
    | _ => false
termination_by structural a => a
def LSet.hasDefinedAll : List LSet → List Val → Bool
  | [], _ => true
  | f :: fs, cs =>
    match cs with
    | c :: cs' => LSet.hasDefined f c && (!LSet.has f c || LSet.hasDefinedAll fs cs')
    | [] => false
termination_by structural a => a
end

/-- the loop of `SDDecartian::UpdateSize`; a factor of size 0 divides by zero (stuck). -/
def prodCount : List Nat → Nat → Option Nat
  | [], count => some count
  | fs :: rest, count =>
    if fs = 0 then none
    else if SET_INFINITY / fs ≥ count then prodCount rest (count * fs)
    else prodCount rest SET_INFINITY

mutual
/-- `Cardinality()`: `ssize(elements)`, `SDPowerSet::UpdateSize`, `SDDecartian::UpdateSize`. -/
def LSet.card : LSet → Option Nat
  | .enum xs => some xs.length
  | .pow b =>
    (LSet.card b).map fun n => if n > BOOL_INFINITY then SET_INFINITY else 2 ^ n
  | .prod fs => (LSet.cardList fs).bind fun cs => prodCount cs 1
termination_by structural a => a
def LSet.cardList : List LSet → Option (List Nat)
  | [] => some []
  | f :: fs =>
    match LSet.card f, LSet.cardList fs with
    | some a, some r => some (a :: r)
    | _, _ => none
termination_by structural a => a
end

/-- `Factory::Decartian`: an empty factor gives `EmptySet()`. -/
def decartian (fs : List LSet) : LSet :=
  if fs.any (fun f => LSet.card f == some 0) then .enum [] else .prod fs

/-- `Factory::Boolean`. -/
def boolean (b : LSet) : LSet := .pow b

/-- `SDSet::Compare` on two set implementations. -/
def LSet.compare (a b : LSet) : Cmp :=
  match a.card, b.card, a.iter, b.iter with
  | some ca, some cb, some ia, some ib =>
    if ca > cb then .gt else if ca < cb then .lt else cmpLex ia ib
  | _, _, _, _ => .stuck

/-- the value a lazy set denotes once iterated. -/
def LSet.materialise (a : LSet) : Option Val := a.iter.map .s

/-! ### SDSet operations (iteration + `Contains` + `AddElement`) -/

/-- what `SDSet` exposes of its implementation; `lazy` = `begin()`/`end()` are
`SDPowerSet::Iterator` / `SDDecartian::Iterator` (not `std::set` iterators). -/
structure View where
  elems : List Val
  has : Val → Bool
  lazy : Bool

def LSet.isLazy : LSet → Bool
  | .enum _ => false
  | _ => true

def LSet.view (a : LSet) : Option View := a.iter.map fun xs => ⟨xs, a.has, a.isLazy⟩

def enumView (xs : List Val) : View := ⟨xs, fun x => containsEnum x xs, false⟩

/-- `end() == it` with the completed `end()` on the **left** and a not completed iterator at
position `i` on the right.  `SDPowerSet::Iterator::operator==` / `SDDecartian::Iterator::operator==`:
`if (isCompleted || rhs.isCompleted) return isCompleted == rhs.isCompleted;` — one side completed,
the other not: `false`, exactly like `std::set` iterators. -/
def endEqIter (_lazy : Bool) (_i : Nat) : Bool := false

/-- the same comparison as it was computed **before** the repair "fix: lazy set iterators compare
equal symmetrically" (pinned, not the current code): `isCompleted && rhs.isCompleted` failed,
`rhs.isCompleted` failed, so `counter == rhs.counter` answered, and the counter of `end()` is 0. -/
def lazyEndEqPinned (lazy : Bool) (i : Nat) : Bool := lazy && i == 0

/-- `std::find_if_not(first, last, pred)`: position of the first element failing `pred`
(`none` = `last`); the loop test `first != last` has `end()` on the right. -/
def findIfNot (p : Val → Bool) : List Val → Nat → Option Nat
  | [], _ => none
  | x :: xs, i => if p x then findIfNot p xs (i + 1) else some i

/-- `std::all_of(begin, end, rhs.Contains)`, which libstdc++ evaluates as
`last == std::find_if_not(first, last, pred)` — with `end()` on the left. -/
def allOfWith (endEq : Bool → Nat → Bool) (a b : View) : Bool :=
  match findIfNot b.has a.elems 0 with
  | none => true
  | some i => endEq a.lazy i

/-- `SDSet::IsSubsetOrEq`. -/
def isSubsetOrEq (a b : View) : Bool := allOfWith endEqIter a b

/-- `SDSet::IsSubsetOrEq` with the iterator equality of the tree before the repair (pinned). -/
def isSubsetOrEqPinned (a b : View) : Bool := allOfWith lazyEndEqPinned a b

/-- `Contains(element)` for an element that is itself a (possibly lazy) set implementation:
`SDPowerSet::Contains` runs `element.B().IsSubsetOrEq(base.B())` with the element's own
iterators; `SDDecartian::Contains` would call `T()` on a set (stuck). -/
def LSet.hasL (a x : LSet) : Option Bool :=
  match a with
  | .enum xs => x.materialise.map fun v => containsEnum v xs
  | .pow b =>
    match x.view, b.view with
    | some vx, some vb => some (isSubsetOrEq vx vb)
    | _, _ => none
  | .prod _ => none

/-- `SDSet::Union`. -/
def union (a b : View) : List Val := addAll (addAll [] a.elems) b.elems

/-- `SDSet::Intersect`: iterates `rhs`, tests `this->Contains`. -/
def intersect (a b : View) : List Val := addAll [] (b.elems.filter a.has)

/-- `SDSet::Diff`. -/
def diff (a b : View) : List Val := addAll [] (a.elems.filter fun x => !b.has x)

/-- `SDSet::SymDiff`. -/
def symDiff (a b : View) : List Val :=
  addAll (addAll [] (a.elems.filter fun x => !b.has x)) (b.elems.filter fun x => !a.has x)

/-- one element of `SDSet::Projection`. -/
def projectOne (indices : List Nat) (x : Val) : Option Val :=
  (allSome (indices.map (component x))).bind mkTuple

/-- `SDSet::Projection`. -/
def projection (indices : List Nat) (a : List Val) : Option (List Val) :=
  (allSome (a.map (projectOne indices))).map mkSet

/-- `thisElement.B()` iteration inside `Reduce` (`assert(IsCollection())`). -/
def members : Val → Option (List Val)
  | .s ys => some ys
  | _ => none

/-- `SDSet::Reduce`. -/
def reduce (a : List Val) : Option (List Val) :=
  (allSome (a.map members)).map fun yss => addAll [] yss.flatten

/-- `Factory::Singleton`. -/
def singleton (x : Val) : List Val := insert x []

/-- `SDSet::Debool`: `assert(Cardinality() == 1); *begin()`. -/
def debool : List Val → Option Val
  | [x] => some x
  | _ => none

/-! ### copy-on-write handles -/

/-- one `StructuredData::Impl` on the heap with its `shared_ptr` use count. -/
structure Cell where
  val : Val
  rc : Nat
deriving Repr, Inhabited

/-- heap + variables: `hs[k]` is the cell the handle `k` points to.  Elements stored inside a set
are part of the cell's `Val`; a `StructuredData` that shares its `Impl` with such an element is
represented by a cell whose `rc` counts that extra owner (see `newShared`). -/
structure Store where
  cells : List Cell := []
  hs : List Nat := []
deriving Repr, Inhabited

def Store.denote (st : Store) (k : Nat) : Option Val :=
  match st.hs[k]? with
  | some r => st.cells[r]?.map (·.val)
  | none => none

def Store.denoteAll (st : Store) : List (Option Val) :=
  (List.range st.hs.length).map st.denote

/-- `StructuredData x = <fresh value>` (`std::make_shared<Impl>`). -/
def Store.new (st : Store) (v : Val) : Store :=
  { cells := st.cells ++ [⟨v, 1⟩], hs := st.hs ++ [st.cells.length] }

/-- a handle that shares its `Impl` with an element held inside a container
(`*begin()`, `Debool()`): use count 2. -/
def Store.newShared (st : Store) (v : Val) : Store :=
  { cells := st.cells ++ [⟨v, 2⟩], hs := st.hs ++ [st.cells.length] }

def bumpRc (cells : List Cell) (r : Nat) (f : Nat → Nat) : List Cell :=
  match cells[r]? with
  | some c => cells.set r { c with rc := f c.rc }
  | none => cells

/-- `StructuredData y = x` (copy of the `shared_ptr`). -/
def Store.copy (st : Store) (j : Nat) : Option Store :=
  match st.hs[j]? with
  | some r => some { cells := bumpRc st.cells r (· + 1), hs := st.hs ++ [r] }
  | none => none

/-- `x = y` (`shared_ptr` assignment: release the old cell, share the new one). -/
def Store.assign (st : Store) (k j : Nat) : Option Store :=
  match st.hs[k]?, st.hs[j]? with
  | some rk, some rj =>
    if rk = rj then some st
    else some { cells := bumpRc (bumpRc st.cells rj (· + 1)) rk (· - 1), hs := st.hs.set k rj }
  | _, _ => none

/-- `UniqueData()`: clone when `use_count() > 1`.  `make_shared<Impl>(data->B())` on a non-set
is an unchecked access. Returns the store and the cell to modify. -/
def Store.uniqueData (st : Store) (k : Nat) : Option (Store × Nat) :=
  match st.hs[k]? with
  | none => none
  | some r =>
    match st.cells[r]? with
    | none => none
    | some c =>
      match c.val with
      | .s xs =>
        if c.rc > 1 then
          some ({ cells := bumpRc st.cells r (· - 1) ++ [⟨.s xs, 1⟩], hs := st.hs.set k st.cells.length },
                st.cells.length)
        else some (st, r)
      | _ => none

/-- `x.ModifyB().AddElement(v)`; the Bool is the result of `AddElement`. -/
def Store.addElement (st : Store) (k : Nat) (v : Val) : Option (Store × Bool) :=
  match st.uniqueData k with
  | none => none
  | some (st', r) =>
    match st'.cells[r]? with
    | some ⟨.s xs, rc⟩ => some ({ st' with cells := st'.cells.set r ⟨.s (insert v xs), rc⟩ }, insertNew v xs)
    | _ => none

/-- `x.ModifyB().AddElement(y)` for a handle `y`: a successful insertion keeps one more owner of
`y`'s `Impl` inside the set. -/
def Store.addHandle (st : Store) (k j : Nat) : Option (Store × Bool) :=
  match st.denote j, st.hs[j]? with
  | some v, some rj =>
    match st.addElement k v with
    | some (st', true) => some ({ st' with cells := bumpRc st'.cells rj (· + 1) }, true)
    | r => r
  | _, _ => none

/-- the operations of a history on handles. -/
inductive Op where
  | new (v : Val)
  | newShared (v : Val)
  | copy (j : Nat)
  | assign (k j : Nat)
  | add (k : Nat) (v : Val)
  | addh (k j : Nat)
deriving Repr, Inhabited

def Store.step (st : Store) : Op → Option Store
  | .new v => some (st.new v)
  | .newShared v => some (st.newShared v)
  | .copy j => st.copy j
  | .assign k j => st.assign k j
  | .add k v => (st.addElement k v).map (·.1)
  | .addh k j => (st.addHandle k j).map (·.1)

def Store.run (st : Store) : List Op → Option Store
  | [] => some st
  | op :: ops => (st.step op).bind fun st' => st'.run ops

end CCVerif.SData

