import CCVerif.Model.Graph
/-
Model of the incremental analysis bookkeeping of `ccl/core/src/semantic/schema/Schema.cpp` (C07):
`storage` (std::map by uid), `info` (per-constituent parse results), the lazily rebuilt
`UpdatableGraph`, `UpdateState` (batch), `TriggerParse` / `ParseCst` (incremental),
`SetDefinitionFor` with the `FindExpr` short-cut, `SetAliasFor`, `SubstitueAliases`,
`TranslateAll`, `Emplace/Insert`, `Load`, `Erase`.

The per-constituent analysis is a parameter of the theorems; for the executable correspondence
it is instantiated on a definition fragment on which the real auditor is easy to predict:
a definition is empty, unparsable, or a union `N1∪N2∪…` of global names; a base set has type
ℬ(itself); a union is well-typed iff every name resolves to a typed constituent and all types
coincide. `std::unordered_set` iteration orders inside the graph updater are not observable
through the outputs compared (statuses, types, edge sets); the model uses ascending uid order.
-/
namespace CCVerif.Schema
open CCVerif

inductive Kind where
  | base | term
deriving Repr, DecidableEq, Inhabited

inductive Def where
  | empty
  | union (names : List String)
  | bad
deriving Repr, DecidableEq, Inhabited

structure Cst where
  uid : Nat
  alias : String
  kind : Kind
  defn : Def
deriving Repr, DecidableEq, Inhabited

inductive Status where
  | unknown | verified | incorrect
deriving Repr, DecidableEq, Inhabited

/-- `ParsingInfo` restricted to what the fragment can distinguish: status + typification
(`ty = some b` means ℬ(b)) -/
structure Info where
  status : Status := .unknown
  ty : Option String := none
deriving Repr, DecidableEq, Inhabited

structure St where
  store : List Cst := []            -- ascending uid
  info : List (Nat × Info) := []
  graph : Graph.G := []
  invalid : Bool := false
deriving Repr, Inhabited

def St.at (st : St) (u : Nat) : Option Cst := st.store.find? (·.uid == u)
def St.contains (st : St) (u : Nat) : Bool := (st.at u).isSome
def St.infoFor (st : St) (u : Nat) : Info := ((st.info.find? (·.1 == u)).map (·.2)).getD {}
def St.hasInfo (st : St) (u : Nat) : Bool := st.info.any (·.1 == u)
def St.setInfo (st : St) (u : Nat) (i : Info) : St :=
  { st with info := st.info.map (fun p => if p.1 == u then (u, i) else p) }

/-- `FindAlias`: first constituent (uid order) with that alias -/
def St.findAlias (st : St) (a : String) : Option Nat := (st.store.find? (·.alias == a)).map (·.uid)

/-- `TypeFor(globalName)` -/
def St.typeFor (st : St) (a : String) : Option String :=
  match st.findAlias a with
  | none => none
  | some u => (st.infoFor u).ty

def Def.mentions : Def → List String
  | .union ns => ns
  | _ => []

def insertSorted (x : Nat) : List Nat → List Nat
  | [] => [x]
  | y :: ys => if x < y then x :: y :: ys else if x = y then y :: ys else y :: insertSorted x ys
def sortDedup (l : List Nat) : List Nat := l.foldl (fun acc x => insertSorted x acc) []

/-- the graph updater: uids of the resolved mentions -/
def St.inputsOf (st : St) (c : Cst) : List Nat := sortDedup (c.defn.mentions.filterMap st.findAlias)

/-- `graph.UpdateFor(item)`: no-op while the graph is invalid -/
def St.graphUpdateFor (st : St) (u : Nat) : St :=
  if st.invalid then st
  else match st.at u with
    | none => st
    | some c => { st with graph := Graph.setItemInputs st.graph u (st.inputsOf c) }

/-- `Graph()`: rebuild when broken -/
def St.ensureGraph (st : St) : St :=
  if st.invalid then
    st.store.foldl (fun s c => s.graphUpdateFor c.uid) { st with graph := [], invalid := false }
  else st

/-- the analysis of one constituent against the current context (fragment instance of
`SchemaAuditor::CheckConstituenta` + `GetType`) -/
def analyse (st : St) (c : Cst) : Option String :=
  match c.kind, c.defn with
  | .base, .empty => some c.alias
  | .base, _ => none
  | .term, .empty => none
  | .term, .bad => none
  | .term, .union [] => none
  | .term, .union (n :: ns) =>
    match st.typeFor n with
    | none => none
    | some t => if ns.all (fun m => st.typeFor m == some t) then some t else none

/-- `ParseCst(target)`: analyse against the current `info` (the target's own entry included),
then reset and store -/
def St.parseCst (st : St) (u : Nat) : St :=
  match st.at u with
  | none => st
  | some c =>
    match analyse st c with
    | some t => st.setInfo u { status := .verified, ty := some t }
    | none => st.setInfo u { status := .incorrect, ty := none }

def St.resetInfo (st : St) : St := { st with info := st.info.map (fun p => (p.1, {})) }

/-- `UpdateState()` -/
def St.updateState (st : St) : St :=
  let st := st.resetInfo
  let st := st.ensureGraph
  (Graph.topologicalOrder st.graph).foldl St.parseCst st

/-- `TriggerParse(target)` as pinned: the target is analysed against its own stale entry and the
stale entries of its dependants -/
def St.triggerParsePinned (st : St) (target : Nat) : St :=
  let st := st.parseCst target
  let st := st.ensureGraph
  let expansion := Graph.expandOutputs st.graph [target]
  let ordered := Graph.sort st.graph expansion
  (ordered.filter (· != target)).foldl St.parseCst st

/-- `TriggerParse(target)` after the `fix:` commit: entries of the whole expansion are reset
before anything is re-analysed -/
def St.triggerParse (st : St) (target : Nat) : St :=
  let st := st.ensureGraph
  let expansion := Graph.expandOutputs st.graph [target]
  let st := expansion.foldl (fun s u => if s.hasInfo u then s.setInfo u {} else s) st
  let st := st.parseCst target
  let ordered := Graph.sort st.graph expansion
  (ordered.filter (· != target)).foldl St.parseCst st

def insertCst (c : Cst) : List Cst → List Cst
  | [] => [c]
  | d :: ds => if c.uid < d.uid then c :: d :: ds else if c.uid = d.uid then d :: ds else d :: insertCst c ds

def renameDef (f : String → Option String) : Def → Def
  | .union ns => .union (ns.map fun n => (f n).getD n)
  | d => d

inductive Op where
  /-- `Emplace` / `Insert` / `InsertCopy` (uid and alias as issued by the identity manager) -/
  | insert (c : Cst)
  /-- `Load` (no analysis until `UpdateState`) -/
  | load (c : Cst)
  | updateState
  | erase (u : Nat)
  | setDef (u : Nat) (d : Def)
  | setAlias (u : Nat) (a : String) (subst : Bool)
  /-- `SubstitueAliases(map)` (ResetAliases): rename constituents and mentions simultaneously -/
  | substitute (m : List (String × String))
deriving Repr, DecidableEq

def lookup (m : List (String × String)) (a : String) : Option String := (m.find? (·.1 == a)).map (·.2)

/-- `TranslateAll` -/
def St.translateAll (st : St) (f : String → Option String) : St :=
  let st := st.store.foldl (fun s c =>
    let s := { s with store := s.store.map (fun (x : Cst) => if x.uid == c.uid then { x with defn := renameDef f x.defn } else x) }
    s.graphUpdateFor c.uid) st
  st.updateState

/-- one editing step; `pinned = true` selects the incremental algorithm as pinned -/
def step (pinned : Bool) (st : St) : Op → St
  | .insert c =>
    if st.hasInfo c.uid then st
    else
      ({ st with info := st.info ++ [(c.uid, {})], store := insertCst c st.store, invalid := true } : St).updateState
  | .load c =>
    let info := if st.hasInfo c.uid then st.info.map (fun p => if p.1 == c.uid then (c.uid, {}) else p) else st.info ++ [(c.uid, {})]
    let store := insertCst c (st.store.filter (·.uid != c.uid))
    ({ st with info := info, store := store, invalid := true } : St).resetInfo
  | .updateState => st.updateState
  | .erase u =>
    if !st.contains u then st
    else
      let st := st.ensureGraph
      let st := (Graph.expandOutputs st.graph [u]).foldl (fun s v => if s.hasInfo v then s.setInfo v {} else s) st
      let st := { st with info := st.info.filter (·.1 != u),
                          graph := if st.invalid then st.graph else Graph.eraseItem st.graph u,
                          store := st.store.filter (·.uid != u) }
      st.updateState
  | .setDef u d =>
    match st.at u with
    | none => st
    | some c =>
      if d = c.defn then st
      else
        -- FindExpr: first constituent (uid order) with the same definition
        let copy := (st.store.find? (·.defn == d)).map (·.uid)
        let realChange := copy != some u
        let st := { st with store := st.store.map (fun (x : Cst) => if x.uid == u then { x with defn := d } else x) }
        if realChange then
          let st := st.graphUpdateFor u
          if pinned then st.triggerParsePinned u else st.triggerParse u
        else st
  | .setAlias u a subst =>
    match st.at u with
    | none => st
    | some c =>
      if c.alias = a then st
      else
        let st := { st with invalid := true,
                            store := st.store.map (fun (x : Cst) => if x.uid == u then { x with alias := a } else x) }
        if subst then st.translateAll (fun n => if n == c.alias then some a else none)
        else st.updateState
  | .substitute m =>
    let st := { st with invalid := true,
                        store := st.store.map (fun (x : Cst) => { x with alias := (lookup m x.alias).getD x.alias }) }
    st.translateAll (lookup m)

def run (pinned : Bool) (ops : List Op) : St := ops.foldl (step pinned) {}

/-- analysis from scratch of the same content -/
def St.scratch (st : St) : St := ({ st with invalid := true, graph := [] } : St).updateState

/-- observable analysis results: (uid, status, type) in uid order -/
def St.report (st : St) : List (Nat × Status × Option String) :=
  st.store.map (fun c => (c.uid, (st.infoFor c.uid).status, (st.infoFor c.uid).ty))

/-- dependency edges `(mentioned uid, uid)` reported by `Graph().InputsFor` -/
def St.depEdges (st : St) : List (Nat × Nat) :=
  let st := st.ensureGraph
  st.store.flatMap (fun c => (sortDedup (Graph.inputsFor st.graph c.uid)).map (·, c.uid))

end CCVerif.Schema
