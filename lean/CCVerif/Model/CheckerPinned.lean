import CCVerif.Model.Checker
/-
The four `Vi*` rules of `TypeAuditor` as they were in the pinned baseline (before the repairs
3663bb8 / 4c6993c / 77dda8b / a8a5837 of /repo), kept only as documentation of the defects K1–K3,
K5, K7 that the C03 check found: `checkPinned` differs from `check` exactly in these rules.
(K4 was a lexer defect — zero indices dropped — and K6 needed the removed `functionArgsID`
member; neither is reproduced here.)
-/
namespace CCVerif.Checker
open CCVerif.Syntax CCVerif.Types

/-- pinned `ViGlobal`: a LOGIC-typed global was returned in every position -/
def viGlobalPinned (Γ : Ctx) (a : Ast) : M Unit :=
  M.bind (textOf a) fun alias =>
  if (lookup Γ.funcs alias).isSome then
    errFail EID.globalFuncWithoutArgs a.lo
  else match lookup Γ.types alias with
    | none => errFail EID.globalNotTyped a.lo
    | some t => setCur t

/-- pinned `ViEmptySet`: `iter.Parent()` was read also for the root (null dereference) -/
def viEmptySetPinned (parent : Option Tok) (a : Ast) : M Unit :=
  match parent with
  | none => stuckM "null-parent:ViEmptySet"
  | some p =>
    if emptySetInvalidParents.contains p then errFail EID.invalidEmptySetUsage a.lo
    else setCur (.ty Ty.emptySet)

/-- pinned `ViGlobalDeclaration`: a structure domain that is not a collection returned `false`
without an error -/
def viGlobalDeclarationPinned (v : Visitor) (a : Ast) : M Unit :=
  if a.id == .PUNC_STRUCT then
    if !structOk a then
      M.bind (kidM a 0) fun k0 => errFail EID.globalStructure k0.hi
    else
      M.bind (childType v a 1) fun mt =>
      M.bind (expectTy "ViGlobalDeclaration" mt) fun t =>
      match t with
      | .coll b => setCur (.ty b)
      | _ => failSilent
  else
    if a.kids.length == 1 then
      M.bind (kidM a 0) fun k0 => M.bind (textOf k0) fun name => setCur (.ty (.coll (.base name)))
    else
      M.bind (childType v a 1) fun t => setCur t

/-- pinned `ViFilter`: with an argument of the any-type the parameters were not visited -/
def viFilterPinned (Γ : Ctx) (v : Visitor) (a : Ast) : M Unit :=
  M.bind (tupleOfData a) fun idx =>
  let n := a.kids.length
  let tupleParam := idx.length + 1 == n
  if !tupleParam && n > 2 then
    errFail EID.invalidFilterArity a.lo
  else
  M.bind (childType v a (n - 1)) fun r => M.bind (expectTy "ViFilter" r) fun arg =>
  if anyOrEmptySet arg then setCur (.ty Ty.emptySet)
  else match arg with
    | .coll (.tuple cs) =>
      (match pickComponents cs idx with
      | none => M.bind (kidM a (n - 1)) fun k => errFailTok a EID.invalidFilterArgumentType k.lo
      | some bases =>
        if tupleParam then
          M.bind (filterParamsGo Γ v a (n - 1) 0 bases) fun _ => setCur r
        else
          M.bind (childType v a 0) fun pr => M.bind (expectTy "ViFilter" pr) fun pt =>
          M.bind (mkTuple "ViFilter" bases) fun et =>
          let expected := Ty.coll et
          if pt.isColl && compat Γ.traits expected pt then setCur r
          else M.bind (kidM a 0) fun k => errFail EID.typesNotEqual k.lo)
    | _ => M.bind (kidM a (n - 1)) fun k => errFailTok a EID.invalidFilterArgumentType k.lo

def dispatchPinned (Γ : Ctx) (v : Visitor) (parent : Option Tok) (a : Ast) : M Unit :=
  match a.id with
  | .ID_GLOBAL | .ID_FUNCTION | .ID_PREDICATE => viGlobalPinned Γ a
  | .LIT_EMPTYSET => viEmptySetPinned parent a
  | .FILTER => viFilterPinned Γ v a
  | .PUNC_DEFINE | .PUNC_STRUCT => viGlobalDeclarationPinned v a
  | _ => dispatch Γ v parent a

def visitPinned (Γ : Ctx) : Nat → Visitor
  | 0 => fun _ _ => stuckM "fuel"
  | n+1 => dispatchPinned Γ (visitPinned Γ n)

/-- `CheckType` of the pinned baseline -/
def checkPinned (Γ : Ctx) (e : Ast) : CheckRes :=
  match visitPinned Γ (Ast.depth e + 1) none e {} with
  | (.ok _, s) => ⟨.ok s.cur, s.errs.reverse, s.args, s.silent⟩
  | (.fail, s) => ⟨.fail, s.errs.reverse, s.args, s.silent⟩
  | (.stuck x, s) => ⟨.stuck x, s.errs.reverse, s.args, s.silent⟩

end CCVerif.Checker
