import CCVerif.Model.Syntax
/-
Model of RSLang typifications (C03): `ccl/rslang/include/ccl/rslang/Typification.h`,
`src/Typification.cpp`, `include/ccl/rslang/TypeContext.hpp` and the type algebra of
`details::TypeEnv` in `src/TypeAuditor.cpp` (CommonType / AreCompatible / Merge /
CompareTemplated), plus `MangleRadicals`, `IsRadical` and `Typification::SubstituteBase`.

Transcription; each definition names the C++ it follows. Core Lean only.
-/
namespace CCVerif.Types

/-- `Typification` = `Structured<EchelonBase, EchelonTuple, EchelonBool>` -/
inductive Ty where
  | base (id : String)
  | tuple (cs : List Ty)
  | coll (b : Ty)
deriving Repr, Inhabited

/-- `ExpressionType = std::variant<LogicT, Typification>` -/
inductive ExprTy where
  | logic
  | ty (t : Ty)
deriving Repr, Inhabited

namespace Ty

/-! ## equality (`Typification::operator==`: structural) -/
mutual
def beq : Ty → Ty → Bool
  | .base a, .base b => a == b
  | .tuple as, .tuple bs => beqList as bs
  | .coll a, .coll b => beq a b
  | _, _ => false
def beqList : List Ty → List Ty → Bool
  | [], [] => true
  | a :: as, b :: bs => beq a b && beqList as bs
  | _, _ => false
end

mutual
theorem eq_of_beq : ∀ (a b : Ty), beq a b = true → a = b
  | .base a, .base b, h => by simp [beq] at h; simp [h]
  | .tuple as, .tuple bs, h => by
    simp only [beq] at h; rw [eq_of_beqList as bs h]
  | .coll a, .coll b, h => by
    simp only [beq] at h; rw [eq_of_beq a b h]
  | .base _, .tuple _, h => by simp [beq] at h
  | .base _, .coll _, h => by simp [beq] at h
  | .tuple _, .base _, h => by simp [beq] at h
  | .tuple _, .coll _, h => by simp [beq] at h
  | .coll _, .base _, h => by simp [beq] at h
  | .coll _, .tuple _, h => by simp [beq] at h
theorem eq_of_beqList : ∀ (as bs : List Ty), beqList as bs = true → as = bs
  | [], [], _ => rfl
  | a :: as, b :: bs, h => by
    simp only [beqList, Bool.and_eq_true] at h
    rw [eq_of_beq a b h.1, eq_of_beqList as bs h.2]
  | [], _ :: _, h => by simp [beqList] at h
  | _ :: _, [], h => by simp [beqList] at h
end

mutual
theorem beq_refl : ∀ (a : Ty), beq a a = true
  | .base a => by simp [beq]
  | .tuple as => by simp only [beq]; exact beqList_refl as
  | .coll a => by simp only [beq]; exact beq_refl a
theorem beqList_refl : ∀ (as : List Ty), beqList as as = true
  | [] => rfl
  | a :: as => by simp only [beqList, Bool.and_eq_true]; exact ⟨beq_refl a, beqList_refl as⟩
end

instance : BEq Ty := ⟨beq⟩

theorem beq_iff_eq {a b : Ty} : (a == b) = true ↔ a = b :=
  ⟨eq_of_beq a b, fun h => h ▸ beq_refl a⟩

instance : LawfulBEq Ty where
  eq_of_beq := eq_of_beq _ _
  rfl := beq_refl _

instance : DecidableEq Ty := fun a b =>
  if h : beq a b = true then isTrue (eq_of_beq a b h)
  else isFalse (fun e => h (e ▸ beq_refl a))

/-! ## constants and constructors -/

/-- `Typification::anyTypificationName` -/
def anyName : String := "R0"
/-- `Typification::integerTypeName` -/
def intName : String := "Z"

/-- `Typification::Integer()` -/
def Z : Ty := .base intName
/-- the any-type `R0` -/
def R0 : Ty := .base anyName
/-- `Typification::EmptySet()` = ℬ(R0) -/
def emptySet : Ty := .coll R0

/-- `IsAnyType()`: `IsElement() && baseID == "R0"` -/
def isAny : Ty → Bool
  | .base id => id == anyName
  | _ => false

def isElement : Ty → Bool | .base _ => true | _ => false
def isTuple : Ty → Bool | .tuple _ => true | _ => false
def isColl : Ty → Bool | .coll _ => true | _ => false

/-- `Typification::Tuple(factors)` for a non-empty vector: a single factor is returned as is.
(For the empty vector the C++ asserts; the callers that can reach it are modelled with an
explicit `stuck` outcome in the checker — `tupleOf` itself is only called on non-empty lists,
see `merge_tuple_nonempty` in Properties/C03.) With `NDEBUG` the C++ builds the 0-ary tuple,
which is also what this function returns. -/
def tupleOf : List Ty → Ty
  | [c] => c
  | cs => .tuple cs

/-- `EchelonTuple::TestIndex(index)`: `index - 1 < Arity() && index >= 1` -/
def testIndex (cs : List Ty) (i : Int) : Bool := i - 1 < cs.length && i ≥ 1

/-- `EchelonTuple::Component(index)` (`factors.at(index - 1)`) -/
def component? (cs : List Ty) (i : Int) : Option Ty :=
  if i ≥ 1 then cs[(i - 1).toNat]? else none

/-! ## `Typification::ToString` -/
mutual
def toStr : Ty → String
  | .base id => id
  | .tuple cs => toStrTuple cs true
  | .coll b =>
    match b with
    | .coll _ => "ℬ" ++ toStr b
    | _ => "ℬ(" ++ toStr b ++ ")"
/-- `EchelonTuple::ToString`: components joined by `×`, tuple components parenthesised -/
def toStrTuple : List Ty → Bool → String
  | [], _ => ""
  | c :: cs, first =>
    (if first then "" else "×") ++
    (match c with
     | .tuple _ => "(" ++ toStr c ++ ")"
     | _ => toStr c) ++ toStrTuple cs false
end

end Ty

def ExprTy.toStr : ExprTy → String
  | .logic => "LOGIC"
  | .ty t => t.toStr

instance : DecidableEq ExprTy := fun a b =>
  match a, b with
  | .logic, .logic => isTrue rfl
  | .ty a, .ty b => if h : a = b then isTrue (h ▸ rfl) else isFalse (fun e => h (by cases e; rfl))
  | .logic, .ty _ => isFalse (fun e => by cases e)
  | .ty _, .logic => isFalse (fun e => by cases e)

instance : BEq ExprTy := ⟨fun a b => decide (a = b)⟩

/-! ## type traits (`TypeContext::TraitsFor`) -/

/-- `TypeTraits` -/
structure Traits where
  isIterable : Bool
  isOrdered : Bool
  isOperable : Bool
  convertsFromInt : Bool
deriving Repr, DecidableEq, Inhabited

def Traits.nominal : Traits := ⟨true, false, false, false⟩
def Traits.ordered : Traits := ⟨true, true, false, false⟩
def Traits.integral : Traits := ⟨false, true, true, true⟩

/-- traits of the base sets of the context (`Schema::TraitsFor`: base set ↦ nominal,
constant set ↦ integral; anything not listed has no traits) -/
abbrev TraitEnv := List (String × Traits)

def lookup {α : Type} (l : List (String × α)) (k : String) : Option α :=
  match l with
  | [] => none
  | (k', v) :: rest => if k' == k then some v else lookup rest k

/-- `Schema::TraitsFor(type)`: not an element ↦ none; `Z` ↦ integral; otherwise by base set -/
def traitsFor (te : TraitEnv) : Ty → Option Traits
  | .base id => if id == Ty.intName then some Traits.integral else lookup te id
  | _ => none

/-- `TypeEnv::IsArithmetic` -/
def isArithmetic (te : TraitEnv) (t : Ty) : Bool :=
  match traitsFor te t with | some tr => tr.isOperable | none => false
/-- `TypeEnv::IsOrdered` -/
def isOrdered (te : TraitEnv) (t : Ty) : Bool :=
  match traitsFor te t with | some tr => tr.isOrdered | none => false

def convertsFromInt (te : TraitEnv) (t : Ty) : Bool :=
  match traitsFor te t with | some tr => tr.convertsFromInt | none => false

/-- `TypeEnv::CommonType(type1, type2)` (result by value instead of pointer) -/
def commonType (te : TraitEnv) (t1 t2 : Ty) : Option Ty :=
  if t1 == Ty.Z then (if convertsFromInt te t2 then some t2 else none)
  else if t2 == Ty.Z then (if convertsFromInt te t1 then some t1 else none)
  else none

/-! ## `TypeEnv::AreCompatible(Typification, Typification)` -/
mutual
def compat (te : TraitEnv) : Ty → Ty → Bool
  | .base a, .base b =>
    a == b || a == Ty.anyName || b == Ty.anyName || (commonType te (.base a) (.base b)).isSome
  | .base a, _ => a == Ty.anyName
  | .coll _, .base b => b == Ty.anyName
  | .tuple _, .base b => b == Ty.anyName
  | .coll a, .coll b => compat te a b
  | .tuple as, .tuple bs => compatList te as bs
  | .coll _, .tuple _ => false
  | .tuple _, .coll _ => false
/-- equal arity and component-wise compatible (the loop of the tuple case) -/
def compatList (te : TraitEnv) : List Ty → List Ty → Bool
  | [], [] => true
  | a :: as, b :: bs => compat te a b && compatList te as bs
  | _, _ => false
end

/-- `TypeEnv::AreCompatible(ExpressionType, ExpressionType)`; `none` = `std::get` on the
wrong alternative (type1 a typification, type2 logic) -/
def compatE (te : TraitEnv) : ExprTy → ExprTy → Option Bool
  | .logic, .logic => some true
  | .logic, .ty _ => some false
  | .ty a, .ty b => some (compat te a b)
  | .ty _, .logic => none

/-! ## `TypeEnv::Merge` -/
mutual
def merge (te : TraitEnv) : Ty → Ty → Option Ty
  | .base a, .base b =>
    if a == b then some (.base a)
    else if a == Ty.anyName then some (.base b)
    else if b == Ty.anyName then some (.base a)
    else commonType te (.base a) (.base b)
  | .base a, .coll b => if a == Ty.anyName then some (.coll b) else none
  | .base a, .tuple bs => if a == Ty.anyName then some (.tuple bs) else none
  | .coll a, .base b => if b == Ty.anyName then some (.coll a) else none
  | .tuple as, .base b => if b == Ty.anyName then some (.tuple as) else none
  | .coll a, .coll b =>
    match merge te a b with
    | some c => some (.coll c)
    | none => none
  | .tuple as, .tuple bs =>
    if Ty.beqList as bs then some (.tuple as)
    else match mergeList te as bs with
      | some cs => some (Ty.tupleOf cs)
      | none => none
  | .coll _, .tuple _ => none
  | .tuple _, .coll _ => none
/-- arities equal and every component merges (fail-fast loop of the tuple case) -/
def mergeList (te : TraitEnv) : List Ty → List Ty → Option (List Ty)
  | [], [] => some []
  | a :: as, b :: bs =>
    match merge te a b with
    | some c =>
      match mergeList te as bs with
      | some cs => some (c :: cs)
      | none => none
    | none => none
  | _, _ => none
end

/-! ## radicals and templates -/

/-- `IsRadical(alias)`: `!empty && alias[0]=='R' && alias.at(1) != '0'`. For the one-letter
alias `"R"` the C++ `.at(1)` throws; no lexer produces that identifier and the harness never
declares it (assumption recorded in tools/props.py) — the model answers `false` there. -/
def isRadical (alias : String) : Bool :=
  match alias.toList with
  | 'R' :: c :: _ => c != '0'
  | _ => false

/-! `MangleRadicals(funcName, type)` -/
mutual
def mangle (fn : String) : Ty → Ty
  | .base id => if isRadical id then .base (id ++ fn) else .base id
  | .coll b => .coll (mangle fn b)
  | .tuple cs => .tuple (mangleList fn cs)
def mangleList (fn : String) : List Ty → List Ty
  | [] => []
  | c :: cs => mangle fn c :: mangleList fn cs
end

/-- `Typification::Substitutes` (`unordered_map<string, Typification>`; only looked up by key) -/
abbrev Subst := List (String × Ty)

def Subst.set (s : Subst) (k : String) (v : Ty) : Subst :=
  match s with
  | [] => [(k, v)]
  | (k', v') :: rest => if k' == k then (k, v) :: rest else (k', v') :: Subst.set rest k v

/-! `Typification::SubstituteBase` -/
mutual
def substBase (s : Subst) : Ty → Ty
  | .base id => match lookup s id with | some t => t | none => .base id
  | .coll b => .coll (substBase s b)
  | .tuple cs => .tuple (substBaseList s cs)
def substBaseList (s : Subst) : List Ty → List Ty
  | [] => []
  | c :: cs => substBase s c :: substBaseList s cs
end

/-! `BindRadicals(substitutes, arg, anyType)`: the template parameters of a declared argument type
that met the any-type (so the actual argument says nothing about them) are bound to it, unless
already bound -/
mutual
def bindRadicals (s : Subst) (anyT : Ty) : Ty → Subst
  | .base a => if isRadical a && (lookup s a).isNone then s ++ [(a, anyT)] else s
  | .coll b => bindRadicals s anyT b
  | .tuple cs => bindRadicalsList s anyT cs
def bindRadicalsList (s : Subst) (anyT : Ty) : List Ty → Subst
  | [] => s
  | c :: cs => bindRadicalsList (bindRadicals s anyT c) anyT cs
end

/-! `TypeEnv::CompareTemplated(substitutes, arg, value)`: result and the updated map -/
mutual
def compareTemplated (te : TraitEnv) (s : Subst) : Ty → Ty → Bool × Subst
  | .base a, v =>
    if Ty.beq (.base a) v then (true, s)
    else if isRadical a then
      match lookup s a with
      | none => (true, s ++ [(a, v)])
      | some old =>
        match merge te old v with
        | none => (false, s)
        | some m => (true, Subst.set s a m)
    else if v.isAny then (true, s)
    else match v with
      | .base b => ((commonType te (.base a) (.base b)).isSome, s)
      | _ => (false, s)
  | .coll a, v =>
    if Ty.beq (.coll a) v then (true, s)
    else if v.isAny then (true, bindRadicals s v (.coll a))
    else match v with
      | .coll b => compareTemplated te s a b
      | _ => (false, s)
  | .tuple as, v =>
    if Ty.beq (.tuple as) v then (true, s)
    else if v.isAny then (true, bindRadicals s v (.tuple as))
    else match v with
      | .tuple bs => if as.length != bs.length then (false, s) else compareTemplatedList te s as bs
      | _ => (false, s)
def compareTemplatedList (te : TraitEnv) (s : Subst) : List Ty → List Ty → Bool × Subst
  | [], _ => (true, s)
  | _ :: _, [] => (true, s)
  | a :: as, b :: bs =>
    match compareTemplated te s a b with
    | (true, s') => compareTemplatedList te s' as bs
    | (false, s') => (false, s')
end

/-! ## context (`TypeContext`) -/

/-- `ValueClass` -/
inductive VClass where
  | invalid | value | props
deriving Repr, DecidableEq, Inhabited

structure Ctx where
  /-- `TypeFor(name)` -/
  types : List (String × ExprTy) := []
  /-- `FunctionArgsFor(name)` -/
  funcs : List (String × List (String × Ty)) := []
  /-- `TraitsFor` on element types other than `Z` -/
  traits : TraitEnv := []
  /-- `TypeAuditor::isTypification` (`SetExepectTypification`; `Auditor` never sets it) -/
  isTypification : Bool := false
  /-- `ValueClassContext` (absent = `invalid`) -/
  vclass : List (String × VClass) := []
  /-- `SyntaxTreeContext`: tree of the whole definition `F1:==[…] body` -/
  asts : List (String × CCVerif.Syntax.Ast) := []

end CCVerif.Types
