/-
Model of ccl/cclCommons/include/ccl/Strings.hpp (C20): UTF-8 iteration, Substr,
SizeInCodePoints, SplitBySymbol, TrimWhitespace, IsInteger and the StrRange interval algebra.

Bytes are `Nat`s (the harness feeds values 0..255); code-point positions are `Int`
(`StrPos = int32_t`, wrap-around not modelled); byte offsets are `Nat` (`size_t`).
Line-by-line transcription: each definition names the C++ it follows.
-/
namespace CCVerif.Strings

abbrev Bytes := List Nat

/-- `UTF8CharSize(firstByte)`: the three bit-mask tests, in the order of the code. -/
def charSize (b : Nat) : Nat :=
  if b &&& 128 = 0 then 1
  else if b &&& 32 = 0 then 2
  else if b &&& 16 = 0 then 3
  else 4

/-- `UTF8Iterator`: `cur = none` is `endPos` (-1). -/
structure Iter where
  cur : Option Nat
  bp  : Nat
deriving Repr, DecidableEq

def Iter.isEnd (it : Iter) : Bool := it.cur.isNone

/-- body of the `for` loop in `GotoCodepoint`: at most `n` steps, stops at the end of data. -/
def advance (data : Bytes) : Nat → Nat → Nat
  | 0, bp => bp
  | n+1, bp =>
    if bp < data.length then advance data n (bp + charSize (data.getD bp 0)) else bp

/-- `UTF8Iterator{data, position}` (constructor + `GotoCodepoint`). `position = -1` is the
end marker; other negative positions violate the `assert` (release build: runs to the end). -/
def mkIter (data : Bytes) (pos : Int) : Iter :=
  if pos < 0 then ⟨none, 0⟩
  else
    let bp := advance data pos.toNat 0
    if data.length ≤ bp then ⟨none, bp⟩ else ⟨some pos.toNat, bp⟩

/-- `operator++`. On an end iterator the C++ reads out of bounds; never done by the callers. -/
def Iter.next (data : Bytes) (it : Iter) : Iter :=
  match it.cur with
  | none => it
  | some c =>
    let bp := it.bp + charSize (data.getD it.bp 0)
    if data.length ≤ bp then ⟨none, bp⟩ else ⟨some (c+1), bp⟩

/-- `Substr(source, range)`; `count` is computed in `size_t`, so a negative difference wraps to
a huge count which `substr` clips to the rest of the string. -/
def substr (data : Bytes) (start finish : Int) : Bytes :=
  let s := mkIter data start
  let f := mkIter data (finish - 1)
  if s.isEnd || f.isEnd then []
  else
    let f' := f.next data
    if f'.isEnd then data.drop s.bp
    else if s.bp ≤ f'.bp then (data.drop s.bp).take (f'.bp - s.bp)
    else data.drop s.bp

/-- the loop of `SizeInCodePoints` with fuel (each step consumes ≥ 1 byte). -/
def sizeCpGo (data : Bytes) : Nat → Iter → Nat → Nat
  | 0, _, acc => acc
  | fuel+1, it, acc => if it.isEnd then acc else sizeCpGo data fuel (it.next data) (acc+1)

def sizeCp (data : Bytes) : Nat := sizeCpGo data (data.length + 1) (mkIter data 0) 0

/-- all iterator stops from `UTF8Begin` to `UTF8End`: (position, byte offset). -/
def iterAllGo (data : Bytes) : Nat → Iter → List (Nat × Nat)
  | 0, _ => []
  | fuel+1, it =>
    match it.cur with
    | none => []
    | some c => (c, it.bp) :: iterAllGo data fuel (it.next data)

def iterAll (data : Bytes) : List (Nat × Nat) := iterAllGo data (data.length + 1) (mkIter data 0)

/-! ### SplitBySymbol -/

/-- The loop of `SplitBySymbol`, state `(index, rightComma)` kept as "start of current piece":
pieces are emitted at each delimiter, the last piece after the loop. -/
def splitGo (delim : Nat) : Bytes → Bytes → List Bytes
  | [], cur => [cur.reverse]
  | c :: rest, cur =>
    if c = delim then cur.reverse :: splitGo delim rest [] else splitGo delim rest (c :: cur)

def splitBy (text : Bytes) (delim : Nat) : List Bytes := splitGo delim text []

/-! ### TrimWhitespace -/

/-- C locale `isspace` on a byte value (bytes ≥ 0x80 are not whitespace). -/
def isSpace (b : Nat) : Bool := b = 32 || (9 ≤ b && b ≤ 13)
def isDigit (b : Nat) : Bool := 48 ≤ b && b ≤ 57

/-- first loop: `while (isspace(text.at(start)) && ++start < end) {}` -/
def trimStart (text : Bytes) (e : Nat) : Nat → Nat → Nat
  | 0, start => start
  | fuel+1, start =>
    if isSpace (text.getD start 0) then
      if start + 1 < e then trimStart text e fuel (start+1) else start + 1
    else start

/-- second loop: `while (isspace(text.at(end)) && end != 0 && --end >= start) {}` -/
def trimEnd (text : Bytes) (start : Nat) : Nat → Nat → Nat
  | 0, e => e
  | fuel+1, e =>
    if isSpace (text.getD e 0) && e != 0 then
      if e - 1 ≥ start then trimEnd text start fuel (e-1) else e - 1
    else e

def trim (text : Bytes) : Bytes :=
  if text.isEmpty then text
  else
    let e0 := text.length - 1
    let start := trimStart text e0 (text.length + 1) 0
    let e := trimEnd text start (text.length + 1) e0
    let len := if start > e then 0 else e - start + 1
    (text.drop start).take len

/-! ### IsInteger -/

def isInteger (text : Bytes) : Bool :=
  match text with
  | [] => false
  | c :: rest =>
    if c = 45 then (if text.length = 1 then false else rest.all isDigit)
    else text.all isDigit

/-! ### StrRange -/

structure StrRange where
  start : Int
  finish : Int
deriving Repr, DecidableEq

namespace StrRange
def fromLength (s l : Int) : StrRange := ⟨s, s + l⟩
def length (r : StrRange) : Int := r.finish - r.start
def empty (r : StrRange) : Bool := r.finish = r.start
def containsPos (r : StrRange) (p : Int) : Bool := r.start ≤ p && r.finish > p
def contains (r rhs : StrRange) : Bool :=
  if rhs.empty then r.containsPos rhs.finish else r.start ≤ rhs.start && r.finish ≥ rhs.finish
def isBefore (r rhs : StrRange) : Bool := r.finish < rhs.start
def isAfter (r rhs : StrRange) : Bool := r.start > rhs.finish
def meets (r rhs : StrRange) : Bool := r.finish = rhs.start
def sharesBorder (r rhs : StrRange) : Bool := r.meets rhs || rhs.meets r
def overlaps (r rhs : StrRange) : Bool :=
  if r.start = rhs.start then true
  else if r.start < rhs.start then r.finish > rhs.start
  else rhs.finish > r.start
def starts (r rhs : StrRange) : Bool := r.start = rhs.start && r.finish < rhs.finish
def finishes (r rhs : StrRange) : Bool := r.finish = rhs.finish && r.start > rhs.start
def isDuring (r rhs : StrRange) : Bool := r.start > rhs.start && r.finish < rhs.finish
def setLength (r : StrRange) (a : Int) : StrRange := ⟨r.start, r.start + a⟩
def shift (r : StrRange) (a : Int) : StrRange := ⟨r.start + a, r.finish + a⟩
def collapseEnd (r : StrRange) : StrRange := ⟨r.finish, r.finish⟩
def collapseStart (r : StrRange) : StrRange := ⟨r.start, r.start⟩
def intersect (r rhs : StrRange) : Option StrRange :=
  if r.isBefore rhs || r.isAfter rhs then none
  else some ⟨max r.start rhs.start, min r.finish rhs.finish⟩
def merge : List StrRange → StrRange
  | [] => ⟨0, 0⟩
  | b :: rest => rest.foldl (fun bounds rng => ⟨min rng.start bounds.start, max rng.finish bounds.finish⟩) b
end StrRange

/-! ### Reference definitions used by the theorems (UTF-8 encoding of scalar values) -/

def validCp (cp : Nat) : Prop := cp < 0x110000

def encodeCp (cp : Nat) : Bytes :=
  if cp < 0x80 then [cp]
  else if cp < 0x800 then [192 + cp / 64, 128 + cp % 64]
  else if cp < 0x10000 then [224 + cp / 4096, 128 + cp / 64 % 64, 128 + cp % 64]
  else [240 + cp / 262144, 128 + cp / 4096 % 64, 128 + cp / 64 % 64, 128 + cp % 64]

def encode : List Nat → Bytes
  | [] => []
  | cp :: rest => encodeCp cp ++ encode rest

/-- byte offset of code point `i` in `encode cps`. -/
def byteOffset (cps : List Nat) (i : Nat) : Nat := (encode (cps.take i)).length

end CCVerif.Strings
