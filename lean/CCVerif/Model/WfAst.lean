import CCVerif.Model.Lexer
/-!
`WfAst`: the trees the RSLang grammar can produce (`RSParserImpl.y` + the semantic actions of
`RSParser.cpp`), as an executable predicate on the shared `Ast` — arity and child-kind
constraints per node kind, payload kind per leaf. Ranges are ignored. This is the quantifier
domain of C05 ("every expression that parses") stated on trees.

Identifier spellings are judged by the MATH lexer model (the larger alphabet): a name is
admissible iff lexing it alone gives exactly one token of its kind.
-/
namespace CCVerif.Wf
open CCVerif.Syntax CCVerif.Lexer

def stringUnits (s : String) : List Nat := s.toList.map Char.toNat

/-- the text lexes (MATH) as exactly one token of kind `id` -/
def lexesAs (id : Tok) (s : String) : Bool :=
  lexKinds .math (stringUnits s) == some [id]

def int32 (n : Int) : Bool := decide (-2147483648 ≤ n) && decide (n ≤ 2147483647)
def int16 (n : Int) : Bool := decide (-32768 ≤ n) && decide (n ≤ 32767)

/-- a leaf with the payload the lexer gives that kind -/
def wfLeaf (id : Tok) (data : TokData) : Bool :=
  match id, data with
  | .ID_LOCAL, .text s => lexesAs .ID_LOCAL s
  | .ID_GLOBAL, .text s => lexesAs .ID_GLOBAL s
  | .ID_FUNCTION, .text s => lexesAs .ID_FUNCTION s
  | .ID_PREDICATE, .text s => lexesAs .ID_PREDICATE s
  | .ID_RADICAL, .text s => lexesAs .ID_RADICAL s
  | .LIT_INTEGER, .int n => int32 n
  | .LIT_INTSET, .none => true
  | .LIT_EMPTYSET, .none => true
  | _, _ => false

def noData : TokData → Bool | .none => true | _ => false
/-- index tuple of `Pr/pr/Fi`: at least one index (the lexer pattern `{number}(,{number})*`), each an `int16_t` -/
def indexData : TokData → Bool | .tuple l => !l.isEmpty && l.all int16 | _ => false

/-- syntactic categories of the grammar that matter for the shape of trees -/
inductive Cat where
  /-- `setexpr` -/
  | S
  /-- `logic` -/
  | L
  /-- `logic_or_setexpr` -/
  | LS
  /-- `variable` -/
  | V
  /-- `variable_pack` -/
  | VP
  /-- element of `imp_blocks`: `logic`, `ITERATE`, `ASSIGN` -/
  | B
  /-- leaf `ID_FUNCTION` / `ID_PREDICATE` / `ID_LOCAL` / `global_name` -/
  | FN | PN | LO | GN
  /-- leaf `ID_FUNCTION` or `ID_PREDICATE`: the head of a call standing where `logic_or_setexpr` is accepted -/
  | FP
  /-- `declaration` (NT_ARG_DECL), `arguments` (NT_ARGUMENTS), `no_declaration` -/
  | AD | ARGS | ND
deriving Repr, DecidableEq

/-- what the children of a node must look like -/
inductive Shape where
  /-- no children, payload of the leaf kind -/
  | leaf
  /-- exactly these categories, in order; no payload -/
  | seq (cs : List Cat)
  /-- exactly these categories; index-tuple payload (`pr1,2`) -/
  | seqIdx (cs : List Cat)
  /-- at least `min` children, all of category `c`; no payload -/
  | all (min : Nat) (c : Cat)
  /-- at least `min` children of category `c`; index-tuple payload (`Fi1,2`) -/
  | allIdx (min : Nat) (c : Cat)
  /-- first child of category `h`, then at least `min` of category `c`; no payload -/
  | headAll (h : Cat) (min : Nat) (c : Cat)
deriving Repr, DecidableEq

def shapeS : Tok → Option Shape
  | .ID_LOCAL | .ID_GLOBAL | .ID_FUNCTION | .ID_PREDICATE | .ID_RADICAL
  | .LIT_INTEGER | .LIT_INTSET | .LIT_EMPTYSET => some .leaf
  | .PLUS | .MINUS | .MULTIPLY | .UNION | .INTERSECTION | .SET_MINUS | .SYMMINUS => some (.seq [.S, .S])
  | .DECART => some (.all 2 .S)
  | .NT_FUNC_CALL => some (.headAll .FN 1 .S)
  | .BOOL | .DEBOOL | .REDUCE | .CARD | .BOOLEAN => some (.seq [.S])
  | .BIGPR | .SMALLPR => some (.seqIdx [.S])
  | .FILTER => some (.allIdx 2 .S)
  | .NT_ENUMERATION => some (.all 1 .S)
  | .NT_TUPLE => some (.all 2 .S)
  | .NT_DECLARATIVE_EXPR => some (.seq [.V, .S, .L])
  | .NT_IMPERATIVE_EXPR => some (.headAll .S 1 .B)
  | .NT_RECURSIVE_FULL => some (.seq [.V, .S, .L, .S])
  | .NT_RECURSIVE_SHORT => some (.seq [.V, .S, .S])
  | _ => none

def shapeL : Tok → Option Shape
  | .IN | .NOTIN | .SUBSET | .SUBSET_OR_EQ | .NOTSUBSET | .NOTEQUAL | .EQUAL
  | .GREATER | .LESSER | .GREATER_OR_EQ | .LESSER_OR_EQ => some (.seq [.S, .S])
  | .NOT => some (.seq [.L])
  | .FORALL | .EXISTS => some (.seq [.VP, .S, .L])
  | .NT_FUNC_CALL => some (.headAll .PN 1 .S)
  | .EQUIVALENT | .IMPLICATION | .OR | .AND => some (.seq [.L, .L])
  | _ => none

def shapeV : Tok → Option Shape
  | .ID_LOCAL => some .leaf
  | .NT_TUPLE_DECL => some (.all 2 .V)
  | _ => none

/-- `logic_or_setexpr`: a `logic` or a `setexpr`. The two grammars share one node kind, `NT_FUNC_CALL`
(`PREDICATE LS setexpr_enum RS` in `logic_unary`, `FUNCTION LS setexpr_enum RS` in `setexpr`): where either
is accepted the head of a call is a predicate name or a term-function name. -/
def shapeLS (id : Tok) : Option Shape :=
  if id == .NT_FUNC_CALL then some (.headAll .FP 1 .S)
  else match shapeL id with | some s => some s | none => shapeS id

/-- the table: which shape a node with token `id` has when it stands for category `c` -/
def shape (c : Cat) (id : Tok) : Option Shape :=
  match c with
  | .S => shapeS id
  | .L => shapeL id
  | .LS => shapeLS id
  | .V => shapeV id
  | .VP => if id == .NT_ENUM_DECL then some (.all 2 .V) else shapeV id
  | .B => if id == .ITERATE || id == .ASSIGN then some (.seq [.V, .S]) else shapeL id
  | .FN => if id == .ID_FUNCTION then some .leaf else none
  | .PN => if id == .ID_PREDICATE then some .leaf else none
  | .LO => if id == .ID_LOCAL then some .leaf else none
  | .GN => if id == .ID_GLOBAL || id == .ID_FUNCTION || id == .ID_PREDICATE then some .leaf else none
  | .FP => if id == .ID_FUNCTION || id == .ID_PREDICATE then some .leaf else none
  | .AD => if id == .NT_ARG_DECL then some (.seq [.LO, .S]) else none
  | .ARGS => if id == .NT_ARGUMENTS then some (.all 1 .AD) else none
  | .ND =>
    if id == .NT_FUNC_DEFINITION then some (.seq [.ARGS, .LS])
    else shapeLS id

mutual
/-- the tree is a phrase of category `c` -/
def wf : Cat → Ast → Bool
  | c, .node id data _ _ kids =>
    match shape c id with
    | none => false
    | some .leaf => kids.isEmpty && wfLeaf id data
    | some (.seq cs) => noData data && wfSeq cs kids
    | some (.seqIdx cs) => indexData data && wfSeq cs kids
    | some (.all min k) => noData data && decide (min ≤ kids.length) && wfAll k kids
    | some (.allIdx min k) => indexData data && decide (min ≤ kids.length) && wfAll k kids
    | some (.headAll h min k) => noData data && wfHead h min k kids
def wfSeq : List Cat → List Ast → Bool
  | [], [] => true
  | c :: cs, k :: ks => wf c k && wfSeq cs ks
  | _, _ => false
def wfAll : Cat → List Ast → Bool
  | _, [] => true
  | c, k :: ks => wf c k && wfAll c ks
def wfHead : Cat → Nat → Cat → List Ast → Bool
  | _, _, _, [] => false
  | h, min, c, k :: ks => wf h k && decide (min ≤ ks.length) && wfAll c ks
end

/-- `expression`: the trees `Parser::Parse` can return -/
def wfAst : Ast → Bool
  | .node id data lo hi kids =>
    if id == .PUNC_DEFINE || id == .PUNC_STRUCT then
      noData data && (match kids with
        | [g] => id == .PUNC_DEFINE && wf .GN g
        | [g, e] => wf .GN g && wf .ND e
        | _ => false)
    else wf .ND (.node id data lo hi kids)

end CCVerif.Wf
