import CCVerif.Model.Translation
/-!
Model of `RSForm::DeleteDuplicatesInternal` (ccl/core/src/semantic/rsform/RSForm.cpp) — C12.

```
EntityTranslation translation{};
auto flag = true;
while (flag) {
  flag = false;
  for (const auto original : List()) {                      // std::list, mutated while iterated
    const auto& rsCst1 = core.GetRS(original);  const auto& textCst1 = core.GetText(original);
    if (!rsCst1.IsEmpty() || !textCst1.IsEmpty()) {
      for (const auto copy : List()) {                      // the WHOLE list, from its begin()
        const auto& rsCst2 = core.GetRS(copy);  const auto& textCst2 = core.GetText(copy);
        if (&rsCst1 == &rsCst2 || rsCst1 != rsCst2 || textCst1 != textCst2) continue;
        std::string copyAlias = rsCst2.alias;
        if (EraseInternal(copy)) {                          // always true: `copy` is in the schema
          EntityTranslation step{}; step.Insert(copy, original);
          translation.SuperposeWith(step);
          core.TranslateAll(CreateTranslator({ { copyAlias, rsCst1.alias } }));
          flag = true;
          break;                                            // leaves the INNER loop only
        }
      }
    }
  }
}
return translation;
```

What is modelled

* The schema content is the sequence of constituents in `List()` order (`CstList`, a
  `std::list<EntityUID>`): uid, alias, kind (`CstType`), the definition as a token sequence, and
  `rest` = the other translated texts (convention, term text, definition text), each a token
  sequence. A token is a *mention* of an alias (what `RSConcept::Translate` /
  `TextConcept::Translate` re-spell: a global identifier of the definition or convention, the entity
  name of a `@{…|…}` reference of a text) or an opaque symbol. The tokenisation itself
  (`TranslateRS` with `FilterGlobals`, `ManagedText::TranslateRaw`) is the subject of C08/C17 and is
  an input here.
* `RSConcept::operator==` compares kind, definition and convention; `TextConcept::operator==`
  compares term and definition text (raw texts): `Cst.same`. "The same object" (`&rsCst1 ==
  &rsCst2`) is "the same uid" (the storage is keyed by uid). `IsEmpty` of both halves: no
  definition, no convention, no texts: `Cst.isEmpty` (abstraction: `TextConcept::IsEmpty` looks
  at the *resolved* nominal form of the term, the model at the raw text).
* The outer `for` walks a `std::list` that is mutated under it: erasing another node keeps the
  iterator at `original` valid, `++` then moves to the successor of `original` in the *mutated*
  list; the erased copy may stand before or after `original`. The model keeps a zipper
  `done ++ original :: rest`; the inner loop scans `done ++ original :: rest` from the front
  (`findCopy`: the first constituent with another uid that is `same`).
* `break` leaves the inner loop only: the pass continues with the next original (so one pass can
  erase several constituents, and an "original" can be a later member of a group of three that
  erases the earlier survivor: a, b, c identical gives b ↦ a, then a ↦ c).
* `TranslateAll` renames every mention of the copy's alias into the original's alias in every
  constituent that is still there (including the original itself).
* `translation.SuperposeWith(step)` is `Translation.superposeWith` with the one-entry step.
* `while (flag)`: `loop`, with fuel `length + 1` (every pass that sets the flag erases at least
  one constituent); running out of fuel is the explicit outcome `none`, proved impossible
  (`dedup_terminates` in Properties/C12.lean). The pass itself has fuel = number of constituents
  still to visit.
-/
namespace CCVerif.Dedup
open CCVerif.Translation

inductive Tok where
  | mention (alias : String)
  | sym (text : String)
deriving Repr, DecidableEq, Inhabited

structure Cst where
  uid : Nat
  alias : String
  kind : Nat
  definition : List Tok
  /-- convention, term text, definition text (all translated by `TranslateAll`) -/
  rest : List (List Tok)
deriving Repr, DecidableEq, Inhabited

abbrev Schema := List Cst

def uids (l : Schema) : List Nat := l.map (·.uid)
def aliases (l : Schema) : List String := l.map (·.alias)

def renTok (f : String → String) : Tok → Tok
  | .mention a => .mention (f a)
  | .sym s => .sym s

/-- `CreateTranslator({{old, new}})` completed by the identity (`std::nullopt` = leave as is) -/
def subst1 (old new : String) (a : String) : String := if a = old then new else a

/-- `RSConcept::Translate` + `TextConcept::Translate` -/
def Cst.rename (f : String → String) (c : Cst) : Cst :=
  { c with definition := c.definition.map (renTok f), rest := c.rest.map (·.map (renTok f)) }

/-- `rsCst.IsEmpty() && textCst.IsEmpty()` -/
def Cst.isEmpty (c : Cst) : Bool := c.definition.isEmpty && c.rest.all (·.isEmpty)

/-- `rsCst1 == rsCst2 && textCst1 == textCst2` -/
def Cst.same (a b : Cst) : Bool := a.kind == b.kind && a.definition == b.definition && a.rest == b.rest

/-- the inner `for (copy : List())` up to its `break` -/
def findCopy (o : Cst) (l : Schema) : Option Cst := l.find? (fun c => c.uid != o.uid && o.same c)

/-- `EraseInternal(copy)` followed by `TranslateAll({copyAlias ↦ originalAlias})` on a part of the list -/
def eraseStep (o c : Cst) (l : Schema) : Schema :=
  (l.filter (·.uid != c.uid)).map (Cst.rename (subst1 c.alias o.alias))

/-- one execution of the outer `for (original : List())`; `done ++ todo` is the current list,
the head of `todo` the current `original` -/
def pass : Nat → Schema → Schema → Tr → Bool → Option (Schema × Tr × Bool)
  | _, done, [], tr, flag => some (done, tr, flag)
  | 0, _, _ :: _, _, _ => none
  | n + 1, done, o :: rest, tr, flag =>
    if o.isEmpty then pass n (done ++ [o]) rest tr flag
    else
      match findCopy o (done ++ o :: rest) with
      | none => pass n (done ++ [o]) rest tr flag
      | some c =>
        pass n (eraseStep o c done ++ [o.rename (subst1 c.alias o.alias)]) (eraseStep o c rest)
          (superposeWith tr [(c.uid, o.uid)]) true

/-- `while (flag)` -/
def loop : Nat → Schema → Tr → Option (Schema × Tr)
  | 0, _, _ => none
  | n + 1, l, tr =>
    match pass l.length [] l tr false with
    | none => none
    | some (l', tr', true) => loop n l' tr'
    | some (l', tr', false) => some (l', tr')

/-- `RSForm::DeleteDuplicatesInternal`: the remaining schema and the returned translation;
`none` = out of fuel (never: `dedup_terminates`) -/
def dedup (l : Schema) : Option (Schema × Tr) := loop (l.length + 1) l []

/-! ### the code before repair 3ea486b (regression witness)

`translation.Insert(copy, original)` instead of superposing the step: an earlier entry keeps
pointing at a constituent that is erased later. Same loop otherwise. -/

def passPinned : Nat → Schema → Schema → Tr → Bool → Option (Schema × Tr × Bool)
  | _, done, [], tr, flag => some (done, tr, flag)
  | 0, _, _ :: _, _, _ => none
  | n + 1, done, o :: rest, tr, flag =>
    if o.isEmpty then passPinned n (done ++ [o]) rest tr flag
    else
      match findCopy o (done ++ o :: rest) with
      | none => passPinned n (done ++ [o]) rest tr flag
      | some c =>
        passPinned n (eraseStep o c done ++ [o.rename (subst1 c.alias o.alias)]) (eraseStep o c rest)
          (insert tr c.uid o.uid) true

def loopPinned : Nat → Schema → Tr → Option (Schema × Tr)
  | 0, _, _ => none
  | n + 1, l, tr =>
    match passPinned l.length [] l tr false with
    | none => none
    | some (l', tr', true) => loopPinned n l' tr'
    | some (l', tr', false) => some (l', tr')

def dedupPinned (l : Schema) : Option (Schema × Tr) := loopPinned (l.length + 1) l []

end CCVerif.Dedup
