import CCVerif.Model.Json
import CCVerif.Model.Core
import CCVerif.Model.Refs
import CCVerif.Model.SDataCompact
/-
Model of the DOCUMENT level of ccl/core/src/JSON.cpp (C10): the `to_json` / `from_json` pairs of
`RSForm`, `RSModel`, `RSCore`, `ConceptRecord`, `LexicalTerm`, `ManagedText`, `ExtractData` /
`LoadData`, over the JSON tree type of `Model/Json.lean` (nlohmann's text parser / printer is not
modelled).

## abstract content

`Schema` / `Model` = what the writer reads from the object, field by field, in the order of the
writer's iteration:

* `Schema.items` — one `Record` per uid of `RSCore::List()` (list order). A record has exactly
  the fields `to_json(ConceptRecord)` + the `parse` block of `to_json(RSCore)` emit, plus
  `track` = `schema.Mods()(uid)` (the `tracking` array is written by walking the same list).
* `Model.data` — one `DataEntry` per uid of `model.Core()` (`Schema::storage`, a `std::map`:
  ascending uid): `WasCalculated`, `GetParse(uid).Typification()`, `SDataFor`, `TextFor`,
  `StatementFor`.

Fields by the way the loader treats them:

| field                                           | on load |
|-------------------------------------------------|---------|
| `entityUID`, `cstType`, `alias`                 | required (`at`), then re-registered by `IdentityManager::RegisterID` (a taken uid is replaced by a random new one = `Env.fresh`; a taken / ill-formed / wrong-kind alias by `NewNameFor`, and the record is renamed = `Env.rename`) |
| `convention`, `term`, `definition`, `definition.formal`, `definition.text`, `resolved`, `forms`, `title`, `alias`, `comment` (document), `tracking` | optional (`LoadOptionalKey` / `contains`), default empty |
| `term.raw`, `text.raw`, `forms[i].tags`, `forms[i].text`, `tracking[i].entityUID/flags`, `data[i].entityUID` | required |
| `data[i].wasCalculated`                         | required — unless `entityUID` is not a uid of the loaded core: then the whole element is skipped before this key is read |
| `type` (`"constituenta"`, `"rsform"`, `"rsmodel"`) | written, never read |
| `term.resolved`, `definition.text.resolved`     | read into the cache, then RECOMPUTED by `RSCore::UpdateState` (`Thesaurus::UpdateState`) |
| `parse` block                                   | written, never read: RECOMPUTED by `Schema::UpdateState` (`Schema::Load` resets the `ParsingInfo`) |
| position in `items`                             | re-derived by `CstList::Insert` (kind-ordered insertion) |
| `data[i].value` of an RS object                 | `SDCompact::Unpack` against the RECOMPUTED typification; dropped when there is no typification or the table does not unpack |
| `data[i]` with an `entityUID` the core does not have | ignored (`if (!model.Core().Contains(uid)) continue;`): nothing else of the element is read |
| `data[i].texts` of a constituent that is not a base set | ignored without being parsed (`contains("texts") && IsBaseSet(type)`) |

The recomputation (`UpdateState`: resolving references, parsing and type checking: C07) is an
explicit input `Env.analyse` / `Env.typif`, like the random uid source.

`fromJson … = none` stands for: the C++ throws (`at` on a missing key, `get<T>` on a wrong JSON
type), or the document is outside the modelled class: numbers are integers `0 ≤ n` for uids, arrays where the code
iterates (`begin(j)`/`end(j)` of a non-array is not modelled).
Strings are Lean `String`s = valid UTF-8 (nlohmann's `dump` throws on invalid UTF-8).

(History: before the /repo commit "fix: loading a model ignores data of unknown constituents and
texts of non-base constituents" a `data` element with an unknown uid made `Schema::At` throw
`std::out_of_range`, and `"texts"` given for a constituent that is not a base set made
`SetTextInternal` dereference the null `TextFor(target)`; the model had `none` for both. Both
were found while writing this model and repaired as C04 violations.)
-/
namespace CCVerif.JsonDoc
open CCVerif.Json CCVerif.Core CCVerif.SDC

/-! ### enumerations (EnumJSON.hpp) -/

/-- `NLOHMANN_JSON_SERIALIZE_ENUM(CstType, …)` -/
def cstTypeName : CstType → String
  | .base => "basic" | .constant => "constant" | .structured => "structure" | .ax => "axiom"
  | .term => "term" | .function => "function" | .thm => "theorem" | .predicate => "predicate"

/-- `from_json` of the enum macro: the first table entry whose JSON value equals `j`; when there
is none, the FIRST entry of the table (`CstType::base`) — no exception. -/
def cstTypeOfJson : Json → CstType
  | .str s => (CstType.all.find? (fun t => cstTypeName t == s)).getD .base
  | _ => .base

/-- `IsRSObject` -/
def isRSObject : CstType → Bool
  | .base | .constant | .structured | .term => true
  | _ => false
/-- `IsBaseSet` -/
def isBaseSet : CstType → Bool
  | .base | .constant => true
  | _ => false
/-- `IsCallable` -/
def isCallable : CstType → Bool
  | .function | .predicate => true
  | _ => false

/-- `ParsingStatus` -/
inductive PStatus where
  | unknown | verified | incorrect
deriving DecidableEq, Repr, Inhabited
def PStatus.name : PStatus → String
  | .unknown => "undefined" | .verified => "verified" | .incorrect => "incorrect"

/-- `rslang::ValueClass` -/
inductive VClass where
  | invalid | value | props
deriving DecidableEq, Repr, Inhabited
def VClass.name : VClass → String
  | .invalid => "invalid" | .value => "value" | .props => "property"

/-! ### records -/

/-- `lang::ManagedText`: `rawText` and `cache` -/
structure MText where
  raw : String := ""
  resolved : String := ""
deriving DecidableEq, Repr, Inhabited

/-- one entry of `LexicalTerm::manualForms`, the key as `Morphology::ToString()` -/
structure Form where
  tags : String
  text : String
deriving DecidableEq, Repr, Inhabited

/-- `rslang::TypedID` of `FunctionArguments`: name and `type.ToString()` -/
structure FuncArg where
  name : String
  typ : String
deriving DecidableEq, Repr, Inhabited

/-- the `parse` block: `ParsingInfo` as `to_json(RSCore)` prints it (`typification` = `""` when
`Typification()` is null, `syntaxTree` = `AST2String` of `ASTContext()(alias)` or `""`, `args` =
`[]` when there are none). Default = `ParsingInfo{}`. -/
structure Parse where
  status : PStatus := .unknown
  valueClass : VClass := .invalid
  typification : String := ""
  syntaxTree : String := ""
  args : List FuncArg := []
deriving DecidableEq, Repr, Inhabited

/-- one constituent: `ConceptRecord` (`AsRecord(uid)`) + `GetParse(uid)` + `Mods()(uid)`.
`forms` is listed in the order the writer emits (`std::map` keyed by the tag string). -/
structure Record where
  uid : Nat
  type : CstType
  alias : String
  convention : String := ""
  term : MText := {}
  forms : List Form := []
  formal : String := ""
  definition : MText := {}
  parse : Parse := {}
  track : Option TrackingFlags := none
deriving DecidableEq, Repr, Inhabited

structure Schema where
  title : String := ""
  alias : String := ""
  comment : String := ""
  items : List Record := []
deriving DecidableEq, Repr, Inhabited

/-! ### writer: schema -/

/-- `to_json(ManagedText)` -/
def MText.toJson (t : MText) : Json := .obj [("raw", .str t.raw), ("resolved", .str t.resolved)]

def Form.toJson (f : Form) : Json := .obj [("text", .str f.text), ("tags", .str f.tags)]

/-- `to_json(LexicalTerm)`: the managed text's object with `forms` appended -/
def termToJson (t : MText) (forms : List Form) : Json :=
  .obj [("raw", .str t.raw), ("resolved", .str t.resolved), ("forms", .arr (forms.map Form.toJson))]

/-- `to_json(FunctionArguments)` element -/
def FuncArg.toJson (a : FuncArg) : Json := .obj [("alias", .str a.name), ("typification", .str a.typ)]

def Parse.toJson (p : Parse) : Json :=
  .obj [("status", .str p.status.name), ("valueClass", .str p.valueClass.name),
        ("typification", .str p.typification), ("syntaxTree", .str p.syntaxTree),
        ("args", .arr (p.args.map FuncArg.toJson))]

/-- `to_json(ConceptRecord)` followed by `cstJSON["parse"] = …` of `to_json(RSCore)` -/
def Record.toJson (r : Record) : Json :=
  .obj [("entityUID", .num r.uid), ("type", .str "constituenta"), ("cstType", .str (cstTypeName r.type)),
        ("alias", .str r.alias), ("convention", .str r.convention),
        ("term", termToJson r.term r.forms),
        ("definition", .obj [("formal", .str r.formal), ("text", r.definition.toJson)]),
        ("parse", r.parse.toJson)]

/-- `to_json(RSCore)` -/
def itemsToJson (items : List Record) : Json := .arr (items.map Record.toJson)

def trackEntryToJson (uid : Nat) (f : TrackingFlags) : Json :=
  .obj [("entityUID", .num uid), ("flags", f.toJson)]

/-- the `tracking` loop of `to_json(RSForm)` -/
def trackingToJson (items : List Record) : Json :=
  .arr (items.filterMap fun r => r.track.map (trackEntryToJson r.uid))

/-- `to_json(JSON&, const RSForm&)` -/
def Schema.toJson (c : Schema) : Json :=
  .obj [("type", .str "rsform"), ("title", .str c.title), ("alias", .str c.alias), ("comment", .str c.comment),
        ("items", itemsToJson c.items), ("tracking", trackingToJson c.items)]

/-! ### loader: schema -/

def asNat : Json → Option Nat
  | .num n => if 0 ≤ n then some n.toNat else none
  | _ => none

/-- `LoadOptionalKey` into a fresh (empty) string -/
def optStr (j : Json) (k : String) : Option String :=
  match j.get k with
  | none => some ""
  | some v => v.asStr

/-- required string: `object.at(k).get<std::string>()` -/
def reqStr (j : Json) (k : String) : Option String := (j.get k) >>= Json.asStr

/-- `from_json(ManagedText)` -/
def MText.fromJson (j : Json) : Option MText := do
  let resolved ← optStr j "resolved"
  let raw ← reqStr j "raw"
  pure { raw := raw, resolved := resolved }

/-- `Morphology{tags}.ToString()`: the canonical spelling of a tag list (unknown tags dropped,
duplicates merged, enumerator order). Characters are passed as their code points: every tag name
is ASCII and a token with a non-ASCII character is unknown either way. -/
def normTags (s : String) : String :=
  String.ofList ((Refs.morphToString (Refs.morphOfText (s.toList.map Char.toNat))).map Char.ofNat)

/-- `manualForms[form] = text` seen through the writer's ordering (ascending tag string) -/
def setForm (fs : List Form) (tags text : String) : List Form :=
  match fs with
  | [] => [⟨tags, text⟩]
  | f :: rest =>
    if tags < f.tags then ⟨tags, text⟩ :: f :: rest
    else if tags = f.tags then ⟨tags, text⟩ :: rest
    else f :: setForm rest tags text

def formFromJson (x : Json) : Option Form := do
  let tags ← reqStr x "tags"
  let text ← reqStr x "text"
  pure ⟨normTags tags, text⟩

/-- the `forms` loop of `from_json(LexicalTerm)` -/
def formsFromJson (j : Json) : Option (List Form) := do
  let xs ← j.asArr
  let fs ← xs.mapM formFromJson
  pure (fs.foldl (fun acc f => setForm acc f.tags f.text) [])

/-- `from_json(LexicalTerm)` -/
def termFromJson (j : Json) : Option (MText × List Form) := do
  let m ← MText.fromJson j
  let fs ← match j.get "forms" with
    | none => some []
    | some f => formsFromJson f
  pure (m, fs)

/-- the `definition` part of `from_json(ConceptRecord)` -/
def definitionFromJson (d : Json) : Option (String × MText) := do
  let formal ← optStr d "formal"
  let text ← match d.get "text" with
    | none => some {}
    | some t => MText.fromJson t
  pure (formal, text)

/-- `from_json(ConceptRecord)` (into a default-constructed record; the parse block is not read) -/
def recordFromJson (j : Json) : Option Record := do
  let uid ← (j.get "entityUID") >>= asNat
  let ty ← (j.get "cstType").map cstTypeOfJson
  let alias ← reqStr j "alias"
  let convention ← optStr j "convention"
  let tf ← match j.get "term" with
    | none => some ({}, [])
    | some t => termFromJson t
  let fd ← match j.get "definition" with
    | none => some ("", {})
    | some d => definitionFromJson d
  pure { uid := uid, type := ty, alias := alias, convention := convention, term := tf.1, forms := tf.2,
         formal := fd.1, definition := fd.2 }

/-- what `UpdateState` recomputes for one constituent -/
structure Derived where
  termResolved : String := ""
  defResolved : String := ""
  parse : Parse := {}
deriving DecidableEq, Repr, Inhabited

/-- explicit inputs of the loader -/
structure Env where
  /-- `EntityGenerator::NewUID()` given the taken uids (only consulted for a repeated uid) -/
  fresh : List Nat → Nat
  /-- `newRS.Translate(old→new)` + `newText.TranslateRaw(old→new)` (only for a replaced alias) -/
  rename : String → String → Record → Record
  /-- `RSCore::UpdateState()` on the loaded records (list order; resolved texts as read from the
  document, default parse blocks), per uid -/
  analyse : List Record → Nat → Derived
  /-- `GetParse(uid).Typification()` after `UpdateState` -/
  typif : List Record → Nat → Option Ty

/-- state of `RSCore` during loading: `identifiers` (uids, names) and the records in
`cstList` order -/
structure LoadSt where
  ids : List Nat := []
  names : List String := []
  items : List Record := []
deriving Repr, Inhabited

/-- index of the last element satisfying `p` -/
def lastIdx {α : Type} (p : α → Bool) : List α → Option Nat
  | [] => none
  | x :: xs =>
    match lastIdx p xs with
    | some i => some (i + 1)
    | none => if p x then some 0 else none

/-- `CstList::InsertPositionFor` on the kinds of the current list -/
def insertPos (kinds : List CstType) (t : CstType) : Nat :=
  if t.isBasic then
    match lastIdx (fun k => k.code ≤ t.code) kinds with
    | some i => i + 1
    | none =>
      match kinds with
      | first :: _ => if first.code > t.code then 0 else kinds.length
      | [] => kinds.length
  else kinds.length

def insertAt {α : Type} (l : List α) (i : Nat) (x : α) : List α := l.take i ++ x :: l.drop i

/-- `RSCore::Load(ConceptRecord&&)`; `none` = inadmissible `fresh` -/
def loadRecord (env : Env) (st : LoadSt) (r : Record) : Option LoadSt :=
  match registerID st.ids st.names r.uid r.alias r.type (env.fresh st.ids) with
  | none => none
  | some (ids, names, u, a) =>
    let r1 : Record := { r with uid := u, alias := a }
    let r2 := if r.alias ≠ a then env.rename r.alias a r1 else r1
    some { ids := ids, names := names,
           items := insertAt st.items (insertPos (st.items.map (·.type)) r.type) r2 }

def loadAll (env : Env) : LoadSt → List Record → Option LoadSt
  | st, [] => some st
  | st, r :: rs =>
    match loadRecord env st r with
    | some st' => loadAll env st' rs
    | none => none

/-- write the recomputed fields into the records -/
def applyDerived (an : Nat → Derived) (items : List Record) : List Record :=
  items.map fun r =>
    let d := an r.uid
    { r with term := { r.term with resolved := d.termResolved },
             definition := { r.definition with resolved := d.defResolved },
             parse := d.parse }

/-- `from_json(JSON, RSCore&)` into an empty core: `Load` every record, then `UpdateState`.
Result: the records before `UpdateState` and after it. -/
def loadItems (env : Env) (j : Json) : Option (List Record × List Record) := do
  let xs ← j.asArr
  let rs ← xs.mapM recordFromJson
  let st ← loadAll env {} rs
  pure (st.items, applyDerived (env.analyse st.items) st.items)

def trackEntryFromJson (x : Json) : Option (Nat × TrackingFlags) := do
  let uid ← (x.get "entityUID") >>= asNat
  let f ← (x.get "flags") >>= TrackingFlags.fromJson
  pure (uid, f)

/-- `Mods().Track(uid, flags)`: only for a contained uid -/
def setTrack (items : List Record) (e : Nat × TrackingFlags) : List Record :=
  items.map fun r => if r.uid = e.1 then { r with track := some e.2 } else r

/-- `from_json(const JSON&, RSForm&)` into a fresh `RSForm` -/
def Schema.fromJson (env : Env) (j : Json) : Option Schema := do
  let title ← optStr j "title"
  let alias ← optStr j "alias"
  let comment ← optStr j "comment"
  let loaded ← (j.get "items") >>= loadItems env
  let items ← match j.get "tracking" with
    | none => some loaded.2
    | some t => do
      let xs ← t.asArr
      let es ← xs.mapM trackEntryFromJson
      pure (es.foldl setTrack loaded.2)
  pure { title := title, alias := alias, comment := comment, items := items }

/-! ### observable content -/

/-- the record without what `UpdateState` recomputes (resolved texts, parse block) -/
def Record.obs (r : Record) : Record :=
  { r with term := { r.term with resolved := "" }, definition := { r.definition with resolved := "" }, parse := {} }

def Schema.obs (c : Schema) : Schema := { c with items := c.items.map Record.obs }

/-- the record as the loader hands it to `UpdateState`: resolved texts as stored, a fresh
`ParsingInfo`, no tracking yet -/
def Record.preUpdate (r : Record) : Record := { r with parse := {}, track := none }

def Record.derived (r : Record) : Derived :=
  { termResolved := r.term.resolved, defResolved := r.definition.resolved, parse := r.parse }

/-! ### model documents -/

/-- values and flags of one constituent of an `RSModel` -/
structure DataEntry where
  uid : Nat
  /-- `Calculations().WasCalculated(uid)` -/
  wasCalc : Bool := false
  /-- `GetParse(uid).Typification()` -/
  typif : Option Ty := none
  /-- `Values().SDataFor(uid)` -/
  sdata : Option Val := none
  /-- `Values().TextFor(uid)` (`none` = null) -/
  texts : Option TextInterp := none
  /-- `Values().StatementFor(uid)` -/
  stmt : Option Bool := none

structure Model where
  title : String := ""
  alias : String := ""
  comment : String := ""
  items : List Record := []
  data : List DataEntry := []

/-- `model.GetRS(uid).type` (`none`: `!Core().Contains(uid)`; `Schema::At` would throw) -/
def kindOf (items : List Record) (uid : Nat) : Option CstType :=
  (items.find? (·.uid == uid)).map (·.type)

/-- `SDCompact::Data` as JSON -/
def tableToJson (t : Table) : Json := .arr (t.map fun row => .arr (row.map Json.num))

def rowFromJson (j : Json) : Option Row := (j.asArr) >>= (·.mapM Json.asInt)
/-- `get<SDCompact::Data>()` -/
def tableFromJson (j : Json) : Option Table := (j.asArr) >>= (·.mapM rowFromJson)

/-- body of the loop of `ExtractData`. `none` = the packer's precondition is violated (value not
compatible with the typification: undefined behaviour in the C++). -/
def DataEntry.toJson (kind : CstType) (e : DataEntry) : Option Json :=
  let head : List (String × Json) := [("entityUID", .num e.uid), ("wasCalculated", .bool e.wasCalc)]
  if isRSObject kind then
    let value : Option (List (String × Json)) :=
      match e.typif, e.sdata with
      | some τ, some v => (pack v τ).map fun t => [("value", tableToJson t)]
      | _, _ => some []
    let texts : List (String × Json) :=
      match e.texts with
      | some t => if t.length > 0 then [("texts", t.toJson)] else []
      | none => []
    value.map fun val => .obj (head ++ val ++ texts)
  else if !isCallable kind then
    some (.obj (head ++ match e.stmt with | some b => [("value", Json.bool b)] | none => []))
  else some (.obj head)

/-- `ExtractData` -/
def dataToJson (items : List Record) (data : List DataEntry) : Option (List Json) :=
  data.mapM fun e => (kindOf items e.uid) >>= (e.toJson ·)

/-- `to_json(JSON&, const RSModel&)` -/
def Model.toJson (c : Model) : Option Json :=
  (dataToJson c.items c.data).map fun ds =>
    .obj [("type", .str "rsmodel"), ("title", .str c.title), ("alias", .str c.alias), ("comment", .str c.comment),
          ("items", itemsToJson c.items), ("data", .arr ds)]

/-- `std::map` order of the uids -/
def insertUid (u : Nat) : List Nat → List Nat
  | [] => [u]
  | x :: xs => if u ≤ x then u :: x :: xs else x :: insertUid u xs
def sortUids : List Nat → List Nat
  | [] => []
  | u :: us => insertUid u (sortUids us)

/-- the data set of a text interpretation (`SetTextInterpretationFor`): its keys, ascending -/
def keysSet (t : TextInterp) : Val := .s (t.map fun p => .e p.1)

def isColl : Option Ty → Bool
  | some (.coll _) => true
  | _ => false

/-- `RSModel::AfterInsert(uid)` = `rsValuesFacet::ResetFor` + `rsCalculationFacet::ResetFor` on the
loaded core. (A structured constituent that is VERIFIED with a logical type would make
`std::get<Typification>` throw; the auditor gives structures a set type — not modelled.) -/
def resetEntry (r : Record) (τ : Option Ty) : DataEntry :=
  if isBaseSet r.type then { uid := r.uid, typif := τ, sdata := some (.s []), texts := some [] }
  else if r.type = .structured ∧ r.parse.status = .verified ∧ isColl τ = true then
    { uid := r.uid, typif := τ, sdata := some (.s []) }
  else { uid := r.uid, typif := τ }

/-- `AfterInsert(u)` for the uid `u` of the loaded core (`none`: unknown uid — cannot happen, the
uids are those of the core) -/
def resetFor (items : List Record) (ty : Nat → Option Ty) (u : Nat) : Option DataEntry :=
  (items.find? (·.uid == u)).map fun r => resetEntry r (ty u)

/-- one element of the `data` array as `LoadData` reads it -/
structure Upd where
  uid : Nat
  wasCalc : Bool
  sdata : Option Val := none
  texts : Option TextInterp := none
  stmt : Option Bool := none

/-- reading of one `data` element (`LoadData` loop body up to the calls into the values facet).
Outer `none` = the C++ throws; `some none` = the element is skipped (`continue`: its uid is not
a uid of the loaded core; nothing but `entityUID` has been read). -/
def decodeEntry (items : List Record) (ty : Nat → Option Ty) (j : Json) : Option (Option Upd) := do
  let uid ← (j.get "entityUID") >>= asNat
  match kindOf items uid with
  | none => pure none                               -- `!model.Core().Contains(uid)`
  | some kind =>
    let wasCalc ← (j.get "wasCalculated") >>= Json.asBool
    if isRSObject kind then
      let sdata ← match j.get "value" with
        | none => some none
        | some v =>
          match ty uid with
          | none => some none
          | some τ =>
            match tableFromJson v with
            | none => none
            | some tbl =>
              match unpack tbl τ with
              | .ok d => some (some d)
              | .none => some none
              | .fault _ => none
      let texts ← match j.get "texts" with
        | none => some none
        | some t =>
          -- `contains("texts") && IsBaseSet(type)`: not even parsed for other kinds
          if isBaseSet kind then (TextInterp.fromJson t).map some else some none
      pure (some { uid := uid, wasCalc := wasCalc, sdata := sdata, texts := texts })
    else if !isCallable kind then
      match j.get "value" with
      | none => pure (some { uid := uid, wasCalc := wasCalc })
      | some v => do
        let b ← v.asBool
        pure (some { uid := uid, wasCalc := wasCalc, stmt := some b })
    else pure (some { uid := uid, wasCalc := wasCalc })

/-- effect of one element on the entry of its uid: `LoadData(uid, sdata)` (`SetRSInternal`), then
`LoadData(uid, texts)` (`SetTextInternal`: nothing when equal to the current texts, otherwise
the texts AND the data set of their keys), `LoadData(uid, bool)`; `calculated.insert(uid)` -/
def applyOne (e : DataEntry) (u : Upd) : DataEntry :=
  let e1 : DataEntry := match u.sdata with | some v => { e with sdata := some v } | none => e
  let e2 : DataEntry := match u.texts with
    | some t => if e1.texts = some t then e1 else { e1 with texts := some t, sdata := some (keysSet t) }
    | none => e1
  let e3 : DataEntry := match u.stmt with | some b => { e2 with stmt := some b } | none => e2
  { e3 with wasCalc := e3.wasCalc || u.wasCalc }

def applyUpd (store : List DataEntry) (u : Upd) : List DataEntry :=
  store.map fun e => if e.uid = u.uid then applyOne e u else e

/-- `FinalizeLoadingCore` + `LoadData` -/
def loadData (items : List Record) (ty : Nat → Option Ty) (j : Json) : Option (List DataEntry) := do
  let store ← (sortUids (items.map (·.uid))).mapM (resetFor items ty)
  let xs ← j.asArr
  let us ← xs.mapM (decodeEntry items ty)
  pure ((us.filterMap id).foldl applyUpd store)

/-- `from_json(const JSON&, RSModel&)` into a fresh `RSModel` -/
def Model.fromJson (env : Env) (j : Json) : Option Model := do
  let title ← optStr j "title"
  let alias ← optStr j "alias"
  let comment ← optStr j "comment"
  let loaded ← (j.get "items") >>= loadItems env
  let data ← (j.get "data") >>= loadData loaded.2 (env.typif loaded.1)
  pure { title := title, alias := alias, comment := comment, items := loaded.2, data := data }

end CCVerif.JsonDoc
