import CCVerif.Model.EvalVal
import CCVerif.Model.Normalize
/-
Transcription of the RSLang evaluator:

* `ccl/rslang/src/NameCollector.cpp`   — first pass: one data slot per *name* (`idsBase`, `idsData`),
  per-node variable lists (`nodeVars`);
* `ccl/rslang/src/ASTInterpreter.cpp`  — every `Vi*`, `ImpEvaluator` (the block machine of
  `I{…}`), iteration counting against `MAX_ITERATIONS`, the boolean-limit rule, `SlotGuard` (every
  binder puts the previous value of its variable's slot back when it finishes);
* `ccl/rslang/src/Interpreter.cpp`     — `Evaluate` = normalise, collect names, evaluate.

Unchecked accesses of the C++ are explicit outcomes: `stuck site` (`*begin()` of an empty vector,
`std::get` of the wrong alternative, `E()/T()/B()` of the wrong structure, failed `assert`).
`ViArithmetic` computes in `int64_t` and reports `typedOverflow` when the result leaves `int32_t`
(there is no overflow outcome any more).  `outOfFuel` is an artefact of the model:
recursion depth exhausted, or a lazy set of the C++ (`ℬ`, `×`) too large to be enumerated here.
-/
namespace CCVerif.Eval
open CCVerif.Syntax CCVerif.Norm

def MAX_ITERATIONS : Nat := 100000
/-- model limits for materialising the lazy sets of the C++ -/
def POW_LIMIT : Nat := 12
def PROD_LIMIT : Nat := 4096

namespace EID
def unknownError : Nat := 0x8A00
def typedOverflow : Nat := 0x8A01
def booleanLimit : Nat := 0x8A02
def globalMissingValue : Nat := 0x8A03
def iterationsLimit : Nat := 0x8A04
def invalidDebool : Nat := 0x8A05
def iterateInfinity : Nat := 0x8A06
end EID

/-- outcome of `Interpreter::Evaluate` on an accepted tree -/
inductive EvalRes where
  | ok (v : Val)
  | okBool (b : Bool)
  | err (eid : Nat) (pos : Int)
  | stuck (site : String)
  | outOfFuel
deriving Repr, Inhabited, DecidableEq

/-- `DataContext` and `SyntaxTreeContext` -/
structure Env where
  globals : List (String × Val) := []
  funcs : Funcs := []

/-- `ExpressionValue = std::variant<bool, StructuredData>` -/
inductive V where
  | val (v : Val)
  | bool (b : Bool)
deriving Repr, Inhabited

inductive Fail where
  | err (eid : Nat) (pos : Int)   -- `OnError` of a critical error, then `return false`
  | quiet                         -- `return false` without an error (⇒ `unknownError` in `AfterVisit`)
  | stuck (site : String)
  | outOfFuel
deriving Repr, Inhabited

/-- `idsData` and `iterationCounter` -/
structure St where
  data : List Val
  iters : Nat
deriving Repr, Inhabited

inductive R (α : Type) where
  | ok (a : α) (st : St)
  | fail (f : Fail) (iters : Nat)

/-! ## NameCollector -/

structure NC where
  ids : List (String × Nat) := []    -- `idsBase`
  data : List Val := []              -- `idsData`

/-- `vars` = `nodeVars[node]`; `alloc` = the vector owns storage (it had elements at some time:
`*begin()` of an emptied vector reads the stale first slot, `*begin()` of a never-filled one
dereferences null) -/
inductive CRes where
  | ok (vars : List Nat) (alloc : Bool) (nc : NC)
  | fail (f : Fail)

def isBinderNode (t : Tok) : Bool :=
  t == .FORALL || t == .EXISTS || t == .NT_DECLARATIVE_EXPR || t == .NT_RECURSIVE_FULL || t == .NT_RECURSIVE_SHORT

/-- tokens for which `Cursor::DispatchVisit` has a case of its own; everything else falls into the
`default:` label = `ViGlobalDeclaration` -/
def dispatchesDefault (t : Tok) : Bool :=
  match t with
  | .PUNC_DEFINE | .PUNC_STRUCT => true
  | .ID_LOCAL | .ID_GLOBAL | .ID_FUNCTION | .ID_PREDICATE | .ID_RADICAL
  | .LIT_INTEGER | .LIT_INTSET | .LIT_EMPTYSET
  | .PLUS | .MINUS | .MULTIPLY | .GREATER | .LESSER | .GREATER_OR_EQ | .LESSER_OR_EQ
  | .EQUAL | .NOTEQUAL | .FORALL | .EXISTS | .NOT | .EQUIVALENT | .IMPLICATION | .OR | .AND
  | .IN | .NOTIN | .SUBSET | .SUBSET_OR_EQ | .NOTSUBSET
  | .DECART | .UNION | .INTERSECTION | .SET_MINUS | .SYMMINUS | .BOOLEAN
  | .BIGPR | .SMALLPR | .FILTER | .CARD | .BOOL | .DEBOOL | .REDUCE
  | .ITERATE | .ASSIGN
  | .NT_ENUM_DECL | .NT_TUPLE | .NT_ENUMERATION | .NT_TUPLE_DECL | .NT_ARG_DECL
  | .NT_FUNC_DEFINITION | .NT_ARGUMENTS | .NT_FUNC_CALL
  | .NT_DECLARATIVE_EXPR | .NT_IMPERATIVE_EXPR | .NT_RECURSIVE_FULL | .NT_RECURSIVE_SHORT => false
  | _ => true

def eraseAll (x : Nat) (l : List Nat) : List Nat := l.filter (· != x)

/-- `NameCollector::Visit`.  Returns `nodeVars[node]`. -/
def collect (env : Env) : Nat → Ast → NC → CRes
  | 0, _, _ => .fail .outOfFuel
  | fuel + 1, a, nc =>
    let merge (nc : NC) : CRes :=   -- `MergeChildren`
      a.kids.foldl (fun acc k =>
        match acc with
        | .fail f => .fail f
        | .ok vars _ nc =>
          match collect env fuel k nc with
          | .fail f => .fail f
          | .ok vs _ nc' => .ok (vars ++ vs) (!(vars ++ vs).isEmpty) nc') (.ok [] false nc)
    let t := a.id
    if dispatchesDefault t then
      -- `ViGlobalDeclaration`
      if t == .PUNC_STRUCT then .fail .quiet else
      match a.kids with
      | [] => .fail (.stuck "NameCollector::ViGlobalDeclaration iter(0)")
      | k0 :: rest =>
        if k0.id == .ID_GLOBAL then
          match rest with
          | [k1] => (match collect env fuel k1 nc with
            | .fail f => .fail f
            | .ok _ _ nc' => .ok [] false nc')
          | _ => .fail .quiet
        else .fail .quiet
    else if t == .ID_GLOBAL || t == .ID_FUNCTION || t == .ID_PREDICATE then
      -- `ViGlobal`
      let name := textOf a
      match lookup name nc.ids with
      | some id => .ok [id] true nc
      | none =>
        let next := nc.data.length
        match lookup name env.globals with
        | none => .fail (.err EID.globalMissingValue a.lo)
        | some v => .ok [next] true { ids := nc.ids ++ [(name, next)], data := nc.data ++ [v] }
    else if t == .ID_LOCAL then
      let name := textOf a
      match lookup name nc.ids with
      | some id => .ok [id] true nc
      | none =>
        let next := nc.data.length
        .ok [next] true { ids := nc.ids ++ [(name, next)], data := nc.data ++ [Val.s []] }
    else if isBinderNode t then
      -- `ViQuantifier` (also `ViDeclarative`, `ViRecursion`)
      match merge nc with
      | .fail f => .fail f
      | .ok vars alloc nc' =>
        match a.kids.head? with
        | none => .fail (.stuck "NameCollector::ViQuantifier Child(0)")
        | some k0 =>
          match collect env fuel k0 nc' with   -- re-reads `nodeVars[child0]` (ids are stable)
          | .ok (v :: _) _ _ => .ok (eraseAll v vars) alloc nc'
          | .ok [] true _ => .ok vars alloc nc'     -- stale slot of an emptied vector: nothing to erase
          | .ok [] false _ => .fail (.stuck "NameCollector::ViQuantifier *begin(empty)")
          | .fail f => .fail f
    else if t == .NT_IMPERATIVE_EXPR then
      match merge nc with
      | .fail f => .fail f
      | .ok vars alloc nc' =>
        match a.kids with
        | [] => .fail (.stuck "NameCollector::ViImperative MoveToChild(1)")
        | [_] => .fail (.stuck "NameCollector::ViImperative MoveToChild(1)")
        | k0 :: blocks =>
          -- for every ITERATE/ASSIGN block: `*begin(nodeVars[child.Child(0)])`, the block's declaration
          let _ := k0
          blocks.foldl (fun (acc : CRes) b =>
            match acc with
            | .fail f => .fail f
            | .ok vs al nc2 =>
              if b.id == .ITERATE || b.id == .ASSIGN then
                match b.kids.head? with
                | none => .fail (.stuck "NameCollector::ViImperative Child(0)")
                | some d =>
                  match collect env fuel d nc2 with
                  | .ok (v :: _) _ _ => .ok (eraseAll v vs) al nc2
                  | .ok [] _ _ => .fail (.stuck "NameCollector::ViImperative *begin(empty)")
                  | .fail f => .fail f
              else .ok vs al nc2) (.ok vars alloc nc')
    else merge nc

/-! ## ASTInterpreter -/

structure Ctx where
  ids : List (String × Nat)

mutual
/-- `nodeVars[node]` recomputed from the final `idsBase` (identifiers never change once given) -/
def varsOf (ids : List (String × Nat)) : Ast → List Nat
  | .node t d _ _ ks =>
    if t == .ID_LOCAL || t == .ID_GLOBAL || t == .ID_FUNCTION || t == .ID_PREDICATE then
      match lookup (match d with | .text s => s | _ => "") ids with
      | some i => [i]
      | none => []
    else
      let vs := varsOfKids ids ks
      if isBinderNode t then
        match firstVarKids ids ks with
        | some v => eraseAll v vs
        | none => vs
      else vs
def varsOfKids (ids : List (String × Nat)) : List Ast → List Nat
  | [] => []
  | k :: ks => varsOf ids k ++ varsOfKids ids ks
def firstVarKids (ids : List (String × Nat)) : List Ast → Option Nat
  | [] => none
  | k :: _ => (varsOf ids k).head?
end

/-- `*begin(nodeVars[node])` -/
def firstVar (c : Ctx) (a : Ast) : Option Nat := (varsOf c.ids a).head?

def int32ok (n : Int) : Bool := decide (-2147483648 ≤ n) && decide (n ≤ 2147483647)

def idxOf (a : Ast) : List Int :=
  match a.data with
  | .tuple l => l
  | _ => []

/-- loop of `ViQuantifier` -/
def quantLoop (body : St → R V) (var : Nat) (univ : Bool) (pos : Int) : List Val → St → R V
  | [], st => .ok (.bool univ) st
  | x :: xs, st =>
    let n := st.iters + 1
    if n > MAX_ITERATIONS then .fail (.err EID.iterationsLimit pos) n else
    match body { data := st.data.set var x, iters := n } with
    | .fail f k => .fail f k
    | .ok (.val _) st' => .fail (.stuck "ViQuantifier get<bool>") st'.iters
    | .ok (.bool b) st' => if b != univ then .ok (.bool (!univ)) st' else quantLoop body var univ pos xs st'

/-- loop of `ViDeclarative` -/
def declLoop (body : St → R V) (var : Nat) (pos : Int) : List Val → List Val → St → R V
  | [], acc, st => .ok (.val (.s acc)) st
  | x :: xs, acc, st =>
    let n := st.iters + 1
    if n > MAX_ITERATIONS then .fail (.err EID.iterationsLimit pos) n else
    match body { data := st.data.set var x, iters := n } with
    | .fail f k => .fail f k
    | .ok (.val _) st' => .fail (.stuck "ViDeclarative get<bool>") st'.iters
    | .ok (.bool b) st' => declLoop body var pos xs (if b then Val.insert x acc else acc) st'

/-- the `do … while` of `ViRecursion`; `cond = none` for the short form -/
def recLoop (cond : Option (St → R V)) (body : St → R V) (var : Nat) (pos : Int) :
    Nat → Val → St → R V
  | 0, _, st => .fail .outOfFuel st.iters
  | fuel + 1, current, st =>
    let n := st.iters + 1
    if n > MAX_ITERATIONS then .fail (.err EID.iterationsLimit pos) n else
    let st1 : St := { data := st.data.set var current, iters := n }
    let afterCond : R Bool :=
      match cond with
      | none => .ok true st1
      | some c =>
        match c st1 with
        | .fail f k => .fail f k
        | .ok (.val _) st2 => .fail (.stuck "ViRecursion get<bool>") st2.iters
        | .ok (.bool b) st2 => .ok b st2
    match afterCond with
    | .fail f k => .fail f k
    | .ok false st2 => .ok (.val current) st2
    | .ok true st2 =>
      match body st2 with
      | .fail f k => .fail f k
      | .ok (.bool _) st3 => .fail (.stuck "ViRecursion get<StructuredData>") st3.iters
      | .ok (.val next) st3 =>
        match st3.data[var]? with
        | none => .fail (.stuck "ViRecursion idsData[varID]") st3.iters
        | some old =>
          if Val.cmp old next != .eq then recLoop cond body var pos fuel next st3
          else .ok (.val next) st3

/-- `ImpEvaluator::BlockMeta` -/
structure BlockMeta where
  rootID : Tok
  arg : Nat

/-- `ImpEvaluator::PrepareNextIteration`: pops exhausted iterators, advances the innermost live
one and rebinds its variable; `none` = `blockStack` became empty -/
def prepareNext (metas : List BlockMeta) : List (Nat × List Val) → List Val →
    Option (Nat × List (Nat × List Val) × List Val)
  | [], _ => none
  | (_, []) :: rest, data => prepareNext metas rest data
  | (blk, x :: xs) :: rest, data =>
    some (blk, (blk, xs) :: rest, data.set ((metas[blk]?.map (·.arg)).getD 0) x)

/-- `ImpEvaluator::Evaluate`: `current`, `blockStack`+`iterStack` (block index, elements after the
current one), the result set, the interpreter state.  `evalKid i` = `EvaluateChild(imperative, i)`,
`domKid i` = `ExtractDomain` of block child `i`. -/
def impLoop (nKids : Nat) (metas : List BlockMeta) (evalKid : Nat → St → R V) (domKid : Nat → St → R V)
    (pos : Int) : Nat → Nat → List (Nat × List Val) → List Val → St → R V
  | 0, _, _, _, st => .fail .outOfFuel st.iters
  | fuel + 1, current, stack, acc, st =>
    -- returns (incrementIter, stack, acc, st)
    let stepRes : R (Bool × List (Nat × List Val) × List Val) :=
      if current + 1 ≥ nKids then
        -- `SaveElement`
        match evalKid 0 st with
        | .fail f k => .fail f k
        | .ok (.bool _) st' => .fail (.stuck "SaveElement get<StructuredData>") st'.iters
        | .ok (.val v) st' => .ok (true, stack, Val.insert v acc) st'
      else
        match metas[current]? with
        | none => .fail (.stuck "metaData.at(current)") st.iters
        | some m =>
          if m.rootID == .ITERATE then
            match domKid (current + 1) st with
            | .fail f k => .fail f k
            | .ok (.bool _) st' => .fail (.stuck "ExtractDomain get<StructuredData>") st'.iters
            | .ok (.val (.s [])) st' => .ok (true, stack, acc) st'
            | .ok (.val (.s (x :: xs))) st' =>
              .ok (false, (current, xs) :: stack, acc) { st' with data := st'.data.set m.arg x }
            | .ok (.val _) st' => .fail (.stuck "ITERATE domain->B()") st'.iters
          else if m.rootID == .ASSIGN then
            match domKid (current + 1) st with
            | .fail f k => .fail f k
            | .ok (.bool _) st' => .fail (.stuck "ExtractDomain get<StructuredData>") st'.iters
            | .ok (.val v) st' => .ok (false, stack, acc) { st' with data := st'.data.set m.arg v }
          else
            match evalKid (current + 1) st with
            | .fail f k => .fail f k
            | .ok (.val _) st' => .fail .quiet st'.iters   -- `!holds_alternative<bool>` ⇒ `return false`
            | .ok (.bool b) st' => .ok (!b, stack, acc) st'
    match stepRes with
    | .fail f k => .fail f k
    | .ok (incr, stack1, acc1) st1 =>
      -- `PrepareNextIteration`
      let next : Option (Nat × List (Nat × List Val) × St) :=
        if incr then
          match prepareNext metas stack1 st1.data with
          | none => none
          | some (blk, stack2, data2) => some (blk, stack2, { st1 with data := data2 })
        else some (current, stack1, st1)
      match next with
      | none => .ok (.val (.s acc1)) st1
      | some (cur2, stack2, st2) =>
        let n := st2.iters + 1
        if n > MAX_ITERATIONS then .fail (.err EID.iterationsLimit pos) n
        else impLoop nKids metas evalKid domKid pos fuel (cur2 + 1) stack2 acc1 { st2 with iters := n }

/-- `std::get<StructuredData>(value)` -/
def R.asVal : R V → R Val
  | .fail f k => .fail f k
  | .ok (.val v) st => .ok v st
  | .ok (.bool _) st => .fail (.stuck "get<StructuredData>") st.iters
/-- `std::get<StructuredData>(value).B()` -/
def R.asSet : R V → R (List Val)
  | .fail f k => .fail f k
  | .ok (.val (.s xs)) st => .ok xs st
  | .ok (.val _) st => .fail (.stuck "B() of a non-set") st.iters
  | .ok (.bool _) st => .fail (.stuck "get<StructuredData>") st.iters
/-- `std::get<StructuredData>(value).E().Value()` -/
def R.asInt : R V → R Int
  | .fail f k => .fail f k
  | .ok (.val (.e n)) st => .ok n st
  | .ok (.val _) st => .fail (.stuck "E() of a non-element") st.iters
  | .ok (.bool _) st => .fail (.stuck "get<StructuredData>") st.iters
/-- `std::get<bool>(value)` -/
def R.asBool : R V → R Bool
  | .fail f k => .fail f k
  | .ok (.bool b) st => .ok b st
  | .ok (.val _) st => .fail (.stuck "get<bool>") st.iters

/-- `~SlotGuard`: the slot gets back the value it had when the binder started (on a failed visit the
state is not observable any more) -/
def restoreSlot (var : Nat) (saved : Val) : R V → R V
  | .ok v st => .ok v { st with data := st.data.set var saved }
  | .fail f k => .fail f k

/-- the guards of `ImpEvaluator::outerValues` (one per ITERATE / ASSIGN block): slot and saved value;
`none` = `slots.at(slot)` throws -/
def impGuards (data : List Val) : List BlockMeta → Option (List (Nat × Val))
  | [] => some []
  | m :: ms =>
    if m.rootID == .ITERATE || m.rootID == .ASSIGN then
      match data[m.arg]? with
      | none => none
      | some v => (impGuards data ms).map ((m.arg, v) :: ·)
    else impGuards data ms

/-- the destructors of the guards -/
def restoreSlots (saved : List (Nat × Val)) : R V → R V
  | .ok v st => .ok v { st with data := saved.foldl (fun d (p : Nat × Val) => d.set p.1 p.2) st.data }
  | .fail f k => .fail f k

def allSome {α} : List (Option α) → Option (List α)
  | [] => some []
  | none :: _ => none
  | some x :: r => (allSome r).map (x :: ·)

/-- `DispatchVisit(ASTInterpreter)`; `parent` = token of the parent node (`none` = root) -/
def ev (c : Ctx) : Nat → Ast → Option Tok → St → R V
  | 0, _, _, st => .fail .outOfFuel st.iters
  | fuel + 1, a, parent, st =>
    let t := a.id
    let pos := a.lo
    -- `EvaluateChild(iter, i)`
    let child (i : Nat) (st : St) : R V :=
      match a.kids[i]? with
      | none => .fail (.stuck "EvaluateChild index") st.iters
      | some k => ev c fuel k (some t) st
    -- child value as `StructuredData` / set / integer / bool
    let childVal (i : Nat) (st : St) : R Val := (child i st).asVal
    let childSet (i : Nat) (st : St) : R (List Val) := (child i st).asSet
    let childInt (i : Nat) (st : St) : R Int := (child i st).asInt
    let childBool (i : Nat) (st : St) : R Bool := (child i st).asBool
    -- all children as `StructuredData`, left to right
    let allVals (n : Nat) (st : St) : R (List Val) :=
      (List.range n).foldl (fun (acc : R (List Val)) i =>
        match acc with
        | .fail f k => .fail f k
        | .ok vs st' =>
          match childVal i st' with
          | .fail f k => .fail f k
          | .ok v st'' => .ok (vs ++ [v]) st'') (.ok [] st)
    let nK := a.kids.length
    if dispatchesDefault t then
      -- `ViGlobalDeclaration`: `VisitChild(iter, 1)`
      child 1 st
    else match t with
    | .ID_LOCAL | .ID_GLOBAL | .ID_FUNCTION | .ID_PREDICATE =>
      match firstVar c a with
      | none => .fail (.stuck "ViLocal *begin(nodeVars)") st.iters
      | some i =>
        match st.data[i]? with
        | none => .fail (.stuck "ViLocal idsData[]") st.iters
        | some v => .ok (.val v) st
    | .LIT_INTEGER =>
      match a.data with
      | .int n => .ok (.val (.e n)) st
      | _ => .fail (.stuck "ViInteger ToInt") st.iters
    | .LIT_INTSET => .fail (.err EID.iterateInfinity pos) st.iters
    | .LIT_EMPTYSET => .ok (.val (.s [])) st
    | .PLUS | .MINUS | .MULTIPLY =>
      match childInt 0 st with
      | .fail f k => .fail f k
      | .ok x st1 =>
        match childInt 1 st1 with
        | .fail f k => .fail f k
        | .ok y st2 =>
          let r := if t == .PLUS then x + y else if t == .MINUS then x - y else x * y
          if int32ok r then .ok (.val (.e r)) st2 else .fail (.err EID.typedOverflow pos) st2.iters
    | .CARD =>
      match childSet 0 st with
      | .fail f k => .fail f k
      | .ok xs st1 => .ok (.val (.e xs.length)) st1
    | .FORALL | .EXISTS =>
      match childSet 1 st with   -- `ExtractDomain`
      | .fail f k => .fail f k
      | .ok dom st1 =>
        match a.kids.head?.bind (firstVar c) with
        | none => .fail (.stuck "ViQuantifier *begin(nodeVars)") st1.iters
        | some var =>
          match st1.data[var]? with   -- `SlotGuard guard{ idsData, varID }`
          | none => .fail (.stuck "SlotGuard slots.at") st1.iters
          | some saved => restoreSlot var saved (quantLoop (child 2) var (t == .FORALL) pos dom st1)
    | .NOT =>
      match childBool 0 st with
      | .fail f k => .fail f k
      | .ok b st1 => .ok (.bool (!b)) st1
    | .AND | .OR | .IMPLICATION | .EQUIVALENT =>
      match childBool 0 st with
      | .fail f k => .fail f k
      | .ok b1 st1 =>
        -- `TryEvaluateFromFirstArg`
        if (t == .AND && !b1) || (t == .OR && b1) then .ok (.bool b1) st1
        else if t == .IMPLICATION && !b1 then .ok (.bool true) st1
        else
          match childBool 1 st1 with
          | .fail f k => .fail f k
          | .ok b2 st2 =>
            let r := match t with
              | .OR => b1 || b2
              | .IMPLICATION => !b1 || b2
              | .EQUIVALENT => b1 == b2
              | _ => b1 && b2
            .ok (.bool r) st2
    | .EQUAL | .NOTEQUAL =>
      match child 0 st with
      | .fail f k => .fail f k
      | .ok v1 st1 =>
        match child 1 st1 with
        | .fail f k => .fail f k
        | .ok v2 st2 =>
          let same := match v1, v2 with
            | .val x, .val y => Val.cmp x y == .eq
            | .bool x, .bool y => x == y
            | _, _ => false
          .ok (.bool (same != (t == .NOTEQUAL))) st2
    | .GREATER | .LESSER | .GREATER_OR_EQ | .LESSER_OR_EQ =>
      match childInt 0 st with
      | .fail f k => .fail f k
      | .ok x st1 =>
        match childInt 1 st1 with
        | .fail f k => .fail f k
        | .ok y st2 =>
          let r := match t with
            | .LESSER => decide (x < y)
            | .GREATER_OR_EQ => decide (x ≥ y)
            | .LESSER_OR_EQ => decide (x ≤ y)
            | _ => decide (x > y)
          .ok (.bool r) st2
    | .NT_DECLARATIVE_EXPR =>
      match childSet 1 st with
      | .fail f k => .fail f k
      | .ok dom st1 =>
        match a.kids.head?.bind (firstVar c) with
        | none => .fail (.stuck "ViDeclarative *begin(nodeVars)") st1.iters
        | some var =>
          match st1.data[var]? with
          | none => .fail (.stuck "SlotGuard slots.at") st1.iters
          | some saved => restoreSlot var saved (declLoop (child 2) var pos dom [] st1)
    | .NT_IMPERATIVE_EXPR =>
      -- `CreateBlockMetadata`
      let blocks := a.kids.drop 1
      if blocks.isEmpty then .fail (.stuck "CreateBlockMetadata MoveToChild(1)") st.iters else
      let metasOpt := allSome (blocks.map fun b =>
        if b.id == .ITERATE || b.id == .ASSIGN then
          (b.kids.head?.bind (firstVar c)).map (fun v => ({ rootID := b.id, arg := v } : BlockMeta))
        else some { rootID := b.id, arg := 0 })
      match metasOpt with
      | none => .fail (.stuck "CreateBlockMetadata *begin(nodeVars)") st.iters
      | some metas =>
        let domKid (i : Nat) (st : St) : R V :=   -- `ExtractDomain(child)`: `VisitChild(child, 1)`
          match a.kids[i]? with
          | none => .fail (.stuck "ProcessBlock MoveToChild") st.iters
          | some blk =>
            match blk.kids[1]? with
            | none => .fail (.stuck "ExtractDomain VisitChild(1)") st.iters
            | some d => ev c fuel d (some blk.id) st
        match impGuards st.data metas with   -- the guards are created with the metadata, before any block runs
        | none => .fail (.stuck "SlotGuard slots.at") st.iters
        | some saved => restoreSlots saved (impLoop nK metas child domKid pos (MAX_ITERATIONS + 2) 0 [] [] st)
    | .NT_RECURSIVE_FULL | .NT_RECURSIVE_SHORT =>
      match childVal 1 st with
      | .fail f k => .fail f k
      | .ok init st1 =>
        match a.kids.head?.bind (firstVar c) with
        | none => .fail (.stuck "ViRecursion *begin(nodeVars)") st1.iters
        | some var =>
          match st1.data[var]? with
          | none => .fail (.stuck "SlotGuard slots.at") st1.iters
          | some saved =>
            restoreSlot var saved
              (if t == .NT_RECURSIVE_FULL then recLoop (some (child 2)) (child 3) var pos (MAX_ITERATIONS + 2) init st1
               else recLoop none (child 2) var pos (MAX_ITERATIONS + 2) init st1)
    | .DECART =>
      match allVals nK st with
      | .fail f k => .fail f k
      | .ok vs st1 =>
        match allSome (vs.map fun v => match v with | Val.s xs => some xs | _ => none) with
        | none => .fail (.stuck "Factory::Decartian B() of a non-set") st1.iters
        | some fs =>
          if fs.any (·.isEmpty) then .ok (.val (.s [])) st1
          else
            let count := Val.prodCard fs
            if count == Val.SET_INFINITY then .fail (.err EID.typedOverflow pos) st1.iters
            else if count > PROD_LIMIT then .fail .outOfFuel st1.iters
            else .ok (.val (.s (Val.prod fs))) st1
    | .BOOLEAN =>
      match childSet 0 st with
      | .fail f k => .fail f k
      | .ok xs st1 =>
        let limited := match parent with
          | none => true
          | some p => p != .IN && p != .NT_DECLARATIVE_EXPR
        if limited && xs.length ≥ Val.BOOL_INFINITY then .fail (.err EID.booleanLimit pos) st1.iters
        else if xs.length > POW_LIMIT then .fail .outOfFuel st1.iters
        else .ok (.val (.s (Val.pow xs))) st1
    | .NT_TUPLE =>
      match allVals nK st with
      | .fail f k => .fail f k
      | .ok vs st1 =>
        match Val.mkTuple vs with
        | none => .fail (.stuck "Factory::Tuple assert") st1.iters
        | some v => .ok (.val v) st1
    | .NT_ENUMERATION =>
      match allVals nK st with
      | .fail f k => .fail f k
      | .ok vs st1 => .ok (.val (Val.mkSet vs)) st1
    | .BOOL =>
      match childVal 0 st with
      | .fail f k => .fail f k
      | .ok v st1 => .ok (.val (.s [v])) st1
    | .DEBOOL =>
      match childSet 0 st with
      | .fail f k => .fail f k
      | .ok xs st1 =>
        match xs with
        | [x] => .ok (.val x) st1
        | _ => .fail (.err EID.invalidDebool pos) st1.iters
    | .UNION | .INTERSECTION | .SET_MINUS | .SYMMINUS =>
      match childVal 0 st with
      | .fail f k => .fail f k
      | .ok v1 st1 =>
        match childVal 1 st1 with
        | .fail f k => .fail f k
        | .ok v2 st2 =>
          match v1, v2 with
          | .s xs, .s ys =>
            let r := match t with
              | .INTERSECTION => Val.inter xs ys
              | .SET_MINUS => Val.diff xs ys
              | .SYMMINUS => Val.symDiff xs ys
              | _ => Val.union xs ys
            .ok (.val (.s r)) st2
          | _, _ => .fail (.stuck "ViSetexprBinary B() of a non-set") st2.iters
    | .IN | .NOTIN =>
      match childVal 0 st with
      | .fail f k => .fail f k
      | .ok v1 st1 =>
        -- the right operand: a `ℬ(…)` node yields the lazy `SDPowerSet`, whose `Contains` is
        -- `element.B().IsSubsetOrEq(base.B())` — no enumeration
        let lazyPow : Option Ast :=
          match a.kids[1]? with
          | some k => if k.id == .BOOLEAN then k.kids.head? else none
          | none => none
        match lazyPow with
        | some baseAst =>
          (match ev c fuel baseAst (some .BOOLEAN) st1 with
          | .fail f k => .fail f k
          | .ok (.bool _) st2 => .fail (.stuck "get<StructuredData>") st2.iters
          | .ok (.val (.s base)) st2 =>
            -- `ViBoolean`: only the parents `∈` and `D{…}` lift the limit — `∉` does not
            if t != .IN && base.length ≥ Val.BOOL_INFINITY then
              .fail (.err EID.booleanLimit ((a.kids[1]?.map (·.lo)).getD 0)) st2.iters
            else
            (match v1 with
            | .s xs => .ok (.bool ((Val.subsetEq xs base) != (t == .NOTIN))) st2
            | _ => .fail (.stuck "SDPowerSet::Contains B() of a non-set") st2.iters)
          | .ok (.val _) st2 => .fail (.stuck "B() of a non-set") st2.iters)
        | none =>
          match childSet 1 st1 with
          | .fail f k => .fail f k
          | .ok ys st2 => .ok (.bool ((Val.mem v1 ys) != (t == .NOTIN))) st2
    | .SUBSET | .SUBSET_OR_EQ | .NOTSUBSET =>
      match childVal 0 st with
      | .fail f k => .fail f k
      | .ok v1 st1 =>
        match childVal 1 st1 with
        | .fail f k => .fail f k
        | .ok v2 st2 =>
          let same := Val.cmp v1 v2 == .eq
          if t == .SUBSET && same then .ok (.bool false) st2
          else if t == .NOTSUBSET && same then .ok (.bool true) st2
          else match v1, v2 with
            | .s xs, .s ys =>
              let sub := Val.subsetEq xs ys
              .ok (.bool (if t == .NOTSUBSET then !sub else sub)) st2
            | _, _ => .fail (.stuck "ViSetexprBinary B() of a non-set") st2.iters
    | .BIGPR =>
      match childSet 0 st with
      | .fail f k => .fail f k
      | .ok xs st1 =>
        match Val.projSet xs (idxOf a) with
        | none => .fail (.stuck "SDSet::Projection T().Component") st1.iters
        | some r => .ok (.val (.s r)) st1
    | .SMALLPR =>
      match childVal 0 st with
      | .fail f k => .fail f k
      | .ok v st1 =>
        match Val.project v (idxOf a) with
        | none => .fail (.stuck "ViProjectTuple T().Component") st1.iters
        | some r => .ok (.val r) st1
    | .FILTER =>
      if nK == 0 then .fail (.stuck "ViFilter ChildrenCount") st.iters else
      match childSet (nK - 1) st with
      | .fail f k => .fail f k
      | .ok arg st1 =>
        if arg.isEmpty then .ok (.val (.s [])) st1 else
        let idx := idxOf a
        if idx.length == nK - 1 then
          -- `EvaluateFilterTuple`
          let params : R (Option (List (List Val))) :=
            (List.range (nK - 1)).foldl (fun (acc : R (Option (List (List Val)))) i =>
              match acc with
              | .fail f k => .fail f k
              | .ok none st' => .ok none st'
              | .ok (some ps) st' =>
                match childSet i st' with
                | .fail f k => .fail f k
                | .ok p st'' => if p.isEmpty then .ok none st'' else .ok (some (ps ++ [p])) st'') (.ok (some []) st1)
          match params with
          | .fail f k => .fail f k
          | .ok none st2 => .ok (.val (.s [])) st2
          | .ok (some ps) st2 =>
            let test (el : Val) : Option Bool :=
              (idx.zip ps).foldl (fun acc (ip : Int × List Val) =>
                match acc with
                | some true => (Val.component el ip.1).map (fun cmpn => Val.mem cmpn ip.2)
                | r => r) (some true)
            match allSome (arg.map test) with
            | none => .fail (.stuck "EvaluateFilterTuple T().Component") st2.iters
            | some flags =>
              .ok (.val (.s (Val.insertAll [] ((arg.zip flags).filter (·.2) |>.map (·.1))))) st2
        else
          -- `EvaluateFilterComplex`
          match childSet 0 st1 with
          | .fail f k => .fail f k
          | .ok param st2 =>
            if param.isEmpty then .ok (.val (.s [])) st2 else
            match allSome (arg.map fun el => (Val.project el idx).map (fun tp => Val.mem tp param)) with
            | none => .fail (.stuck "EvaluateFilterComplex T().Component") st2.iters
            | some flags =>
              .ok (.val (.s (Val.insertAll [] ((arg.zip flags).filter (·.2) |>.map (·.1))))) st2
    | .REDUCE =>
      match childSet 0 st with
      | .fail f k => .fail f k
      | .ok xs st1 =>
        match Val.reduce xs with
        | none => .fail (.stuck "SDSet::Reduce B() of a non-set") st1.iters
        | some r => .ok (.val (.s r)) st1
    | _ => .fail .quiet st.iters    -- `VisitDefault` ⇒ `false`

def astDepth : Nat → Ast → Nat
  | 0, _ => 0
  | f + 1, a => 1 + a.kids.foldl (fun m k => max m (astDepth f k)) 0

/-- `ASTInterpreter::Evaluate` on a normalised tree (result and `Iterations()`) -/
def evalNorm (fuel : Nat) (env : Env) (tree : Ast) : EvalRes × Nat :=
  match collect env fuel tree {} with
  | .fail .quiet => (.err EID.unknownError 0, 0)
  | .fail (.err e p) => (.err e p, 0)
  | .fail (.stuck s) => (.stuck s, 0)
  | .fail .outOfFuel => (.outOfFuel, 0)
  | .ok _ _ nc =>
    match ev { ids := nc.ids } fuel tree none { data := nc.data, iters := 0 } with
    | .ok (.val v) st => (.ok v, st.iters)
    | .ok (.bool b) st => (.okBool b, st.iters)
    | .fail .quiet n => (.err EID.unknownError 0, n)
    | .fail (.err e p) n => (.err e p, n)
    | .fail (.stuck s) n => (.stuck s, n)
    | .fail .outOfFuel n => (.outOfFuel, n)

/-- the evaluator proper (tree already normalised) -/
def eval (fuel : Nat) (env : Env) (tree : Ast) : EvalRes := (evalNorm fuel env tree).1

/-- `Interpreter::Evaluate` after parsing and type checking: normalise, then evaluate -/
def evaluate (fuel : Nat) (env : Env) (tree : Ast) : EvalRes × Nat :=
  match normalizeTree env.funcs fuel tree with
  | none => (.outOfFuel, 0)
  | some nt => evalNorm fuel env nt

end CCVerif.Eval
