import CCVerif.Model.Syntax
import CCVerif.Model.Strings
/-!
`FindMinimalNode` (`ccl/rslang/src/SyntaxTree.cpp:218-235`) on the shared `Ast`, and the
range predicates C06 talks about. A node is addressed by its path (child indices from the root).
-/
namespace CCVerif.AstQuery
open CCVerif.Syntax CCVerif.Strings

def rangeOf (a : Ast) : StrRange := ⟨a.lo, a.hi⟩

mutual
/-- `FindMinimalNode(root, range)`: `none` when the root does not contain the range; a leaf that
contains it; otherwise the first child (in order) whose search succeeds, else the node itself.
Returns the path of the node found. -/
def findMinimal (q : StrRange) : Ast → Option (List Nat)
  | .node _ _ lo hi kids =>
    if !(StrRange.contains ⟨lo, hi⟩ q) then none
    else match findMinimalKids q kids 0 with
      | some p => some p
      | none => some []
/-- the `do … while (root.MoveToNextSibling())` loop -/
def findMinimalKids (q : StrRange) : List Ast → Nat → Option (List Nat)
  | [], _ => none
  | k :: ks, i =>
    match findMinimal q k with
    | some p => some (i :: p)
    | none => findMinimalKids q ks (i + 1)
end

/-- node at a path -/
def nodeAt : Ast → List Nat → Option Ast
  | a, [] => some a
  | a, i :: p => match a.kids[i]? with
    | some k => nodeAt k p
    | none => none

mutual
/-- every node with its path, pre-order -/
def allNodes (pre : List Nat) : Ast → List (List Nat × Ast)
  | .node id d lo hi kids => (pre, .node id d lo hi kids) :: allNodesKids pre kids 0
def allNodesKids (pre : List Nat) : List Ast → Nat → List (List Nat × Ast)
  | [], _ => []
  | k :: ks, i => allNodes (pre ++ [i]) k ++ allNodesKids pre ks (i + 1)
end

/-- children's ranges lie within the parent's, are ordered and pairwise disjoint
(`a.hi ≤ b.lo` for consecutive siblings) -/
def siblingsOrdered : List Ast → Bool
  | a :: b :: r => decide (a.hi ≤ b.lo) && siblingsOrdered (b :: r)
  | _ => true

mutual
def rangesNested : Ast → Bool
  | .node _ _ lo hi kids =>
    decide (lo ≤ hi) && kidsWithin lo hi kids && siblingsOrdered kids && rangesNestedKids kids
def rangesNestedKids : List Ast → Bool
  | [] => true
  | k :: ks => rangesNested k && rangesNestedKids ks
def kidsWithin (lo hi : Int) : List Ast → Bool
  | [] => true
  | k :: ks => decide (lo ≤ k.lo) && decide (k.hi ≤ hi) && kidsWithin lo hi ks
end

end CCVerif.AstQuery

namespace CCVerif.AstQuery
open CCVerif.Syntax
mutual
/-- exact equality of trees, positions included (decidable stand-in for `=` on the nested `Ast`) -/
def sameAst : Ast → Ast → Bool
  | .node t1 d1 l1 h1 k1, .node t2 d2 l2 h2 k2 =>
    t1 == t2 && d1 == d2 && decide (l1 = l2) && decide (h1 = h2) && sameAstList k1 k2
def sameAstList : List Ast → List Ast → Bool
  | [], [] => true
  | a :: as, b :: bs => sameAst a b && sameAstList as bs
  | _, _ => false
end
end CCVerif.AstQuery
