import CCVerif.Model.Syntax
import CCVerif.Model.Types
/-
Model of the RSLang type checker (C03): `ccl/rslang/src/TypeAuditor.cpp` (class `TypeAuditor`,
every `Vi*`, scope handling, template instantiation, recursion type deduction) and of the
value-class audit `ccl/rslang/src/ValueAuditor.cpp`.

The visitor is transcribed as a state machine: `St` holds the members of `TypeAuditor`
(`currentType`, `localVars`, `functionArgs`, the four guardable flags as guard counters) plus the
error log (`parser.log`). A visit returns `ok` (C++ `true`), `fail` (C++ `false`) or `stuck site`
where the C++ would fault: `std::get` on the wrong variant alternative, `Typification::Tuple({})`
(assert), `Token::ToString` on an empty index list, `assert` on the child count / `.at()` out of
range. Recursion over the tree uses fuel (`Ast.depth + 1` suffices; running out of fuel is the
outcome `stuck "fuel"`, never `fail`). This file follows /repo AFTER the repairs of the defects
K1–K7 (logic-typed global in an operand position is an error; lone `∅`; structure domain that
is not a set; declared arguments recorded in `ViArgument`; filter parameters always visited);
the pinned rules are kept in `Model/CheckerPinned.lean`. Properties/C03 proves that on trees of
the parser's shape no `stuck` site is reachable.

`silent` is ghost state: it is set exactly at the places where the C++ returns `false` without
having logged an error in that function (`ChildTypeDebool` / `CheckFuncArguments` on a LOGIC
child, `GetLocalTypification` in argument mode); it never influences the run, and
Properties/C03 proves it stays `false` on trees of the parser's shape.
-/
namespace CCVerif.Checker
open CCVerif.Syntax CCVerif.Types

/-! ## error codes (`RSErrorCodes.hpp`, SemanticEID) -/
namespace EID
def localDoubleDeclare : Nat := 0x2801
def localNotUsed : Nat := 0x2802
def localUndeclared : Nat := 0x8801
def localShadowing : Nat := 0x8802
def typesNotEqual : Nat := 0x8803
def globalNotTyped : Nat := 0x8804
def invalidDecart : Nat := 0x8805
def invalidBoolean : Nat := 0x8806
def invalidTypeOperation : Nat := 0x8807
def invalidCard : Nat := 0x8808
def invalidDebool : Nat := 0x8809
def globalFuncMissing : Nat := 0x880A
def globalFuncWithoutArgs : Nat := 0x880B
def invalidReduce : Nat := 0x8810
def invalidProjectionTuple : Nat := 0x8811
def invalidProjectionSet : Nat := 0x8812
def invalidEnumeration : Nat := 0x8813
def invalidBinding : Nat := 0x8814
def localOutOfScope : Nat := 0x8815
def invalidElementPredicate : Nat := 0x8816
def invalidEmptySetUsage : Nat := 0x8817
def invalidArgsArity : Nat := 0x8818
def invalidArgumentType : Nat := 0x8819
def globalStructure : Nat := 0x881C
def radicalUsage : Nat := 0x8821
def invalidFilterArgumentType : Nat := 0x8822
def invalidFilterArity : Nat := 0x8823
def arithmeticNotSupported : Nat := 0x8824
def typesNotCompatible : Nat := 0x8825
def orderingNotSupported : Nat := 0x8826
def globalNoValue : Nat := 0x8840
def invalidPropertyUsage : Nat := 0x8841
def globalMissingAST : Nat := 0x8842
def globalFuncNoInterpretation : Nat := 0x8843
end EID

/-- `ErrorStatus::CRITICAL = 0x8000`; `ResolveErrorType` -/
def isCritical (eid : Nat) : Bool := eid ≥ 0x8000

/-- an `Error` as far as the property observes it: `(eid, position)` -/
abbrev Err := Nat × Int

/-! ## state of the visitor -/

/-- `TypeAuditor::LocalData` -/
structure LocalData where
  name : String
  type : Ty
  level : Int
  useCount : Nat
  enabled : Bool
deriving Repr

structure St where
  cur : ExprTy := .logic
  locals : List LocalData := []
  args : List (String × Ty) := []
  /-- error log, most recent first -/
  errs : List Err := []
  argDecl : Nat := 0
  localDecl : Nat := 0
  funcDecl : Nat := 0
  noWarn : Nat := 0
  /-- ghost: a `return false` without an error of its own was taken -/
  silent : Bool := false

inductive Res (α : Type) where
  | ok (a : α)
  | fail
  | stuck (site : String)
deriving Repr

abbrev M (α : Type) := St → Res α × St

@[inline] def M.pure {α} (a : α) : M α := fun s => (.ok a, s)
@[inline] def M.bind {α β} (m : M α) (f : α → M β) : M β := fun s =>
  match m s with
  | (.ok a, s') => f a s'
  | (.fail, s') => (.fail, s')
  | (.stuck x, s') => (.stuck x, s')

instance : Monad M where
  pure := M.pure
  bind := M.bind

/-- `OnError(eid, position); return false;` -/
def errFail {α} (eid : Nat) (pos : Int) : M α := fun s => (.fail, { s with errs := (eid, pos) :: s.errs })
/-- C++ `return false` / `return std::nullopt` with nothing logged by this function -/
def failSilent {α} : M α := fun s => (.fail, { s with silent := true })
def stuckM {α} (site : String) : M α := fun s => (.stuck site, s)
def getSt : M St := fun s => (.ok s, s)
/-- `SetCurrent(type)` -/
def setCur (t : ExprTy) : M Unit := fun s => (.ok (), { s with cur := t })
def modifySt (f : St → St) : M Unit := fun s => (.ok (), f s)

/-- the recursive visitor, one level of fuel down: parent token, node -/
abbrev Visitor := Option Tok → Ast → M Unit

/-- `iter(index)` / `MoveToChild(index)`; the C++ asserts that the child exists -/
def kidM (a : Ast) (i : Nat) : M Ast :=
  match a.kid i with
  | some k => M.pure k
  | none => stuckM "child-index"

/-- `VisitChild(iter, index)` -/
def visitChild (v : Visitor) (a : Ast) (i : Nat) : M Unit :=
  M.bind (kidM a i) fun k => v (some a.id) k

/-- `VisitAllChildren(iter)` -/
def visitAll (v : Visitor) (p : Tok) : List Ast → M Unit
  | [] => M.pure ()
  | k :: ks => M.bind (v (some p) k) fun _ => visitAll v p ks

/-- `ChildType(iter, index)`: `currentType` is saved and restored around the visit -/
def childType (v : Visitor) (a : Ast) (i : Nat) : M ExprTy :=
  M.bind (kidM a i) fun k => fun s =>
    let saved := s.cur
    match v (some a.id) k s with
    | (.ok _, s') => (.ok s'.cur, { s' with cur := saved })
    | (.fail, s') => (.fail, { s' with cur := saved })
    | (.stuck x, s') => (.stuck x, s')

/-- `std::get<Typification>(type)` -/
def expectTy (site : String) : ExprTy → M Ty
  | .ty t => M.pure t
  | .logic => stuckM ("bad_variant_access:" ++ site)

/-- `OnError(eid, pos, {iter->ToString(), …})` of the projections and the filter:
`Token::ToString` dereferences `*begin(indicies)`, a null reference for an empty index vector -/
def errFailTok {α} (a : Ast) (eid : Nat) (pos : Int) : M α :=
  match a.data with
  | .tuple [] => stuckM "Token::ToString:empty-index"
  | _ => errFail eid pos

/-- `ChildTypeDebool(iter, index, eid)` (both overloads log at `iter(index).pos.start`) -/
def childTypeDebool (v : Visitor) (a : Ast) (i : Nat) (eid : Nat) (tokStr : Bool := false) : M Ty :=
  M.bind (childType v a i) fun r =>
    match r with
    | .logic => failSilent
    | .ty t =>
      if t.isAny then M.pure t
      else match t with
        | .coll b => M.pure b
        | _ => M.bind (kidM a i) fun k =>
          if tokStr then errFailTok a eid k.lo else errFail eid k.lo

/-! ## scopes and local variables -/

/-- `StartScope()` -/
def startScope : M Unit :=
  modifySt fun s => { s with locals := s.locals.map fun v => { v with level := v.level + 1 } }

/-- loop body of `EndScope(pos)` over the vector, collecting the warnings in logging order -/
def endScopeGo (noWarn : Bool) (pos : Int) : List LocalData → List LocalData × List Err
  | [] => ([], [])
  | v :: vs =>
    let lvl := v.level - 1
    let (rest, es) := endScopeGo noWarn pos vs
    if lvl < 0 && v.enabled then
      let v' := { v with level := lvl, enabled := false }
      if v.useCount == 0 && !noWarn then (v' :: rest, (EID.localNotUsed, pos) :: es)
      else (v' :: rest, es)
    else ({ v with level := lvl } :: rest, es)

/-- `EndScope(pos)` -/
def endScope (pos : Int) : M Unit :=
  modifySt fun s =>
    let (ls, es) := endScopeGo (s.noWarn > 0) pos s.locals
    { s with locals := ls, errs := es.reverse ++ s.errs }

def findLocal (name : String) : List LocalData → Option (Nat × LocalData)
  | [] => none
  | v :: vs => if v.name == name then some (0, v) else
    match findLocal name vs with
    | some (i, w) => some (i + 1, w)
    | none => none

/-- `AddLocalVariable(name, type, pos)` -/
def addLocal (name : String) (type : Ty) (pos : Int) : M Unit := fun s =>
  match findLocal name s.locals with
  | some (i, v) =>
    if v.enabled then (.fail, { s with errs := (EID.localShadowing, pos) :: s.errs })
    else
      let errs := if s.noWarn > 0 then s.errs else (EID.localDoubleDeclare, pos) :: s.errs
      (.ok (), { s with errs := errs,
                        locals := s.locals.set i { v with type := type, enabled := true, level := 0 } })
  | none =>
    let locals := s.locals ++ [{ name := name, type := type, level := 0, useCount := 0, enabled := true }]
    (.ok (), { s with locals := locals })

/-- `GetLocalTypification(name, pos)` (nullptr = `fail`) -/
def getLocal (name : String) (pos : Int) : M Ty := fun s =>
  match findLocal name s.locals with
  | none =>
    if s.argDecl > 0 then (.fail, { s with silent := true })
    else (.fail, { s with errs := (EID.localUndeclared, pos) :: s.errs })
  | some (i, v) =>
    if !v.enabled then (.fail, { s with errs := (EID.localOutOfScope, pos) :: s.errs })
    else (.ok v.type, { s with locals := s.locals.set i { v with useCount := v.useCount + 1 } })

/-- `ClearLocalVariables()` -/
def clearLocals : M Unit :=
  modifySt fun s => { s with locals := s.locals.filter fun v => v.level > 0 }

/-- `VisitChildDeclaration(iter, index, domain)` -/
def visitChildDecl (v : Visitor) (a : Ast) (i : Nat) (domain : Ty) : M Unit :=
  M.bind (setCur (.ty domain)) fun _ =>
  M.bind (modifySt fun s => { s with localDecl := s.localDecl + 1 }) fun _ =>
  M.bind (visitChild v a i) fun _ =>
  M.bind (modifySt fun s => { s with localDecl := s.localDecl - 1 }) fun _ =>
  setCur .logic

def textOf (a : Ast) : M String :=
  match a.data with
  | .text s => M.pure s
  | _ => stuckM "bad_variant_access:ToText"

def tupleOfData (a : Ast) : M (List Int) :=
  match a.data with
  | .tuple l => M.pure l
  | _ => stuckM "bad_variant_access:ToTuple"

/-- `Typification::Tuple(components)`; the empty vector trips the assert -/
def mkTuple (site : String) (cs : List Ty) : M Ty :=
  if cs.isEmpty then stuckM ("Tuple({}):" ++ site) else M.pure (Ty.tupleOf cs)

/-! ## the `Vi*` rules -/

/-- `IsStructureDomain(iter)` -/
def isStructureDomain : Nat → Ast → Bool
  | 0, _ => false
  | n+1, a =>
    (a.id == .LIT_INTSET || a.id == .ID_GLOBAL || a.id == .BOOLEAN || a.id == .DECART
      || a.id == .NT_ENUMERATION) && a.kids.all (isStructureDomain n)

def Ast.depth : Ast → Nat
  | .node _ _ _ _ ks => 1 + depthList ks
where depthList : List Ast → Nat
  | [] => 0
  | k :: ks => max (Ast.depth k) (depthList ks)

/-- `childrenCount == 2 && IsStructureDomain(iter, 1)` -/
def structOk (a : Ast) : Bool :=
  a.kids.length == 2 &&
    (match a.kid 1 with | some k => isStructureDomain (Ast.depth k + 1) k | none => false)

def viGlobalDeclaration (v : Visitor) (a : Ast) : M Unit :=
  if a.id == .PUNC_STRUCT then
    if !structOk a then
      M.bind (kidM a 0) fun k0 => errFail EID.globalStructure k0.hi
    else
      M.bind (childType v a 1) fun mt =>
      M.bind (expectTy "ViGlobalDeclaration" mt) fun t =>
      match t with
      | .coll b => setCur (.ty b)
      | _ => M.bind (kidM a 0) fun k0 => errFail EID.globalStructure k0.hi
  else
    if a.kids.length == 1 then
      M.bind (kidM a 0) fun k0 => M.bind (textOf k0) fun name => setCur (.ty (.coll (.base name)))
    else
      M.bind (childType v a 1) fun t => setCur t

def viFunctionDefinition (v : Visitor) (a : Ast) : M Unit :=
  M.bind startScope fun _ =>
  M.bind (modifySt fun s => { s with funcDecl := s.funcDecl + 1 }) fun _ =>
  M.bind (visitChild v a 0) fun _ =>
  M.bind (modifySt fun s => { s with funcDecl := s.funcDecl - 1 }) fun _ =>
  M.bind (childType v a 1) fun t =>
  M.bind (endScope a.lo) fun _ =>
  setCur t

/-- the loop of `CheckFuncArguments` over the actual arguments (children `child..`) -/
def checkArgsGo (Γ : Ctx) (v : Visitor) (a : Ast) (fn : String) :
    Nat → List (String × Ty) → Nat → Subst → M Subst
  | 0, _, _, subs => M.pure subs
  | n+1, decl, child, subs =>
    M.bind (childType v a child) fun ct =>
    match ct with
    | .logic => failSilent
    | .ty vt =>
      match decl with
      | [] => stuckM "args.at"
      | (_, dt) :: rest =>
        let argType := mangle fn dt
        match compareTemplated Γ.traits subs argType vt with
        | (false, _) =>
          M.bind (kidM a child) fun k => errFail EID.invalidArgumentType k.lo
        | (true, subs') => checkArgsGo Γ v a fn n rest (child + 1) subs'

/-- `CheckFuncArguments(iter, funcName)` -/
def checkFuncArguments (Γ : Ctx) (v : Visitor) (a : Ast) (fn : String) : M Subst :=
  match lookup Γ.funcs fn with
  | none => M.bind (kidM a 0) fun k0 => errFail EID.globalFuncMissing k0.lo
  | some decl =>
    let expected := a.kids.length - 1
    if decl.length != expected then
      M.bind (kidM a 1) fun k1 => errFail EID.invalidArgsArity k1.lo
    else checkArgsGo Γ v a fn expected decl 1 []

def viFunctionCall (Γ : Ctx) (v : Visitor) (a : Ast) : M Unit :=
  M.bind (kidM a 0) fun k0 => M.bind (textOf k0) fun fn =>
  match lookup Γ.types fn with
  | none => errFail EID.globalNotTyped a.lo
  | some ft =>
    M.bind (checkFuncArguments Γ v a fn) fun subs =>
    match ft with
    | .logic => setCur .logic
    | .ty t =>
      let fixed := mangle fn t
      setCur (.ty (if subs.isEmpty then fixed else substBase subs fixed))

/-- `!iter.IsRoot() && iter.Parent().id != PUNC_DEFINE && iter.Parent().id != NT_FUNC_DEFINITION`:
the node is an operand (not the whole input, not the body of a definition) -/
def isOperandPos (parent : Option Tok) : Bool :=
  match parent with
  | none => false
  | some p => p != .PUNC_DEFINE && p != .NT_FUNC_DEFINITION

def isLogicTy : ExprTy → Bool
  | .logic => true
  | .ty _ => false

def viGlobal (Γ : Ctx) (parent : Option Tok) (a : Ast) : M Unit :=
  M.bind (textOf a) fun alias =>
  if (lookup Γ.funcs alias).isSome then
    errFail EID.globalFuncWithoutArgs a.lo
  else match lookup Γ.types alias with
    | none => errFail EID.globalNotTyped a.lo
    | some t =>
      if isLogicTy t && isOperandPos parent then errFail EID.invalidTypeOperation a.lo
      else setCur t

def viRadical (Γ : Ctx) (a : Ast) : M Unit :=
  M.bind (textOf a) fun alias => M.bind getSt fun s =>
  if s.funcDecl == 0 && !Γ.isTypification then
    errFail EID.radicalUsage a.lo
  else setCur (.ty (.coll (.base alias)))

def viLocal (a : Ast) : M Unit :=
  M.bind (textOf a) fun name => M.bind getSt fun s =>
  if s.localDecl > 0 || s.argDecl > 0 then
    M.bind (expectTy "ViLocal" s.cur) fun t => addLocal name t a.lo
  else
    M.bind (getLocal name a.lo) fun t => setCur (.ty t)

/-- the `invalidParents` table of `ViEmptySet` -/
def emptySetInvalidParents : List Tok :=
  [.CARD, .DEBOOL, .UNION, .INTERSECTION, .SET_MINUS, .SYMMINUS, .REDUCE, .BIGPR, .SMALLPR]

/-- `!iter.IsRoot() && find(invalidParents, iter.Parent().id) != end` -/
def emptySetMisused (parent : Option Tok) : Bool :=
  match parent with
  | none => false
  | some p => emptySetInvalidParents.contains p

def viEmptySet (parent : Option Tok) (a : Ast) : M Unit :=
  if emptySetMisused parent then errFail EID.invalidEmptySetUsage a.lo
  else setCur (.ty Ty.emptySet)

/-- the loop of `ViTupleDeclaration` -/
def tupleDeclGo (v : Visitor) (p : Tok) : List Ast → List Ty → M Unit
  | [], _ => M.pure ()
  | _ :: _, [] => stuckM "Component.at"
  | k :: ks, c :: cs =>
    M.bind (setCur (.ty c)) fun _ => M.bind (v (some p) k) fun _ => tupleDeclGo v p ks cs

def viTupleDeclaration (v : Visitor) (a : Ast) : M Unit :=
  M.bind getSt fun s => M.bind (expectTy "ViTupleDeclaration" s.cur) fun t =>
  match t with
  | .tuple cs =>
    if cs.length != a.kids.length then
      M.bind (kidM a 0) fun k0 => errFail EID.invalidBinding k0.lo
    else M.bind (tupleDeclGo v a.id a.kids cs) fun _ => setCur (.ty t)
  | _ => M.bind (kidM a 0) fun k0 => errFail EID.invalidBinding k0.lo

/-- `VisitAllAndSetCurrent(iter, LogicT{})` -/
def viAllLogic (v : Visitor) (a : Ast) : M Unit :=
  M.bind (visitAll v a.id a.kids) fun _ => setCur .logic

def viArgument (v : Visitor) (a : Ast) : M Unit :=
  M.bind (childTypeDebool v a 1 EID.invalidTypeOperation) fun domain =>
  M.bind (modifySt fun s => { s with argDecl := s.argDecl + 1, cur := .ty domain }) fun _ =>
  M.bind (visitChild v a 0) fun _ =>
  M.bind (kidM a 0) fun k0 => M.bind (textOf k0) fun name =>
  M.bind (modifySt fun s => { s with args := s.args ++ [(name, domain)] }) fun _ =>
  M.bind (modifySt fun s => { s with argDecl := s.argDecl - 1 }) fun _ =>
  setCur .logic

def viCard (v : Visitor) (a : Ast) : M Unit :=
  M.bind (childTypeDebool v a 0 EID.invalidCard) fun _ => setCur (.ty Ty.Z)

def viArithmetic (Γ : Ctx) (v : Visitor) (a : Ast) : M Unit :=
  M.bind (childType v a 0) fun r1 => M.bind (expectTy "ViArithmetic" r1) fun t1 =>
  if !isArithmetic Γ.traits t1 then
    M.bind (kidM a 0) fun k => errFail EID.arithmeticNotSupported k.lo
  else
  M.bind (childType v a 1) fun r2 => M.bind (expectTy "ViArithmetic" r2) fun t2 =>
  if !isArithmetic Γ.traits t2 then
    M.bind (kidM a 1) fun k => errFail EID.arithmeticNotSupported k.lo
  else match merge Γ.traits t1 t2 with
    | none => M.bind (kidM a 1) fun k => errFail EID.typesNotCompatible k.lo
    | some t => setCur (.ty t)

def viIntegerPredicate (Γ : Ctx) (v : Visitor) (a : Ast) : M Unit :=
  M.bind (childType v a 0) fun r1 => M.bind (expectTy "ViIntegerPredicate" r1) fun t1 =>
  if !isOrdered Γ.traits t1 then
    M.bind (kidM a 0) fun k => errFail EID.orderingNotSupported k.lo
  else
  M.bind (childType v a 1) fun r2 => M.bind (expectTy "ViIntegerPredicate" r2) fun t2 =>
  if !isOrdered Γ.traits t2 then
    M.bind (kidM a 1) fun k => errFail EID.orderingNotSupported k.lo
  else if !compat Γ.traits t1 t2 then
    M.bind (kidM a 1) fun k => errFail EID.typesNotCompatible k.lo
  else setCur .logic

def viQuantifier (v : Visitor) (a : Ast) : M Unit :=
  M.bind startScope fun _ =>
  M.bind (childTypeDebool v a 1 EID.invalidTypeOperation) fun domain =>
  M.bind (visitChildDecl v a 0 domain) fun _ =>
  M.bind (visitChild v a 2) fun _ =>
  M.bind (endScope a.lo) fun _ =>
  setCur .logic

def viEquals (Γ : Ctx) (v : Visitor) (a : Ast) : M Unit :=
  M.bind (childType v a 0) fun r1 => M.bind (expectTy "ViEquals" r1) fun t1 =>
  M.bind (childType v a 1) fun r2 => M.bind (expectTy "ViEquals" r2) fun t2 =>
  if !compat Γ.traits t1 t2 then
    M.bind (kidM a 1) fun k => errFail EID.typesNotCompatible k.lo
  else setCur .logic

def isSubsetTok (t : Tok) : Bool := t == .SUBSET || t == .SUBSET_OR_EQ || t == .NOTSUBSET

def viSetexprPredicate (Γ : Ctx) (v : Visitor) (a : Ast) : M Unit :=
  M.bind (childTypeDebool v a 1 EID.invalidTypeOperation) fun d2 =>
  let t2 := if isSubsetTok a.id then Ty.coll d2 else d2
  M.bind (childType v a 0) fun r1 =>
  match compatE Γ.traits r1 (.ty t2) with
  | none => stuckM "bad_variant_access:AreCompatible"
  | some true => setCur .logic
  | some false =>
    M.bind (kidM a 1) fun k =>
    errFail (if isSubsetTok a.id then EID.typesNotEqual else EID.invalidElementPredicate) k.lo

def viDeclarative (v : Visitor) (a : Ast) : M Unit :=
  M.bind startScope fun _ =>
  M.bind (childTypeDebool v a 1 EID.invalidTypeOperation) fun domain =>
  M.bind (visitChildDecl v a 0 domain) fun _ =>
  M.bind (visitChild v a 2) fun _ =>
  M.bind (endScope a.lo) fun _ =>
  setCur (.ty (.coll domain))

/-- `for (child = 1; child < ChildrenCount; ++child) VisitChild(iter, child)` -/
def visitFrom (v : Visitor) (p : Tok) : List Ast → M Unit := visitAll v p

def viImperative (v : Visitor) (a : Ast) : M Unit :=
  M.bind startScope fun _ =>
  M.bind (visitFrom v a.id (a.kids.drop 1)) fun _ =>
  M.bind (childType v a 0) fun r =>
  M.bind (endScope a.lo) fun _ =>
  M.bind (expectTy "ViImperative" r) fun t =>
  setCur (.ty (.coll t))

def viIterate (v : Visitor) (a : Ast) : M Unit :=
  M.bind (childTypeDebool v a 1 EID.invalidTypeOperation) fun domain =>
  visitChildDecl v a 0 domain

def viAssign (v : Visitor) (a : Ast) : M Unit :=
  M.bind (childType v a 1) fun r => M.bind (expectTy "ViAssign" r) fun t =>
  visitChildDecl v a 0 t

/-- `typeDeductionDepth` -/
def typeDeductionDepth : Nat := 5

/-- the retry loop of `ViRecursion` (after the repair "the variable of a recursion is typed by the join of
its initial value and its step"): the argument is `variableType`; every round clears the locals,
re-declares the variable with it, types the step and joins the step's type into it. Returns the stable
`variableType` (`Merge(step, variable) == variable`), or `none` when the join does not exist (`break`) or
the type still grows after `typeDeductionDepth` rounds (`isStable == false`) -/
def recursionRounds (te : TraitEnv) (v : Visitor) (a : Ast) (idx : Nat) : Nat → Ty → M (Option Ty)
  | 0, _ => M.pure none
  | n+1, vt =>
    M.bind clearLocals fun _ =>
    M.bind (visitChildDecl v a 0 vt) fun _ =>
    M.bind (childType v a idx) fun r =>
    M.bind (expectTy "ViRecursion" r) fun nt =>
    match merge te nt vt with
    | none => M.pure none
    | some nv => if nv == vt then M.pure (some vt) else recursionRounds te v a idx n nv

def viRecursion (Γ : Ctx) (v : Visitor) (a : Ast) : M Unit :=
  M.bind startScope fun _ =>
  M.bind (childType v a 1) fun initR =>
  M.bind (expectTy "ViRecursion" initR) fun initT =>
  M.bind (visitChildDecl v a 0 initT) fun _ =>
  let isFull := a.id == .NT_RECURSIVE_FULL
  let idx := if isFull then 3 else 2
  M.bind (childType v a idx) fun itR =>
  match compatE Γ.traits itR initR with
  | none => stuckM "bad_variant_access:AreCompatible"
  | some false =>
    M.bind (kidM a idx) fun k => errFail EID.typesNotEqual k.lo
  | some true =>
    M.bind (expectTy "ViRecursion" itR) fun it0 =>
    -- the variable holds the initial value first and the values of the step afterwards: it is
    -- declared with the join of both types
    match merge Γ.traits it0 initT with
    | none => M.bind (kidM a idx) fun k => errFail EID.typesNotEqual k.lo
    | some vt0 =>
    M.bind (modifySt fun s => { s with noWarn := s.noWarn + 1 }) fun _ =>
    M.bind (recursionRounds Γ.traits v a idx typeDeductionDepth vt0) fun stable =>
    M.bind (modifySt fun s => { s with noWarn := s.noWarn - 1 }) fun _ =>
    match stable with
    | none => M.bind (kidM a idx) fun k => errFail EID.typesNotEqual k.lo   -- the recursion has no type
    | some vt =>
    M.bind (if isFull then visitChild v a 2 else M.pure ()) fun _ =>
    M.bind (endScope a.lo) fun _ =>
    setCur (.ty vt)

/-- collect `ChildTypeDebool(iter, child, eid)` for the children from index `i` on -/
def deboolAll (v : Visitor) (a : Ast) (eid : Nat) : Nat → Nat → M (List Ty)
  | 0, _ => M.pure []
  | n+1, i => M.bind (childTypeDebool v a i eid) fun t =>
              M.bind (deboolAll v a eid n (i + 1)) fun ts => M.pure (t :: ts)

def viDecart (v : Visitor) (a : Ast) : M Unit :=
  M.bind (deboolAll v a EID.invalidDecart a.kids.length 0) fun factors =>
  M.bind (mkTuple "ViDecart" factors) fun t => setCur (.ty (.coll t))

def viBoolean (v : Visitor) (a : Ast) : M Unit :=
  M.bind (childTypeDebool v a 0 EID.invalidBoolean) fun t => setCur (.ty (.coll (.coll t)))

def typesAll (v : Visitor) (a : Ast) (site : String) : Nat → Nat → M (List Ty)
  | 0, _ => M.pure []
  | n+1, i => M.bind (childType v a i) fun r => M.bind (expectTy site r) fun t =>
              M.bind (typesAll v a site n (i + 1)) fun ts => M.pure (t :: ts)

def viTuple (v : Visitor) (a : Ast) : M Unit :=
  M.bind (typesAll v a "ViTuple" a.kids.length 0) fun cs =>
  M.bind (mkTuple "ViTuple" cs) fun t => setCur (.ty t)

/-- the merge loop of `ViEnumeration` over the children from `child` on -/
def enumGo (Γ : Ctx) (v : Visitor) (a : Ast) : Nat → Nat → Ty → M Ty
  | 0, _, t => M.pure t
  | n+1, child, t =>
    M.bind (childType v a child) fun r =>
    M.bind (expectTy "ViEnumeration" r) fun ct =>
    match merge Γ.traits t ct with
    | none => M.bind (kidM a child) fun k => errFail EID.invalidEnumeration k.lo
    | some m => enumGo Γ v a n (child + 1) m

def viEnumeration (Γ : Ctx) (v : Visitor) (a : Ast) : M Unit :=
  M.bind (childType v a 0) fun r => M.bind (expectTy "ViEnumeration" r) fun t0 =>
  M.bind (enumGo Γ v a (a.kids.length - 1) 1 t0) fun t => setCur (.ty (.coll t))

def viDebool (v : Visitor) (a : Ast) : M Unit :=
  M.bind (childTypeDebool v a 0 EID.invalidDebool) fun t => setCur (.ty t)

def viSetexprBinary (Γ : Ctx) (v : Visitor) (a : Ast) : M Unit :=
  M.bind (childTypeDebool v a 0 EID.invalidTypeOperation) fun t1 =>
  M.bind (childTypeDebool v a 1 EID.invalidTypeOperation) fun t2 =>
  match merge Γ.traits t1 t2 with
  | none => M.bind (kidM a 1) fun k => errFail EID.typesNotEqual k.lo
  | some t => setCur (.ty (.coll t))

/-- the index loop shared by the projections and the filter: `none` = some `TestIndex` failed -/
def pickComponents (cs : List Ty) : List Int → Option (List Ty)
  | [] => some []
  | i :: is =>
    if Ty.testIndex cs i then
      match Ty.component? cs i, pickComponents cs is with
      | some c, some rest => some (c :: rest)
      | _, _ => none
    else none

def viProjectSet (v : Visitor) (a : Ast) : M Unit :=
  M.bind (childTypeDebool v a 0 EID.invalidProjectionSet true) fun arg =>
  if arg.isAny then setCur (.ty Ty.emptySet)
  else match arg with
    | .tuple cs =>
      M.bind (tupleOfData a) fun idx =>
      match pickComponents cs idx with
      | none => M.bind (kidM a 0) fun k => errFailTok a EID.invalidProjectionSet k.lo
      | some comps => M.bind (mkTuple "ViProjectSet" comps) fun t => setCur (.ty (.coll t))
    | _ => M.bind (kidM a 0) fun k => errFailTok a EID.invalidProjectionSet k.lo

def viProjectTuple (v : Visitor) (a : Ast) : M Unit :=
  M.bind (childType v a 0) fun r => M.bind (expectTy "ViProjectTuple" r) fun arg =>
  if arg.isAny then setCur (.ty arg)
  else match arg with
    | .tuple cs =>
      M.bind (tupleOfData a) fun idx =>
      match pickComponents cs idx with
      | none => M.bind (kidM a 0) fun k => errFailTok a EID.invalidProjectionTuple k.lo
      | some comps => M.bind (mkTuple "ViProjectTuple" comps) fun t => setCur (.ty t)
    | _ => M.bind (kidM a 0) fun k => errFailTok a EID.invalidProjectionTuple k.lo

/-- `argument.IsAnyType() || (argument.IsCollection() && argument.B().Base().IsAnyType())` -/
def anyOrEmptySet (t : Ty) : Bool :=
  t.isAny || (match t with | .coll b => b.isAny | _ => false)

/-- the parameter loop of `ViFilter` in the `tupleParam` case -/
def filterParamsGo (Γ : Ctx) (v : Visitor) (a : Ast) : Nat → Nat → List Ty → M Unit
  | 0, _, _ => M.pure ()
  | n+1, child, bases =>
    M.bind (childType v a child) fun r => M.bind (expectTy "ViFilter" r) fun pt =>
    match bases with
    | [] => stuckM "bases.at"
    | b :: rest =>
      match pt with
      | .coll pb =>
        if compat Γ.traits b pb then filterParamsGo Γ v a n (child + 1) rest
        else M.bind (kidM a child) fun k => errFail EID.typesNotEqual k.lo
      | _ => M.bind (kidM a child) fun k => errFail EID.typesNotEqual k.lo

/-- `for (child = 0; child + 1 < ChildrenCount; ++child) if (!ChildType(iter, child)) return false;` -/
def visitParamsGo (v : Visitor) (a : Ast) : Nat → Nat → M Unit
  | 0, _ => M.pure ()
  | n+1, child => M.bind (childType v a child) fun _ => visitParamsGo v a n (child + 1)

def viFilter (Γ : Ctx) (v : Visitor) (a : Ast) : M Unit :=
  M.bind (tupleOfData a) fun idx =>
  let n := a.kids.length
  let tupleParam := idx.length + 1 == n
  if !tupleParam && n > 2 then
    errFail EID.invalidFilterArity a.lo
  else
  M.bind (childType v a (n - 1)) fun r => M.bind (expectTy "ViFilter" r) fun arg =>
  if anyOrEmptySet arg then
    M.bind (visitParamsGo v a (n - 1) 0) fun _ => setCur (.ty Ty.emptySet)
  else match arg with
    | .coll (.tuple cs) =>
      (match pickComponents cs idx with
      | none => M.bind (kidM a (n - 1)) fun k => errFailTok a EID.invalidFilterArgumentType k.lo
      | some bases =>
        if tupleParam then
          M.bind (filterParamsGo Γ v a (n - 1) 0 bases) fun _ => setCur r
        else
          M.bind (childType v a 0) fun pr => M.bind (expectTy "ViFilter" pr) fun pt =>
          M.bind (mkTuple "ViFilter" bases) fun et =>
          let expected := Ty.coll et
          if pt.isColl && compat Γ.traits expected pt then setCur r
          else M.bind (kidM a 0) fun k => errFail EID.typesNotEqual k.lo)
    | _ => M.bind (kidM a (n - 1)) fun k => errFailTok a EID.invalidFilterArgumentType k.lo

def viReduce (v : Visitor) (a : Ast) : M Unit :=
  M.bind (childType v a 0) fun r => M.bind (expectTy "ViReduce" r) fun arg =>
  if anyOrEmptySet arg then setCur (.ty Ty.emptySet)
  else match arg with
    | .coll (.coll b) => setCur (.ty (.coll b))
    | _ => M.bind (kidM a 0) fun k => errFail EID.invalidReduce (k.lo + 1)

/-- `Cursor::DispatchVisit`: the token switch (the `assert`s on the child count are the
`stuck "child-index"` outcomes of the accesses) -/
def dispatch (Γ : Ctx) (v : Visitor) (parent : Option Tok) (a : Ast) : M Unit :=
  match a.id with
  | .ID_GLOBAL | .ID_FUNCTION | .ID_PREDICATE => viGlobal Γ parent a
  | .ID_LOCAL => viLocal a
  | .ID_RADICAL => viRadical Γ a
  | .NT_FUNC_DEFINITION => viFunctionDefinition v a
  | .NT_FUNC_CALL => viFunctionCall Γ v a
  | .LIT_INTSET => setCur (.ty (.coll Ty.Z))
  | .LIT_INTEGER => setCur (.ty Ty.Z)
  | .LIT_EMPTYSET => viEmptySet parent a
  | .NT_TUPLE_DECL => viTupleDeclaration v a
  | .NT_ENUM_DECL | .NT_ARGUMENTS | .NOT | .AND | .OR | .IMPLICATION | .EQUIVALENT => viAllLogic v a
  | .NT_ARG_DECL => viArgument v a
  | .PLUS | .MINUS | .MULTIPLY => viArithmetic Γ v a
  | .CARD => viCard v a
  | .FORALL | .EXISTS => viQuantifier v a
  | .EQUAL | .NOTEQUAL => viEquals Γ v a
  | .GREATER | .LESSER | .GREATER_OR_EQ | .LESSER_OR_EQ => viIntegerPredicate Γ v a
  | .IN | .NOTIN | .SUBSET | .SUBSET_OR_EQ | .NOTSUBSET => viSetexprPredicate Γ v a
  | .ITERATE => viIterate v a
  | .ASSIGN => viAssign v a
  | .NT_DECLARATIVE_EXPR => viDeclarative v a
  | .NT_IMPERATIVE_EXPR => viImperative v a
  | .DECART => viDecart v a
  | .BOOLEAN => viBoolean v a
  | .NT_RECURSIVE_FULL | .NT_RECURSIVE_SHORT => viRecursion Γ v a
  | .NT_TUPLE => viTuple v a
  | .NT_ENUMERATION | .BOOL => viEnumeration Γ v a
  | .DEBOOL => viDebool v a
  | .UNION | .INTERSECTION | .SET_MINUS | .SYMMINUS => viSetexprBinary Γ v a
  | .BIGPR => viProjectSet v a
  | .SMALLPR => viProjectTuple v a
  | .FILTER => viFilter Γ v a
  | .REDUCE => viReduce v a
  | _ => viGlobalDeclaration v a

/-- the visitor with fuel -/
def visit (Γ : Ctx) : Nat → Visitor
  | 0 => fun _ _ => stuckM "fuel"
  | n+1 => dispatch Γ (visit Γ n)

/-! ## `TypeAuditor::CheckType` -/

inductive Outcome where
  | ok (t : ExprTy)
  | fail
  | stuck (site : String)
deriving Repr, DecidableEq

structure CheckRes where
  out : Outcome
  /-- the log in the order of logging -/
  errs : List Err
  /-- `GetDeclarationArgs()` -/
  args : List (String × Ty)
  /-- ghost: see `St.silent` -/
  silent : Bool
deriving Repr

def checkWithFuel (Γ : Ctx) (fuel : Nat) (e : Ast) : CheckRes :=
  match visit Γ fuel none e {} with
  | (.ok _, s) => ⟨.ok s.cur, s.errs.reverse, s.args, s.silent⟩
  | (.fail, s) => ⟨.fail, s.errs.reverse, s.args, s.silent⟩
  | (.stuck x, s) => ⟨.stuck x, s.errs.reverse, s.args, s.silent⟩

/-- `CheckType(tree)` (`Clear()` = the initial state) -/
def check (Γ : Ctx) (e : Ast) : CheckRes := checkWithFuel Γ (Ast.depth e + 1) e

/-! ## `ValueAuditor` -/

structure VSt where
  cur : VClass := .invalid
  errs : List Err := []

abbrev VM (α : Type) := VSt → Res α × VSt

def VM.pure {α} (a : α) : VM α := fun s => (.ok a, s)
def VM.bind {α β} (m : VM α) (f : α → VM β) : VM β := fun s =>
  match m s with
  | (.ok a, s') => f a s'
  | (.fail, s') => (.fail, s')
  | (.stuck x, s') => (.stuck x, s')

def vFail {α} : VM α := fun s => (.fail, s)
def vStuck {α} (x : String) : VM α := fun s => (.stuck x, s)
def vErr (report : Bool) (eid : Nat) (pos : Int) : VM Unit := fun s =>
  (.ok (), if report then { s with errs := (eid, pos) :: s.errs } else s)
def vSet (c : VClass) : VM Unit := fun s => (.ok (), { s with cur := c })
def vGet : VM VClass := fun s => (.ok s.cur, s)

abbrev VVisitor := Ast → VM Unit

def vKid (a : Ast) (i : Nat) : VM Ast :=
  match a.kid i with | some k => VM.pure k | none => vStuck "child-index"

def vVisitChild (v : VVisitor) (a : Ast) (i : Nat) : VM Unit := VM.bind (vKid a i) v

def vVisitAll (v : VVisitor) : List Ast → VM Unit
  | [] => VM.pure ()
  | k :: ks => VM.bind (v k) fun _ => vVisitAll v ks

/-- `AssertChildIsValue(iter, index)` -/
def vAssertValue (report : Bool) (v : VVisitor) (a : Ast) (i : Nat) : VM Unit :=
  VM.bind (vKid a i) fun k => VM.bind (v k) fun _ => VM.bind vGet fun c =>
  if c != .value then VM.bind (vErr report EID.invalidPropertyUsage k.lo) fun _ => vFail else VM.pure ()

/-- `AssertAllValues(iter)` -/
def vAssertAll (report : Bool) (v : VVisitor) (a : Ast) : Nat → Nat → VM Unit
  | 0, _ => VM.pure ()
  | n+1, i => VM.bind (vAssertValue report v a i) fun _ => vAssertAll report v a n (i + 1)

def vAllSet (v : VVisitor) (a : Ast) (c : VClass) : VM Unit :=
  VM.bind (vVisitAll v a.kids) fun _ => vSet c

def vclassOf (Γ : Ctx) (name : String) : VClass := (lookup Γ.vclass name).getD .invalid

def vText (a : Ast) : VM String :=
  match a.data with | .text s => VM.pure s | _ => vStuck "bad_variant_access:ToText"

/-- argument visits of `ViFunctionCall` collecting the classes -/
def vArgs (v : VVisitor) : List Ast → VM (List VClass)
  | [] => VM.pure []
  | k :: ks => VM.bind (v k) fun _ => VM.bind vGet fun c => VM.bind (vArgs v ks) fun cs => VM.pure (c :: cs)

/-- names of the declared arguments whose actual class is `props` -/
def propsOf : List Ast → List VClass → Option (List String)
  | [], _ => some []
  | _ :: _, [] => none
  | d :: ds, c :: cs =>
    match propsOf ds cs with
    | none => none
    | some rest =>
      if c == .props then
        match d.kid 0 with
        | some (.node _ (.text s) _ _ _) => some (s :: rest)
        | _ => none
      else some rest

/-- the loop of `ValueAuditor::ViDecart` -/
def vDecartGo (v : VVisitor) : List Ast → VClass → VM Unit
  | [], t => vSet t
  | k :: ks, t => VM.bind (v k) fun _ => VM.bind vGet fun c => vDecartGo v ks (if c == .props then c else t)

/-- one `ValueAuditor` instance: `report` = has a reporter, `props` = `localProps`;
`sub` runs a fresh reporter-less auditor on another tree (for `RunCheckOnFunc`) -/
def vDispatch (Γ : Ctx) (report : Bool) (props : List String)
    (sub : List String → Ast → Res VClass) (v : VVisitor) (a : Ast) : VM Unit :=
  match a.id with
  | .ID_GLOBAL | .ID_FUNCTION | .ID_PREDICATE =>
    VM.bind (vText a) fun alias =>
    let c := vclassOf Γ alias
    if c == .invalid then VM.bind (vErr report EID.globalNoValue a.lo) fun _ => vFail else vSet c
  | .ID_LOCAL => VM.bind (vText a) fun n => vSet (if props.contains n then .props else .value)
  | .ID_RADICAL | .LIT_INTEGER | .LIT_EMPTYSET => vSet .value
  | .LIT_INTSET => vSet .props
  | .NT_FUNC_DEFINITION | .NT_ARGUMENTS | .NT_ARG_DECL | .FILTER => vVisitAll v a.kids
  | .NT_FUNC_CALL =>
    VM.bind (vKid a 0) fun k0 => VM.bind (vText k0) fun alias =>
    let ft := vclassOf Γ alias
    if ft == .invalid then VM.bind (vErr report EID.globalNoValue a.lo) fun _ => vFail
    else
      VM.bind (vArgs v (a.kids.drop 1)) fun cs =>
      if cs.all (· == .value) then vSet ft
      else match lookup Γ.asts alias with
        | none => VM.bind (vErr report EID.globalMissingAST a.lo) fun _ => vFail
        | some tree =>
          match tree.kid 1 with
          | none => vStuck "Root.Child(1)"
          | some fd =>
            match fd.kid 0, fd.kid 1 with
            | some decl, some body =>
              if decl.kids.length != cs.length then vStuck "assert:args" else
              match propsOf decl.kids cs with
              | none => vStuck "args.Child"
              | some ps =>
                match sub ps body with
                | .fail => VM.bind (vErr report EID.globalFuncNoInterpretation a.lo) fun _ => vFail
                | .stuck x => vStuck x
                | .ok c => vSet c
            | _, _ => vStuck "Child(1).Child"
  | .NT_TUPLE_DECL | .NT_ENUM_DECL => vAllSet v a .value
  | .PLUS | .MINUS | .MULTIPLY | .NOT | .AND | .OR | .IMPLICATION | .EQUIVALENT
  | .GREATER | .LESSER | .GREATER_OR_EQ | .LESSER_OR_EQ => vAllSet v a .value
  | .CARD | .BOOL | .DEBOOL | .BIGPR | .SMALLPR | .REDUCE => vAssertValue report v a 0
  | .FORALL | .EXISTS => VM.bind (vAssertValue report v a 1) fun _ => vVisitChild v a 2
  | .EQUAL | .NOTEQUAL | .NT_RECURSIVE_FULL | .NT_RECURSIVE_SHORT | .NT_TUPLE | .NT_ENUMERATION
  | .SUBSET | .NOTSUBSET => vAssertAll report v a a.kids.length 0
  | .IN | .NOTIN | .SUBSET_OR_EQ => VM.bind (vVisitChild v a 1) fun _ => vAssertValue report v a 0
  | .NT_DECLARATIVE_EXPR => VM.bind (vVisitChild v a 2) fun _ => vVisitChild v a 1
  | .NT_IMPERATIVE_EXPR => VM.bind (vVisitAll v (a.kids.drop 1)) fun _ => vAssertValue report v a 0
  | .ITERATE | .ASSIGN => vAssertValue report v a 1
  | .DECART => vDecartGo v a.kids .value
  | .BOOLEAN => VM.bind (vVisitChild v a 0) fun _ => vSet .props
  | .UNION | .INTERSECTION | .SET_MINUS | .SYMMINUS =>
    VM.bind (vVisitChild v a 0) fun _ => VM.bind vGet fun c1 =>
    VM.bind (vVisitChild v a 1) fun _ => VM.bind vGet fun c2 =>
    let v1 := c1 == .value; let v2 := c2 == .value
    let r := match a.id with
      | .INTERSECTION => v1 || v2
      | .SET_MINUS => v1
      | _ => v1 && v2
    vSet (if r then .value else .props)
  | _ =>
    -- ViGlobalDeclaration
    if a.id == .PUNC_STRUCT then VM.bind (vVisitChild v a 1) fun _ => vSet .value
    else if a.kids.length == 1 then vSet .value
    else vVisitChild v a 1

/-- visitor of one auditor instance; `fuel` bounds tree depth plus nesting of function bodies -/
def vVisit (Γ : Ctx) : Nat → Bool → List String → VVisitor
  | 0, _, _ => fun _ => vStuck "fuel"
  | n+1, report, props =>
    vDispatch Γ report props
      (fun ps body =>
        match vVisit Γ n false ps body {} with
        | (.ok _, s) => .ok s.cur
        | (.fail, _) => .fail
        | (.stuck x, _) => .stuck x)
      (vVisit Γ n report props)

structure VRes where
  out : Option VClass   -- `none` = Check returned false
  stuck : Option String
  errs : List Err
deriving Repr

/-- `ValueAuditor::Check(tree)` with `fuel` -/
def vcheck (Γ : Ctx) (fuel : Nat) (e : Ast) : VRes :=
  match vVisit Γ fuel true [] e {} with
  | (.ok _, s) => ⟨some s.cur, none, s.errs.reverse⟩
  | (.fail, s) => ⟨none, none, s.errs.reverse⟩
  | (.stuck x, s) => ⟨none, some x, s.errs.reverse⟩

end CCVerif.Checker
