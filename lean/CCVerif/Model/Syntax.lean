/-
Shared syntax model of RSLang (used by C01–C06, C18, C04): token kinds in the order of
`enum class TokenID` (ccl/rslang/include/ccl/rslang/RSToken.h — the order is checked against the
source by tools/gen_tables.py on every run), token payload, and the syntax tree
(`SyntaxTree::Node`: token + children; ranges are code-point ranges).
-/
namespace CCVerif.Syntax

inductive Tok where
  | ID_LOCAL | ID_GLOBAL | ID_FUNCTION | ID_PREDICATE | ID_RADICAL
  | LIT_INTEGER | LIT_INTSET | LIT_EMPTYSET
  | PLUS | MINUS | MULTIPLY
  | GREATER | LESSER | GREATER_OR_EQ | LESSER_OR_EQ
  | EQUAL | NOTEQUAL
  | FORALL | EXISTS | NOT | EQUIVALENT | IMPLICATION | OR | AND
  | IN | NOTIN | SUBSET | SUBSET_OR_EQ | NOTSUBSET
  | DECART | UNION | INTERSECTION | SET_MINUS | SYMMINUS | BOOLEAN
  | BIGPR | SMALLPR | FILTER | CARD | BOOL | DEBOOL | REDUCE
  | DECLARATIVE | RECURSIVE | IMPERATIVE
  | ITERATE | ASSIGN
  | PUNC_DEFINE | PUNC_STRUCT | PUNC_PL | PUNC_PR | PUNC_CL | PUNC_CR | PUNC_SL | PUNC_SR
  | PUNC_BAR | PUNC_COMMA | PUNC_SEMICOLON
  | NT_ENUM_DECL | NT_TUPLE | NT_ENUMERATION | NT_TUPLE_DECL | NT_ARG_DECL
  | NT_FUNC_DEFINITION | NT_ARGUMENTS | NT_FUNC_CALL
  | NT_DECLARATIVE_EXPR | NT_IMPERATIVE_EXPR | NT_RECURSIVE_FULL | NT_RECURSIVE_SHORT
  | INTERRUPT | END
deriving Repr, DecidableEq, Inhabited, BEq

/-- all token kinds, in declaration order (first one has the numeric value 258) -/
def Tok.all : List Tok := [
  .ID_LOCAL, .ID_GLOBAL, .ID_FUNCTION, .ID_PREDICATE, .ID_RADICAL,
  .LIT_INTEGER, .LIT_INTSET, .LIT_EMPTYSET,
  .PLUS, .MINUS, .MULTIPLY,
  .GREATER, .LESSER, .GREATER_OR_EQ, .LESSER_OR_EQ,
  .EQUAL, .NOTEQUAL,
  .FORALL, .EXISTS, .NOT, .EQUIVALENT, .IMPLICATION, .OR, .AND,
  .IN, .NOTIN, .SUBSET, .SUBSET_OR_EQ, .NOTSUBSET,
  .DECART, .UNION, .INTERSECTION, .SET_MINUS, .SYMMINUS, .BOOLEAN,
  .BIGPR, .SMALLPR, .FILTER, .CARD, .BOOL, .DEBOOL, .REDUCE,
  .DECLARATIVE, .RECURSIVE, .IMPERATIVE,
  .ITERATE, .ASSIGN,
  .PUNC_DEFINE, .PUNC_STRUCT, .PUNC_PL, .PUNC_PR, .PUNC_CL, .PUNC_CR, .PUNC_SL, .PUNC_SR,
  .PUNC_BAR, .PUNC_COMMA, .PUNC_SEMICOLON,
  .NT_ENUM_DECL, .NT_TUPLE, .NT_ENUMERATION, .NT_TUPLE_DECL, .NT_ARG_DECL,
  .NT_FUNC_DEFINITION, .NT_ARGUMENTS, .NT_FUNC_CALL,
  .NT_DECLARATIVE_EXPR, .NT_IMPERATIVE_EXPR, .NT_RECURSIVE_FULL, .NT_RECURSIVE_SHORT,
  .INTERRUPT, .END]

/-- numeric value of the enumerator (`ID_LOCAL = 258`) -/
def Tok.code (t : Tok) : Nat := 258 + Tok.all.idxOf t
def Tok.ofCode (n : Nat) : Option Tok := if n < 258 then none else Tok.all[n - 258]?

/-- the enumerator's C++ name (used by the line protocol) -/
def Tok.name (t : Tok) : String := (toString (repr t)).replace "CCVerif.Syntax.Tok." ""
def Tok.ofName (s : String) : Option Tok := Tok.all.find? (fun t => t.name == s)

/-- `TokenData`: empty, `int32_t`, text (identifier spelling), or index tuple (`pr1,2`) -/
inductive TokData where
  | none
  | int (n : Int)
  | text (s : String)
  | tuple (idx : List Int)
deriving Repr, DecidableEq, Inhabited, BEq

/-- syntax tree node; `lo`/`hi` = `token.pos.start/finish` -/
inductive Ast where
  | node (id : Tok) (data : TokData) (lo hi : Int) (kids : List Ast)
deriving Repr, Inhabited

namespace Ast
def id : Ast → Tok | node t _ _ _ _ => t
def data : Ast → TokData | node _ d _ _ _ => d
def lo : Ast → Int | node _ _ l _ _ => l
def hi : Ast → Int | node _ _ _ h _ => h
def kids : Ast → List Ast | node _ _ _ _ k => k
def kid (a : Ast) (i : Nat) : Option Ast := a.kids[i]?

mutual
/-- structural equality ignoring ranges (`SyntaxTree::operator==` compares id and data only) -/
def eqv : Ast → Ast → Bool
  | node t1 d1 _ _ k1, node t2 d2 _ _ k2 => t1 == t2 && d1 == d2 && eqvList k1 k2
def eqvList : List Ast → List Ast → Bool
  | [], [] => true
  | a :: as, b :: bs => eqv a b && eqvList as bs
  | _, _ => false
end

def hexOfString (s : String) : String :=
  String.join (s.toUTF8.toList.map fun (b : UInt8) =>
    let hd (n : Nat) : Char := if n < 10 then Char.ofNat (48 + n) else Char.ofNat (87 + n)
    String.ofList [hd (b.toNat / 16), hd (b.toNat % 16)])

def dataWire : TokData → String
  | .none => "_"
  | .int n => s!"i{n}"
  | .text s => "t" ++ hexOfString s
  | .tuple idx => "x" ++ ".".intercalate (idx.map toString)

mutual
/-- wire form used by the line protocol (no spaces): `NAME:data:lo:hi[kid,kid,…]`;
data: `_`, `i<n>`, `t<hex of utf8>`, `x<i1>.<i2>…` -/
def toWire : Ast → String
  | node t d l h ks => s!"{t.name}:{dataWire d}:{l}:{h}[{kidsWire ks}]"
def kidsWire : List Ast → String
  | [] => ""
  | [k] => toWire k
  | k :: ks => toWire k ++ "," ++ kidsWire ks
end

end Ast

end CCVerif.Syntax
