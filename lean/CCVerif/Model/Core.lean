/-
Model of the identity / ordering bookkeeping of a schema (C09):
IdentityManager.cpp, CstNameGenerator.cpp, EntityGenerator.cpp, CstList.cpp, RSCore.cpp
(insertion paths, Erase, SetAliasFor, ResetAliases, MoveBefore, Load), RSForm.cpp (tracking
guards) and rsModificationFacet.cpp.

Formal definitions and texts are opaque here (analysis is irrelevant to this property): the
state keeps, per constituent, uid / alias / kind. The random `EntityGenerator::NewUID` is an
explicit input (`fresh`): the harness passes the uid the implementation actually drew; `step`
returns `none` for an inadmissible input (a "fresh" uid that is already taken), which the
real generator never produces.
-/
namespace CCVerif.Core

inductive CstType where
  | base | constant | structured | ax | term | function | thm | predicate
deriving Repr, DecidableEq, Inhabited

namespace CstType
/-- numeric value of the enumerator (CstType.hpp) -/
def code : CstType → Nat
  | base => 1 | constant => 2 | structured => 4 | ax => 5 | term => 6
  | function => 7 | thm => 8 | predicate => 9
/-- `IsBasic` -/
def isBasic : CstType → Bool
  | base | constant | structured => true
  | _ => false
/-- the `priorities` table of `HasPriorityOver` (CstList.cpp) -/
def priority : CstType → Nat
  | base => 4 | constant => 3 | structured => 2 | _ => 1
/-- `FirstLetterOf` (CstNameGenerator.cpp) -/
def letter : CstType → Char
  | base => 'X' | constant => 'C' | structured => 'S' | ax => 'A' | term => 'D'
  | function => 'F' | thm => 'T' | predicate => 'P'
def all : List CstType := [base, constant, structured, ax, term, function, thm, predicate]
end CstType

def hasPriorityOver (strong weak : CstType) : Bool := strong.priority > weak.priority

/-- `IsNameCorrect`: at least two characters, a kind letter, then only digits -/
def isNameCorrect (name : String) : Bool :=
  match name.toList with
  | c :: d :: rest => (CstType.all.any (·.letter == c)) && (d :: rest).all Char.isDigit
  | _ => false

/-- `GetTypeForName` -/
def typeForName (name : String) : Option CstType :=
  if isNameCorrect name then CstType.all.find? (·.letter == name.front) else none

def nameFrom (t : CstType) (i : Nat) : String := String.singleton t.letter ++ toString i

structure Cst where
  uid : Nat
  alias : String
  type : CstType
deriving Repr, DecidableEq, Inhabited

structure St where
  /-- `EntityGenerator::entities` -/
  ids : List Nat := []
  /-- `CstNameGenerator::names` -/
  names : List String := []
  /-- `Schema::storage` (keyed by uid) -/
  store : List Cst := []
  /-- keys of `Thesaurus::storage` -/
  texts : List Nat := []
  /-- `CstList::order` -/
  order : List Nat := []
  /-- keys of `rsModificationFacet::cvs` -/
  tracking : List Nat := []
deriving Repr, DecidableEq, Inhabited

def St.find (st : St) (u : Nat) : Option Cst := st.store.find? (·.uid == u)
def St.contains (st : St) (u : Nat) : Bool := (st.find u).isSome
def St.typeOf (st : St) (u : Nat) : CstType := ((st.find u).map (·.type)).getD .base

/-- `NewNameFor(type)`: first free `<letter><n>`, n = 1, 2, …; fuel = |names| + 1 suffices -/
def newNameGo (names : List String) (t : CstType) : Nat → Nat → String
  | 0, i => nameFrom t i
  | fuel+1, i => if names.contains (nameFrom t i) then newNameGo names t fuel (i+1) else nameFrom t i
def newNameFor (names : List String) (t : CstType) : String := newNameGo names t (names.length + 1) 1

/-- `NeedNameChangeFor` -/
def needNameChange (names : List String) (name : String) (t : CstType) : Bool :=
  names.contains name || (match typeForName name with | none => true | some nt => nt != t)

/-- `RegisterID(uid, name, type)`: result `(ids', names', uid', alias')`; `fresh` is consumed
only when `uid` is taken. `none`: inadmissible `fresh`. -/
def registerID (ids : List Nat) (names : List String) (uid : Nat) (name : String) (t : CstType) (fresh : Nat) :
    Option (List Nat × List String × Nat × String) :=
  let alias := if needNameChange names name t then newNameFor names t else name
  let names' := alias :: names
  if ids.contains uid then
    if ids.contains fresh then none else some (fresh :: ids, names', fresh, alias)
  else some (uid :: ids, names', uid, alias)

/-- `CstList::InsertPositionFor` as an index into `order` -/
def insertPosition (st : St) (order : List Nat) (t : CstType) : Nat :=
  if t.isBasic then
    -- index of the last element whose kind code is ≤ the inserted one
    let idxs := (List.range order.length).filter (fun i => (st.typeOf (order.getD i 0)).code ≤ t.code)
    match idxs.getLast? with
    | some i => i + 1
    | none =>
      match order with
      | first :: _ => if (st.typeOf first).code > t.code then 0 else order.length
      | [] => order.length
  else order.length

def insertAt (l : List Nat) (i : Nat) (x : Nat) : List Nat := l.take i ++ x :: l.drop i

/-- common tail of every insertion path: store + texts + list -/
def insertCst (st : St) (ids : List Nat) (names : List String) (c : Cst) : St :=
  let st1 : St := { st with ids := ids, names := names,
                             store := c :: st.store.filter (·.uid != c.uid),
                             texts := c.uid :: st.texts.filter (· != c.uid) }
  { st1 with order := insertAt st1.order (insertPosition st1 st1.order c.type) c.uid }

/-- `CanMoveBefore(what, iWhere)`; positions are indices, `order.length` = `end()` -/
def canMoveBefore (st : St) (order : List Nat) : Nat → Nat → Nat → Bool
  | 0, _, _ => false
  | fuel+1, what, wh =>
    let ty (i : Nat) := st.typeOf (order.getD i 0)
    if what = wh then true
    else if wh = order.length then canMoveBefore st order fuel (wh - 1) what
    else if wh = 0 then !hasPriorityOver (ty wh) (ty what)
    else !hasPriorityOver (ty wh) (ty what) && !hasPriorityOver (ty what) (ty (wh - 1))

/-- `order.splice(iWhere, order, iWhat)` -/
def splice (order : List Nat) (what wh : Nat) : List Nat :=
  let x := order.getD what 0
  let without := order.eraseIdx what
  let wh' := if what < wh then wh - 1 else wh
  insertAt without wh' x

inductive Op where
  /-- `RSForm::Emplace(type, _)`; `fresh` = the uid drawn by `GenerateNewID` -/
  | emplace (t : CstType) (fresh : Nat)
  /-- `InsertCopy(record)` / `InsertCopy(uid, source)` / `Load(record)` / `Insert(record)` -/
  | insert (uid : Nat) (alias : String) (t : CstType) (fresh : Nat)
  | erase (uid : Nat)
  /-- `RSForm::EraseInternal` as called by `DeleteDuplicatesInternal` / equations: no tracking
  guard (the tracking record is dropped with the constituent) -/
  | eraseInternal (uid : Nat)
  | setAlias (uid : Nat) (name : String)
  | moveBefore (what : Nat) (wherePos : Nat)
  | resetAliases
  | track (uid : Nat)
  /-- `RSForm::SetExpressionFor` on the bookkeeping level: only the tracking guard matters -/
  | setExpression (uid : Nat)
deriving Repr, DecidableEq

/-- result reported to the caller: the bool of the C++ call, or the uid of the new constituent -/
inductive Out where
  | bool (b : Bool)
  | uid (u : Nat)
  | unit
  | unspecified
deriving Repr, DecidableEq

/-- `ResetAliases`: re-register every constituent in list order with a fresh alias of its kind -/
def resetAliasesGo (st : St) : List Nat → List String → List Cst → List String × List Cst
  | [], names, acc => (names, acc.reverse)
  | u :: rest, names, acc =>
    let t := st.typeOf u
    let a := newNameFor names t
    resetAliasesGo st rest (a :: names) ({ uid := u, alias := a, type := t } :: acc)

def step (st : St) : Op → Option (St × Out)
  | .emplace t fresh =>
    if st.ids.contains fresh then none
    else
      let alias := newNameFor st.names t
      some (insertCst st (fresh :: st.ids) (alias :: st.names) { uid := fresh, alias := alias, type := t }, .uid fresh)
  | .insert uid alias t fresh =>
    match registerID st.ids st.names uid alias t fresh with
    | none => none
    | some (ids, names, u, a) => some (insertCst st ids names { uid := u, alias := a, type := t }, .uid u)
  | .erase uid =>
    if st.tracking.contains uid then some (st, .bool false)
    else match st.find uid with
      | none => some (st, .bool false)
      | some c =>
        some ({ ids := st.ids.filter (· != uid), names := st.names.filter (· != c.alias),
                store := st.store.filter (·.uid != uid), texts := st.texts.filter (· != uid),
                order := st.order.filter (· != uid), tracking := st.tracking.filter (· != uid) }, .bool true)
  | .eraseInternal uid =>
    match st.find uid with
    | none => some (st, .bool false)
    | some c =>
      some ({ ids := st.ids.filter (· != uid), names := st.names.filter (· != c.alias),
              store := st.store.filter (·.uid != uid), texts := st.texts.filter (· != uid),
              order := st.order.filter (· != uid), tracking := st.tracking.filter (· != uid) }, .bool true)
  | .setAlias uid name =>
    match st.find uid with
    | none => some (st, .bool false)
    | some c =>
      if c.alias = name then some (st, .bool false)
      else if !st.names.contains c.alias || needNameChange st.names name c.type then some (st, .bool false)
      else
        some ({ st with names := name :: st.names.filter (· != c.alias),
                        store := st.store.map (fun x => if x.uid = uid then { x with alias := name } else x) }, .bool true)
  | .moveBefore what wh =>
    if !st.contains what then some (st, .bool false)
    else
      let iWhat := st.order.findIdx (· == what)
      if iWhat ≥ st.order.length then some (st, .bool false)
      else if wh > st.order.length then none
      else if canMoveBefore st st.order 3 iWhat wh then
        some ({ st with order := splice st.order iWhat wh }, .bool true)
      else some (st, .bool false)
  | .resetAliases =>
    let (names, cs) := resetAliasesGo st st.order [] []
    -- constituents keep their uid; the registry of uids is rebuilt from the list
    some ({ st with ids := st.order.reverse, names := names,
                    store := st.store.map (fun x => ((cs.find? (·.uid == x.uid)).getD x)) }, .unit)
  | .track uid =>
    if st.contains uid then some ({ st with tracking := uid :: st.tracking.filter (· != uid) }, .unit)
    else some (st, .unit)
  | .setExpression uid =>
    if st.tracking.contains uid then some (st, .bool false)
    else if !st.contains uid then some (st, .bool false)
    else some (st, .unspecified)

def init : St := {}

/-- run a history; `none` if some step was given an inadmissible `fresh` / position -/
def run : List Op → Option St
  | [] => some init
  | ops => ops.foldl (fun acc op => acc.bind (fun st => (step st op).map (·.1))) (some init)

end CCVerif.Core
