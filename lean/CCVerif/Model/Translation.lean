/-
Model of `EntityTranslation` (ccl/cclGraph/include/ccl/Entity.hpp) and of the key/value
bookkeeping of `EquationOptions` (ccl/core/src/ops/EquationOptions.cpp) — C12.
A translation is a finite map uid ↦ uid (`std::unordered_map`), modelled as an association list
with distinct keys; iteration order is irrelevant to every function below (proved).
-/
namespace CCVerif.Translation

abbrev Tr := List (Nat × Nat)

def lookup (t : Tr) (k : Nat) : Option Nat := (t.find? (·.1 == k)).map (·.2)
def containsKey (t : Tr) (k : Nat) : Bool := (lookup t k).isSome
def containsValue (t : Tr) (v : Nat) : Bool := t.any (·.2 == v)
def keys (t : Tr) : List Nat := t.map (·.1)

/-- `Insert` (`emplace`: an existing key is kept) -/
def insert (t : Tr) (k v : Nat) : Tr := if containsKey t k then t else t ++ [(k, v)]
def erase (t : Tr) (k : Nat) : Tr := t.filter (·.1 != k)

/-- `SubstituteValues(substitutes)`: every value that is a key of `substitutes` is replaced by
its image — once per entry (the C++ assigns through `relations[key]` while iterating) -/
def substituteValues (t s : Tr) : Tr := t.map (fun p => (p.1, (lookup s p.2).getD p.2))

/-- `SuperposeWith(second)` -/
def superposeWith (t s : Tr) : Tr :=
  s.foldl (fun acc p => if containsKey acc p.1 then acc else acc ++ [p]) (substituteValues t s)

/-- `Identity()` over a list of uids -/
def identity (uids : List Nat) : Tr := uids.map (fun u => (u, u))

/-- equation mode flags: 1 keepHier, 2 keepDel, 3 createNew -/
structure Eqs where
  tr : Tr := []
  mode : List (Nat × Nat) := []
deriving Repr, DecidableEq

def Eqs.modeOf (e : Eqs) (k : Nat) : Nat := (lookup e.mode k).getD 1

/-- `EquationOptions::SwapKeyVal(key)` -/
def Eqs.swapKeyVal (e : Eqs) (key : Nat) : Eqs × Bool :=
  match lookup e.tr key with
  | none => (e, false)
  | some newKey =>
    if containsKey e.tr newKey then (e, false)
    else
      let m := e.modeOf key
      let m' := if m = 3 then 3 else if m = 1 then 2 else 1
      ({ tr := insert (erase e.tr key) newKey key, mode := (erase e.mode key) ++ [(newKey, m')] }, true)

end CCVerif.Translation
