/-
Model of ccl/cclGraph/src/CGraph.cpp (C14).

`graph` is the vector of vertices (slots are never reused; an erased vertex stays as a
tombstone with `valid = false`), `inputs`/`outputs` are vectors of slot indices. The
`verticies` hash map (uid ↦ slot of the live vertex) is modelled as the derived function
`indexFor` — the C++ keeps it in sync by hand; a de-synchronisation would show up in the
correspondence run. Arguments of type `unordered_set` are lists in the iteration order the
implementation actually used (supplied by the harness). Every function names the C++ it follows.
-/
namespace CCVerif.Graph

structure Vx where
  uid : Nat
  valid : Bool := true
  inputs : List Nat := []
  outputs : List Nat := []
deriving Repr, DecidableEq, Inhabited

abbrev G := List Vx

def empty : G := []

/-- `verticies.at(uid)` / `verticies.contains(uid)` -/
def indexFor (g : G) (u : Nat) : Option Nat := g.findIdx? (fun v => v.valid && v.uid == u)
def contains (g : G) (u : Nat) : Bool := (indexFor g u).isSome

def vx (g : G) (i : Nat) : Vx := g.getD i { uid := 0, valid := false }

/-- `AddInternal` -/
def addInternal (g : G) (u : Nat) : G × Nat :=
  match indexFor g u with
  | some i => (g, i)
  | none => (g ++ [{ uid := u }], g.length)

def addItem (g : G) (u : Nat) : G := (addInternal g u).1

/-- `HasEdge(source, destination)` on slot indices -/
def hasEdge (g : G) (s d : Nat) : Bool := (vx g s).outputs.contains d

/-- `ConnectionExists` -/
def connectionExists (g : G) (s d : Nat) : Bool :=
  match indexFor g s, indexFor g d with
  | some i, some j => hasEdge g i j
  | _, _ => false

def modifyAt (g : G) (i : Nat) (f : Vx → Vx) : G := g.modify i f

/-- `AddConnection` -/
def addConnection (g : G) (s d : Nat) : G :=
  if connectionExists g s d then g
  else
    let (g1, i) := addInternal g s
    let (g2, j) := addInternal g1 d
    let g3 := modifyAt g2 i (fun v => { v with outputs := v.outputs ++ [j] })
    modifyAt g3 j (fun v => { v with inputs := v.inputs ++ [i] })

/-- the two `for` loops of `EraseInternal` / the first loop of `SetItemInputs`:
remove the first occurrence of `item` from a field of each listed vertex -/
def eraseFromInputsOf (g : G) (item : Nat) (dests : List Nat) : G :=
  dests.foldl (fun g d => modifyAt g d (fun v => { v with inputs := v.inputs.erase item })) g
def eraseFromOutputsOf (g : G) (item : Nat) (srcs : List Nat) : G :=
  srcs.foldl (fun g s => modifyAt g s (fun v => { v with outputs := v.outputs.erase item })) g

/-- `EraseItem` (+ `EraseInternal`) -/
def eraseItem (g : G) (u : Nat) : G :=
  match indexFor g u with
  | none => g
  | some i =>
    let g1 := eraseFromInputsOf g i (vx g i).outputs
    -- second loop iterates the (possibly already modified) inputs of the vertex itself
    let g2 := eraseFromOutputsOf g1 i (vx g1 i).inputs
    modifyAt g2 i (fun v => { v with valid := false, inputs := [], outputs := [] })

/-- `SetItemInputs(item, connectedItems)`; `srcs` in the set's iteration order -/
def setItemInputs (g : G) (u : Nat) (srcs : List Nat) : G :=
  let (g1, i) := addInternal g u
  let g2 := eraseFromOutputsOf g1 i (vx g1 i).inputs
  let g3 := modifyAt g2 i (fun v => { v with inputs := [] })
  srcs.foldl (fun g s =>
    let (g', j) := addInternal g s
    let g'' := modifyAt g' i (fun v => { v with inputs := v.inputs ++ [j] })
    modifyAt g'' j (fun v => { v with outputs := v.outputs ++ [i] })) g3

def clear (_ : G) : G := []

/-! ### queries -/

def itemsCount (g : G) : Nat := (g.filter (·.valid)).length
def connectionsCount (g : G) : Nat := (g.map (·.outputs.length)).sum

/-- `InputsFor` (result is a set: printed sorted) -/
def inputsFor (g : G) (u : Nat) : List Nat :=
  match indexFor g u with
  | none => []
  | some i => (vx g i).inputs.map (fun k => (vx g k).uid)

def setAt (l : List Bool) (i : Nat) : List Bool := l.set i true

/-- worklist of `ExpandOutputs` / `ExpandInputs`: `stack` is `toVisit` (top = head),
returns the visited slots in visiting order. -/
def expandLoop (g : G) (next : Vx → List Nat) : Nat → List Nat → List Bool → List Nat → List Nat
  | 0, _, _, acc => acc.reverse
  | _, [], _, acc => acc.reverse
  | fuel+1, item :: rest, marked, acc =>
    let (stack', marked') := (next (vx g item)).foldl
      (fun (sm : List Nat × List Bool) child =>
        if sm.2.getD child false then sm else (child :: sm.1, setAt sm.2 child)) (rest, marked)
    expandLoop g next fuel stack' marked' (item :: acc)

def expandInit (g : G) (input : List Nat) : List Nat × List Bool :=
  input.foldl (fun (sm : List Nat × List Bool) u =>
    match indexFor g u with
    | some i => (i :: sm.1, setAt sm.2 i)
    | none => sm) ([], List.replicate g.length false)

def expandGen (g : G) (next : Vx → List Nat) (input : List Nat) : List Nat :=
  let (stack, marked) := expandInit g input
  (expandLoop g next (g.length + 1) stack marked []).map (fun i => (vx g i).uid)

def expandOutputs (g : G) (input : List Nat) : List Nat := expandGen g (·.outputs) input
def expandInputs (g : G) (input : List Nat) : List Nat := expandGen g (·.inputs) input

/-- `IsReachableFrom(dest, source)` -/
def isReachableFrom (g : G) (dest source : Nat) : Bool :=
  if connectionExists g source dest then true
  else if source = dest then false
  else (expandOutputs g [source]).contains dest

def statusAt (st : List Nat) (i : Nat) : Nat := st.getD i 0

/-- inner `while` of `HasLoop`; `none` = "return true" (loop found) -/
def hasLoopInner (g : G) : Nat → List Nat → List Nat → Option (List Nat)
  | 0, _, st => some st
  | _, [], st => some st
  | fuel+1, item :: rest, st =>
    if statusAt st item = 0 then
      let st1 := st.set item 1
      -- scan children in order: a grey child aborts, white children are pushed
      let r := (vx g item).outputs.foldl
        (fun (acc : Option (List Nat)) child =>
          match acc with
          | none => none
          | some stack =>
            if statusAt st1 child = 1 then none
            else if statusAt st1 child = 0 then some (child :: stack) else some stack)
        (some (item :: rest))
      match r with
      | none => none
      | some stack => hasLoopInner g fuel stack st1
    else
      hasLoopInner g fuel rest (st.set item 2)

def totalEdges (g : G) : Nat := connectionsCount g
def dfsFuel (g : G) : Nat := 3 * g.length + 2 * totalEdges g + 4

def hasLoopOuter (g : G) : List Nat → List Nat → Bool
  | [], _ => false
  | index :: more, st =>
    if statusAt st index > 1 then hasLoopOuter g more st
    else match hasLoopInner g (dfsFuel g) [index] st with
      | none => true
      | some st' => hasLoopOuter g more st'

/-- `HasLoop` -/
def hasLoop (g : G) : Bool := hasLoopOuter g (List.range g.length) (List.replicate g.length 0)

/-- inner `while` of `InternalOrder` -/
def orderInner (g : G) : Nat → List Nat → List Nat → List Nat → List Nat × List Nat
  | 0, _, st, out => (st, out)
  | _, [], st, out => (st, out)
  | fuel+1, item :: rest, st, out =>
    if statusAt st item = 0 then
      let st1 := st.set item 1
      let stack := (vx g item).outputs.foldl
        (fun stack child => if statusAt st1 child = 0 then child :: stack else stack) (item :: rest)
      orderInner g fuel stack st1 out
    else if statusAt st item ≠ 2 then
      orderInner g fuel rest (st.set item 2) (item :: out)
    else
      orderInner g fuel rest st out

def orderOuter (g : G) : List Nat → List Nat → List Nat → List Nat
  | [], _, out => out.reverse
  | index :: more, st, out =>
    if statusAt st index ≠ 0 || !(vx g index).valid then orderOuter g more st out
    else
      let (st', out') := orderInner g (dfsFuel g) [index] st out
      orderOuter g more st' out'

/-- `InternalOrder` (slot indices, DFS finishing order) -/
def internalOrder (g : G) : List Nat :=
  orderOuter g (List.range g.length) (List.replicate g.length 0) []

def inverseTopologicalOrder (g : G) : List Nat := (internalOrder g).map (fun i => (vx g i).uid)
def topologicalOrder (g : G) : List Nat := (inverseTopologicalOrder g).reverse
/-- `Sort(input)`: the members of `TopologicalOrder` that are in `input` (empty input ⇒ empty) -/
def sort (g : G) (input : List Nat) : List Nat :=
  if input.isEmpty then [] else (topologicalOrder g).filter (input.contains ·)

/-- component search of `GetAllLoopsItems` (a plain forward/backward search from `index`) -/
def componentLoop (g : G) (next : Vx → List Nat) : Nat → List Nat → List Bool → List Nat → List Nat × List Bool
  | 0, _, marked, comp => (comp.reverse, marked)
  | _, [], marked, comp => (comp.reverse, marked)
  | fuel+1, item :: rest, marked, comp =>
    let (stack', marked') := (next (vx g item)).foldl
      (fun (sm : List Nat × List Bool) child =>
        if sm.2.getD child false then sm else (child :: sm.1, setAt sm.2 child)) (rest, marked)
    componentLoop g next fuel stack' marked' (item :: comp)

/-- Which vertices are start points and which adjacency is followed is the only thing the
`fix:` for the loop-group defect changes, so both variants are kept: `groupsFwd` is the code as
pinned (InternalOrder ascending, follow outputs), `groupsKosaraju` the repaired code
(InternalOrder descending, follow inputs). `getAllLoopsItems` is whichever /repo has now
(selected by the generated table `Generated/GraphVariant.lean`). -/
def groupsGen (g : G) (next : Vx → List Nat) : List Nat → List Bool → List (List Nat) → List (List Nat)
  | [], _, res => res.reverse
  | index :: more, marked, res =>
    if marked.getD index false then groupsGen g next more marked res
    else
      let (comp, marked') := componentLoop g next (g.length + 1) [index] (setAt marked index) []
      if comp.length ≠ 1 || hasEdge g index index then
        groupsGen g next more marked' (comp.map (fun i => (vx g i).uid) :: res)
      else groupsGen g next more marked' res

def groupsFwd (g : G) : List (List Nat) :=
  groupsGen g (·.outputs) (internalOrder g) (List.replicate g.length false) []
def groupsKosaraju (g : G) : List (List Nat) :=
  groupsGen g (·.inputs) (internalOrder g).reverse (List.replicate g.length false) []

/-! ### abstraction: the mathematical digraph represented -/

def liveUids (g : G) : List Nat := (g.filter (·.valid)).map (·.uid)
/-- edges as pairs of uids, read off the `outputs` vectors -/
def edges (g : G) : List (Nat × Nat) :=
  g.flatMap (fun v => v.outputs.map (fun o => (v.uid, (vx g o).uid)))

end CCVerif.Graph

namespace CCVerif.Graph

/-- update operations of a history (`SetItemInputs` carries the iteration order of its set) -/
inductive Op where
  | addItem (u : Nat)
  | eraseItem (u : Nat)
  | addConnection (s d : Nat)
  | setItemInputs (u : Nat) (srcs : List Nat)
  | clear
deriving Repr, DecidableEq

def applyOp (g : G) : Op → G
  | .addItem u => addItem g u
  | .eraseItem u => eraseItem g u
  | .addConnection s d => addConnection g s d
  | .setItemInputs u srcs => setItemInputs g u srcs
  | .clear => clear g

def run (ops : List Op) : G := ops.foldl applyOp empty

/-- `GetAllLoopsItems` as in /repo after the `fix:` commit -/
def getAllLoopsItems (g : G) : List (List Nat) := groupsKosaraju g

end CCVerif.Graph
