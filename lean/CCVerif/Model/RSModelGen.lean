import CCVerif.Model.SchemaGen
/-
The value bookkeeping of `Model/RSModel.lean` (C11: RSModel.cpp AfterInsert / Erase /
SetExpressionFor / ResetDependants, rsValuesFacet ResetFor, rsCalculationFacet Calculate /
CalculateCstInternal / RecalculateAll) on top of the GENERIC schema machine `Model/SchemaGen.lean`,
with the evaluation as a PARAMETER instead of the definition fragment:

* `V` — the type of values,
* `Eval D I V` — `verified`: the guard of `CalculateCstInternal` on the analysis entry
  (`status == VERIFIED`); `baseReset`: the value `ResetFor` gives a base set (the empty set);
  `eval ctx c`: the value of the definition of `c`, where `ctx name` is the value stored for the
  constituent the name denotes (`none`: no such constituent, or no value stored).

Base sets carry data that is edited from outside: the three editing entry points of the fragment
model (`AddBasicElement`, `SetBasicText` with a changed key set, `ResetDataFor`) all are "store a
new value for the base set, then `ResetDependants`" and are one operation `setBase` here (the text
interpretation itself is not part of the value bookkeeping). Only the repaired code paths.
-/
namespace CCVerif.RSModelGen
open CCVerif CCVerif.SchemaGen
open CCVerif.Schema (Kind)

structure Eval (D I V : Type) where
  verified : I → Bool
  baseReset : V
  eval : (String → Option V) → Cst D → Option V

structure St (D I V : Type) where
  sch : SchemaGen.St D I := {}
  /-- `InterpretationStorage::rsData` -/
  rs : List (Nat × V) := []
  /-- `calculatedEntities` -/
  calcd : List Nat := []
deriving Inhabited

section
variable {D I V : Type}

def St.dataFor (st : St D I V) (u : Nat) : Option V := (st.rs.find? (·.1 == u)).map (·.2)
def St.setData (st : St D I V) (u : Nat) (d : V) : St D I V := { st with rs := (u, d) :: st.rs.filter (·.1 != u) }
def St.eraseData (st : St D I V) (u : Nat) : St D I V := { st with rs := st.rs.filter (·.1 != u) }
def St.kindOf (st : St D I V) (u : Nat) : Option Kind := (st.sch.at u).map (·.kind)

variable (A : Analysis D I) (E : Eval D I V)

/-- `rsValuesFacet::ResetFor` -/
def St.resetFor (st : St D I V) (u : Nat) : St D I V :=
  let st := st.eraseData u
  match st.kindOf u with
  | some .base => st.setData u E.baseReset
  | _ => st

/-- `calculatorFacet->ResetFor` + `dataFacet->ResetFor` -/
def St.resetBoth (st : St D I V) (u : Nat) : St D I V :=
  { (st.resetFor E u) with calcd := st.calcd.filter (· != u) }

/-- body of `ResetDependants` for a given expansion -/
def St.resetItems (st : St D I V) (items : List Nat) (target : Nat) : St D I V :=
  items.foldl (fun s d => if d != target && s.kindOf d == some .term then s.resetBoth E d else s) st

/-- `ResetDependants(target)` -/
def St.resetDependants (st : St D I V) (target : Nat) : St D I V :=
  let sch := st.sch.ensureGraph A
  let st := { st with sch := sch }
  st.resetItems E (Graph.expandOutputs sch.graph [target]) target

/-- the context `CalculateCstInternal` hands to the evaluator -/
def St.vctx (st : St D I V) : String → Option V := fun n => (st.sch.findAlias n).bind st.dataFor

/-- `CalculateCstInternal`: returns the new state and the success flag -/
def St.calculateInternal (st : St D I V) (u : Nat) : St D I V × Bool :=
  match st.sch.at u with
  | none => (st, false)
  | some c =>
    if !E.verified (st.sch.infoFor A u) then (st, false)
    else
      let st := { st with calcd := if st.calcd.contains u then st.calcd else u :: st.calcd }
      match E.eval st.vctx c with
      | some v => (st.setData u v, true)
      | none => (st, false)

/-- `RecalculateAll` -/
def St.recalculateAll (st : St D I V) : St D I V :=
  let sch := st.sch.ensureGraph A
  let st := { st with sch := sch, calcd := [] }
  let st := st.sch.store.foldl (fun s c => if c.kind == .term then s.resetFor E c.uid else s) st
  (Graph.topologicalOrder sch.graph).foldl
    (fun s u => if s.kindOf u == some .term then (s.calculateInternal A E u).1 else s) st

end

inductive Op (D V : Type) where
  | schema (op : SchemaGen.Op D)
  /-- a data edit on a base set (`AddBasicElement`, `SetBasicText`, `ResetDataFor`) -/
  | setBase (u : Nat) (v : V)
  | calculate (u : Nat)
  | recalculateAll

section
variable {D I V : Type} [DecidableEq D] (A : Analysis D I) (E : Eval D I V)

def step (st : St D I V) : Op D V → St D I V
  | .schema (.insert c) =>
    if st.sch.hasInfo c.uid then st
    else
      let st := { st with sch := SchemaGen.step A st.sch (.insert c) }
      st.resetBoth E c.uid
  | .schema (.erase u) =>
    if !st.sch.contains u then st
    else
      let sch := st.sch.ensureGraph A
      let deps := Graph.expandOutputs sch.graph [u]
      let st := { st with sch := SchemaGen.step A sch (.erase u) }
      let st := { (st.eraseData u) with calcd := st.calcd.filter (· != u) }
      st.resetItems E deps u
  | .schema (.setDef u d) =>
    match st.sch.at u with
    | none => st
    | some c =>
      if d = c.defn then st
      else
        let copy := (st.sch.store.find? (·.defn == d)).map (·.uid)
        let realChange := copy != some u
        let st := { st with sch := SchemaGen.step A st.sch (.setDef u d) }
        if realChange then
          let st := st.resetBoth E u
          st.resetDependants A E u
        else st
  | .schema (.setAlias u a false) =>
    if !st.sch.contains u then { st with sch := SchemaGen.step A st.sch (.setAlias u a false) }
    else
      let sch := st.sch.ensureGraph A
      let deps := Graph.expandOutputs sch.graph [u]
      let sch' := SchemaGen.step A sch (.setAlias u a false)
      if (st.sch.at u).map (·.alias) == some a then { st with sch := sch' }
      else ({ st with sch := sch' } : St D I V).resetItems E deps u
  | .schema op => { st with sch := SchemaGen.step A st.sch op }
  | .setBase u v =>
    if st.kindOf u != some .base then st
    else (st.setData u v).resetDependants A E u
  | .calculate u =>
    if st.kindOf u != some .term then st
    else (st.calculateInternal A E u).1.resetDependants A E u
  | .recalculateAll => st.recalculateAll A E

def run (ops : List (Op D V)) : St D I V := ops.foldl (step A E) {}

/-- values a full recalculation from the current base data and definitions gives -/
def St.recomputed (st : St D I V) : St D I V :=
  ({ st with sch := st.sch.scratch A } : St D I V).recalculateAll A E

/-- what the model reports per constituent: (uid, calculated?, value) -/
def St.report (st : St D I V) : List (Nat × Bool × Option V) :=
  st.sch.store.map (fun c => (c.uid, st.calcd.contains c.uid, st.dataFor c.uid))

/-- the property: every calculated term with a value shows the recomputed value -/
def St.Fresh (st : St D I V) : Prop :=
  ∀ c ∈ st.sch.store, c.kind = .term → st.calcd.contains c.uid = true → ∀ v, st.dataFor c.uid = some v →
    (st.recomputed A E).dataFor c.uid = some v

end

end CCVerif.RSModelGen
