import CCVerif.Model.SchemaGen
import CCVerif.Model.Refs
/-!
Model of the TEXT layer of a conceptual schema (C07, second half):
`ccl/core/src/semantic/thesaurus/Thesaurus.cpp` (+ `TextConcept.cpp`), over
`ccl/cclLang` `LexicalTerm` / `ManagedText` (`InitFrom`, `UpdateFrom`, `TranslateRefs`, `Str`).

State of `Thesaurus`: `storage` (std::map by uid: alias, term = raw text + manual forms + resolved
cache, definition = raw text + resolved cache) and the two lazily rebuilt `UpdatableGraph`s
`termGraph` (edges: entity mentioned in a TERM → the mentioning entity) and `defGraph` (entity mentioned
in a DEFINITION text → the mentioning entity), each with its own `invalid` flag.

Reference resolution is a parameter `L : Lang T F`:
* `mentions raw`   — `ManagedText::Referals()`: the entity names of the references of the raw text;
* `resolve raw ctx` — `RefsManager{ctx}.Resolve(raw)`; `ctx name` is what `TextContext::At(name)`
  offers: `none` when `FindAlias` fails, else the term of the FIRST entity (uid order) with that alias,
  seen through `LexicalTerm::GetForm`: `text.Str()` and the manual forms;
* `translate f raw` — `ManagedText::TranslateRaw(f)`;
* `empty`          — the empty string (`Str()` = `empty(cache) ? rawText : cache`).
`refsLang` is the instance built from the C17 model `Model/Refs.lean` (`resolve`, `referals`,
`translateRaw` of the current code).

Every definition names the C++ it follows, including the ORDER of propagation in `OnTermChange`
(terms of `TermGraph().ExpandOutputs({target})` in `TermGraph().Sort` order, then the definitions
of `DefGraph().ExpandOutputs(expansion)`), the early exits (`SetTermFor` / `SetDefinitionFor` on an
unchanged raw text, `SetTermFormFor` on an unchanged manual form, `SetAliasFor` on an unchanged
alias, `Emplace` on a known uid, `Erase` of an unknown uid, `UpdateFor` on a broken graph) and the
intermediate resolutions `InitFrom` / `TranslateRefs` perform before the propagation.
Unchecked `storage.at(uid)` is the explicit flag `stuck`.

Not modelled: `LexicalTerm::cachedForms` (a cache of `Inflect(text.Str(), form)`, cleared at every
change of the text; the one window in which it can be stale — `SetText` resolving a reference of the
term TO ITSELF before `ClearForms` — concerns self-referencing terms only, which the theorems
exclude and the harness does not generate); `TextEnvironment::skipResolving` is off; `std::unordered_set`
iteration orders (`expansion` is kept in ascending uid order: the definitions updated from it do not
read each other); `Load` (no `UpdateState`).
-/
namespace CCVerif.Thesaurus
open CCVerif
open CCVerif.Schema (sortDedup lookup)

/-- what `TextContext::At(name)` lets the resolver see of a `LexicalTerm` -/
structure TermView (T F : Type) where
  str : T
  manual : List (F × T)

structure Lang (T F : Type) where
  empty : T
  mentions : T → List String
  resolve : T → (String → Option (TermView T F)) → T
  translate : (String → Option String) → T → T

/-- the content of a `TextConcept` (the caches live in `St.tCache` / `St.dCache`) -/
structure TCst (T F : Type) where
  uid : Nat
  alias : String
  termRaw : T
  manual : List (F × T)
  defRaw : T

structure St (T F : Type) where
  store : List (TCst T F)            -- ascending uid
  tCache : Nat → T                   -- `term.text.cache` per uid
  dCache : Nat → T                   -- `definition.cache` per uid
  tGraph : Graph.G
  tInvalid : Bool
  dGraph : Graph.G
  dInvalid : Bool
  /-- an unchecked `storage.at(uid)` was reached with an unknown uid (`std::out_of_range`) -/
  stuck : Bool

section
variable {T F : Type}

def setCache (f : Nat → T) (u : Nat) (v : T) : Nat → T := fun x => if x = u then v else f x

def modifyAt (s : List (TCst T F)) (u : Nat) (f : TCst T F → TCst T F) : List (TCst T F) :=
  s.map (fun x => if x.uid == u then f x else x)

def St.at (st : St T F) (u : Nat) : Option (TCst T F) := st.store.find? (·.uid == u)
def St.contains (st : St T F) (u : Nat) : Bool := (st.at u).isSome

/-- the record `FindAlias` selects: first entity (uid order) with that alias -/
def findC (s : List (TCst T F)) (a : String) : Option (TCst T F) := s.find? (·.alias == a)
/-- `Thesaurus::FindAlias` -/
def findAliasL (s : List (TCst T F)) (a : String) : Option Nat := (findC s a).map (·.uid)

def insertC (c : TCst T F) : List (TCst T F) → List (TCst T F)
  | [] => [c]
  | d :: ds => if c.uid < d.uid then c :: d :: ds else if c.uid = d.uid then d :: ds else d :: insertC c ds

variable [DecidableEq T] [DecidableEq F]

/-- `LexicalTerm::IsFormManual(form) ? GetManualForm(form)` -/
def lookupForm : List (F × T) → F → Option T
  | [], _ => none
  | (k, v) :: rest, f => if k = f then some v else lookupForm rest f

/-- `manualForms[form] = text` -/
def setForm (m : List (F × T)) (f : F) (t : T) : List (F × T) :=
  if (lookupForm m f).isSome then m.map (fun p => if p.1 = f then (f, t) else p) else m ++ [(f, t)]

variable (L : Lang T F)

def St.init : St T F :=
  { store := [], tCache := fun _ => L.empty, dCache := fun _ => L.empty,
    tGraph := [], tInvalid := false, dGraph := [], dInvalid := false, stuck := false }

/-- `ManagedText::Str()` -/
def strOf (raw cache : T) : T := if cache = L.empty then raw else cache

/-- the context in which the term of the entity with uid `v` has the cache `jf v` -/
def ctxOfL (s : List (TCst T F)) (jf : Nat → T) : String → Option (TermView T F) :=
  fun m => (findC s m).map (fun d => ⟨strOf L d.termRaw (jf d.uid), d.manual⟩)

/-- `Thesaurus::Context()` as the resolver reads it now -/
def St.ctx (st : St T F) : String → Option (TermView T F) := ctxOfL L st.store st.tCache

/-- updater of `termGraph`: uids of the entities the term mentions -/
def inputsT (s : List (TCst T F)) (c : TCst T F) : List Nat :=
  sortDedup ((L.mentions c.termRaw).filterMap (findAliasL s))
/-- updater of `defGraph` -/
def inputsD (s : List (TCst T F)) (c : TCst T F) : List Nat :=
  sortDedup ((L.mentions c.defRaw).filterMap (findAliasL s))

/-- `termGraph.UpdateFor(item)`: no-op while broken; the updater does `thesaurus.At(entity)` -/
def St.tUpdateFor (st : St T F) (u : Nat) : St T F :=
  if st.tInvalid then st
  else match st.at u with
    | none => { st with stuck := true }
    | some c => { st with tGraph := Graph.setItemInputs st.tGraph u (inputsT L st.store c) }

def St.dUpdateFor (st : St T F) (u : Nat) : St T F :=
  if st.dInvalid then st
  else match st.at u with
    | none => { st with stuck := true }
    | some c => { st with dGraph := Graph.setItemInputs st.dGraph u (inputsD L st.store c) }

/-- `TermGraph()`: rebuild when broken -/
def St.ensureT (st : St T F) : St T F :=
  if st.tInvalid then
    st.store.foldl (fun s c => s.tUpdateFor L c.uid) { st with tGraph := [], tInvalid := false }
  else st

/-- `DefGraph()` -/
def St.ensureD (st : St T F) : St T F :=
  if st.dInvalid then
    st.store.foldl (fun s c => s.dUpdateFor L c.uid) { st with dGraph := [], dInvalid := false }
  else st

/-- `storage.at(entity).term.UpdateFrom(context)` -/
def St.updTerm (st : St T F) (u : Nat) : St T F :=
  match st.at u with
  | none => { st with stuck := true }
  | some c => { st with tCache := setCache st.tCache u (L.resolve c.termRaw (st.ctx L)) }

/-- `storage.at(entity).definition.UpdateFrom(context)` -/
def St.updDef (st : St T F) (u : Nat) : St T F :=
  match st.at u with
  | none => { st with stuck := true }
  | some c => { st with dCache := setCache st.dCache u (L.resolve c.defRaw (st.ctx L)) }

/-- `Thesaurus::UpdateState()`: all terms in `TermGraph().TopologicalOrder()`, then all definitions
in the same order -/
def St.updateState (st : St T F) : St T F :=
  let st := st.ensureT L
  let order := Graph.topologicalOrder st.tGraph
  let st := order.foldl (St.updTerm L) st
  order.foldl (St.updDef L) st

/-- `Thesaurus::OnTermChange(target)` -/
def St.onTermChange (st : St T F) (target : Nat) : St T F :=
  let st := st.ensureT L
  let expansion := sortDedup (Graph.expandOutputs st.tGraph [target])
  let ordered := Graph.sort st.tGraph expansion
  let st := ordered.foldl (St.updTerm L) st
  let st := st.ensureD L
  let expansion2 := sortDedup (Graph.expandOutputs st.dGraph expansion)
  expansion2.foldl (St.updDef L) st

/-- `term.TranslateRefs(f, context)` of one entity: `TranslateRaw`, then `UpdateFrom` in the context
as it is at that moment -/
def St.trTerm (st : St T F) (f : String → Option String) (u : Nat) : St T F :=
  match st.at u with
  | none => { st with stuck := true }
  | some c =>
    let st1 := { st with store := modifyAt st.store u (fun x => { x with termRaw := L.translate f x.termRaw }) }
    { st1 with tCache := setCache st1.tCache u (L.resolve (L.translate f c.termRaw) (st1.ctx L)) }

/-- `definition.TranslateRefs(f, context)` of one entity -/
def St.trDef (st : St T F) (f : String → Option String) (u : Nat) : St T F :=
  match st.at u with
  | none => { st with stuck := true }
  | some c =>
    let st1 := { st with store := modifyAt st.store u (fun x => { x with defRaw := L.translate f x.defRaw }) }
    { st1 with dCache := setCache st1.dCache u (L.resolve (L.translate f c.defRaw) (st1.ctx L)) }

/-- one round of the loop of `TranslateAll`: `TextConcept::Translate` (term, then definition),
`defGraph.UpdateFor`, `termGraph.UpdateFor` -/
def St.trStep (st : St T F) (f : String → Option String) (u : Nat) : St T F :=
  (((st.trTerm L f u).trDef L f u).dUpdateFor L u).tUpdateFor L u

/-- `Thesaurus::TranslateAll` -/
def St.translateAll (st : St T F) (f : String → Option String) : St T F :=
  ((st.store.map (·.uid)).foldl (fun s u => s.trStep L f u) st).updateState L

inductive Op (T F : Type) where
  /-- `Emplace` / `Insert` / `InsertCopy` (the caches a new entity arrives with are overwritten by `UpdateState`) -/
  | insert (c : TCst T F)
  | erase (u : Nat)
  | setAlias (u : Nat) (a : String) (subst : Bool)
  | setTerm (u : Nat) (t : T)
  | setTermForm (u : Nat) (t : T) (f : F)
  | setDef (u : Nat) (t : T)
  /-- `SubstitueAliases(map)` -/
  | substitute (m : List (String × String))
  /-- `Translate(target, map)` -/
  | translate (u : Nat) (m : List (String × String))
  | translateTerm (u : Nat) (m : List (String × String))
  | translateDef (u : Nat) (m : List (String × String))
  | translateAll (m : List (String × String))
  | updateState

def step (st : St T F) : Op T F → St T F
  | .insert c =>
    if st.contains c.uid then st
    else ({ st with store := insertC c st.store, dInvalid := true, tInvalid := true } : St T F).updateState L
  | .erase u =>
    if !st.contains u then st
    else
      -- `CGraph::EraseItem` works on the vertex data whether or not the graph is marked broken
      ({ st with tGraph := Graph.eraseItem st.tGraph u, dGraph := Graph.eraseItem st.dGraph u,
                 store := st.store.filter (·.uid != u) } : St T F).updateState L
  | .setAlias u a subst =>
    match st.at u with
    | none => st
    | some c =>
      if c.alias = a then st
      else
        let st : St T F := { st with tInvalid := true, dInvalid := true,
                                     store := modifyAt st.store u (fun x => { x with alias := a }) }
        if subst then st.translateAll L (fun n => if n == c.alias then some a else none)
        else st.updateState L
  | .setTerm u t =>
    match st.at u with
    | none => st
    | some c =>
      if c.termRaw = t then st
      else
        -- `LexicalTerm::SetText`: `text.InitFrom(ref, cntxt)` (raw, then `UpdateFrom`), then `ClearForms`
        let st1 : St T F := { st with store := modifyAt st.store u (fun x => { x with termRaw := t }) }
        let st2 : St T F := { st1 with tCache := setCache st1.tCache u (L.resolve t (st1.ctx L)) }
        let st3 : St T F := { st2 with store := modifyAt st2.store u (fun x => { x with manual := [] }) }
        (st3.tUpdateFor L u).onTermChange L u
  | .setTermForm u t f =>
    match st.at u with
    | none => st
    | some c =>
      if lookupForm c.manual f = some t then st
      else
        ({ st with store := modifyAt st.store u (fun x => { x with manual := setForm x.manual f t }) } : St T F).onTermChange L u
  | .setDef u t =>
    match st.at u with
    | none => st
    | some c =>
      if c.defRaw = t then st
      else
        let st1 : St T F := { st with store := modifyAt st.store u (fun x => { x with defRaw := t }) }
        let st2 : St T F := { st1 with dCache := setCache st1.dCache u (L.resolve t (st1.ctx L)) }
        st2.dUpdateFor L u
  | .substitute m =>
    let st : St T F := { st with store := st.store.map (fun x => { x with alias := (lookup m x.alias).getD x.alias }),
                                 dInvalid := true, tInvalid := true }
    st.translateAll L (lookup m)
  | .translate u m =>
    ((((st.trTerm L (lookup m) u).trDef L (lookup m) u).dUpdateFor L u).tUpdateFor L u).onTermChange L u
  | .translateTerm u m => ((st.trTerm L (lookup m) u).tUpdateFor L u).onTermChange L u
  | .translateDef u m => (st.trDef L (lookup m) u).dUpdateFor L u
  | .translateAll m => st.translateAll L (lookup m)
  | .updateState => st.updateState L

def run (ops : List (Op T F)) : St T F := ops.foldl (step L) (St.init L)

/-- a thesaurus freshly built from the same content: empty caches, no graphs, `UpdateState` -/
def St.scratch (st : St T F) : St T F :=
  ({ St.init L with store := st.store, tInvalid := true, dInvalid := true } : St T F).updateState L

/-- observable texts per entity, in uid order: uid, alias, raw term, `term.Nominal()`,
raw definition, `definition.Str()` -/
def St.report (st : St T F) : List (Nat × String × T × T × T × T) :=
  st.store.map (fun c => (c.uid, c.alias, c.termRaw, strOf L c.termRaw (st.tCache c.uid),
    c.defRaw, strOf L c.defRaw (st.dCache c.uid)))

/-- edges `(mentioned uid, uid)` of the two graphs as `TermGraph()` / `DefGraph()` report them -/
def St.termEdges (st : St T F) : List (Nat × Nat) :=
  let st := st.ensureT L
  st.store.flatMap (fun c => (sortDedup (Graph.inputsFor st.tGraph c.uid)).map (·, c.uid))
def St.defEdges (st : St T F) : List (Nat × Nat) :=
  let st := st.ensureD L
  st.store.flatMap (fun c => (sortDedup (Graph.inputsFor st.dGraph c.uid)).map (·, c.uid))

end

/-! ### the instance over the C17 model of `cclLang` -/

open CCVerif.Refs in
/-- an entity name (bytes) as the `String` key of the store -/
def nameStr (b : Strings.Bytes) : String := String.ofList (b.map Char.ofNat)

open CCVerif.Refs in
def toTerm (v : TermView Strings.Bytes Morph) : Term := ⟨v.str, v.manual⟩

open CCVerif.Refs in
/-- `RefsManager::Resolve`, `ManagedText::Referals`, `ManagedText::TranslateRaw` of the current code
(which never faults: `no_fault` of C17; the `stuck` branches are unreachable) -/
def refsLang : Lang Strings.Bytes Morph where
  empty := []
  mentions := fun raw =>
    match referals Variant.current raw with
    | .ok l => l.map nameStr
    | .stuck _ => []
  resolve := fun raw ctx =>
    match resolve Variant.current (fun n => (ctx (nameStr n)).map toTerm) raw with
    | .ok r => r.1
    | .stuck _ => raw
  translate := fun f raw =>
    -- the translator works on names; a new name is spelled with its UTF-8 bytes
    match translateRaw Variant.current (fun n => (f (nameStr n)).map (fun s => s.toUTF8.toList.map (·.toNat))) raw with
    | .ok r => r
    | .stuck _ => raw

end CCVerif.Thesaurus
