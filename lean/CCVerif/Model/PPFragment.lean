import CCVerif.Model.Parser
import CCVerif.Model.Printer
/-! The fragment `E` of syntax trees covered by `parse_print_partial` (C05), its token-level printing
`toks` and the reader `ofAst` (definitions only; the proofs are in `Lemmas/ParsePrint.lean`).
Kept apart from the lemma file so that the model driver depends on definitions only. -/
namespace CCVerif.PP
open CCVerif.Syntax CCVerif.Generated CCVerif.Lexer CCVerif.Parser CCVerif.Printer

/-! ## the fragment -/

/-- fragment phrases. An n-ary product `k1×k2×…×kn` is `prodN (… (prod2 k1 k2) …) kn`: `prod2` starts a
`DECART` node, `prodN p k` appends the factor `k` to the node `p` (which must be `prod2`/`prodN`);
a factor that is itself a product is a separate node (`prod2`/`prodN` in factor position). -/
inductive E where
  | atom (id : Tok) (d : TokData)
  | text (f : Tok) (d : TokData) (a : E)
  | sbin (op : Tok) (l r : E)
  | prod2 (a b : E)
  | prodN (p k : E)
  | pred (op : Tok) (l r : E)
  | neg (x : E)
  | lbin (op : Tok) (l r : E)
deriving Repr

inductive Side where
  | left | right
deriving Repr, DecidableEq

def isAtomId : Tok → Bool
  | .ID_LOCAL | .ID_GLOBAL | .ID_RADICAL | .LIT_INTEGER | .LIT_INTSET | .LIT_EMPTYSET => true
  | _ => false

/-- binary operators of `setexpr_binary` except `×` (which is n-ary: `prod2`/`prodN`) -/
def isSetOp7 : Tok → Bool
  | .PLUS | .MINUS | .MULTIPLY | .UNION | .SET_MINUS | .SYMMINUS | .INTERSECTION => true
  | _ => false

/-- `true` = set expression, `false` = logic -/
def E.isS : E → Bool
  | .atom .. | .text .. | .sbin .. | .prod2 .. | .prodN .. => true
  | _ => false

def E.isProd : E → Bool
  | .prod2 .. | .prodN .. => true
  | _ => false

/-- token id of the root -/
def E.top : E → Tok
  | .atom id _ => id
  | .text f _ _ => f
  | .sbin op _ _ => op
  | .prod2 .. | .prodN .. => .DECART
  | .pred op _ _ => op
  | .neg _ => .NOT
  | .lbin op _ _ => op

def E.wf : E → Bool
  | .atom id _ => isAtomId id
  | .text f _ a => isTextFn f && a.isS && a.wf
  | .sbin op l r => isSetOp7 op && l.isS && r.isS && l.wf && r.wf
  | .prod2 a b => a.isS && b.isS && a.wf && b.wf
  | .prodN p k => p.isProd && k.isS && p.wf && k.wf
  | .pred op l r => isPredOp op && l.isS && r.isS && l.wf && r.wf
  | .neg x => !x.isS && x.wf
  | .lbin op l r => isLogicOp op && !l.isS && !r.isS && l.wf && r.wf

/-- the tree as the shared `Ast` (all positions 0) -/
def E.ast : E → Ast
  | .atom id d => .node id d 0 0 []
  | .text f d a => .node f d 0 0 [a.ast]
  | .sbin op l r => .node op .none 0 0 [l.ast, r.ast]
  | .prod2 a b => .node .DECART .none 0 0 [a.ast, b.ast]
  | .prodN p k => .node .DECART .none 0 0 (p.ast.kids ++ [k.ast])
  | .pred op l r => .node op .none 0 0 [l.ast, r.ast]
  | .neg x => .node .NOT .none 0 0 [x.ast]
  | .lbin op l r => .node op .none 0 0 [l.ast, r.ast]

/-! ## bracket decisions of the printer (`ViArithmetic`, `ViDecart`, `ViLogicBinary`, `ViNegation`) -/

def brSet (p c : Tok) : Side → Bool
  | .left => p != c && compareOps p c == .greater
  | .right => p == c || compareOps p c == .equal || compareOps p c == .greater

/-- `ViDecart`: a factor is bracketed when it is a product, when `×` binds tighter than it, or when it
binds equally and is not the first factor -/
def brProd (first : Bool) (c : Tok) : Bool :=
  c == .DECART || compareOps .DECART c == .greater || (!first && compareOps .DECART c == .equal)

def brLogic (p c : Tok) : Side → Bool
  | .left => p != c && compareOps p c == .greater
  | .right => p == c || compareOps p c == .greater

def brNot (c : Tok) : Bool := compareOps .NOT c == .greater

/-- token with empty range -/
def tk (id : Tok) (d : TokData := .none) : LTok := ⟨id, d, 0, 0⟩

def wrap (b : Bool) (ts : Toks) : Toks := if b then tk .PUNC_PL :: (ts ++ [tk .PUNC_PR]) else ts

/-- the token sequence of the printed text -/
def E.toks : E → Toks
  | .atom id d => [tk id d]
  | .text f d a => tk f d :: tk .PUNC_PL :: (a.toks ++ [tk .PUNC_PR])
  | .sbin op l r => wrap (brSet op l.top .left) l.toks ++ tk op :: wrap (brSet op r.top .right) r.toks
  | .prod2 a b => wrap (brProd true a.top) a.toks ++ tk .DECART :: wrap (brProd false b.top) b.toks
  | .prodN p k => p.toks ++ tk .DECART :: wrap (brProd false k.top) k.toks
  | .pred op l r => l.toks ++ tk op :: r.toks
  | .neg x => tk .NOT :: wrap (brNot x.top) x.toks
  | .lbin op l r => wrap (brLogic op l.top .left) l.toks ++ tk op :: wrap (brLogic op r.top .right) r.toks

def wrapRaw (b : Bool) (a : Ast) : Ast := if b then .node .PUNC_PL .none 0 0 [a] else a

/-- the raw tree the parser builds before `CreateSyntaxTree` (bracket nodes kept) -/
def E.raw : E → Ast
  | .atom id d => .node id d 0 0 []
  | .text f d a => .node f d 0 0 [a.raw]
  | .sbin op l r => .node op .none 0 0 [wrapRaw (brSet op l.top .left) l.raw, wrapRaw (brSet op r.top .right) r.raw]
  | .prod2 a b => .node .DECART .none 0 0 [wrapRaw (brProd true a.top) a.raw, wrapRaw (brProd false b.top) b.raw]
  | .prodN p k => .node .DECART .none 0 0 (p.raw.kids ++ [wrapRaw (brProd false k.top) k.raw])
  | .pred op l r => .node op .none 0 0 [l.raw, r.raw]
  | .neg x => .node .NOT .none 0 0 [wrapRaw (brNot x.top) x.raw]
  | .lbin op l r => .node op .none 0 0 [wrapRaw (brLogic op l.top .left) l.raw, wrapRaw (brLogic op r.top .right) r.raw]

/-- nonterminal of the phrase -/
def E.kind : E → K
  | .atom .. | .text .. => .set
  | .sbin .. | .prod2 .. | .prodN .. => .setBin
  | .pred .. => .pred
  | .neg _ => .unary
  | .lbin .. => .lbin

/-- kind of a phrase that may be wrapped in parentheses -/
def wrapKind (b : Bool) (k : K) : K :=
  if b then (match k with | .setBin => .setBin | _ => .lpar) else k

/-- bison precedence of an operator token (index of its `%left` line) -/
def prec (t : Tok) : Nat := match precOf t with | some (p, _) => p | none => 0

/-- lowest precedence on the unbracketed left spine = precedence of the root operator; other
phrases bind tighter than anything -/
def E.low : E → Nat
  | .sbin op _ _ => prec op
  | .prod2 .. | .prodN .. => prec .DECART
  | .lbin op _ _ => prec op
  | _ => 100

/-- a generous size measure: the fuel any sub-parser needs on this phrase -/
def E.sz : E → Nat
  | .atom .. => 4
  | .text _ _ a => a.sz + 8
  | .sbin _ l r => l.sz + r.sz + 16
  | .prod2 a b => a.sz + b.sz + 16
  | .prodN p k => p.sz + k.sz + 16
  | .pred _ l r => l.sz + r.sz + 8
  | .neg x => x.sz + 16
  | .lbin _ l r => l.sz + r.sz + 16

/-- root operator of a binary set phrase -/
def E.binTop? : E → Option Tok
  | .sbin cop _ _ => some cop
  | .prod2 .. | .prodN .. => some .DECART
  | _ => none

def condOK (p c : Tok) : Side → Bool
  | .left => decide (prec p ≤ prec c)
  | .right => decide (prec p < prec c)

/-- what the grammar needs from the bracket decisions at every binary node: an operand that is a
binary operator of the same family is bracketed, or binds at least as tightly (left) / strictly
tighter (right); a product in factor position is bracketed; nothing else is ever bracketed -/
def okChildS (p : Tok) (c : E) (side : Side) : Bool :=
  match c.binTop? with
  | some cop => brSet p cop side || condOK p cop side
  | none => !brSet p c.top side

def okFactor (first : Bool) (c : E) : Bool :=
  match c.binTop? with
  | some cop => brProd first cop || (cop != .DECART && condOK .DECART cop (if first then .left else .right))
  | none => !brProd first c.top

def okChildL (p : Tok) (c : E) (side : Side) : Bool :=
  match c with
  | .lbin cop _ _ => brLogic p cop side || condOK p cop side
  | .pred .. => true
  | _ => !brLogic p c.top side

def okNot (c : E) : Bool :=
  match c with
  | .lbin cop _ _ => brNot cop
  | .pred .. => true
  | _ => !brNot c.top

def E.ok : E → Bool
  | .atom .. => true
  | .text _ _ a => a.ok
  | .sbin op l r => okChildS op l .left && okChildS op r .right && l.ok && r.ok
  | .prod2 a b => okFactor true a && okFactor false b && a.ok && b.ok
  | .prodN p k => okFactor false k && p.ok && k.ok
  | .pred _ l r => l.ok && r.ok
  | .neg x => okNot x && x.ok
  | .lbin op l r => okChildL op l .left && okChildL op r .right && l.ok && r.ok

/-! ## reading a fragment phrase off an `Ast` -/

mutual
/-- the fragment phrase an `Ast` denotes, if it lies in the fragment (positions ignored) -/
def ofAst : Ast → Option E
  | .node id d _ _ kids =>
    match ofAstList kids with
    | none => none
    | some es =>
      if isAtomId id then (match es with | [] => some (.atom id d) | _ => none)
      else if isTextFn id then (match es with | [a] => some (.text id d a) | _ => none)
      else if isSetOp7 id then (match d, es with | .none, [l, r] => some (.sbin id l r) | _, _ => none)
      else if isPredOp id then (match d, es with | .none, [l, r] => some (.pred id l r) | _, _ => none)
      else if isLogicOp id then (match d, es with | .none, [l, r] => some (.lbin id l r) | _, _ => none)
      else if id == .NOT then (match d, es with | .none, [x] => some (.neg x) | _, _ => none)
      else if id == .DECART then
        (match d, es with
         | .none, a :: b :: rest => some (rest.foldl (fun p k => E.prodN p k) (.prod2 a b))
         | _, _ => none)
      else none
def ofAstList : List Ast → Option (List E)
  | [] => some []
  | k :: ks =>
    match ofAst k, ofAstList ks with
    | some e, some es => some (e :: es)
    | _, _ => none
end

end CCVerif.PP
