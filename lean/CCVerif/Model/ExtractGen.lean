import CCVerif.Model.SchemaGen
import CCVerif.Model.Extract
/-!
Model of the COPY step of `OpExtractBasis` / `OpMaxPart` (ccl/core/src/ops/RSOperations.cpp) — C13 —
on the generic schema machine `Model/SchemaGen.lean` (the per-constituent analysis is a parameter):

```
auto res = std::make_unique<RSForm>();
res->InsertCopy(<selected uids in list order>, schema.Core());     // RSCore::InsertCopy(VectorOfEntities, RSCore)
res->ResetAliases();                                                // RSCore::ResetAliases
```

`RSCore::InsertCopy(const VectorOfEntities& input, const RSCore& source)` (bulk):
```
for (uid : input) {
  newID = identifiers.RegisterID(uid, source.GetRS(uid).alias, source.GetRS(uid).type);
  newRS = source.GetRS(uid); newRS.uid = newID.uid; newRS.alias = newID.alias;  schema.Load(newRS);
  cstList.Insert(newID.uid);  result.emplace_back(newID.uid);
  if (source.GetRS(uid).alias != newID.alias) replMap.insert({ source alias, newID.alias });
}
if (!empty(replMap)) for (uid : result) Translate(uid, CreateTranslator(replMap));   // Schema::Translate
UpdateState();
```
`RegisterID` keeps the uid unless it is taken (then a random fresh uid: outcome `none` here — cannot
happen in an empty target with distinct uids) and keeps the alias unless `NeedNameChangeFor` (taken, or
not a name of that kind), then `NewNameFor(type)`; `NewNameFor` loops until the name is free, so a
generated name that is taken is the outcome `none` (as in `Model/Merge.lean`, no hypothesis on the rule).
`CstList::Insert`: a basic kind after the last constituent whose kind is not greater (front when there
is none), every other kind at the end; with the two kinds of the generic machine: a base set after the
last base set.

`RSCore::ResetAliases`: the name generator is cleared; in list order every constituent gets
`NewNameFor(kind)`; changed aliases go into ONE map; `Schema::SubstitueAliases(map)` = the machine's
`substitute` step (alias fields and all mentions simultaneously, then a full `UpdateState`).

The name generator is a parameter (`Names`); the driver instantiates it with the real rule.
-/
namespace CCVerif.ExtractGen
open CCVerif CCVerif.SchemaGen
open CCVerif.Schema (Kind lookup sortDedup)

structure Names where
  newName : List String → Kind → String
  /-- `GetTypeForName(alias) == kind` -/
  okFor : String → Kind → Bool

/-- a schema with its list order (`RSCore::schema` + `RSCore::cstList`) -/
structure Sch (D I : Type) where
  st : St D I := {}
  order : List Nat := []

/-- `CstList::InsertPositionFor(base)`: after the last base set; `none` when there is no base set -/
def insertAfterLastBase (x : Nat × Kind) : List (Nat × Kind) → Option (List (Nat × Kind))
  | [] => none
  | y :: ys =>
    match insertAfterLastBase x ys with
    | some r => some (y :: r)
    | none => if y.2 = .base then some (y :: x :: ys) else none

/-- `CstList::Insert` (the list carries the kind `types(uid)` reads from the store) -/
def listInsert (l : List (Nat × Kind)) (x : Nat × Kind) : List (Nat × Kind) :=
  match x.2 with
  | .base => (insertAfterLastBase x l).getD (x :: l)
  | .term => l ++ [x]

section
variable {D I : Type} [DecidableEq D] (A : Analysis D I) (g : Names)

/-- state of the loop of the bulk `InsertCopy` -/
structure CopySt (D I : Type) where
  st : St D I := {}
  order : List (Nat × Kind) := []
  /-- `CstNameGenerator::names` of the target -/
  taken : List String := []
  /-- `replMap` (first insertion wins) -/
  repl : List (String × String) := []
  /-- `result` -/
  inserted : List Nat := []

/-- the alias `RegisterID` gives -/
def regAlias (taken : List String) (c : Cst D) : String :=
  if taken.contains c.alias || !g.okFor c.alias c.kind then g.newName taken c.kind else c.alias

/-- one iteration of the loop of the bulk `InsertCopy` -/
def copyStep (s : CopySt D I) (c : Cst D) : Option (CopySt D I) :=
  let a := regAlias g s.taken c
  if s.taken.contains a then none
  else if s.inserted.contains c.uid then none
  else some
    { st := step A s.st (.load { c with alias := a }),
      order := listInsert s.order (c.uid, c.kind),
      taken := a :: s.taken,
      repl := if c.alias ≠ a then s.repl ++ [(c.alias, a)] else s.repl,
      inserted := s.inserted ++ [c.uid] }

/-- `Schema::Translate(target, old2New)`; `storage.at(target)` on a missing uid is the outcome `none` -/
def translateOne (st : St D I) (u : Nat) (f : String → Option String) : Option (St D I) :=
  match st.at u with
  | none => none
  | some _ =>
    let st : St D I := { st with store := st.store.map (fun (x : Cst D) =>
      if x.uid == u then { x with defn := A.rename f x.defn } else x) }
    some ((st.graphUpdateFor A u).triggerParse A u)

/-- `RSCore::InsertCopy(input, source)` into an EMPTY schema; `cs` = `source.GetRS(uid)` for the input -/
def bulkInsertCopy (cs : List (Cst D)) : Option (Sch D I) :=
  match cs.foldlM (copyStep A g) {} with
  | none => none
  | some s =>
    let translated : Option (St D I) :=
      if s.repl.isEmpty then some s.st
      else s.inserted.foldlM (fun st u => translateOne A st u (lookup s.repl)) s.st
    match translated with
    | none => none
    | some st => some { st := step A st .updateState, order := s.order.map (·.1) }

structure ResetSt where
  taken : List String := []
  subs : List (String × String) := []

/-- one iteration of the loop of `ResetAliases`; `GetRS(uid)` on a missing uid is the outcome `none` -/
def resetStep (st : St D I) (r : ResetSt) (u : Nat) : Option ResetSt :=
  match st.at u with
  | none => none
  | some c =>
    let n := g.newName r.taken c.kind
    if r.taken.contains n then none
    else some { taken := n :: r.taken, subs := if c.alias ≠ n then r.subs ++ [(c.alias, n)] else r.subs }

/-- `RSCore::ResetAliases` -/
def resetAliases (s : Sch D I) : Option (Sch D I) :=
  match s.order.foldlM (resetStep g s.st) {} with
  | none => none
  | some r => some { s with st := step A s.st (.substitute r.subs) }

/-- `source.GetRS(uid)` for every uid of the input -/
def selectedCsts (src : St D I) (sel : List Nat) : Option (List (Cst D)) := sel.mapM src.at

/-- the copy step of both operations: bulk `InsertCopy` of `sel` into an empty schema, `ResetAliases` -/
def copyOut (src : St D I) (sel : List Nat) : Option (Sch D I) :=
  ((selectedCsts src sel).bind (bulkInsertCopy A g)).bind (resetAliases A g)

/-- the abstraction of the source the selection logic (`Model/Extract.lean`) works on:
`Graph().InputsFor(uid)`, `empty(definition)`, `IsBaseSet(type)` in list order -/
def toSource (isEmpty : D → Bool) (s : Sch D I) : Extract.Source :=
  let st := s.st.ensureGraph A
  s.order.filterMap fun u =>
    (st.at u).map fun c =>
      { uid := u, inputs := sortDedup (Graph.inputsFor st.graph u), emptyDef := isEmpty c.defn,
        isBaseSet := c.kind == .base }

inductive Res (α : Type) where
  /-- `Execute()` returned `nullptr` -/
  | refused
  /-- an unchecked access failed / a generator handed out something taken: never (see the theorems) -/
  | stuck
  | ok (r : α)

/-- `OpExtractBasis::Execute` -/
def opExtractBasis (isEmpty : D → Bool) (s : Sch D I) (args : List Nat) : Res (Sch D I) :=
  match Extract.extractBasis (toSource A isEmpty s) args with
  | none => .refused
  | some sel => match copyOut A g s.st sel with
    | none => .stuck
    | some r => .ok r

/-- `OpMaxPart::Execute` (after the `fix:` commit: scans repeated to a fixed point) -/
def opMaxPart (isEmpty : D → Bool) (s : Sch D I) (args : List Nat) : Res (Sch D I) :=
  match Extract.maxPart false (toSource A isEmpty s) args with
  | none => .refused
  | some sel => match copyOut A g s.st sel with
    | none => .stuck
    | some r => .ok r

end

/-! ### the real name rule for the two kinds of the generic machine -/

def kindLetter : Kind → String
  | .base => "X"
  | .term => "D"

/-- `NewNameFor`: the least index from 1 whose name is free -/
def firstFree (taken : List String) (letter : String) : Nat → Nat → String
  | 0, i => letter ++ toString i
  | fuel + 1, i =>
    if taken.contains (letter ++ toString i) then firstFree taken letter fuel (i + 1) else letter ++ toString i

def nameOkFor (name : String) (k : Kind) : Bool :=
  match name.toList with
  | c :: d :: ds => String.ofList [c] == kindLetter k && (d :: ds).all Char.isDigit
  | _ => false

def realNames : Names where
  newName taken k := firstFree taken (kindLetter k) taken.length 1
  okFor := nameOkFor

end CCVerif.ExtractGen
