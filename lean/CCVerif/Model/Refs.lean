import CCVerif.Model.Strings
/-!
Model of the text-reference code of `ccl/cclLang` (C17):

* `src/Reference.cpp`   — `ReferenceStart`, `ReferenceEnd`, `NextReference`, `SplitReference`,
  `DeduceRefType`, `ExtractMorpho`, `Reference::Parse`, `Reference::ExtractAll`, `ToString`,
  `ResolveEntity`, `ResolveCollaboration`
* `src/Morphology.cpp`, `include/ccl/lang/Morphology.h` — tag table, `Str2Grammem`,
  `Grammem2Str`, `Morphology(tags)`, `Morphology::ToString`
* `src/RefsManager.cpp` — `Resolve`, `ResolveAll`, `GenerateResolved`, `Insert`, `EraseIn`,
  `OutputRefs`, `FirstIn`, `FindMaster`
* `src/ManagedText.cpp` — `TranslateRaw`, `Referals`
* `src/LexicalTerm.cpp` — `GetForm` (manual forms; `Inflect` is the identity of the default
  `TextProcessor`, `InflectDependant` returns the dependant)

Everything works on `Bytes` (arbitrary, possibly malformed UTF-8) through the C20 iterator
model. Each definition names the C++ it follows. Places where the C++ throws are explicit
`Outcome.stuck` results:
* `ExtractMorpho` is `noexcept` and calls `tags.rbegin()->at(0)`: an empty last field throws
  `std::out_of_range` inside `noexcept` ⇒ `std::terminate` (`Fault.terminate`);
* `Parse` calls `std::stoi` on a digit string of any length: a value outside `int` throws
  `std::out_of_range` (`Fault.stoiRange`); the result is then narrowed to `int16_t` (`wrap16`).
`isalpha` / `isdigit` / `isspace` are the C-locale ASCII predicates (bytes ≥ 0x80: false).
-/
namespace CCVerif.Refs
open CCVerif.Strings

/-! ### Outcomes -/

inductive Fault
  | terminate   -- exception inside a `noexcept` function
  | stoiRange   -- `std::out_of_range` escaping from `std::stoi`
deriving Repr, DecidableEq

inductive Outcome (α : Type)
  | ok (a : α)
  | stuck (f : Fault)
deriving Repr, DecidableEq

def Outcome.bind {α β : Type} (x : Outcome α) (f : α → Outcome β) : Outcome β :=
  match x with
  | .ok a => f a
  | .stuck e => .stuck e

def Outcome.map {α β : Type} (f : α → β) (x : Outcome α) : Outcome β :=
  match x with
  | .ok a => .ok (f a)
  | .stuck e => .stuck e

def Outcome.isOk {α : Type} : Outcome α → Bool
  | .ok _ => true
  | .stuck _ => false

/-! ### Variants

The code as it was before the three `fix:` commits to `Reference.cpp` left the property in three
places (see `Properties/C17.lean`, `*_observed`). The model is parametric in a `Variant` that
selects, independently, each of the repairs; `Variant.current` is what `/repo` does now (all
three repaired) and is what the driver runs against the implementation; `Variant.asIs` is the
old code, kept so that the old behaviour stays documented by closed facts and by the
`…_of_variant` theorems (which say exactly which inputs each repair was needed for).

* `fixScan`      — `ReferenceStart` looks at the symbol after an `@` without consuming it
                   (old code: that symbol is skipped, so `@@{…}` is not found);
* `fixEmptyLast` — `ExtractMorpho` tests `!empty()` before `at(0)` on the last field
                   (old code: `std::out_of_range` inside `noexcept` ⇒ `std::terminate`);
* `fixRange`     — `Parse` converts the offset with a range check for `int16_t` and returns the
                   invalid reference on failure (old code: `std::stoi` throws for values
                   outside `int`, other values are silently reduced modulo 2^16). -/

structure Variant where
  fixScan : Bool
  fixEmptyLast : Bool
  fixRange : Bool
deriving Repr, DecidableEq

/-- the code before the repairs -/
def Variant.asIs : Variant := ⟨false, false, false⟩
/-- all three repairs applied -/
def Variant.repaired : Variant := ⟨true, true, true⟩
/-- what `/repo` does now (checked by the correspondence run): commits "fix: a reference directly
after an '@' is found", "fix: an empty last field of an entity reference no longer terminates the
process", "fix: a collaboration offset outside int16_t makes the text not a reference" -/
def Variant.current : Variant := Variant.repaired

/-! ### Character constants -/

def cAt : Nat := 64       -- '@'
def cOpen : Nat := 123    -- '{'
def cClose : Nat := 125   -- '}'
def cBar : Nat := 124     -- '|'
def cComma : Nat := 44    -- ','
def cMinus : Nat := 45    -- '-'

/-- C locale `isalpha` on a byte value. -/
def isAlpha (b : Nat) : Bool := (65 ≤ b && b ≤ 90) || (97 ≤ b && b ≤ 122)

/-! ### Reference scanner (Reference.cpp, anonymous namespace) -/

/-- `*iter` (first byte of the code point). -/
def byteAt (data : Bytes) (it : Iter) : Nat := data.getD it.bp 0

/-- `Position()` of an iterator: `endPos = -1`. -/
def iterPos (it : Iter) : Int :=
  match it.cur with
  | none => -1
  | some c => (c : Int)

/-- the `for` loop of `ReferenceStart`. After an `@` the iterator is advanced; unless it now is
at the end or at `{`, the loop increment advances it *again* (the symbol after `@` is never
examined as a possible `@`). Fuel: every round consumes at least one byte. -/
def refStartGo (v : Variant) (data : Bytes) : Nat → Iter → Iter
  | 0, it => ⟨none, it.bp⟩
  | fuel+1, it =>
    if it.isEnd then it
    else if byteAt data it = cAt then
      let it1 := it.next data
      if it1.isEnd || byteAt data it1 = cOpen then it1
      else if v.fixScan then refStartGo v data fuel it1
      else refStartGo v data fuel (it1.next data)
    else refStartGo v data fuel (it.next data)

/-- `ReferenceStart(refStr, start)`: iterator at the `{` of the first `@{` (or end). -/
def refStart (v : Variant) (data : Bytes) (start : Int) : Iter :=
  refStartGo v data (data.length + 1) (mkIter data start)

/-- the `for` loop of `ReferenceEnd` (`bracketCount` is an `int`). -/
def refEndGo (data : Bytes) : Nat → Iter → Int → Iter
  | 0, it, _ => ⟨none, it.bp⟩
  | fuel+1, it, cnt =>
    if it.isEnd then it
    else
      let c := byteAt data it
      let cnt' := if c = cOpen then cnt + 1 else if c = cClose then cnt - 1 else cnt
      if cnt' = 0 then it else refEndGo data fuel (it.next data) cnt'

/-- `ReferenceEnd(refStr, start)`. -/
def refEnd (data : Bytes) (start : Iter) : Iter :=
  refEndGo data (data.length + 1) start 0

/-- `NextReference(refStr, start)`: code-point range of the next candidate. -/
def nextReference (v : Variant) (data : Bytes) (start : Int) : Option StrRange :=
  let s := refStart v data start
  match s.cur with
  | none => none
  | some sp =>
    let e := refEnd data s
    match e.cur with
    | none => none
    | some ep => some ⟨(sp : Int) - 1, (ep : Int) + 1⟩

/-! ### Morphology (Morphology.h / Morphology.cpp) -/

/-- `detail::TAG_NAMES`: index = value of the `Grammem` enumerator. -/
def tagNames : List Bytes := [
  [85, 78, 75, 78],      -- 0 UNKN (Grammem::invalid)
  [78, 79, 85, 78],      -- 1 NOUN
  [78, 80, 82, 79],      -- 2 NPRO
  [73, 78, 70, 78],      -- 3 INFN
  [86, 69, 82, 66],      -- 4 VERB
  [65, 68, 74, 70],      -- 5 ADJF
  [65, 68, 74, 83],      -- 6 ADJS
  [80, 82, 84, 70],      -- 7 PRTF
  [80, 82, 84, 83],      -- 8 PRTS
  [65, 68, 86, 66],      -- 9 ADVB
  [71, 82, 78, 68],      -- 10 GRND
  [67, 79, 77, 80],      -- 11 COMP
  [80, 82, 69, 68],      -- 12 PRED
  [78, 85, 77, 82],      -- 13 NUMR
  [67, 79, 78, 74],      -- 14 CONJ
  [73, 78, 84, 74],      -- 15 INTJ
  [80, 82, 67, 76],      -- 16 PRCL
  [80, 82, 69, 80],      -- 17 PREP
  [80, 78, 67, 84],      -- 18 PNCT
  [112, 114, 101, 115],  -- 19 pres
  [112, 97, 115, 116],   -- 20 past
  [102, 117, 116, 114],  -- 21 futr
  [49, 112, 101, 114],   -- 22 1per
  [50, 112, 101, 114],   -- 23 2per
  [51, 112, 101, 114],   -- 24 3per
  [115, 105, 110, 103],  -- 25 sing
  [112, 108, 117, 114],  -- 26 plur
  [109, 97, 115, 99],    -- 27 masc
  [102, 101, 109, 110],  -- 28 femn
  [110, 101, 117, 116],  -- 29 neut
  [110, 111, 109, 110],  -- 30 nomn
  [103, 101, 110, 116],  -- 31 gent
  [100, 97, 116, 118],   -- 32 datv
  [97, 98, 108, 116],    -- 33 ablt
  [97, 99, 99, 115],     -- 34 accs
  [108, 111, 99, 116]    -- 35 loct
]

/-- `detail::TAG_MAP` in the order of the header (`UNKN` maps to `Grammem::invalid` = 0). -/
def tagMap : List (Bytes × Nat) := [
  ([85, 78, 75, 78], 0),
  ([78, 79, 85, 78], 1), ([78, 80, 82, 79], 2), ([73, 78, 70, 78], 3),
  ([86, 69, 82, 66], 4), ([65, 68, 74, 70], 5), ([65, 68, 74, 83], 6),
  ([80, 82, 84, 70], 7), ([80, 82, 84, 83], 8), ([65, 68, 86, 66], 9),
  ([71, 82, 78, 68], 10), ([67, 79, 77, 80], 11), ([80, 82, 69, 68], 12),
  ([78, 85, 77, 82], 13), ([67, 79, 78, 74], 14), ([73, 78, 84, 74], 15),
  ([80, 82, 67, 76], 16), ([80, 82, 69, 80], 17), ([80, 78, 67, 84], 18),
  ([49, 112, 101, 114], 22), ([50, 112, 101, 114], 23), ([51, 112, 101, 114], 24),
  ([112, 114, 101, 115], 19), ([112, 97, 115, 116], 20), ([102, 117, 116, 114], 21),
  ([115, 105, 110, 103], 25), ([112, 108, 117, 114], 26),
  ([109, 97, 115, 99], 27), ([102, 101, 109, 110], 28), ([110, 101, 117, 116], 29),
  ([110, 111, 109, 110], 30), ([103, 101, 110, 116], 31), ([100, 97, 116, 118], 32),
  ([97, 98, 108, 116], 33), ([97, 99, 99, 115], 34), ([108, 111, 99, 116], 35)
]

/-- `StaticMap::AtKey` after `ContainsKey` (first match in table order). -/
def tagLookup : List (Bytes × Nat) → Bytes → Option Nat
  | [], _ => none
  | (k, v) :: rest, t => if k = t then some v else tagLookup rest t

/-- `Str2Grammem`: `Grammem::invalid` (0) for a wrong length or an unknown key. -/
def str2Grammem (t : Bytes) : Nat :=
  if t.length ≠ 4 then 0
  else match tagLookup tagMap t with
    | some g => g
    | none => 0

/-- `Grammem2Str` (`TAG_NAMES.at(gram)`; the stored grammems are always < 36). -/
def grammem2Str (g : Nat) : Bytes := tagNames.getD g []

/-- `Morphology::tags` is a `std::set<Grammem>`: strictly increasing list of enumerator values. -/
abbrev Morph := List Nat

/-- `std::set::insert`. -/
def morphInsert (g : Nat) : Morph → Morph
  | [] => [g]
  | x :: xs => if g < x then g :: x :: xs else if g = x then x :: xs else x :: morphInsert g xs

/-- the loop of `Morphology(const std::vector<std::string_view>&)`: trim, look up, drop unknown. -/
def morphStep (m : Morph) (t : Bytes) : Morph :=
  if str2Grammem (trim t) ≠ 0 then morphInsert (str2Grammem (trim t)) m else m

def morphOfTags (tags : List Bytes) : Morph := tags.foldl morphStep []

/-- `Morphology(std::string_view tagsText)`: split on `,` first. -/
def morphOfText (t : Bytes) : Morph := morphOfTags (splitBy t cComma)

/-- `Morphology::ToString`: tag names joined with `,` in set order. -/
def morphToString : Morph → Bytes
  | [] => []
  | g :: rest => rest.foldl (fun acc x => acc ++ [cComma] ++ grammem2Str x) (grammem2Str g)

/-! ### Reference::Parse -/

inductive RefType
  | invalid | entity | collaboration
deriving Repr, DecidableEq

/-- `EntityRef` / `CollaborationRef` (the `std::variant` payload of a valid `Reference`). -/
inductive RefData
  | entity (name : Bytes) (form : Morph)
  | collab (nominal : Bytes) (offset : Int)
deriving Repr, DecidableEq

/-- `SplitReference`: strips 2 + 1 bytes without looking at them, splits on `|`. -/
def splitReference (ref : Bytes) : List Bytes :=
  if ref.length ≤ 3 then [] else splitBy ((ref.drop 2).take (ref.length - 3)) cBar

/-- `DeduceRefType`. -/
def deduceRefType (tokens : List Bytes) : RefType :=
  if tokens.length < 2 || tokens.length > 4 then .invalid
  else match tokens with
    | [] => .invalid
    | first :: _ =>
      match first with
      | [] => .invalid
      | c :: _ =>
        if isAlpha c then .entity
        else if isInteger first && tokens.length == 2 then .collaboration
        else .invalid

/-- `ExtractMorpho` (declared `noexcept`). With more than two fields the last field is dropped
when it starts with a digit; `at(0)` on an *empty* last field throws ⇒ `std::terminate`. -/
def extractMorpho (v : Variant) (tokens : List Bytes) : Outcome Morph :=
  if tokens.length = 2 then .ok (morphOfText (tokens.getD 1 []))
  else
    let tags := tokens.drop 1
    match tags.getLast? with
    | none => .stuck .terminate
    | some [] => if v.fixEmptyLast then .ok (morphOfTags tags) else .stuck .terminate
    | some (c :: _) => .ok (morphOfTags (if isDigit c then tags.dropLast else tags))

/-- value of a digit string (the string has passed `IsInteger`). -/
def decVal (ds : Bytes) : Nat := ds.foldl (fun acc d => acc * 10 + (d - 48)) 0

/-- signed value of `-?[0-9]+`. -/
def intVal (t : Bytes) : Int :=
  match t with
  | 45 :: r => - (decVal r : Int)
  | _ => (decVal t : Int)

/-- `std::stoi`: throws `std::out_of_range` when the value does not fit `int`. -/
def stoi (t : Bytes) : Outcome Int :=
  let v := intVal t
  if v < -2147483648 ∨ 2147483647 < v then .stuck .stoiRange else .ok v

/-- `static_cast<int16_t>(int)`: reduction modulo 2^16 into [-32768, 32767]. -/
def wrap16 (v : Int) : Int := (v + 32768) % 65536 - 32768

/-- `Reference::Parse`: `none` is the invalid (default-constructed) reference. -/
def parse (v : Variant) (ref : Bytes) : Outcome (Option RefData) :=
  let tokens := splitReference ref
  match deduceRefType tokens with
  | .entity =>
    match extractMorpho v tokens with
    | .stuck f => .stuck f
    | .ok form => if form.isEmpty then .ok none else .ok (some (.entity (tokens.getD 0 []) form))
  | .collaboration =>
    if v.fixRange then
      let n := intVal (tokens.getD 0 [])
      if -32768 ≤ n ∧ n ≤ 32767 then .ok (some (.collab (tokens.getD 1 []) n)) else .ok none
    else
      match stoi (tokens.getD 0 []) with
      | .stuck f => .stuck f
      | .ok n => .ok (some (.collab (tokens.getD 1 []) (wrap16 n)))
  | .invalid => .ok none

/-! ### ToString -/

def natDigitsGo : Nat → Nat → Bytes → Bytes
  | 0, _, acc => acc
  | fuel+1, n, acc =>
    if n < 10 then (48 + n) :: acc else natDigitsGo fuel (n / 10) ((48 + n % 10) :: acc)

def natToDec (n : Nat) : Bytes := natDigitsGo (n + 1) n []

/-- `std::to_string(int)`. -/
def intToDec (v : Int) : Bytes :=
  if v < 0 then cMinus :: natToDec v.natAbs else natToDec v.natAbs

/-- `EntityRef::ToString` / `CollaborationRef::ToString`. -/
def RefData.toString : RefData → Bytes
  | .entity n f => [cAt, cOpen] ++ n ++ [cBar] ++ morphToString f ++ [cClose]
  | .collab nom off => [cAt, cOpen] ++ intToDec off ++ [cBar] ++ nom ++ [cClose]

def RefData.isEntity : RefData → Bool
  | .entity .. => true
  | .collab .. => false

/-! ### Reference::ExtractAll -/

/-- a valid `Reference`: payload, `position`, `resolvedText`. -/
structure Ref where
  data : RefData
  pos : StrRange
  resolved : Bytes
deriving Repr, DecidableEq

/-- the `for` loop of `ExtractAll`: parse every candidate, keep the valid ones, continue at the
candidate's `finish`. An exception from `Parse` ends the whole call. -/
def extractGo (v : Variant) (text : Bytes) : Nat → Int → Outcome (List Ref)
  | 0, _ => .ok []
  | fuel+1, start =>
    match nextReference v text start with
    | none => .ok []
    | some r =>
      match parse v (substr text r.start r.finish) with
      | .stuck f => .stuck f
      | .ok p =>
        match extractGo v text fuel r.finish with
        | .stuck f => .stuck f
        | .ok rest =>
          match p with
          | some d => .ok (⟨d, r, []⟩ :: rest)
          | none => .ok rest

def extractAll (v : Variant) (text : Bytes) : Outcome (List Ref) := extractGo v text (text.length + 1) 0

/-! ### Term context, resolution (Reference.cpp, LexicalTerm.cpp, RefsManager.cpp) -/

/-- what a `LexicalTerm` contributes: `text.Str()` and the manual forms. -/
structure Term where
  str : Bytes
  manual : List (Morph × Bytes)

/-- `EntityTermContext::At`. -/
abbrev Ctx := Bytes → Option Term

def manualLookup : List (Morph × Bytes) → Morph → Option Bytes
  | [], _ => none
  | (k, v) :: rest, f => if k = f then some v else manualLookup rest f

/-- `LexicalTerm::GetForm` with the default `TextProcessor` (`Inflect` = identity). -/
def Term.getForm (t : Term) (form : Morph) : Bytes :=
  match manualLookup t.manual form with
  | some s => s
  | none =>
    if form.isEmpty then
      match manualLookup t.manual [25, 30] with   -- GetNominalForm: {sing, nomn}
      | some s => s
      | none => t.str
    else t.str

def msgEmpty : Bytes := [33, 69, 109, 112, 116, 121, 32, 114, 101, 102, 101, 114, 101, 110, 99, 101, 33]
def msgCannotFind : Bytes := [33, 67, 97, 110, 110, 111, 116, 32, 102, 105, 110, 100, 32, 101, 110, 116, 105, 116, 121, 58, 32, 39]
def msgQuoteBang : Bytes := [39, 33]
def msgInvalidOffset : Bytes := [33, 73, 110, 118, 97, 108, 105, 100, 32, 111, 102, 102, 115, 101, 116, 32, 102, 111, 114, 32]
def msgColonQuote : Bytes := [58, 32, 39]

/-- `EmptyRefCheck`. -/
def emptyRefCheck (s : Bytes) : Bytes := if s.isEmpty then msgEmpty else s

/-- `Reference::ResolveEntity`. -/
def resolveEntity (ctx : Ctx) (name : Bytes) (form : Morph) : Bytes :=
  if name.isEmpty then emptyRefCheck name
  else match ctx name with
    | none => msgCannotFind ++ name ++ msgQuoteBang
    | some t =>
      let r := t.getForm form
      if r.isEmpty then emptyRefCheck t.str else emptyRefCheck r

/-- `Reference::ResolveCollaboration`; `master` = resolved text of the master, if any
(`InflectDependant(dependant, main)` = dependant). -/
def resolveCollab (nominal : Bytes) (offset : Int) (master : Option Bytes) : Bytes :=
  if nominal.isEmpty then emptyRefCheck nominal
  else match master with
    | none => msgInvalidOffset ++ nominal ++ msgColonQuote ++ intToDec offset ++ msgQuoteBang
    | some _ => emptyRefCheck nominal

/-- the walk of `FindMaster` over the references on one side of `base`, nearest first:
an entity reference decrements the counter; the one that brings it to 0 is returned. -/
def masterWalk : List (Nat × Ref) → Nat → Option Nat
  | [], _ => none
  | (i, r) :: rest, cnt =>
    if r.data.isEntity then
      if cnt - 1 = 0 then some i else masterWalk rest (cnt - 1)
    else masterWalk rest cnt

/-- the references with their indices, starting at `i`. -/
def indexed : List Ref → Nat → List (Nat × Ref)
  | [], _ => []
  | r :: rest, i => (i, r) :: indexed rest (i + 1)

/-- `RefsManager::FindMaster(base, offset)`: index of the master reference. -/
def findMaster (refs : List Ref) (base : Nat) (offset : Int) : Option Nat :=
  if offset = 0 then none
  else if offset > 0 then masterWalk (indexed (refs.drop (base + 1)) (base + 1)) offset.natAbs
  else masterWalk ((indexed (refs.take base) 0).reverse) offset.natAbs

/-- resolved text of reference `i` as computed by `ResolveIt` / the two passes of `ResolveAll`. -/
def resolveOne (ctx : Ctx) (refs : List Ref) (i : Nat) (r : Ref) : Bytes :=
  match r.data with
  | .entity n f => resolveEntity ctx n f
  | .collab nom off =>
    resolveCollab nom off ((findMaster refs i off).map (fun j => (refs.getD j r).resolved))

/-- first loop of `ResolveAll` on one reference: entity references are resolved. -/
def pass1 (ctx : Ctx) (r : Ref) : Ref :=
  match r.data with
  | .entity n f => { r with resolved := resolveEntity ctx n f }
  | .collab .. => r

/-- second loop of `ResolveAll` on one reference (with its index): collaborations are resolved. -/
def pass2 (ctx : Ctx) (refs1 : List Ref) (p : Nat × Ref) : Ref :=
  match p.2.data with
  | .entity .. => p.2
  | .collab .. => { p.2 with resolved := resolveOne ctx refs1 p.1 p.2 }

/-- `RefsManager::ResolveAll`: first all entity references, then all collaborations (which
read the resolved text of their master, always an entity reference). -/
def resolveAll (ctx : Ctx) (refs : List Ref) : List Ref :=
  (indexed (refs.map (pass1 ctx)) 0).map (pass2 ctx (refs.map (pass1 ctx)))

/-- `text.substr(pos, a - b)` with the count computed in `size_t` (wraps when `a < b`). -/
def substrBytes (text : Bytes) (pos a b : Nat) : Bytes :=
  if b ≤ a then (text.drop pos).take (a - b) else text.drop pos

/-- the `for` loop of `GenerateResolved`: returns the text produced for these references, the
re-positioned references and the final `current` iterator. -/
def genGo (text : Bytes) : List Ref → Iter → Int → Bytes × List Ref × Iter
  | [], cur, _ => ([], [], cur)
  | r :: rest, cur, dif =>
    let gap :=
      if iterPos cur ≠ r.pos.start then
        substrBytes text cur.bp (mkIter text r.pos.start).bp cur.bp
      else []
    let cur' := mkIter text r.pos.finish
    let rl : Int := (sizeCp r.resolved : Int)
    let r' : Ref := { r with pos := StrRange.fromLength (r.pos.start + dif) rl }
    let res := genGo text rest cur' (dif + (rl - r.pos.length))
    (gap ++ r.resolved ++ res.1, r' :: res.2.1, res.2.2)

/-- `RefsManager::GenerateResolved`. -/
def generateResolved (text : Bytes) (refs : List Ref) : Bytes × List Ref :=
  let res := genGo text refs (mkIter text 0) 0
  let tail := if res.2.2.isEnd then [] else substrBytes text res.2.2.bp text.length res.2.2.bp
  (res.1 ++ tail, res.2.1)

/-- `RefsManager::Resolve`: resolved text and the manager's references. -/
def resolve (v : Variant) (ctx : Ctx) (text : Bytes) : Outcome (Bytes × List Ref) :=
  match extractAll v text with
  | .stuck f => .stuck f
  | .ok refs => .ok (generateResolved text (resolveAll ctx refs))

/-! ### RefsManager::Insert / EraseIn / FirstIn / OutputRefs -/

def shiftRef (a : Int) (r : Ref) : Ref := { r with pos := r.pos.shift a }

def findIdxGe : List Ref → Int → Nat → Nat
  | [], _, i => i
  | r :: rest, w, i => if r.pos.start ≥ w then i else findIdxGe rest w (i + 1)

def blockedAt (r : Ref) (w : Int) : Bool := r.pos.containsPos w || r.pos.finish == w

/-- `it != end(refs) && (it->position.Contains(w) || it->position.finish == w)` for the iterator
at index `i` (`refs[i]? = none` is `it == end(refs)`). -/
def blockedIdx (refs : List Ref) (i : Nat) (w : Int) : Bool :=
  match refs[i]? with
  | some r => blockedAt r w
  | none => false

/-- `RefsManager::Insert(newRef, insWhere)` for a valid `newRef`; `none` = `nullptr`.
Returns the new list and the index of the inserted reference. (`it != begin(refs) &&
!empty(refs)` is `idx ≠ 0`.) -/
def insertRef (ctx : Ctx) (refs : List Ref) (d : RefData) (w : Int) : Option (List Ref × Nat) :=
  let idx := findIdxGe refs w 0
  if blockedIdx refs idx w then none
  else if idx ≠ 0 && blockedIdx refs (idx - 1) w then none
  else
    let fresh : Ref := ⟨d, ⟨0, 0⟩, []⟩
    let refs1 := refs.take idx ++ fresh :: refs.drop idx
    let res := resolveOne ctx refs1 idx fresh
    let len : Int := (sizeCp res : Int)
    let nr : Ref := ⟨d, StrRange.fromLength w len, res⟩
    some (refs.take idx ++ nr :: (refs.drop idx).map (shiftRef len), idx)

structure EraseSt where
  range : StrRange
  checkFinish : Bool
  eraseStart : Option Nat
deriving Repr, DecidableEq

/-- the `for` loop of `EraseIn`; `none` = `return std::nullopt`, otherwise the index where the
loop stopped (`refs.length` = ran to the end) and the loop variables. -/
def eraseGo (expand : Bool) : List Ref → Nat → EraseSt → Option (Nat × EraseSt)
  | [], i, st => some (i, st)
  | r :: rest, i, st =>
    let p := r.pos
    if p.meets st.range then eraseGo expand rest (i + 1) { st with checkFinish := true }
    else if p.isBefore st.range then eraseGo expand rest (i + 1) st
    else if st.range.meets p then (if st.checkFinish then none else some (i, st))
    else if p.isAfter st.range then some (i, st)
    else
      let range := if p.contains st.range && expand then p else st.range
      if range.contains p then
        eraseGo expand rest (i + 1)
          { st with range := range, eraseStart := match st.eraseStart with | some s => some s | none => some i }
      else none

/-- `RefsManager::EraseIn(range, expandRefs)`: the (possibly expanded) erased range and the new
reference list; `none` leaves the manager unchanged. -/
def eraseIn (refs : List Ref) (range : StrRange) (expand : Bool) : Option (StrRange × List Ref) :=
  match eraseGo expand refs 0 ⟨range, false, none⟩ with
  | none => none
  | some (i, st) =>
    let len := st.range.length
    let shifted := refs.take i ++ (refs.drop i).map (shiftRef (-len))
    let res := match st.eraseStart with
      | none => shifted
      | some s => shifted.take s ++ shifted.drop i
    some (st.range, res)

/-- `RefsManager::FirstIn(range)`: index of the reference or `none` (`nullptr`). -/
def firstInGo (range : StrRange) : List Ref → Nat → Option Nat
  | [], _ => none
  | r :: rest, i =>
    if range.isAfter r.pos then firstInGo range rest (i + 1)
    else if range.isBefore r.pos then none
    else some i

def firstIn (refs : List Ref) (range : StrRange) : Option Nat := firstInGo range refs 0

/-- the `for` loop of `OutputRefs(normStr, subRange)`: result, `curPos`, `finish`. -/
def outputGo (norm : Bytes) (sub : StrRange) : List Ref → Int → Int → Bytes → Bytes × Int × Int
  | [], cur, fin, res => (res, cur, fin)
  | r :: rest, cur, fin, res =>
    let skip := if sub.isBefore r.pos then (res, cur, fin) else outputGo norm sub rest cur fin res
    match sub.intersect r.pos with
    | none => skip
    | some is =>
      if is.empty then skip
      else if is.length * 2 < r.pos.length then
        if r.pos.finish ≥ fin then (res, cur, min fin r.pos.start)
        else outputGo norm sub rest (max cur r.pos.finish) fin res
      else
        let res1 := if cur < r.pos.start then res ++ substr norm cur r.pos.start else res
        outputGo norm sub rest r.pos.finish fin (res1 ++ r.data.toString)

/-- `RefsManager::OutputRefs(normStr, subRange)`. -/
def outputRefsIn (refs : List Ref) (norm : Bytes) (sub : StrRange) : Bytes :=
  let r := outputGo norm sub refs sub.start sub.finish []
  if r.2.1 < r.2.2 then r.1 ++ substr norm r.2.1 r.2.2 else r.1

/-- `RefsManager::OutputRefs(normStr)`. -/
def outputRefs (refs : List Ref) (norm : Bytes) : Bytes :=
  outputRefsIn refs norm ⟨0, (sizeCp norm : Int)⟩

/-! ### ManagedText -/

/-- one step of the reverse loop of `TranslateRaw` (`std::string::replace` by byte offsets
derived from the code-point positions). -/
def translateStep (tr : Bytes → Option Bytes) (text : Bytes) (r : Ref) : Bytes :=
  match r.data with
  | .collab .. => text
  | .entity n _ =>
    match tr n with
    | none => text
    | some n' =>
      if n' = n then text
      else
        -- only the entity name, the first field right after "@{", is replaced
        let start := (mkIter text r.pos.start).bp + 2
        text.take start ++ n' ++ text.drop (start + n.length)

/-- `ManagedText::TranslateRaw`. -/
def translateRaw (v : Variant) (tr : Bytes → Option Bytes) (raw : Bytes) : Outcome Bytes :=
  match extractAll v raw with
  | .stuck f => .stuck f
  | .ok refs => .ok (refs.reverse.foldl (translateStep tr) raw)

/-- `ManagedText::Referals` (as a list with repetitions, in text order; the C++ returns the
`unordered_set` of these). -/
def referals (v : Variant) (raw : Bytes) : Outcome (List Bytes) :=
  match extractAll v raw with
  | .stuck f => .stuck f
  | .ok refs => .ok (refs.filterMap (fun r => match r.data with | .entity n _ => some n | .collab .. => none))

end CCVerif.Refs
