import CCVerif.Model.Lexer
import CCVerif.Model.Strings
import CCVerif.Model.Refs
/-!
Model of the identifier-translation code (C08):

* `ccl/rslang/src/RSExpr.cpp` — `TranslateRS(str, filter, old2New)`, `SubstituteGlobals`,
  `ExtractUGlobals`, `ExtractULocals`, `TFFactory::FilterGlobals / FilterIdentifiers`
* `ccl/cclCommons/include/ccl/Substitutes.hpp` — `CreateTranslator`
* `ccl/core/src/semantic/schema/RSConcept.cpp` — `RSConcept::Translate` (definition AND convention,
  both through `TranslateRS` with `FilterGlobals`: the convention, a natural-language comment, is
  lexed with the MATH lexer exactly like a formal definition)
* `ccl/core/src/semantic/thesaurus/TextConcept.cpp` — `TextConcept::TranslateRaw` (term text and
  definition text through `ManagedText::TranslateRaw`, model `Refs.translateRaw`, C17)
* the content part of `Schema::SetAliasFor / SubstitueAliases / TranslateAll` and
  `Thesaurus::SetAliasFor / SubstitueAliases / TranslateAll` (aliases + all definitions,
  conventions and raw texts; the analysis that follows is the C07 model, `Model/Schema.lean`).

`TranslateRS` works on BYTES: it lexes a copy of the string with the MATH lexer and, for every token
accepted by the filter whose text is mapped to a different text, calls
`str.replace(RangeInBytes().start + offset, name.length(), newName)`, where `offset` accumulates
the byte-length differences of the replacements already made. The MATH lexer is the shared model
`Lexer.lexRaw .math` (rules = the table regenerated from `MathLexerImpl.l`), which works on code
points; `RangeInBytes().start` (`matcher().first()`) is the byte offset of the token's first code
point, `Text()` (`matcher().str()`) the UTF-8 bytes of the matched code points. Ill-formed UTF-8 is
outside the lexer model (RE-flex's byte-level automaton accepts it, in ways not modelled):
`Outcome.illFormed`.

`std::string::replace(pos, len, s)` throws `std::out_of_range` when `pos > size()`: explicit
outcome `oob` (theorem `translateRS_tokens`: never happens). `int32_t` wrap-around of `offset` and
`count` is not modelled (texts shorter than 2^31 bytes).
-/
namespace CCVerif.Translate
open CCVerif.Syntax CCVerif.Lexer CCVerif.Strings

/-! ### UTF-8 decoding (what `%option unicode` does on well-formed input) -/

/-- strict UTF-8 decoder: shortest form only, no surrogates, at most U+10FFFF -/
def decode : Bytes → Option (List Nat)
  | [] => some []
  | b :: rest =>
    if b < 0x80 then (decode rest).map (b :: ·)
    else if 0xC2 ≤ b ∧ b < 0xE0 then
      match rest with
      | c1 :: r => if 0x80 ≤ c1 ∧ c1 < 0xC0 then (decode r).map (((b - 0xC0) * 64 + (c1 - 0x80)) :: ·) else none
      | _ => none
    else if 0xE0 ≤ b ∧ b < 0xF0 then
      match rest with
      | c1 :: c2 :: r =>
        if 0x80 ≤ c1 ∧ c1 < 0xC0 ∧ 0x80 ≤ c2 ∧ c2 < 0xC0 then
          let cp := (b - 0xE0) * 4096 + (c1 - 0x80) * 64 + (c2 - 0x80)
          if cp < 0x800 ∨ (0xD800 ≤ cp ∧ cp < 0xE000) then none else (decode r).map (cp :: ·)
        else none
      | _ => none
    else if 0xF0 ≤ b ∧ b < 0xF5 then
      match rest with
      | c1 :: c2 :: c3 :: r =>
        if 0x80 ≤ c1 ∧ c1 < 0xC0 ∧ 0x80 ≤ c2 ∧ c2 < 0xC0 ∧ 0x80 ≤ c3 ∧ c3 < 0xC0 then
          let cp := (b - 0xF0) * 262144 + (c1 - 0x80) * 4096 + (c2 - 0x80) * 64 + (c3 - 0x80)
          if cp < 0x10000 ∨ cp ≥ 0x110000 then none else (decode r).map (cp :: ·)
        else none
      | _ => none
    else none
termination_by l => l.length

/-- a Unicode scalar value (what a well-formed UTF-8 text consists of) -/
def scalar (c : Nat) : Prop := c < 0x110000 ∧ ¬ (0xD800 ≤ c ∧ c < 0xE000)

instance : DecidablePred scalar := fun c => by unfold scalar; infer_instance

/-! ### the token stream seen by the loops of RSExpr.cpp -/

/-- `for (auto token = lex.lex(); token != TokenID::END; token = lex.lex())`: tokens up to the
first END -/
def untilEnd : List RawTok → List RawTok
  | [] => []
  | t :: ts => if t.id = .END then [] else t :: untilEnd ts

/-- the MATH token stream of a text (code points), END excluded; `lo` = code-point offset of the
token, `text` = its code points. `none`: the scanner has no applicable rule. -/
def lexMath (cps : List Nat) : Option (List RawTok) := (lexRaw .math cps).map untilEnd

/-- what the loop body reads from the lexer: `token`, `lex.RangeInBytes().start`, `lex.Text()` -/
structure BTok where
  id : Tok
  start : Nat
  text : Bytes
deriving Repr, DecidableEq

/-- `matcher().first()`: the byte offset of code point `t.lo`; `matcher().str()`: the bytes -/
def toBTok (cps : List Nat) (t : RawTok) : BTok := ⟨t.id, byteOffset cps t.lo, encode t.text⟩

/-! ### filters and translators -/

/-- `TFFactory::FilterGlobals()` -/
def filterGlobals (t : Tok) : Bool := t = .ID_GLOBAL || t = .ID_FUNCTION || t = .ID_PREDICATE

/-- `TFFactory::FilterIdentifiers()` -/
def filterIdentifiers (t : Tok) : Bool :=
  t = .ID_GLOBAL || t = .ID_FUNCTION || t = .ID_PREDICATE || t = .ID_LOCAL

/-- `StrTranslator` -/
abbrev Translator := Bytes → Option Bytes

/-- `StrSubstitutes` (`std::unordered_map<std::string, std::string>`; keys distinct) -/
abbrev Substitutes := List (Bytes × Bytes)

/-- `CreateTranslator(substitutes)` -/
def createTranslator (m : Substitutes) : Translator := fun old => (m.find? (·.1 = old)).map (·.2)

/-! ### TranslateRS -/

/-- `std::string::replace(pos, len, s)`; `pos` is `static_cast<size_t>(start + offset)`: a negative
sum becomes a huge position. `none` = `std::out_of_range`. -/
def replaceAt (str : Bytes) (pos : Int) (len : Nat) (new : Bytes) : Option Bytes :=
  if pos < 0 ∨ (str.length : Int) < pos then none
  else some (str.take pos.toNat ++ new ++ str.drop (pos.toNat + len))

/-- the loop of `TranslateRS` over the tokens of the COPY; state `str`, `offset`, `count` -/
def translateGo (filter : Tok → Bool) (tr : Translator) : List BTok → Bytes → Int → Nat → Option (Bytes × Nat)
  | [], str, _, count => some (str, count)
  | t :: ts, str, offset, count =>
    if filter t.id then
      match tr t.text with
      | some newName =>
        if newName ≠ t.text then
          match replaceAt str ((t.start : Int) + offset) t.text.length newName with
          | none => none
          | some str' => translateGo filter tr ts str' (offset + ((newName.length : Int) - (t.text.length : Int))) (count + 1)
        else translateGo filter tr ts str offset count
      | none => translateGo filter tr ts str offset count
    else translateGo filter tr ts str offset count

inductive Outcome where
  /-- new text and the returned count -/
  | ok (str : Bytes) (count : Nat)
  /-- `std::out_of_range` from `std::string::replace` -/
  | oob
  /-- the lexer model has no applicable rule (`%option nodefault`) -/
  | lexStuck
  /-- the text is not well-formed UTF-8: outside the lexer model -/
  | illFormed
deriving Repr, DecidableEq

/-- `TranslateRS` on a well-formed text given by its code points -/
def translateCps (filter : Tok → Bool) (tr : Translator) (cps : List Nat) : Outcome :=
  match lexMath cps with
  | none => .lexStuck
  | some toks =>
    match translateGo filter tr (toks.map (toBTok cps)) (encode cps) 0 0 with
    | none => .oob
    | some (s, c) => .ok s c

/-- `int32_t TranslateRS(std::string& str, TokenFilter filter, StrTranslator old2New)` -/
def translateRS (filter : Tok → Bool) (tr : Translator) (str : Bytes) : Outcome :=
  match decode str with
  | none => .illFormed
  | some cps => translateCps filter tr cps

/-- `SubstituteGlobals(str, substitutes)` -/
def substituteGlobals (str : Bytes) (m : Substitutes) : Outcome :=
  translateRS filterGlobals (createTranslator m) str

/-- the texts of the tokens accepted by `f`, in text order, with repetitions -/
def extractBy (f : Tok → Bool) (str : Bytes) : Option (List Bytes) :=
  match decode str with
  | none => none
  | some cps => (lexMath cps).map fun toks => (toks.filter (fun t => f t.id)).map (fun t => encode t.text)

/-- `ExtractUGlobals(str)` (the C++ returns the `unordered_set` of these) -/
def extractUGlobals (str : Bytes) : Option (List Bytes) := extractBy filterGlobals str

/-- `ExtractULocals(str)` -/
def extractULocals (str : Bytes) : Option (List Bytes) := extractBy (fun t => t = .ID_LOCAL) str

/-! ### constituents: RSConcept::Translate, TextConcept::TranslateRaw -/

/-- text of an outcome; a fault leaves the string as the C++ would have left it only for `ok`,
so faults are propagated -/
def Outcome.text? : Outcome → Option Bytes
  | .ok s _ => some s
  | _ => none

/-- the content of one constituent that identifier translation touches: `RSConcept`
(alias, definition, convention) and `TextConcept` (raw term text, raw definition text) -/
structure Concept where
  uid : Nat
  alias : Bytes
  definition : Bytes
  convention : Bytes
  term : Bytes
  textDef : Bytes
deriving Repr, DecidableEq

/-- `RSConcept::Translate(old2New)`: definition and convention, both with `FilterGlobals` -/
def Concept.translateFormal (tr : Translator) (c : Concept) : Option Concept :=
  match (Translate.translateRS filterGlobals tr c.definition).text?, (Translate.translateRS filterGlobals tr c.convention).text? with
  | some d, some v => some { c with definition := d, convention := v }
  | _, _ => none

/-- `TextConcept::TranslateRaw(old2New)` = `term.TranslateRaw; definition.TranslateRaw`
(the resolved caches are recomputed afterwards by `UpdateFrom`; not part of the content) -/
def Concept.translateRaw (tr : Translator) (c : Concept) : Option Concept :=
  match Refs.translateRaw Refs.Variant.current tr c.term, Refs.translateRaw Refs.Variant.current tr c.textDef with
  | .ok t, .ok d => some { c with term := t, textDef := d }
  | _, _ => none

/-- `RSCore::Translate(target, old2New)` on the content: `schema.Translate` + `thesaurus.Translate` -/
def Concept.translate (tr : Translator) (c : Concept) : Option Concept :=
  (c.translateFormal tr).bind (·.translateRaw tr)

def mapM? {α β : Type} (f : α → Option β) : List α → Option (List β)
  | [] => some []
  | a :: as => match f a, mapM? f as with
    | some b, some bs => some (b :: bs)
    | _, _ => none

/-- `Schema::TranslateAll` + `Thesaurus::TranslateAll` on the content -/
def translateAll (tr : Translator) (cs : List Concept) : Option (List Concept) := mapM? (Concept.translate tr) cs

/-- `Schema::SetAliasFor(target, newValue, substitute)` + `Thesaurus::SetAliasFor` on the content
(after `IdentityManager::TryAlias` accepted the name): the alias of the target; with substitution,
`TranslateAll` with the one-entry map `old ↦ new` -/
def setAlias (cs : List Concept) (u : Nat) (new : Bytes) (subst : Bool) : Option (List Concept) :=
  match cs.find? (·.uid = u) with
  | none => some cs
  | some c =>
    if c.alias = new then some cs
    else
      let cs' := cs.map fun x => if x.uid = u then { x with alias := new } else x
      if subst then translateAll (createTranslator [(c.alias, new)]) cs' else some cs'

/-- `Schema::SubstitueAliases(old2New)` + `Thesaurus::SubstitueAliases` on the content
(`RSCore::ResetAliases` passes the map old alias ↦ re-issued alias) -/
def substituteAliases (cs : List Concept) (m : Substitutes) : Option (List Concept) :=
  let tr := createTranslator m
  translateAll tr (cs.map fun x => { x with alias := (tr x.alias).getD x.alias })

end CCVerif.Translate
