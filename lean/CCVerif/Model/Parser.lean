import CCVerif.Model.Lexer
/-!
Model of the RSLang parser (C05/C06): grammar `ccl/rslang/src/RSParserImpl.y` (bison LALR(1);
`bison --report=all` shows 82 conflicts, every one resolved by the `%left/%right` lines, none by
default), semantic actions `ccl/rslang/src/RSParser.cpp`, `ParserState.hpp`, `yylex`.

The LALR automaton is *not* modelled; this is a hand-written recursive-descent /
precedence-climbing parser for the same language (trusted base: agreement is established by the
correspondence run). The precedence levels and associativities are the generated `precLines`
(index of the `%left/%right` line = bison precedence). All grammar productions of
`Generated.grammarRules` are covered; `gen_tables.py` refuses to run when the production list
changes.

Shape: one expression parser for the union of `logic` and `setexpr` that tags its result with the
nonterminal it belongs to (`K`), and checks the tag where the grammar demands a specific
nonterminal. Raw trees keep bracket nodes (`PUNC_PL`, made by `RemoveBrackets`) until
`CreateSyntaxTree`, exactly like the C++ (`SemanticCheck` and `TupleDeclaration` see them).
Every syntax error, `TupleDeclaration` error, `SemanticCheck` error or INTERRUPT token gives
`none` (`Parser::Parse` returns `false`); which `ParseEID` is reported is not modelled.
-/
namespace CCVerif.Parser
open CCVerif.Syntax CCVerif.Generated CCVerif.Lexer

/-- which nonterminal a parsed phrase is -/
inductive K where
  /-- `setexpr` that is not `setexpr_binary` -/
  | set
  /-- `setexpr_binary` (also in parentheses) -/
  | setBin
  /-- `logic_predicates` -/
  | pred
  /-- `logic_unary` -/
  | unary
  /-- `logic_binary` -/
  | lbin
  /-- `logic_par` -/
  | lpar
deriving Repr, DecidableEq

def K.isSet : K → Bool | .set | .setBin => true | _ => false
/-- nonterminal `logic` -/
def K.isLogic : K → Bool | .pred | .unary | .lbin => true | _ => false
/-- nonterminal `logic_all` -/
def K.isLogicAll : K → Bool | .pred | .unary | .lbin | .lpar => true | _ => false
/-- nonterminal `logic_no_binary` -/
def K.isNoBinary : K → Bool | .pred | .unary | .lpar => true | _ => false

/-- bison precedence (index of the `%left/%right` line) and associativity of a terminal -/
def precGo (t : Tok) : List (Assoc × List Tok) → Nat → Option (Nat × Assoc)
  | [], _ => none
  | (a, ts) :: r, i => if ts.contains t then some (i, a) else precGo t r (i + 1)
def precOf (t : Tok) : Option (Nat × Assoc) := precGo t precLines 0

/-- operators of `setexpr_binary` -/
def isSetOp : Tok → Bool
  | .PLUS | .MINUS | .MULTIPLY | .UNION | .SET_MINUS | .SYMMINUS | .INTERSECTION | .DECART => true
  | _ => false
/-- operators of `logic_binary` -/
def isLogicOp : Tok → Bool
  | .EQUIVALENT | .IMPLICATION | .OR | .AND => true
  | _ => false
/-- nonterminal `binary_predicate` -/
def isPredOp : Tok → Bool
  | .IN | .NOTIN | .SUBSET | .SUBSET_OR_EQ | .NOTSUBSET | .NOTEQUAL | .EQUAL
  | .GREATER | .LESSER | .GREATER_OR_EQ | .LESSER_OR_EQ => true
  | _ => false
/-- nonterminal `text_function` -/
def isTextFn : Tok → Bool
  | .BOOL | .DEBOOL | .REDUCE | .BIGPR | .SMALLPR | .CARD => true
  | _ => false

abbrev Toks := List LTok

def peek : Toks → Tok
  | [] => .END
  | t :: _ => t.id
def peek2 : Toks → Tok
  | _ :: t :: _ => t.id
  | _ => .END

/-- `std::make_shared<Node>(token)` in `yylex` -/
def leaf (t : LTok) : Ast := .node t.id t.data t.lo t.hi []

def setRange (a : Ast) (lo hi : Int) : Ast := .node a.id a.data lo hi a.kids

/-- `BinaryOperation(op1, operation, op2)` -/
def binaryOperation (op1 : Ast) (op : LTok) (op2 : Ast) : Ast :=
  .node op.id op.data op1.lo op2.hi [op1, op2]

/-- `UnaryOperation(operation, operand)` -/
def unaryOperation (op : LTok) (operand : Ast) : Ast :=
  .node op.id op.data op.lo operand.hi [operand]

/-- `RemoveBrackets(br1, operand, br2)`: the operand takes the range of the brackets and is
wrapped in a `PUNC_PL` node -/
def removeBrackets (br1 : LTok) (operand : Ast) (br2 : LTok) : Ast :=
  .node .PUNC_PL .none br1.lo br2.hi [setRange operand br1.lo br2.hi]

/-- `Decartian(op1, decartian, op2)`: an operand that is a raw `DECART` node (not bracketed)
absorbs the next factor -/
def decartian (op1 : Ast) (op : LTok) (op2 : Ast) : Ast :=
  if op1.id == .DECART then .node op1.id op1.data op1.lo op2.hi (op1.kids ++ [op2])
  else binaryOperation op1 op op2

/-- `TextOperator(operatorName, args, rp)` -/
def textOperator (op : LTok) (arg : Ast) (rp : LTok) : Ast :=
  .node op.id op.data op.lo rp.hi [arg]

mutual
/-- `TupleDeclaration`: every node of the tuple must be `NT_TUPLE` (renamed `NT_TUPLE_DECL`) or
`ID_LOCAL` -/
def tupleDecl : Ast → Option Ast
  | .node id data lo hi kids =>
    if id == .NT_TUPLE then
      match tupleDeclList kids with
      | some ks => some (.node .NT_TUPLE_DECL data lo hi ks)
      | none => none
    else if id == .ID_LOCAL then
      match tupleDeclList kids with
      | some ks => some (.node id data lo hi ks)
      | none => none
    else none
def tupleDeclList : List Ast → Option (List Ast)
  | [] => some []
  | k :: ks =>
    match tupleDecl k, tupleDeclList ks with
    | some k', some ks' => some (k' :: ks')
    | _, _ => none
end

/-- range of a non-empty list of siblings: start of the first, finish of the last -/
def spanOf (first : Ast) (rest : List Ast) : Int × Int :=
  (first.lo, (rest.getLast?.getD first).hi)

mutual

/-- `setexpr_enum`: `setexpr (COMMA setexpr)*`; returns the elements -/
def enumE : Nat → Toks → Option (List Ast × Toks)
  | 0, _ => none
  | f+1, toks =>
    match setE f 0 toks with
    | some (k, e, r) => if k.isSet then enumTail f [e] r else none
    | none => none

/-- `(COMMA setexpr)*` -/
def enumTail : Nat → List Ast → Toks → Option (List Ast × Toks)
  | 0, _, _ => none
  | f+1, acc, toks =>
    match toks with
    | c :: r =>
      if c.id == .PUNC_COMMA then
        match setE f 0 r with
        | some (k, e, r') => if k.isSet then enumTail f (acc ++ [e]) r' else none
        | none => none
      else some (acc, toks)
    | [] => some (acc, toks)

/-- `variable : LOCAL | tuple` (with the `TupleDeclaration` check) -/
def varE : Nat → Toks → Option (Ast × Toks)
  | 0, _ => none
  | f+1, toks =>
    match toks with
    | t :: r =>
      if t.id == .ID_LOCAL then some (leaf t, r)
      else if t.id == .PUNC_PL then
        match primary f toks with
        | some (_, e, r') =>
          if e.id == .NT_TUPLE then
            match tupleDecl e with
            | some e' => some (e', r')
            | none => none
          else none
        | none => none
      else none
    | [] => none

/-- `variable_pack`: `variable (COMMA variable)*` -/
def varPackTail : Nat → List Ast → Toks → Option (List Ast × Toks)
  | 0, _, _ => none
  | f+1, acc, toks =>
    match toks with
    | c :: r =>
      if c.id == .PUNC_COMMA then
        match varE f r with
        | some (v, r') => varPackTail f (acc ++ [v]) r'
        | none => none
      else some (acc, toks)
    | [] => some (acc, toks)

/-- `arguments`: `declaration (COMMA declaration)*`, `declaration : LOCAL IN setexpr` -/
def argDecls : Nat → List Ast → Toks → Option (List Ast × Toks)
  | 0, _, _ => none
  | f+1, acc, toks =>
    match toks with
    | l :: i :: r =>
      if l.id == .ID_LOCAL && i.id == .IN then
        match setE f 0 r with
        | some (k, e, r') =>
          if k.isSet then
            let d := Ast.node .NT_ARG_DECL .none l.lo e.hi [leaf l, e]
            match r' with
            | c :: r'' => if c.id == .PUNC_COMMA then argDecls f (acc ++ [d]) r'' else some (acc ++ [d], r')
            | [] => some (acc ++ [d], r')
          else none
        | none => none
      else none
    | _ => none

/-- `imp_blocks`: `logic (SEMICOLON logic)*` -/
def blocks : Nat → List Ast → Toks → Option (List Ast × Toks)
  | 0, _, _ => none
  | f+1, acc, toks =>
    match logE f 0 toks with
    | some (k, e, r) =>
      if k.isLogic then
        match r with
        | c :: r' => if c.id == .PUNC_SEMICOLON then blocks f (acc ++ [e]) r' else some (acc ++ [e], r)
        | [] => some (acc ++ [e], r)
      else none
    | none => none

/-- a phrase that starts with a non-operator token -/
def primary : Nat → Toks → Option (K × Ast × Toks)
  | 0, _ => none
  | f+1, toks =>
    match toks with
    | [] => none
    | t :: rest =>
      match t.id with
      | .LIT_INTEGER | .LIT_EMPTYSET | .LIT_INTSET | .ID_GLOBAL | .ID_LOCAL | .ID_RADICAL =>
        some (.set, leaf t, rest)
      | .ID_FUNCTION | .ID_PREDICATE =>
        -- `FUNCTION LS setexpr_enum RS` / `PREDICATE LS setexpr_enum RS` : FunctionCall
        if peek rest == .PUNC_SL then
          match enumE f (rest.drop 1) with
          | some (args, rs :: r) =>
            if rs.id == .PUNC_SR then
              some (if t.id == .ID_PREDICATE then .unary else .set,
                    .node .NT_FUNC_CALL .none t.lo rs.hi (leaf t :: args), r)
            else none
          | _ => none
        else some (.set, leaf t, rest)
      | .BOOL | .DEBOOL | .REDUCE | .BIGPR | .SMALLPR | .CARD =>
        -- `text_function LP setexpr RPE`
        match rest with
        | lp :: r1 =>
          if lp.id == .PUNC_PL then
            match setE f 0 r1 with
            | some (k, e, rp :: r2) =>
              if k.isSet && rp.id == .PUNC_PR then some (.set, textOperator t e rp, r2) else none
            | _ => none
          else none
        | [] => none
      | .BOOLEAN =>
        -- `BOOLEAN LP setexpr RPE` | `BOOLEAN boolean`
        match rest with
        | nx :: r1 =>
          if nx.id == .PUNC_PL then
            match setE f 0 r1 with
            | some (k, e, rp :: r2) =>
              if k.isSet && rp.id == .PUNC_PR then some (.set, textOperator t e rp, r2) else none
            | _ => none
          else if nx.id == .BOOLEAN then
            match primary f rest with
            | some (_, e, r2) => some (.set, unaryOperation t e, r2)
            | none => none
          else none
        | [] => none
      | .FILTER =>
        -- `FILTER LS setexpr_enum RS LP setexpr RPE`
        if peek rest == .PUNC_SL then
          match enumE f (rest.drop 1) with
          | some (params, rs :: lp :: r1) =>
            if rs.id == .PUNC_SR && lp.id == .PUNC_PL then
              match setE f 0 r1 with
              | some (k, e, rp :: r2) =>
                if k.isSet && rp.id == .PUNC_PR then
                  some (.set, .node t.id t.data t.lo rp.hi (params ++ [e]), r2)
                else none
              | _ => none
            else none
          | _ => none
        else none
      | .PUNC_CL =>
        if peek rest == .ID_LOCAL && peek2 rest == .IN then
          -- `LC LOCAL IN setexpr BAR logic RCE` : TermDeclaration
          match rest with
          | l :: _ :: r1 =>
            match setE f 0 r1 with
            | some (k, d, bar :: r2) =>
              if k.isSet && bar.id == .PUNC_BAR then
                match logE f 0 r2 with
                | some (k2, p, rc :: r3) =>
                  if k2.isLogic && rc.id == .PUNC_CR then
                    some (.set, .node .NT_DECLARATIVE_EXPR .none t.lo rc.hi [leaf l, d, p], r3)
                  else none
                | _ => none
              else none
            | _ => none
          | _ => none
        else
          -- `LC setexpr_enum RC` : ReplaceBrackets(NT_ENUMERATION)
          match enumE f rest with
          | some (items, rc :: r) =>
            if rc.id == .PUNC_CR then some (.set, .node .NT_ENUMERATION .none t.lo rc.hi items, r) else none
          | _ => none
      | .DECLARATIVE =>
        -- `DECLARATIVE LC variable IN setexpr BAR logic RCE`
        if peek rest == .PUNC_CL then
          match varE f (rest.drop 1) with
          | some (v, i :: r1) =>
            if i.id == .IN then
              match setE f 0 r1 with
              | some (k, d, bar :: r2) =>
                if k.isSet && bar.id == .PUNC_BAR then
                  match logE f 0 r2 with
                  | some (k2, p, rc :: r3) =>
                    if k2.isLogic && rc.id == .PUNC_CR then
                      some (.set, .node .NT_DECLARATIVE_EXPR .none t.lo rc.hi [v, d, p], r3)
                    else none
                  | _ => none
                else none
              | _ => none
            else none
          | _ => none
        else none
      | .RECURSIVE =>
        -- `RECURSIVE LC variable ASSIGN setexpr BAR logic BAR setexpr RCE`
        -- `RECURSIVE LC variable ASSIGN setexpr BAR setexpr RCE`
        if peek rest == .PUNC_CL then
          match varE f (rest.drop 1) with
          | some (v, a :: r1) =>
            if a.id == .ASSIGN then
              match setE f 0 r1 with
              | some (k, d, bar :: r2) =>
                if k.isSet && bar.id == .PUNC_BAR then
                  match logE f 0 r2 with
                  | some (k2, c, nx :: r3) =>
                    if nx.id == .PUNC_BAR && k2.isLogic then
                      match setE f 0 r3 with
                      | some (k3, s, rc :: r4) =>
                        if k3.isSet && rc.id == .PUNC_CR then
                          some (.set, .node .NT_RECURSIVE_FULL .none t.lo rc.hi [v, d, c, s], r4)
                        else none
                      | _ => none
                    else if nx.id == .PUNC_CR && k2.isSet then
                      some (.set, .node .NT_RECURSIVE_SHORT .none t.lo nx.hi [v, d, c], r3)
                    else none
                  | _ => none
                else none
              | _ => none
            else none
          | _ => none
        else none
      | .IMPERATIVE =>
        -- `IMPERATIVE LC setexpr BAR imp_blocks RCE`
        if peek rest == .PUNC_CL then
          match setE f 0 (rest.drop 1) with
          | some (k, v, bar :: r1) =>
            if k.isSet && bar.id == .PUNC_BAR then
              match blocks f [] r1 with
              | some (bs, rc :: r2) =>
                if rc.id == .PUNC_CR then
                  some (.set, .node .NT_IMPERATIVE_EXPR .none t.lo rc.hi (v :: bs), r2)
                else none
              | _ => none
            else none
          | _ => none
        else none
      | .PUNC_PL =>
        -- `LP setexpr_binary RPE`, `LP logic_binary RPE`, `LP logic_predicates RPE` : RemoveBrackets
        -- `LP setexpr_enum_min2 RPE` : ReplaceBrackets(NT_TUPLE)
        match logE f 0 rest with
        | some (k, e, nx :: r1) =>
          if nx.id == .PUNC_PR then
            match k with
            | .setBin => some (.setBin, removeBrackets t e nx, r1)
            | .lbin | .pred => some (.lpar, removeBrackets t e nx, r1)
            | _ => none
          else if nx.id == .PUNC_COMMA && k.isSet then
            match enumTail f [e] (nx :: r1) with
            | some (items, rp :: r2) =>
              if rp.id == .PUNC_PR then some (.set, .node .NT_TUPLE .none t.lo rp.hi items, r2) else none
            | _ => none
          else none
        | _ => none
      | .NOT =>
        -- `NOT logic_no_binary`
        match predE f rest with
        | some (k, e, r) => if k.isNoBinary then some (.unary, unaryOperation t e, r) else none
        | none => none
      | .FORALL | .EXISTS =>
        -- `quantifier variable_pack IN setexpr logic_no_binary`
        match varE f rest with
        | some (v, r0) =>
          match varPackTail f [v] r0 with
          | some (vs, i :: r1) =>
            if i.id == .IN then
              let decl := match vs with
                | [single] => single
                | _ => let (lo, hi) := spanOf v (vs.drop 1); Ast.node .NT_ENUM_DECL .none lo hi vs
              match setE f 0 r1 with
              | some (k, d, r2) =>
                if k.isSet then
                  match predE f r2 with
                  | some (k2, p, r3) =>
                    if k2.isNoBinary then some (.unary, .node t.id t.data t.lo p.hi [decl, d, p], r3) else none
                  | none => none
                else none
              | none => none
            else none
          | _ => none
        | none => none
      | _ => none

/-- precedence climbing over the `setexpr_binary` operators; `minPrec` = lowest bison precedence
an operator may have to be absorbed here -/
def setE : Nat → Nat → Toks → Option (K × Ast × Toks)
  | 0, _, _ => none
  | f+1, minPrec, toks =>
    match primary f toks with
    | some (k, e, r) => setLoop f minPrec k e r
    | none => none

def setLoop : Nat → Nat → K → Ast → Toks → Option (K × Ast × Toks)
  | 0, _, _, _, _ => none
  | f+1, minPrec, k, lhs, toks =>
    match toks with
    | op :: r =>
      if isSetOp op.id && k.isSet then
        match precOf op.id with
        | some (p, assoc) =>
          if p ≥ minPrec then
            match setE f (if assoc == .left then p + 1 else p) r with
            | some (k2, rhs, r') =>
              if k2.isSet then
                let node := if op.id == .DECART then decartian lhs op rhs else binaryOperation lhs op rhs
                setLoop f minPrec .setBin node r'
              else none
            | none => none
          else some (k, lhs, toks)
        | none => none
      else some (k, lhs, toks)
    | [] => some (k, lhs, toks)

/-- `logic_predicates` or a single operand -/
def predE : Nat → Toks → Option (K × Ast × Toks)
  | 0, _ => none
  | f+1, toks =>
    match setE f 0 toks with
    | some (k, lhs, op :: r) =>
      if isPredOp op.id && k.isSet then
        match setE f 0 r with
        | some (k2, rhs, r') => if k2.isSet then some (.pred, binaryOperation lhs op rhs, r') else none
        | none => none
      else if (op.id == .ITERATE || op.id == .ASSIGN) && (lhs.id == .ID_LOCAL || lhs.id == .NT_TUPLE) then
        -- `variable ITERATE setexpr` / `variable ASSIGN setexpr`
        let v := if lhs.id == .NT_TUPLE then tupleDecl lhs else some lhs
        match v, setE f 0 r with
        | some v', some (k2, rhs, r') => if k2.isSet then some (.pred, binaryOperation v' op rhs, r') else none
        | _, _ => none
      else some (k, lhs, op :: r)
    | other => other

/-- precedence climbing over the `logic_binary` operators -/
def logE : Nat → Nat → Toks → Option (K × Ast × Toks)
  | 0, _, _ => none
  | f+1, minPrec, toks =>
    match predE f toks with
    | some (k, e, r) => logLoop f minPrec k e r
    | none => none

def logLoop : Nat → Nat → K → Ast → Toks → Option (K × Ast × Toks)
  | 0, _, _, _, _ => none
  | f+1, minPrec, k, lhs, toks =>
    match toks with
    | op :: r =>
      if isLogicOp op.id && k.isLogicAll then
        match precOf op.id with
        | some (p, assoc) =>
          if p ≥ minPrec then
            match logE f (if assoc == .left then p + 1 else p) r with
            | some (k2, rhs, r') =>
              if k2.isLogicAll then logLoop f minPrec .lbin (binaryOperation lhs op rhs) r' else none
            | none => none
          else some (k, lhs, toks)
        | none => none
      else some (k, lhs, toks)
    | [] => some (k, lhs, toks)

end

/-- `logic_or_setexpr` -/
def logicOrSet (f : Nat) (toks : Toks) : Option (Ast × Toks) :=
  match logE f 0 toks with
  | some (k, e, r) => if k.isLogic || k.isSet then some (e, r) else none
  | none => none

/-- `no_declaration : logic_or_setexpr | function_definition` -/
def noDeclaration (f : Nat) (toks : Toks) : Option (Ast × Toks) :=
  match toks with
  | ls :: rest =>
    if ls.id == .PUNC_SL then
      -- `LS arguments RS logic_or_setexpr` : FunctionDeclaration
      match argDecls f [] rest with
      | some (d :: ds, rs :: r1) =>
        if rs.id == .PUNC_SR then
          let (lo, hi) := spanOf d ds
          let args := Ast.node .NT_ARGUMENTS .none lo hi (d :: ds)
          match logicOrSet f r1 with
          | some (e, r2) => some (.node .NT_FUNC_DEFINITION .none ls.lo e.hi [args, e], r2)
          | none => none
        else none
      | _ => none
    else logicOrSet f toks
  | [] => none

/-- raw tree of `expression` (before `CreateSyntaxTree`) -/
def expression (f : Nat) (toks : Toks) : Option Ast :=
  match toks with
  | g :: m :: rest =>
    if (g.id == .ID_GLOBAL || g.id == .ID_FUNCTION || g.id == .ID_PREDICATE) &&
       (m.id == .PUNC_DEFINE || m.id == .PUNC_STRUCT) then
      match rest with
      | [] =>
        -- `global_name DEFINE` : FinalizeCstEmpty
        if m.id == .PUNC_DEFINE then some (.node m.id m.data g.lo m.hi [leaf g]) else none
      | _ =>
        -- `global_name DEFINE no_declaration` / `global_name STRUCT no_declaration`
        match noDeclaration f rest with
        | some (e, []) => some (.node m.id m.data g.lo e.hi [leaf g, e])
        | _ => none
    else
      match noDeclaration f toks with
      | some (e, []) => some e
      | _ => none
  | _ =>
    match noDeclaration f toks with
    | some (e, []) => some e
    | _ => none

mutual
/-- `SemanticCheck`: `ITERATE` / `ASSIGN` only directly below `NT_IMPERATIVE_EXPR` -/
def semanticCheck (parent : Option Tok) : Ast → Bool
  | .node id _ _ _ kids =>
    (if id == .ASSIGN || id == .ITERATE then parent == some .NT_IMPERATIVE_EXPR else true) &&
    semanticCheckList (some id) kids
def semanticCheckList (parent : Option Tok) : List Ast → Bool
  | [] => true
  | k :: ks => semanticCheck parent k && semanticCheckList parent ks
end

mutual
/-- `CreateNodeRecursive`: bracket nodes are replaced by their operand -/
def stripBrackets : Ast → Option Ast
  | .node id data lo hi kids =>
    if id == .PUNC_PL then
      match kids with
      | k :: _ => stripBrackets k
      | [] => none   -- `children.at(0)` of an empty vector; never built by the parser
    else
      match stripBracketsList kids with
      | some ks => some (.node id data lo hi ks)
      | none => none
def stripBracketsList : List Ast → Option (List Ast)
  | [] => some []
  | k :: ks =>
    match stripBrackets k, stripBracketsList ks with
    | some k', some ks' => some (k' :: ks')
    | _, _ => none
end

/-- recursion depth allowed for `n` tokens (every nesting level consumes a token and passes through
at most six functions; the bound is generous, see `Lemmas/ParsePrint.lean` for a proof that it
suffices on the fragment covered there) -/
def fuelFor (n : Nat) : Nat := 32 * n + 64

/-- `RSParser::Parse` on the token stream of a lexer (up to and including END): `none` =
`false`. `yylex` turns INTERRUPT into end-of-input and counts a critical error, so a stream with
an INTERRUPT never succeeds. -/
def parseToks (ts : Toks) : Option Ast :=
  let body := ts.takeWhile (fun t => t.id != .END && t.id != .INTERRUPT)
  if ts.any (fun t => t.id == .INTERRUPT) then none
  else
    match expression (fuelFor body.length) body with
    | some raw => if semanticCheck none raw then stripBrackets raw else none
    | none => none

/-- `Parser::Parse(text, syntax)` then `AST()` -/
def parse (syn : Syn) (text : List Nat) : Option Ast :=
  match lex syn text with
  | some ts => parseToks ts
  | none => none

end CCVerif.Parser
