/-
Value model of the RSLang evaluator (properties C01 / C02).

Transcribes the *observable* behaviour of `ccl/rslang/src/StructuredData.cpp` and
`ccl/rslang/src/SDImplementation.cpp`: a value is a basic element (`int32_t`), a tuple or a set.
All three set representations of the C++ (`SDEnumSet` = `std::set` ordered by `operator<`,
lazy `SDPowerSet`, lazy `SDDecartian`) iterate their elements in the order of `Compare`, so a set
is modelled by the list of its elements in iteration order (`cmp`-sorted, duplicate free).
The caches of the lazy sets are memory management only (observed under ASan, not modelled).
Self-contained: the C15 package has its own, fuller model in `CCVerif.SData`.
-/
namespace CCVerif.Eval

/-- `StructuredData`: `SDBasicElement` / `SDTuple` / `SDSet` (elements in iteration order) -/
inductive Val where
  | e (n : Int)
  | t (cs : List Val)
  | s (xs : List Val)
deriving Repr, Inhabited

/-- `ccl::Comparison` -/
inductive Cmp where
  | lt | eq | gt | inc
deriving Repr, DecidableEq, Inhabited

namespace Val

/-! ## structural equality (decidable) -/
mutual
def beq : Val → Val → Bool
  | .e a, .e b => a == b
  | .t as, .t bs => beqList as bs
  | .s as, .s bs => beqList as bs
  | _, _ => false
def beqList : List Val → List Val → Bool
  | [], [] => true
  | a :: as, b :: bs => beq a b && beqList as bs
  | _, _ => false
end

mutual
theorem beq_eq : ∀ (a b : Val), beq a b = true → a = b
  | .e a, .e b, h => by simp [beq] at h; rw [h]
  | .t as, .t bs, h => by simp [beq] at h; rw [beqList_eq as bs h]
  | .s as, .s bs, h => by simp [beq] at h; rw [beqList_eq as bs h]
  | .e _, .t _, h | .e _, .s _, h | .t _, .e _, h | .t _, .s _, h | .s _, .e _, h | .s _, .t _, h => by
    simp [beq] at h
theorem beqList_eq : ∀ (as bs : List Val), beqList as bs = true → as = bs
  | [], [], _ => rfl
  | a :: as, b :: bs, h => by
    simp [beqList] at h
    rw [beq_eq a b h.1, beqList_eq as bs h.2]
  | [], _ :: _, h | _ :: _, [], h => by simp [beqList] at h
end

mutual
theorem beq_refl : ∀ (a : Val), beq a a = true
  | .e a => by simp [beq]
  | .t as => by simp [beq, beqList_refl as]
  | .s as => by simp [beq, beqList_refl as]
theorem beqList_refl : ∀ (as : List Val), beqList as as = true
  | [] => rfl
  | a :: as => by simp [beqList, beq_refl a, beqList_refl as]
end

instance : DecidableEq Val := fun a b =>
  if h : beq a b = true then isTrue (beq_eq a b h)
  else isFalse (fun he => h (he ▸ beq_refl a))

/-! ## `Compare` -/
mutual
/-- `StructuredData::Compare`: different structure ⇒ INCOMPARABLE; elements by value; tuples of
equal arity component-wise (`SDTuple::Compare`); sets by cardinality first, then element-wise
in iteration order (`SDSet::Compare`). -/
def cmp : Val → Val → Cmp
  | .e a, .e b => if a = b then .eq else if a < b then .lt else .gt
  | .t as, .t bs => if as.length ≠ bs.length then .inc else cmpLex as bs
  | .s as, .s bs =>
    if as.length > bs.length then .gt else if as.length < bs.length then .lt else cmpLex as bs
  | _, _ => .inc
/-- first non-EQUAL component comparison -/
def cmpLex : List Val → List Val → Cmp
  | a :: as, b :: bs => match cmp a b with
    | .eq => cmpLex as bs
    | r => r
  | _, _ => .eq
end

/-- `StructuredData::operator<` -/
def lt (a b : Val) : Bool := cmp a b == .lt

/-! ## `SDEnumSet` = `std::set<StructuredData>` -/

/-- `std::set::insert`: position by `operator<`, an equivalent element blocks the insertion -/
def insert (x : Val) : List Val → List Val
  | [] => [x]
  | y :: ys => if lt x y then x :: y :: ys else if lt y x then y :: insert x ys else y :: ys

/-- `std::set::contains` on the ordered sequence -/
def mem (x : Val) : List Val → Bool
  | [] => false
  | y :: ys => if lt x y then false else if lt y x then mem x ys else true

/-- `AddElement` of every listed element into an empty set, in order (`Factory::Set`) -/
def insertAll (acc : List Val) (xs : List Val) : List Val := xs.foldl (fun a x => insert x a) acc
def mkSetList (xs : List Val) : List Val := insertAll [] xs
def mkSet (xs : List Val) : Val := .s (mkSetList xs)

/-- `SDSet::IsSubsetOrEq` -/
def subsetEq (xs ys : List Val) : Bool := xs.all (fun x => mem x ys)

/-- `SDSet::Union` -/
def union (xs ys : List Val) : List Val := insertAll (insertAll [] xs) ys
/-- `SDSet::Intersect`: elements of the second operand contained in the first -/
def inter (xs ys : List Val) : List Val := insertAll [] (ys.filter (fun y => mem y xs))
/-- `SDSet::Diff` -/
def diff (xs ys : List Val) : List Val := insertAll [] (xs.filter (fun x => !mem x ys))
/-- `SDSet::SymDiff` -/
def symDiff (xs ys : List Val) : List Val :=
  insertAll (insertAll [] (xs.filter (fun x => !mem x ys))) (ys.filter (fun y => !mem y xs))

/-- `SDTuple::Component(index)` (1-based); `none` = `components.at` on a missing index / `T()` of
a non-tuple -/
def component (v : Val) (i : Int) : Option Val :=
  match v with
  | .t cs => if i ≥ 1 then cs[(i - 1).toNat]? else none
  | _ => none

/-- `Factory::Tuple`: one component ⇒ the component itself; `none` = the `assert(size > 0)` -/
def mkTuple : List Val → Option Val
  | [] => none
  | [c] => some c
  | cs => some (.t cs)

def components (v : Val) (idx : List Int) : Option (List Val) := idx.mapM (component v)

/-- the tuple of selected components (`ViProjectTuple`, body of `SDSet::Projection`) -/
def project (v : Val) (idx : List Int) : Option Val := (components v idx).bind mkTuple

/-- `SDSet::Projection` -/
def projSet (xs : List Val) (idx : List Int) : Option (List Val) :=
  (xs.mapM (fun x => project x idx)).map mkSetList

/-- `SDSet::Reduce`; `none` = an element that is no collection (`assert`, then `B()` of a non-set) -/
def reduce (xs : List Val) : Option (List Val) :=
  (xs.mapM (fun (x : Val) => match x with | Val.s ys => some ys | _ => none)).map (fun (ls : List (List Val)) => mkSetList ls.flatten)

/-! ## lazy sets: iteration order of `SDPowerSet::Iterator` and `SDDecartian::Iterator` -/

/-- subsets with `k` elements in the order `Increment` produces them -/
def combos : Nat → List Val → List (List Val)
  | 0, _ => [[]]
  | _ + 1, [] => []
  | k + 1, x :: xs => (combos k xs).map (x :: ·) ++ combos (k + 1) xs

/-- all subsets: by size, then lexicographically by position -/
def powList (xs : List Val) : List (List Val) :=
  (List.range (xs.length + 1)).flatMap (fun k => combos k xs)

def pow (xs : List Val) : List Val := (powList xs).map Val.s

/-- odometer, last factor fastest -/
def prodList : List (List Val) → List (List Val)
  | [] => [[]]
  | f :: fs => f.flatMap (fun x => (prodList fs).map (x :: ·))

def SET_INFINITY : Nat := 0x0FFFFFFF
def BOOL_INFINITY : Nat := 30

/-- `SDDecartian::UpdateSize` (factors non-empty) -/
def prodCard (fs : List (List Val)) : Nat :=
  fs.foldl (fun count f => if SET_INFINITY / f.length ≥ count then count * f.length else SET_INFINITY) 1

/-- `SDPowerSet::UpdateSize` -/
def powCard (n : Nat) : Nat := if n > BOOL_INFINITY then SET_INFINITY else 2 ^ n

/-- `Factory::Decartian` -/
def prod (fs : List (List Val)) : List Val :=
  if fs.any (·.isEmpty) then [] else (prodList fs).map Val.t

/-! ## `ToString` -/
mutual
def toStr : Val → String
  | .e n => toString n
  | .t cs => "(" ++ joinStr cs ++ ")"
  | .s xs => "{" ++ joinStr xs ++ "}"
def joinStr : List Val → String
  | [] => ""
  | [x] => toStr x
  | x :: y :: r => toStr x ++ ", " ++ joinStr (y :: r)
end

/-! ## canonical form (representation invariant of every value the evaluator handles) -/

def sortedStrict : List Val → Bool
  | [] => true
  | [_] => true
  | a :: b :: r => lt a b && sortedStrict (b :: r)

mutual
/-- sets strictly `cmp`-increasing (hence duplicate free), recursively; tuples have arity ≥ 2 -/
def canon : Val → Bool
  | .e _ => true
  | .t cs => decide (cs.length ≥ 2) && canonAll cs
  | .s xs => canonAll xs && sortedStrict xs
def canonAll : List Val → Bool
  | [] => true
  | x :: xs => canon x && canonAll xs
end

mutual
def depth : Val → Nat
  | .e _ => 0
  | .t cs => depthList cs + 1
  | .s xs => depthList xs + 1
def depthList : List Val → Nat
  | [] => 0
  | x :: xs => max (depth x) (depthList xs)
end

end Val

/-! ## typifications (`Typification`, `ExpressionType`) and `CheckCompatible` -/

inductive Ty where
  | base (id : String)
  | tuple (cs : List Ty)
  | coll (b : Ty)
deriving Repr, Inhabited

inductive ExprTy where
  | logic
  | ty (t : Ty)
deriving Repr, Inhabited

namespace Ty
def isAny : Ty → Bool
  | .base id => id == "R0"
  | _ => false

mutual
/-- full structural typing of a value: basic ↔ element, tuple ↔ same arity and component-wise,
collection ↔ *every* element has the base type; the any-type `R0` is inhabited by everything -/
def hasTy : Val → Ty → Bool
  | v, .base id => id == "R0" || (match v with | .e _ => true | _ => false)
  | .t vs, .tuple ts => hasTyList vs ts
  | .s xs, .coll b => hasTyAll xs b
  | _, _ => false
def hasTyList : List Val → List Ty → Bool
  | [], [] => true
  | v :: vs, t :: ts => hasTy v t && hasTyList vs ts
  | _, _ => false
def hasTyAll : List Val → Ty → Bool
  | [], _ => true
  | v :: vs, b => hasTy v b && hasTyAll vs b
end

mutual
/-- transcription of `object::CheckCompatible` (StructuredData.cpp): structure must agree; a
collection is checked through its *first* element only -/
def checkCompatible : Val → Ty → Bool
  | .e _, .base _ => true
  | .t vs, .tuple ts => vs.length == ts.length && checkCompatibleList vs ts
  | .s [], .coll _ => true
  | .s (x :: _), .coll b => checkCompatible x b
  | _, _ => false
def checkCompatibleList : List Val → List Ty → Bool
  | v :: vs, t :: ts => checkCompatible v t && checkCompatibleList vs ts
  | _, _ => true
end
end Ty

end CCVerif.Eval
