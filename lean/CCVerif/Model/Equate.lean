import CCVerif.Model.Merge
/-!
Model of `RSEquationProcessor` (ccl/core/src/ops/RSEquationProcessor.cpp), of
`RSForm::EquateTextsOf` (ccl/core/src/semantic/rsform/RSForm.cpp) and of
`rsOperationFacet::Equate` — C12, on the schema content of `Model/Dedup.lean`.

`Execute(options)`: `Evaluate(options)` (admissibility), then
```
ChangeEquatedCsts();   // for (key, value) of the table: translation.Insert(key, value); EquateTextsOf(key, value, props)
UpdateExpressions();   // every constituent: Translate(uid, {alias(key) ↦ alias(value) …})   (simultaneous)
RemoveEquatedCsts();   // Erase(key) for every key
translation.SuperposeWith(schema.DeleteDuplicatesInternal());
```

Admissibility has a structural part, transcribed in `precheck` (`Evaluate`: the table is not empty;
`PrecheckFor`: key ≠ value, both present, both `IsRSObject`, not (value a base set and key not), not
(value a base notion and key not); `ResolveCstAndPrecheck`: no value is also a key), and a semantic
part (the value is not reachable from the key in the definition graph nor in the term graph, both
are typed, and for two non-base-sets the typifications coincide after the substitution) that needs
the analysis of the definitions: that part is an *input* of the model (`semOk`, in the tie the
verdict the implementation gave).

The table is an `unordered_map`; its iteration order (an input: the order of `eqs`) matters only
for the text effects of two equations with the same value. Keys are distinct (a map).

`EquateTextsOf(del, hier, params)`: `keepHier` (mode 1) leaves the texts, `keepDel` (2) gives the
surviving constituent the term text and the definition text of the deleted one, `createNew` (3)
gives it the term text `params.arg`; then the deleted constituent's own texts are translated
`{alias(del) ↦ alias(hier)}` (without effect on the outcome: it is erased and never read again).
`rest` of a constituent is `[convention, term text, definition text]`.
-/
namespace CCVerif.Equate
open CCVerif.Translation CCVerif.Dedup CCVerif.Merge

structure Entry where
  key : Nat
  value : Nat
  /-- 1 keepHier, 2 keepDel, 3 createNew -/
  mode : Nat := 1
  /-- `Equation::arg`, tokenised as a text -/
  arg : List Tok := []
deriving Repr, DecidableEq

def isRSObject (k : Nat) : Bool := k == 1 || k == 2 || k == 4 || k == 6
def isBaseSet (k : Nat) : Bool := k == 1 || k == 2
def isBaseNotion (k : Nat) : Bool := k == 1 || k == 2 || k == 4

def findUid (l : Schema) (u : Nat) : Option Cst := l.find? (·.uid == u)

/-- the structural part of `PrecheckFor` for one equation -/
def precheckFor (l : Schema) (e : Entry) : Bool :=
  match findUid l e.key, findUid l e.value with
  | some k, some v =>
    e.key != e.value && isRSObject k.kind && isRSObject v.kind &&
    !(!isBaseSet k.kind && isBaseSet v.kind) && !(!isBaseNotion k.kind && isBaseNotion v.kind)
  | _, _ => false

/-- the structural part of `Evaluate` -/
def precheck (l : Schema) (eqs : List Entry) : Bool :=
  !eqs.isEmpty && eqs.all fun e => precheckFor l e && !eqs.any (·.key == e.value)

/-- the effect of the text mode on the surviving constituent -/
def setTexts (e : Entry) (d : Cst) (c : Cst) : Cst :=
  if c.uid == e.value then
    if e.mode == 2 then { c with rest := (c.rest.set 1 (d.rest.getD 1 [])).set 2 (d.rest.getD 2 []) }
    else if e.mode == 3 then { c with rest := c.rest.set 1 e.arg }
    else c
  else c

/-- `core.TranslateTexts(delID, {alias(del) ↦ alias(hier)})` -/
def translateDel (e : Entry) (d h : Cst) (c : Cst) : Cst :=
  if c.uid == e.key then
    let f := renTok (subst1 d.alias h.alias)
    { c with rest := (c.rest.set 1 ((c.rest.getD 1 []).map f)).set 2 ((c.rest.getD 2 []).map f) }
  else c

/-- `EquateTextsOf(e.key, e.value, props)` -/
def equateTexts (l : Schema) (e : Entry) : Schema :=
  match findUid l e.key, findUid l e.value with
  | some d, some h => (l.map (setTexts e d)).map (translateDel e d h)
  | _, _ => l

/-- `nameSubstitutes` (built by `ResolveCstAndPrecheck` before anything is changed) -/
def nameSubst (l : Schema) (eqs : List Entry) : List (String × String) :=
  eqs.filterMap fun e =>
    match findUid l e.key, findUid l e.value with
    | some k, some v => some (k.alias, v.alias)
    | _, _ => none

/-- the translation `ChangeEquatedCsts` builds -/
def eqTr (eqs : List Entry) : Tr := eqs.foldl (fun t e => Translation.insert t e.key e.value) []

/-- the schema when `DeleteDuplicatesInternal` is entered: texts equated, every constituent
translated, the keys erased -/
def beforeDedup (l : Schema) (eqs : List Entry) : Schema :=
  let l1 := eqs.foldl equateTexts l
  let l2 := l1.map (Cst.rename (ctxFn (nameSubst l eqs)))
  l2.filter fun c => !eqs.any (·.key == c.uid)

/-- `RSEquationProcessor::Execute` / `rsOperationFacet::Equate`: `none` = refused (nothing is
modified), else the content afterwards and `Translation()` -/
def equate (semOk : Bool) (l : Schema) (eqs : List Entry) : Option (Schema × Tr) :=
  if !(precheck l eqs && semOk) then none
  else
    match dedup (beforeDedup l eqs) with
    | none => none
    | some (r, trD) => some (r, superposeWith (eqTr eqs) trD)

end CCVerif.Equate
