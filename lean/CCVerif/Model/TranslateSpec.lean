import CCVerif.Model.Translate
import CCVerif.Model.RefsSpec
/-!
Specification side of C08 (what the property demands of an identifier translation), independent of
the byte-offset bookkeeping transcribed in `CCVerif.Model.Translate`. Executable: the driver prints
it as the oracle column; the theorems of `CCVerif.Properties.C08` are stated against `weaveToks`.

Two levels.

* **token level** (`weaveToks`, `changed`): given the MATH token stream of the text (code-point
  offsets and texts), the translated text is the text with every token accepted by the filter
  replaced by its image — all tokens looked up in the ORIGINAL text, so a map is applied
  simultaneously and once per token (swaps, chains) — and every code point outside those tokens
  kept; no byte offsets, no running difference.
* **word level** (`scan`, `translateWords`): what a "whole-identifier occurrence" is, without the
  lexer model and its rule table: an identifier is a maximal run of identifier symbols (ASCII
  letters, digits, `_`, Greek lower-case letters) that does not start with a digit (leading digits
  are a number of their own) or the letter `B` (not a symbol of the MATH alphabet), and is not a
  reserved word (`D R I Z`, `card bool red debool`, `Pr<n> pr<n> Fi<n>`, `R<n>`). It is a global
  name when it starts with an upper-case letter, a local name otherwise. This is the reading of
  "whole identifier, not an identifier that merely contains the name" the oracle uses.
-/
namespace CCVerif.Translate.Spec
open CCVerif.Syntax CCVerif.Lexer CCVerif.Strings CCVerif.Translate

/-! ### token level -/

def slice (cps : List Nat) (a b : Nat) : List Nat := (cps.drop a).take (b - a)

/-- the bytes that stand for token `t` after the translation -/
def newText (f : Tok → Bool) (tr : Translator) (t : RawTok) : Bytes :=
  if f t.id then (tr (encode t.text)).getD (encode t.text) else encode t.text

/-- is token `t` replaced by a different text -/
def isChanged (f : Tok → Bool) (tr : Translator) (t : RawTok) : Bool :=
  f t.id && (match tr (encode t.text) with | some n => decide (n ≠ encode t.text) | none => false)

/-- the text from code point `cur` on: inter-token code points verbatim, tokens through `newText` -/
def weaveToks (f : Tok → Bool) (tr : Translator) (cps : List Nat) : Nat → List RawTok → Bytes
  | cur, [] => encode (cps.drop cur)
  | cur, t :: ts => encode (slice cps cur t.lo) ++ newText f tr t ++ weaveToks f tr cps (t.lo + t.text.length) ts

/-- number of replaced tokens -/
def changed (f : Tok → Bool) (tr : Translator) (toks : List RawTok) : Nat := (toks.filter (isChanged f tr)).length

/-- the token list after the translation, as (kind, text in bytes) -/
def mappedToks (f : Tok → Bool) (tr : Translator) (toks : List RawTok) : List (Tok × Bytes) :=
  toks.map fun t => (t.id, newText f tr t)

/-- the identifier class of a name: it lexes, on its own, as exactly one identifier token -/
def idClass (n : Bytes) : Option Tok :=
  match decode n with
  | none => none
  | some cps =>
    match lexMath cps with
    | some [t] => if t.text = cps ∧ filterIdentifiers t.id = true then some t.id else none
    | _ => none

/-- the token list expected when the translated text is lexed again: unchanged tokens as they were,
a replaced token as ONE identifier token spelled as the new name. `none`: some new name is not an
identifier spelling (then nothing is claimed about lexing the result). -/
def relexExpected (f : Tok → Bool) (tr : Translator) (toks : List RawTok) : Option (List (Tok × Bytes)) :=
  mapM? (fun t =>
    if isChanged f tr t then (idClass (newText f tr t)).map (fun k => (k, newText f tr t))
    else some (t.id, encode t.text)) toks

/-- the claim of `relex_stable` on one text, as a check: when every replaced token is replaced by an
identifier spelling and the result is well formed, lexing the result gives `relexExpected`
(`false` also when the hypothesis is not met, so that an instance proves both) -/
def relexHolds (f : Tok → Bool) (tr : Translator) (cps : List Nat) : Bool :=
  match lexMath cps with
  | none => false
  | some toks =>
    match relexExpected f tr toks, decode (weaveToks f tr cps 0 toks) with
    | some exp, some cps' => (lexMath cps').map (·.map fun t => (t.id, encode t.text)) == some exp
    | _, _ => false

/-! ### word level -/

def isDigitC (c : Nat) : Bool := 48 ≤ c && c ≤ 57
def isUpperC (c : Nat) : Bool := 65 ≤ c && c ≤ 90
def isLowerC (c : Nat) : Bool := (97 ≤ c && c ≤ 122) || (0x3B1 ≤ c && c ≤ 0x3C9)
/-- identifier symbol -/
def isWordC (c : Nat) : Bool := c == 95 || isDigitC c || isUpperC c || isLowerC c

inductive Piece where
  /-- kept verbatim -/
  | raw (s : List Nat)
  /-- an occurrence of a global name (constituent, function, predicate) -/
  | glob (s : List Nat)
  /-- an occurrence of a local name -/
  | loc (s : List Nat)
deriving Repr, DecidableEq

/-- `pre` followed by one or more digits and nothing else -/
def isNumbered (pre : List Nat) (w : List Nat) : Bool :=
  w.take pre.length == pre && !(w.drop pre.length).isEmpty && (w.drop pre.length).all isDigitC

/-- reserved words of the MATH syntax that look like identifiers -/
def reserved (w : List Nat) : Bool :=
  w == [68] || w == [82] || w == [73] || w == [90] ||                              -- D R I Z
  w == [99, 97, 114, 100] || w == [98, 111, 111, 108] || w == [114, 101, 100] ||   -- card bool red
  w == [100, 101, 98, 111, 111, 108] ||                                            -- debool
  isNumbered [80, 114] w || isNumbered [112, 114] w || isNumbered [70, 105] w ||   -- Pr<n> pr<n> Fi<n>
  isNumbered [82] w                                                                -- R<n> (radical)

def classify (w : List Nat) : Piece :=
  if reserved w then .raw w
  else match w with
    | c :: _ => if isUpperC c then .glob w else .loc w
    | [] => .raw w

/-- split a text into verbatim pieces and identifier occurrences; `fuel` ≥ length -/
def scan : Nat → List Nat → List Piece
  | 0, _ => []
  | _, [] => []
  | fuel + 1, c :: r =>
    if isDigitC c then
      let k := ((c :: r).takeWhile isDigitC).length
      .raw ((c :: r).take k) :: scan fuel ((c :: r).drop k)
    else if c == 66 then .raw [c] :: scan fuel r
    else if isWordC c then
      let k := ((c :: r).takeWhile isWordC).length
      classify ((c :: r).take k) :: scan fuel ((c :: r).drop k)
    else .raw [c] :: scan fuel r

def pieces (cps : List Nat) : List Piece := scan (cps.length + 1) cps

/-- does the filter (`locals = false`: FilterGlobals, `true`: FilterIdentifiers) accept the piece -/
def accepts (locals : Bool) : Piece → Option (List Nat)
  | .glob w => some w
  | .loc w => if locals then some w else none
  | .raw _ => none

def pieceBytes : Piece → Bytes
  | .raw w => encode w
  | .glob w => encode w
  | .loc w => encode w

def translatePiece (locals : Bool) (tr : Translator) (p : Piece) : Bytes × Nat :=
  match accepts locals p with
  | some w =>
    match tr (encode w) with
    | some n => if n ≠ encode w then (n, 1) else (encode w, 0)
    | none => (encode w, 0)
  | none => (pieceBytes p, 0)

/-- the text with exactly the whole-identifier occurrences of mapped names replaced, and how many -/
def translateWords (locals : Bool) (tr : Translator) (cps : List Nat) : Bytes × Nat :=
  (pieces cps).foldl (fun acc p => let r := translatePiece locals tr p; (acc.1 ++ r.1, acc.2 + r.2)) ([], 0)

/-- the global names mentioned (text order, with repetitions) -/
def globalsOf (cps : List Nat) : List Bytes :=
  (pieces cps).filterMap fun p => match p with | .glob w => some (encode w) | _ => none

/-- word-level translation of a byte string; `none`: not well-formed UTF-8 (outside the spec) -/
def translateBytes (locals : Bool) (tr : Translator) (s : Bytes) : Option (Bytes × Nat) :=
  (decode s).map (translateWords locals tr)

/-! ### constituents -/

/-- text references: C17's specification of `TranslateRaw` (found references by the candidate
scan and the reference grammar; in an affected entity reference the bytes of the name are replaced
by the new name, everything else byte for byte) -/
def translateRefs (tr : Translator) (s : Bytes) : Option Bytes :=
  (decode s).map (Refs.Spec.translateSpec tr)

/-- STRICT reading of "changes nothing else" for text references, written down here independently of
C17's `translatedItem`: of an affected entity reference only the bytes of the name change (`@{` name
`|…}` keeps its tags, their order, blanks and legacy fields byte for byte); any other found
reference keeps all its bytes. This is what the code does since the commit "fix: renaming an entity
inside a text reference rewrites the name only" (`translateRaw_strict`). -/
def strictItem (tr : Translator) (cps : List Nat) (x : Nat × Nat × Refs.RefData) : Refs.Spec.Found :=
  let orig := encode (Refs.Spec.slice cps x.1 x.2.1)
  match x.2.2 with
  | .entity n _ =>
    match tr n with
    | some n' => if n' = n then ⟨x.1, x.2.1, x.2.2, orig⟩
                 else ⟨x.1, x.2.1, x.2.2, orig.take 2 ++ n' ++ orig.drop (2 + n.length)⟩
    | none => ⟨x.1, x.2.1, x.2.2, orig⟩
  | .collab .. => ⟨x.1, x.2.1, x.2.2, orig⟩

def translateRefsStrict (tr : Translator) (cps : List Nat) : Bytes :=
  Refs.Spec.weave cps 0 ((Refs.Spec.refsOf cps).map (strictItem tr cps))

/-- PINNED old behaviour (the code before the commit named above; not what the code does now, kept
only for the closed fact `translateRaw_respelled_pinned_observed`): an affected entity reference
was replaced as a whole by its canonical spelling `Reference::ToString` (known tags in enumerator
order, blanks / repeated / unknown tags / the legacy field form lost). -/
def respelledItemPinned (tr : Translator) (cps : List Nat) (x : Nat × Nat × Refs.RefData) : Refs.Spec.Found :=
  let orig := encode (Refs.Spec.slice cps x.1 x.2.1)
  match x.2.2 with
  | .entity n f =>
    match tr n with
    | some n' => if n' = n then ⟨x.1, x.2.1, x.2.2, orig⟩
                 else ⟨x.1, x.2.1, x.2.2, (Refs.RefData.entity n' f).toString⟩
    | none => ⟨x.1, x.2.1, x.2.2, orig⟩
  | .collab .. => ⟨x.1, x.2.1, x.2.2, orig⟩

def translateRefsRespelledPinned (tr : Translator) (cps : List Nat) : Bytes :=
  Refs.Spec.weave cps 0 ((Refs.Spec.refsOf cps).map (respelledItemPinned tr cps))

def translateConcept (tr : Translator) (c : Concept) : Option Concept :=
  match translateBytes false tr c.definition, translateBytes false tr c.convention,
        translateRefs tr c.term, translateRefs tr c.textDef with
  | some d, some v, some t, some x => some { c with definition := d.1, convention := v.1, term := t, textDef := x }
  | _, _, _, _ => none

/-- renaming with a simultaneous map: aliases through the map, every definition / convention with
the whole-identifier occurrences replaced, every text with the entity references renamed -/
def renameAll (m : Substitutes) (cs : List Concept) : Option (List Concept) :=
  let tr := createTranslator m
  mapM? (translateConcept tr) (cs.map fun x => { x with alias := (tr x.alias).getD x.alias })

/-- the unresolved names of a content: global names mentioned in some definition that are not the
alias of a constituent -/
def unresolved (cs : List Concept) : List Bytes :=
  (cs.flatMap fun c => ((decode c.definition).map globalsOf).getD []).filter fun n => !cs.any (·.alias == n)

/-- the proviso of the property: no new name was mentioned as an unresolved name -/
def freshFor (m : Substitutes) (cs : List Concept) : Bool :=
  m.all fun p => p.1 == p.2 || !(unresolved cs).contains p.2

end CCVerif.Translate.Spec
