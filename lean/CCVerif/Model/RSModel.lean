import CCVerif.Model.Schema
/-
Model of the value bookkeeping of an interpreted model (C11):
RSModel.cpp (AfterInsert, Erase, SetExpressionFor, ResetDependants), rsValuesFacet.cpp
(AddBasicElement, SetBasicText, ResetDataFor, ResetFor), rsCalculationFacet.cpp (Calculate,
CalculateCstInternal, RecalculateAll, WasCalculated), InterpretationStorage.cpp — on top of the
schema model of C07 (`CCVerif.Schema`), on the same definition fragment: a term is a union of
global names, its value the union of their values; base sets are interpreted by sets of
integers (the keys of their text interpretation). Structures (`SetStructureData`,
`PruneStructure`) are outside the fragment (implementation-level oracle only).
`pinned = true` selects the three code paths as pinned (before the `fix:` commits).
-/
namespace CCVerif.RSModel
open CCVerif CCVerif.Schema

abbrev Data := List Int   -- ascending, duplicate-free

def insertInt (x : Int) : List Int → List Int
  | [] => [x]
  | y :: ys => if x < y then x :: y :: ys else if x = y then y :: ys else y :: insertInt x ys
def normData (l : List Int) : Data := l.foldl (fun acc x => insertInt x acc) []
def unionData (a b : Data) : Data := b.foldl (fun acc x => insertInt x acc) a

structure St where
  sch : Schema.St := {}
  /-- `InterpretationStorage::rsData` -/
  rs : List (Nat × Data) := []
  /-- keys of `InterpretationStorage::textData` entries (base sets) -/
  text : List (Nat × List Int) := []
  /-- `calculatedEntities` -/
  calcd : List Nat := []
deriving Repr, Inhabited

def St.dataFor (st : St) (u : Nat) : Option Data := (st.rs.find? (·.1 == u)).map (·.2)
def St.setData (st : St) (u : Nat) (d : Data) : St := { st with rs := (u, d) :: st.rs.filter (·.1 != u) }
def St.eraseData (st : St) (u : Nat) : St :=
  { st with rs := st.rs.filter (·.1 != u), text := st.text.filter (·.1 != u) }
def St.textFor (st : St) (u : Nat) : List Int := ((st.text.find? (·.1 == u)).map (·.2)).getD []
def St.kindOf (st : St) (u : Nat) : Option Kind := (st.sch.at u).map (·.kind)

/-- `rsValuesFacet::ResetFor` (fragment kinds) -/
def St.resetFor (st : St) (u : Nat) : St :=
  let st := st.eraseData u
  match st.kindOf u with
  | some .base => { (st.setData u []) with text := (u, []) :: st.text.filter (·.1 != u) }
  | _ => st

/-- `calculatorFacet->ResetFor` + `dataFacet->ResetFor` -/
def St.resetBoth (st : St) (u : Nat) : St := { (st.resetFor u) with calcd := st.calcd.filter (· != u) }

/-- body of `ResetDependants` for a given expansion -/
def St.resetItems (st : St) (items : List Nat) (target : Nat) : St :=
  items.foldl (fun s d => if d != target && s.kindOf d == some .term then s.resetBoth d else s) st

/-- `ResetDependants(target)` -/
def St.resetDependants (st : St) (target : Nat) : St :=
  let sch := st.sch.ensureGraph
  let st := { st with sch := sch }
  st.resetItems (Graph.expandOutputs sch.graph [target]) target

/-- `CalculateCstInternal`: returns the new state and the success flag -/
def St.calculateInternal (st : St) (u : Nat) : St × Bool :=
  match st.sch.at u with
  | none => (st, false)
  | some c =>
    if (st.sch.infoFor u).status != .verified then (st, false)
    else
      let st := { st with calcd := if st.calcd.contains u then st.calcd else u :: st.calcd }
      -- evaluation: union of the values of the mentioned names; a missing value is an error
      let vals := c.defn.mentions.map (fun n => (st.sch.findAlias n).bind st.dataFor)
      if vals.all Option.isSome then
        (st.setData u (vals.foldl (fun acc v => unionData acc (v.getD [])) []), true)
      else (st, false)

/-- `RecalculateAll` -/
def St.recalculateAll (st : St) : St :=
  let sch := st.sch.ensureGraph
  let st := { st with sch := sch, calcd := [] }
  let st := st.sch.store.foldl (fun s c => if c.kind == .term then s.resetFor c.uid else s) st
  (Graph.topologicalOrder sch.graph).foldl
    (fun s u => if s.kindOf u == some .term then (s.calculateInternal u).1 else s) st

inductive Op where
  | schema (op : Schema.Op)     -- insert / erase / setDef / setAlias / substitute on the model
  | addElem (u : Nat)
  | setText (u : Nat) (keys : List Int)
  | resetData (u : Nat)
  | calculate (u : Nat)
  | recalculateAll
deriving Repr, DecidableEq

def pushBackKey (keys : List Int) : Int :=
  let rec go (fuel : Nat) (k : Int) : Int :=
    match fuel with
    | 0 => k
    | f+1 => if keys.contains k then go f (k+1) else k
  go (keys.length + 1) (keys.length + 1)

def step (pinned : Bool) (st : St) : Op → St
  | .schema (.insert c) =>
    if st.sch.hasInfo c.uid then st
    else
      let st := { st with sch := Schema.step false st.sch (.insert c) }
      st.resetBoth c.uid
  | .schema (.erase u) =>
    if !st.sch.contains u then st
    else if pinned then
      -- pinned: dependants are looked up after the target has left the graph
      let st := { st with sch := Schema.step false st.sch (.erase u) }
      let st := { (st.eraseData u) with calcd := st.calcd.filter (· != u) }
      st.resetDependants u
    else
      let sch := st.sch.ensureGraph
      let deps := Graph.expandOutputs sch.graph [u]
      let st := { st with sch := Schema.step false sch (.erase u) }
      let st := { (st.eraseData u) with calcd := st.calcd.filter (· != u) }
      st.resetItems deps u
  | .schema (.setDef u d) =>
    match st.sch.at u with
    | none => st
    | some c =>
      if d = c.defn then st
      else
        let copy := (st.sch.store.find? (·.defn == d)).map (·.uid)
        let realChange := copy != some u
        let st := { st with sch := Schema.step false st.sch (.setDef u d) }
        if realChange then
          let st := st.resetBoth u
          if pinned then st else st.resetDependants u
        else st
  | .schema (.setAlias u a false) =>
    -- `RSModel::SetAliasFor(target, name, substitue = false)`: pinned code forwards to the core only;
    -- repaired code resets the dependants collected before the rename
    if pinned || !st.sch.contains u then { st with sch := Schema.step false st.sch (.setAlias u a false) }
    else
      let sch := st.sch.ensureGraph
      let deps := Graph.expandOutputs sch.graph [u]
      let sch' := Schema.step false sch (.setAlias u a false)
      -- the core refuses a rename to the same alias: nothing happens then
      if (st.sch.at u).map (·.alias) == some a then { st with sch := sch' }
      else ({ st with sch := sch' } : St).resetItems deps u
  | .schema op => { st with sch := Schema.step false st.sch op }
  | .addElem u =>
    if st.kindOf u != some .base then st
    else
      let keys := st.textFor u
      let k := pushBackKey keys
      let st := { st with text := (u, keys ++ [k]) :: st.text.filter (·.1 != u) }
      let st := st.setData u (insertInt k ((st.dataFor u).getD []))
      st.resetDependants u
  | .setText u keys =>
    if st.kindOf u != some .base then st
    else
      let old := st.textFor u
      let keys := normData keys
      -- texts are compared as maps; the harness keeps the text of a key fixed, so equal key sets
      -- mean equal interpretations
      if keys = normData old then st
      else
        let dataChange := if pinned then keys.length != old.length else true
        let st := { st with text := (u, keys) :: st.text.filter (·.1 != u) }
        let st := st.setData u keys
        if dataChange then st.resetDependants u else st
  | .resetData u =>
    if st.kindOf u != some .base then st
    else (st.resetFor u).resetDependants u
  | .calculate u =>
    if st.kindOf u != some .term then st
    else (st.calculateInternal u).1.resetDependants u
  | .recalculateAll => st.recalculateAll

def run (pinned : Bool) (ops : List Op) : St := ops.foldl (step pinned) {}

/-- values a full recalculation from the current base data and definitions gives -/
def St.recomputed (st : St) : St :=
  ({ st with sch := st.sch.scratch } : St).recalculateAll

/-- what the model reports per constituent: (uid, calculated?, value) -/
def St.report (st : St) : List (Nat × Bool × Option Data) :=
  st.sch.store.map (fun c => (c.uid, st.calcd.contains c.uid, st.dataFor c.uid))

/-- the property: every calculated constituent with a value shows the recomputed value -/
def St.fresh (st : St) : Bool :=
  st.sch.store.all (fun c =>
    if c.kind == .term && st.calcd.contains c.uid then
      match st.dataFor c.uid with
      | some v => st.recomputed.dataFor c.uid == some v
      | none => true
    else true)

end CCVerif.RSModel
