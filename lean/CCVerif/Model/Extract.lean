/-
Model of the selection logic of `OpExtractBasis` and `OpMaxPart`
(ccl/core/src/ops/RSOperations.cpp) — C13.

The source schema is abstracted to its ordered list of constituents with, for each, its resolved
direct dependencies (`Graph().InputsFor`), whether its definition is empty and whether it is a
base set (`IsBaseSet`). The copy into the result (`InsertCopy` bulk + `ResetAliases`) keeps the
uids; renaming is the subject of C08/C09.
-/
namespace CCVerif.Extract

structure Item where
  uid : Nat
  inputs : List Nat        -- resolved direct dependencies
  emptyDef : Bool
  isBaseSet : Bool
deriving Repr, DecidableEq, Inhabited

abbrev Source := List Item   -- in list order (`schema.List()`)

def Source.find (s : Source) (u : Nat) : Option Item := List.find? (·.uid == u) s
def Source.contains (s : Source) (u : Nat) : Bool := (s.find u).isSome

/-- `OpMaxPart::CheckCst(target, selList)` -/
def checkCst (it : Item) (sel : List Nat) : Bool :=
  if it.emptyDef then sel.contains it.uid else it.inputs.all (sel.contains ·)

/-- `OpMaxPart::IsCorrectlyDefined` -/
def maxPartDefined (s : Source) (args : List Nat) : Bool :=
  !args.isEmpty && args.all (fun u =>
    match s.find u with
    | none => false
    | some it => checkCst it args)

/-- one scan of the list (`for (entity : schema.List())` in `GetAllCstMaxPart`) -/
def scan (s : Source) (sel : List Nat) : List Nat :=
  s.foldl (fun sel it => if !sel.contains it.uid && checkCst it sel then sel ++ [it.uid] else sel) sel

/-- `GetAllCstMaxPart` as pinned: a single scan -/
def maxPartSetPinned (s : Source) (args : List Nat) : List Nat := scan s args

/-- `GetAllCstMaxPart` after the `fix:` commit: scans are repeated until nothing is added
(at most `|s|` productive scans) -/
def scanFix (s : Source) : Nat → List Nat → List Nat
  | 0, sel => sel
  | fuel+1, sel =>
    let sel' := scan s sel
    if sel'.length = sel.length then sel else scanFix s fuel sel'

def maxPartSet (s : Source) (args : List Nat) : List Nat := scanFix s (s.length + 1) args

/-- `List().SortSubset(selList)` — for one element the element itself, else list order -/
def sortSubset (s : Source) (sel : List Nat) : List Nat :=
  match sel with
  | [] => []
  | [x] => [x]
  | _ => (s.filter (fun it => sel.contains it.uid)).map (·.uid)

/-- `OpMaxPart::Execute`: the uids copied into the result, in order (`none` = refused) -/
def maxPart (pinned : Bool) (s : Source) (args : List Nat) : Option (List Nat) :=
  if maxPartDefined s args then
    some (sortSubset s (if pinned then maxPartSetPinned s args else maxPartSet s args))
  else none

/-- backward closure (`Graph().ExpandInputs(arguments)`), worklist with fuel -/
def expandInputsGo (s : Source) : Nat → List Nat → List Nat → List Nat
  | 0, _, acc => acc
  | _, [], acc => acc
  | fuel+1, u :: rest, acc =>
    if acc.contains u then expandInputsGo s fuel rest acc
    else
      let ins := ((s.find u).map (·.inputs)).getD []
      expandInputsGo s fuel (ins ++ rest) (acc ++ [u])

def totalInputs (s : Source) : Nat := (s.map (·.inputs.length)).sum

def expandInputs (s : Source) (args : List Nat) : List Nat :=
  expandInputsGo s (s.length + totalInputs s + args.length + 1) (args.filter s.contains) []

/-- `OpExtractBasis::Execute` -/
def extractBasis (s : Source) (args : List Nat) : Option (List Nat) :=
  if !args.isEmpty && args.all s.contains then some (sortSubset s (expandInputs s args)) else none

end CCVerif.Extract
