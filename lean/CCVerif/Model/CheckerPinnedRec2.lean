import CCVerif.Model.Checker
/-
`ViRecursion` BEFORE the repair "the variable of a recursion is typed by the join of its initial value
and its step" (/repo commit 374179a, defect K11 of the C03 check) and after the repair of K10: the rounds
of type deduction re-declared the variable with the type of the STEP alone, the loop was stable when the
type of the step no longer changed, and only the RESULT type was the join with the type of the initial
value. The condition of `R{x := init | cond | step}` (and the last check of the step) was therefore
analysed with the variable typed by the step alone: with an any-typed step (`∅`) the variable lost the
type of the initial value.
`checkPinnedRec2` differs from `check` exactly in this rule; it exists only to keep the defect documented
as a closed fact (Properties/C03 `pinned_recursion_condition_counterexample`).
-/
namespace CCVerif.Checker
open CCVerif.Syntax CCVerif.Types

/-- the retry loop of the pinned `ViRecursion`: the argument is the type of the step; returns the stable
one, or `none` when it still changes after `typeDeductionDepth` rounds -/
def recursionRoundsPinned2 (v : Visitor) (a : Ast) (idx : Nat) : Nat → Ty → M (Option Ty)
  | 0, _ => M.pure none
  | n+1, it =>
    M.bind clearLocals fun _ =>
    M.bind (visitChildDecl v a 0 it) fun _ =>
    M.bind (childType v a idx) fun r =>
    M.bind (expectTy "ViRecursion" r) fun nt =>
    if nt == it then M.pure (some it) else recursionRoundsPinned2 v a idx n nt

def viRecursionPinned2 (Γ : Ctx) (v : Visitor) (a : Ast) : M Unit :=
  M.bind startScope fun _ =>
  M.bind (childType v a 1) fun initR =>
  M.bind (expectTy "ViRecursion" initR) fun initT =>
  M.bind (visitChildDecl v a 0 initT) fun _ =>
  let isFull := a.id == .NT_RECURSIVE_FULL
  let idx := if isFull then 3 else 2
  M.bind (childType v a idx) fun itR =>
  match compatE Γ.traits itR initR with
  | none => stuckM "bad_variant_access:AreCompatible"
  | some false =>
    M.bind (kidM a idx) fun k => errFail EID.typesNotEqual k.lo
  | some true =>
    M.bind (expectTy "ViRecursion" itR) fun it0 =>
    M.bind (modifySt fun s => { s with noWarn := s.noWarn + 1 }) fun _ =>
    M.bind (recursionRoundsPinned2 v a idx typeDeductionDepth it0) fun stable =>
    M.bind (modifySt fun s => { s with noWarn := s.noWarn - 1 }) fun _ =>
    match stable with
    | none => M.bind (kidM a idx) fun k => errFail EID.typesNotEqual k.lo
    | some it =>
    M.bind (if isFull then visitChild v a 2 else M.pure ()) fun _ =>
    M.bind (endScope a.lo) fun _ =>
    match merge Γ.traits it initT with
    | none => M.bind (kidM a idx) fun k => errFail EID.typesNotEqual k.lo
    | some m => setCur (.ty m)

def dispatchPinnedRec2 (Γ : Ctx) (v : Visitor) (parent : Option Tok) (a : Ast) : M Unit :=
  match a.id with
  | .NT_RECURSIVE_FULL | .NT_RECURSIVE_SHORT => viRecursionPinned2 Γ v a
  | _ => dispatch Γ v parent a

def visitPinnedRec2 (Γ : Ctx) : Nat → Visitor
  | 0 => fun _ _ => stuckM "fuel"
  | n+1 => dispatchPinnedRec2 Γ (visitPinnedRec2 Γ n)

def checkPinnedRec2 (Γ : Ctx) (e : Ast) : CheckRes :=
  match visitPinnedRec2 Γ (Ast.depth e + 1) none e {} with
  | (.ok _, s) => ⟨.ok s.cur, s.errs.reverse, s.args, s.silent⟩
  | (.fail, s) => ⟨.fail, s.errs.reverse, s.args, s.silent⟩
  | (.stuck x, s) => ⟨.stuck x, s.errs.reverse, s.args, s.silent⟩

end CCVerif.Checker
