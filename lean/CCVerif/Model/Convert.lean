import CCVerif.Generated.SyntaxHints
import CCVerif.Model.Parser
import CCVerif.Model.Printer
import CCVerif.Model.Strings

/-!
# Syntax conversion entry points (C05, C04)

Transcription of `Parser::EstimateSyntax`, of the lexer choice of `Parser::Lex` / `Parser::Parse(text, hint)`
(Parser.cpp) and of `ccl::rslang::ConvertTo` (RSGenerator.cpp) on byte strings. The byte table of
`EstimateSyntax` is regenerated from the source on every run (`Generated/SyntaxHints.lean`,
tools/gen_convert.py, which also pins the shapes of the three functions).

The MATH lexer model works on code points, the ASCII lexer model on bytes; a byte string that is not
well-formed UTF-8 is outside the MATH lexer model (`none` below = "outside the model", the harness never
compares such a case).
-/
namespace CCVerif.Convert
open CCVerif.Syntax CCVerif.Parser CCVerif.Printer

/-- strict UTF-8 decoder (shortest form, no surrogates, ≤ U+10FFFF) -/
def decode : List Nat → Option (List Nat)
  | [] => some []
  | b :: rest =>
    if b < 0x80 then (decode rest).map (b :: ·)
    else if 0xC2 ≤ b ∧ b < 0xE0 then
      match rest with
      | c1 :: r => if 0x80 ≤ c1 ∧ c1 < 0xC0 then (decode r).map (((b - 0xC0) * 64 + (c1 - 0x80)) :: ·) else none
      | _ => none
    else if 0xE0 ≤ b ∧ b < 0xF0 then
      match rest with
      | c1 :: c2 :: r =>
        if 0x80 ≤ c1 ∧ c1 < 0xC0 ∧ 0x80 ≤ c2 ∧ c2 < 0xC0 then
          let cp := (b - 0xE0) * 4096 + (c1 - 0x80) * 64 + (c2 - 0x80)
          if cp < 0x800 ∨ (0xD800 ≤ cp ∧ cp < 0xE000) then none else (decode r).map (cp :: ·)
        else none
      | _ => none
    else if 0xF0 ≤ b ∧ b < 0xF5 then
      match rest with
      | c1 :: c2 :: c3 :: r =>
        if 0x80 ≤ c1 ∧ c1 < 0xC0 ∧ 0x80 ≤ c2 ∧ c2 < 0xC0 ∧ 0x80 ≤ c3 ∧ c3 < 0xC0 then
          let cp := (b - 0xF0) * 262144 + (c1 - 0x80) * 4096 + (c2 - 0x80) * 64 + (c3 - 0x80)
          if cp < 0x10000 ∨ cp ≥ 0x110000 then none else (decode r).map (cp :: ·)
        else none
      | _ => none
    else none
termination_by l => l.length

/-- bytes → units of the lexer of `syn` (`none`: ill-formed UTF-8 for MATH, outside the model) -/
def unitsOf (syn : Syn) (bytes : List Nat) : Option (List Nat) :=
  match syn with
  | .math => decode bytes
  | .ascii => some bytes

/-- printed units → bytes -/
def bytesOf (units : List Nat) : List Nat := CCVerif.Strings.encode units

def other : Syn → Syn
  | .math => .ascii
  | .ascii => .math

/-- the hint of one byte: 0 = UNDEF, 1 = MATH, 2 = ASCII (`symbolHints.at(static_cast<unsigned char>(symbol))`) -/
def hintOf (b : Nat) : Nat := CCVerif.Gen.SyntaxHints.syntaxHints.getD b 0

/-- `Parser::EstimateSyntax`: MATH as soon as one byte hints MATH, otherwise ASCII -/
def estimateSyntax (bytes : List Nat) : Syn :=
  if bytes.any (fun b => hintOf b == 1) then .math else .ascii

/-- the lexer `Parser::Lex(expression, hint)` chooses: the hint, or the estimate for `UNDEF` (`none`) -/
def chooseSyntax (hint : Option Syn) (bytes : List Nat) : Syn :=
  match hint with
  | some s => s
  | none => estimateSyntax bytes

/-- outcome of a conversion on the model -/
inductive Conv where
  /-- the input is outside the MATH lexer model (ill-formed UTF-8) -/
  | outside
  /-- the printer reached an unchecked access (`GeneratorImplAST` on a tree the parser cannot produce) -/
  | stuck
  /-- the returned text -/
  | text (bytes : List Nat)
deriving Repr, DecidableEq

/-- `Parser::Parse(text, hint)` then `AST()` on bytes: `none` = outside the model, `some none` = parse failure -/
def parseBytes (hint : Option Syn) (bytes : List Nat) : Option (Option Ast) :=
  (unitsOf (chooseSyntax hint bytes) bytes).map (parse (chooseSyntax hint bytes))

/-- `ConvertTo(input, target)`: parse in the syntax opposite to the target; on failure the input is returned
unchanged; otherwise the tree is printed in the target syntax -/
def convertTo (target : Syn) (input : List Nat) : Conv :=
  match parseBytes (some (other target)) input with
  | none => .outside
  | some none => .text input
  | some (some t) =>
    match print target t with
    | none => .stuck
    | some units => .text (bytesOf units)

/-- conversion applied twice to the same target (`ConvertTo(ConvertTo(x, s), s)`) -/
def convertTwice (target : Syn) (input : List Nat) : Conv :=
  match convertTo target input with
  | .text once => convertTo target once
  | r => r

end CCVerif.Convert
