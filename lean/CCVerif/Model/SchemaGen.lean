import CCVerif.Model.Schema
/-
The state machine of `Model/Schema.lean` (C07: `Schema::info`, the lazily rebuilt dependency graph,
`UpdateState`, `TriggerParse` / `ParseCst`, `SetDefinitionFor`, `SetAliasFor`, `TranslateAll`,
`Insert` / `Load` / `Erase`) with the per-constituent analysis as a PARAMETER instead of the
definition fragment:

* `D` — the type of definitions (any type with decidable equality: `FindExpr` compares trees),
* `I` — the type of analysis results (`ParsingInfo`),
* `Analysis D I` — what the graph updater extracts from a definition (`mentions`), what
  `SubstitueAliases` does to a definition (`rename`), `ParsingInfo::Reset` (`reset`), which results
  count as successfully analysed (`ok`, ghost: the state machine never reads it) and
  `analyse skel ctx c`: what `ParseCst` stores for the constituent `c`, computed from
  - `skel`: the store without the definitions (uid, alias, kind of every constituent — what
    `TraitsFor` / `FindAlias` / `At(uid).type` read), unrestricted,
  - `ctx : alias → Option I`: `none` for a name that denotes no constituent, `some i` for a name
    that denotes a constituent whose current entry is `i` (`TypeFor`, `FunctionArgsFor`,
    `VCContext`, `ASTContext` all go through `FindAlias` and then `info.at(uid)`).

The definitions follow `Model/Schema.lean` line by line (only the repaired `TriggerParse`);
`Lemmas/SchemaGenFrag.lean` shows that the fragment machine IS the instance `fragA` of this one.
-/
namespace CCVerif.SchemaGen
open CCVerif
open CCVerif.Schema (Kind sortDedup lookup)

structure Cst (D : Type) where
  uid : Nat
  alias : String
  kind : Kind
  defn : D
deriving Repr, DecidableEq, Inhabited

/-- the store without the definitions -/
abbrev Skel := List (Nat × String × Kind)

structure Analysis (D I : Type) where
  /-- global names the graph updater extracts from a definition -/
  mentions : D → List String
  /-- `TranslateRS` of a definition under a (partial) renaming of global names -/
  rename : (String → Option String) → D → D
  /-- `ParsingInfo::Reset` -/
  reset : I
  /-- ghost: the entry is the result of a successful analysis -/
  ok : I → Bool
  /-- `CheckConstituenta` + `SaveInfoTo`: the entry `ParseCst` stores -/
  analyse : Skel → (String → Option I) → Cst D → I

structure St (D I : Type) where
  store : List (Cst D) := []            -- ascending uid
  info : List (Nat × I) := []
  graph : Graph.G := []
  invalid : Bool := false
deriving Inhabited

section
variable {D I : Type}

def St.at (st : St D I) (u : Nat) : Option (Cst D) := st.store.find? (·.uid == u)
def St.contains (st : St D I) (u : Nat) : Bool := (st.at u).isSome
def St.hasInfo (st : St D I) (u : Nat) : Bool := st.info.any (·.1 == u)
def St.setInfo (st : St D I) (u : Nat) (i : I) : St D I :=
  { st with info := st.info.map (fun p => if p.1 == u then (u, i) else p) }

/-- `FindAlias`: first constituent (uid order) with that alias -/
def St.findAlias (st : St D I) (a : String) : Option Nat := (st.store.find? (·.alias == a)).map (·.uid)

def skelOf (s : List (Cst D)) : Skel := s.map (fun c => (c.uid, c.alias, c.kind))

def insertCst (c : Cst D) : List (Cst D) → List (Cst D)
  | [] => [c]
  | d :: ds => if c.uid < d.uid then c :: d :: ds else if c.uid = d.uid then d :: ds else d :: insertCst c ds

variable (A : Analysis D I)

def St.infoFor (st : St D I) (u : Nat) : I := ((st.info.find? (·.1 == u)).map (·.2)).getD A.reset

/-- the context `ParseCst` hands to the auditor -/
def St.ctx (st : St D I) : String → Option I := fun a => (st.findAlias a).map (st.infoFor A)

/-- the graph updater: uids of the resolved mentions -/
def St.inputsOf (st : St D I) (c : Cst D) : List Nat := sortDedup ((A.mentions c.defn).filterMap st.findAlias)

/-- `graph.UpdateFor(item)`: no-op while the graph is invalid -/
def St.graphUpdateFor (st : St D I) (u : Nat) : St D I :=
  if st.invalid then st
  else match st.at u with
    | none => st
    | some c => { st with graph := Graph.setItemInputs st.graph u (st.inputsOf A c) }

/-- `Graph()`: rebuild when broken -/
def St.ensureGraph (st : St D I) : St D I :=
  if st.invalid then
    st.store.foldl (fun s c => s.graphUpdateFor A c.uid) { st with graph := [], invalid := false }
  else st

/-- `ParseCst(target)`: analyse against the current `info` (the target's own entry included),
then reset and store -/
def St.parseCst (st : St D I) (u : Nat) : St D I :=
  match st.at u with
  | none => st
  | some c => st.setInfo u (A.analyse (skelOf st.store) (st.ctx A) c)

def St.resetInfo (st : St D I) : St D I := { st with info := st.info.map (fun p => (p.1, A.reset)) }

/-- `UpdateState()` -/
def St.updateState (st : St D I) : St D I :=
  let st := st.resetInfo A
  let st := st.ensureGraph A
  (Graph.topologicalOrder st.graph).foldl (St.parseCst A) st

/-- `TriggerParse(target)` (after the `fix:` commit: entries of the whole expansion are reset before
anything is re-analysed) -/
def St.triggerParse (st : St D I) (target : Nat) : St D I :=
  let st := st.ensureGraph A
  let expansion := Graph.expandOutputs st.graph [target]
  let st := expansion.foldl (fun s u => if s.hasInfo u then s.setInfo u A.reset else s) st
  let st := st.parseCst A target
  let ordered := Graph.sort st.graph expansion
  (ordered.filter (· != target)).foldl (St.parseCst A) st

/-- `TranslateAll` -/
def St.translateAll (st : St D I) (f : String → Option String) : St D I :=
  let st := st.store.foldl (fun s c =>
    let s := { s with store := s.store.map (fun (x : Cst D) => if x.uid == c.uid then { x with defn := A.rename f x.defn } else x) }
    s.graphUpdateFor A c.uid) st
  st.updateState A

end

inductive Op (D : Type) where
  | insert (c : Cst D)
  | load (c : Cst D)
  | updateState
  | erase (u : Nat)
  | setDef (u : Nat) (d : D)
  | setAlias (u : Nat) (a : String) (subst : Bool)
  | substitute (m : List (String × String))
deriving Repr, DecidableEq

section
variable {D I : Type} [DecidableEq D] (A : Analysis D I)

/-- one editing step (the incremental algorithm as in /repo now) -/
def step (st : St D I) : Op D → St D I
  | .insert c =>
    if st.hasInfo c.uid then st
    else
      ({ st with info := st.info ++ [(c.uid, A.reset)], store := insertCst c st.store, invalid := true } : St D I).updateState A
  | .load c =>
    let info := if st.hasInfo c.uid then st.info.map (fun p => if p.1 == c.uid then (c.uid, A.reset) else p) else st.info ++ [(c.uid, A.reset)]
    let store := insertCst c (st.store.filter (·.uid != c.uid))
    ({ st with info := info, store := store, invalid := true } : St D I).resetInfo A
  | .updateState => st.updateState A
  | .erase u =>
    if !st.contains u then st
    else
      let st := st.ensureGraph A
      let st := (Graph.expandOutputs st.graph [u]).foldl (fun s v => if s.hasInfo v then s.setInfo v A.reset else s) st
      let st := { st with info := st.info.filter (·.1 != u),
                          graph := if st.invalid then st.graph else Graph.eraseItem st.graph u,
                          store := st.store.filter (·.uid != u) }
      st.updateState A
  | .setDef u d =>
    match st.at u with
    | none => st
    | some c =>
      if d = c.defn then st
      else
        -- FindExpr: first constituent (uid order) with the same definition
        let copy := (st.store.find? (·.defn == d)).map (·.uid)
        let realChange := copy != some u
        let st := { st with store := st.store.map (fun (x : Cst D) => if x.uid == u then { x with defn := d } else x) }
        if realChange then
          let st := st.graphUpdateFor A u
          st.triggerParse A u
        else st
  | .setAlias u a subst =>
    match st.at u with
    | none => st
    | some c =>
      if c.alias = a then st
      else
        let st := { st with invalid := true,
                            store := st.store.map (fun (x : Cst D) => if x.uid == u then { x with alias := a } else x) }
        if subst then st.translateAll A (fun n => if n == c.alias then some a else none)
        else st.updateState A
  | .substitute m =>
    let st := { st with invalid := true,
                        store := st.store.map (fun (x : Cst D) => { x with alias := (lookup m x.alias).getD x.alias }) }
    st.translateAll A (lookup m)

def run (ops : List (Op D)) : St D I := ops.foldl (step A) {}

/-- analysis from scratch of the same content -/
def St.scratch (st : St D I) : St D I := ({ st with invalid := true, graph := [] } : St D I).updateState A

/-- observable analysis results: (uid, entry) in uid order -/
def St.report (st : St D I) : List (Nat × I) := st.store.map (fun c => (c.uid, st.infoFor A c.uid))

/-- dependency edges `(mentioned uid, uid)` reported by `Graph().InputsFor` -/
def St.depEdges (st : St D I) : List (Nat × Nat) :=
  let st := st.ensureGraph A
  st.store.flatMap (fun c => (sortDedup (Graph.inputsFor st.graph c.uid)).map (·, c.uid))

end

end CCVerif.SchemaGen
