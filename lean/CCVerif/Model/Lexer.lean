import CCVerif.Generated.Tokens
/-!
Model of the two RE-flex lexers of RSLang (C05/C06):
`ccl/rslang/src/MathLexerImpl.l` (`%option unicode`, positions `lineBase + columno()`),
`ccl/rslang/src/AsciiLexerImpl.l` (positions = byte offsets `matcher().first()/last()`), the
wrappers `MathLexer.cpp` / `AsciiLexer.cpp` and `LexerBase::Stream/MakeToken/ParseData`
(`include/ccl/rslang/LexerBase.hpp`), `TokenData::FromIndexSequence` (RSToken.cpp).

RE-flex semantics modelled by hand (the generated matcher itself is *not* verified, see the
trusted base): among all rules the one with the LONGEST match wins, ties go to the FIRST rule in
file order. The rule list is the generated table (`Generated.mathRules` / `asciiRules`); only
the meaning of the pattern shapes (`LexPat`) and the character classes of the definitions section
are hand-written here (`gen_tables.py` refuses to run when those definitions change).

Text is a list of units: code points for MATH (the driver decodes UTF-8; ill-formed UTF-8 is
outside the model), bytes for ASCII.
-/
namespace CCVerif.Lexer
open CCVerif.Syntax CCVerif.Generated

/-! ## character classes of the definitions section -/

/-- `digit [0-9]` -/
def isDigit (c : Nat) : Bool := 48 ≤ c && c ≤ 57
/-- `upper [A-Z]` -/
def isUpper (c : Nat) : Bool := 65 ≤ c && c ≤ 90
/-- `lower [a-z]` (ASCII) / `[a-z\x{03B1}-\x{03C9}]` (MATH) -/
def isLower (syn : Syn) (c : Nat) : Bool :=
  (97 ≤ c && c ≤ 122) || (syn == .math && 0x3B1 ≤ c && c ≤ 0x3C9)
/-- `alpha ({upper}|{lower})` -/
def isAlpha (syn : Syn) (c : Nat) : Bool := isUpper c || isLower syn c
/-- `alnum (_|{digit}|{alpha})` -/
def isAlnum (syn : Syn) (c : Nat) : Bool := c == 95 || isDigit c || isAlpha syn c
/-- first symbol of `global_id`: `[||{upper}--[B]]` = upper-case letter other than `B` -/
def isGlobalStart (c : Nat) : Bool := isUpper c && c != 66
/-- first symbol of `local_id`: `(_|{lower})` -/
def isLocalStart (syn : Syn) (c : Nat) : Bool := c == 95 || isLower syn c

/-- length of the longest prefix whose units satisfy `p` -/
def spanLen (p : Nat → Bool) : List Nat → Nat
  | [] => 0
  | c :: r => if p c then spanLen p r + 1 else 0

/-- `(,{number})*` after a first number: longest match (a comma not followed by a digit is not
consumed). `fuel` ≥ length of the text. -/
def indexTail : Nat → List Nat → Nat
  | 0, _ => 0
  | fuel+1, s =>
    match s with
    | 44 :: r =>
      let k := spanLen isDigit r
      if k == 0 then 0 else 1 + k + indexTail fuel (r.drop k)
    | _ => 0

/-- `{number}(,{number})*`; 0 = no match -/
def indexLen (s : List Nat) : Nat :=
  let k := spanLen isDigit s
  if k == 0 then 0 else k + indexTail s.length (s.drop k)

/-- is `p` a prefix of `s` -/
def isPrefix : List Nat → List Nat → Bool
  | [], _ => true
  | _ :: _, [] => false
  | a :: p, b :: s => a == b && isPrefix p s

/-- length of the longest match of a pattern at the head of (non-empty) `s`; `none` = no match.
`<<EOF>>` never matches here (handled by the loop when the input is exhausted). -/
def matchPat (syn : Syn) (s : List Nat) : LexPat → Option Nat
  | .lit l => if !l.isEmpty && isPrefix l s then some l.length else none
  | .withIndex pre =>
    if isPrefix pre s then
      let k := indexLen (s.drop pre.length)
      if k == 0 then none else some (pre.length + k)
    else none
  | .withNumber pre =>
    if isPrefix pre s then
      let k := spanLen isDigit (s.drop pre.length)
      if k == 0 then none else some (pre.length + k)
    else none
  | .number => let k := spanLen isDigit s; if k == 0 then none else some k
  | .globalId =>
    match s with
    | c :: r => if isGlobalStart c then some (1 + spanLen (isAlnum syn) r) else none
    | [] => none
  | .localId =>
    match s with
    | c :: r => if isLocalStart syn c then some (1 + spanLen (isAlnum syn) r) else none
    | [] => none
  | .newline => match s with | 10 :: _ => some 1 | _ => none
  | .blanks => let k := spanLen (fun c => c == 32 || c == 9) s; if k == 0 then none else some k
  | .ws => let k := spanLen (fun c => c == 32 || c == 9 || c == 13 || c == 10) s; if k == 0 then none else some k
  | .any => match s with | c :: _ => if c == 10 then none else some 1 | [] => none
  | .eof => none

/-- longest match, first rule wins ties -/
def bestRule (syn : Syn) (s : List Nat) : List LexRule → Option (Nat × LexAct) → Option (Nat × LexAct)
  | [], best => best
  | r :: rs, best =>
    match matchPat syn s r.pat, best with
    | some n, none => bestRule syn s rs (some (n, r.act))
    | some n, some (m, a) => if m < n then bestRule syn s rs (some (n, r.act)) else bestRule syn s rs (some (m, a))
    | none, b => bestRule syn s rs b

def rulesOf : Syn → List LexRule
  | .math => mathRules
  | .ascii => asciiRules

/-- the token of the `<<EOF>>` rule -/
def eofTok (rules : List LexRule) : Option Tok :=
  match rules.find? (fun r => r.pat == .eof) with
  | some ⟨_, .tok t⟩ => some t
  | _ => none

/-- raw token: kind, range, matched text -/
structure RawTok where
  id : Tok
  lo : Nat
  hi : Nat
  text : List Nat
deriving Repr, DecidableEq

/-- `columns()` of the matched text: RE-flex does not count `\r` (observed: a lone `\r` in MATH
text is reported as INTERRUPT with an empty range, the following positions still advance);
ASCII ranges are byte offsets `[first, last)`. -/
def width (syn : Syn) (m : List Nat) : Nat :=
  match syn with
  | .math => (m.filter (· != 13)).length
  | .ascii => m.length

/-- the scanning loop (`lex()` called until END). State: `lineBase` and `col` (= `columno()` for
MATH; for ASCII `lineBase` stays 0 and `col` is the byte offset). `fuel` > number of units.
`none` = the scanner has no applicable rule (`%option nodefault` would abort). -/
def lexGo (syn : Syn) (rules : List LexRule) : Nat → List Nat → Nat → Nat → Option (List RawTok)
  | 0, _, _, _ => none
  | fuel+1, s, lineBase, col =>
    match s with
    | [] =>
      match eofTok rules with
      | some t => some [⟨t, lineBase + col, lineBase + col, []⟩]
      | none => none
    | _ :: _ =>
      match bestRule syn s rules none with
      | none => none
      | some (0, _) => none
      | some (n, act) =>
        let m := s.take n
        match act with
        | .tok t =>
          match lexGo syn rules fuel (s.drop n) lineBase (col + n) with
          | some rest => some (⟨t, lineBase + col, lineBase + col + width syn m, m⟩ :: rest)
          | none => none
        | .skip => lexGo syn rules fuel (s.drop n) lineBase (col + n)
        | .newline => lexGo syn rules fuel (s.drop n) (lineBase + (col + 1)) 0

/-- all tokens of a text up to and including END -/
def lexRaw (syn : Syn) (s : List Nat) : Option (List RawTok) :=
  lexGo syn (rulesOf syn) (s.length + 1) s 0 0

/-- kinds only, END dropped (used by the table theorems) -/
def lexKinds (syn : Syn) (s : List Nat) : Option (List Tok) :=
  (lexRaw syn s).map fun ts => (ts.map (·.id)).filter (· != .END)

/-! ## token payload (`LexerBase::ParseData`) -/

/-- two's complement wrap to `bits` bits -/
def wrapInt (bits : Nat) (n : Int) : Int :=
  let m : Int := (2 : Int) ^ bits
  let r := n % m
  if r < m / 2 then r else r - m

def digitsVal (s : List Nat) : Nat := s.foldl (fun acc c => acc * 10 + (c - 48)) 0

/-- `static_cast<int32_t>(std::atol(text))` on a digit string: glibc saturates at `LONG_MAX`,
the cast keeps the low 32 bits -/
def toInt32 (s : List Nat) : Int :=
  let v := digitsVal s
  let v := if v ≥ 2 ^ 63 then 2 ^ 63 - 1 else v
  wrapInt 32 v

/-- `TokenData::FromIndexSequence`: `Index = int16_t`, every `*= 10` / `+=` narrows; every
index is kept, zero included (since the /repo commit "zero indices of pr/Pr/Fi are kept and
reported instead of dropped"; before it they were dropped and `pr0` had an empty tuple) -/
def fromIndexSequence (s : List Nat) : List Int :=
  let step : (List Int × Int) → Nat → (List Int × Int) := fun (acc, idx) ch =>
    if isDigit ch then (acc, wrapInt 16 (wrapInt 16 (idx * 10) + (ch - 48 : Nat)))
    else (acc ++ [idx], 0)
  let (acc, idx) := s.foldl step ([], 0)
  acc ++ [idx]

/-- text of units as a `String` (MATH: code points; ASCII identifiers are ASCII bytes) -/
def unitsToString (s : List Nat) : String := String.ofList (s.map Char.ofNat)

def parseData (id : Tok) (text : List Nat) : TokData :=
  match id with
  | .SMALLPR | .BIGPR | .FILTER => .tuple (fromIndexSequence (text.drop 2))
  | .LIT_INTEGER => .int (toInt32 text)
  | .ID_GLOBAL | .ID_FUNCTION | .ID_PREDICATE | .ID_RADICAL | .ID_LOCAL => .text (unitsToString text)
  | _ => .none

/-- `Token` as produced by `LexerBase::MakeToken` -/
structure LTok where
  id : Tok
  data : TokData
  lo : Int
  hi : Int
deriving Repr, DecidableEq

def RawTok.toTok (r : RawTok) : LTok := ⟨r.id, parseData r.id r.text, r.lo, r.hi⟩

/-- the token stream of `Parser::Lex(text, syntax)` read until END -/
def lex (syn : Syn) (s : List Nat) : Option (List LTok) :=
  (lexRaw syn s).map (·.map RawTok.toTok)

end CCVerif.Lexer
