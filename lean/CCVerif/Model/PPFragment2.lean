import CCVerif.Model.PPFragment
/-! The larger fragment `E2` of syntax trees covered by `parse_print_fragment2` (C05): everything of `E`
(`Model/PPFragment.lean`) plus `ℬ(…)` / `ℬℬ(…)`, enumerations `{a, …}`, tuples `(a, b, …)`, function and predicate
calls `F1[a, …]` / `P1[a, …]`, filters `Fi1,2[p, …](a)`, quantifiers `∀ / ∃` with a plain, tuple or enumerated
declaration, and the declarative construction `D{v∈d | φ}`. Definitions only (token-level printing `toks`, the raw
tree `raw` the parser builds, the final tree `ast`); the proofs are in `Lemmas/ParsePrint2.lean`.

Lists of phrases (elements of an enumeration, arguments, declared variables) are first-order: `one a` is the list
`[a]`, `more a l` is `a :: l`; a list is never a phrase of its own (`E2.wf` keeps the categories apart). -/
namespace CCVerif.PP
open CCVerif.Syntax CCVerif.Generated CCVerif.Lexer CCVerif.Parser CCVerif.Printer

inductive E2 where
  | atom (id : Tok) (d : TokData)
  | text (f : Tok) (d : TokData) (a : E2)
  | sbin (op : Tok) (l r : E2)
  | prod2 (a b : E2)
  | prodN (p k : E2)
  | pred (op : Tok) (l r : E2)
  | neg (x : E2)
  | lbin (op : Tok) (l r : E2)
  /-- `ℬ(a)`; `ℬ` directly in front of another `ℬ` is printed without parentheses -/
  | pow (a : E2)
  /-- the one-element list -/
  | one (a : E2)
  /-- `a, l` -/
  | more (a l : E2)
  /-- `{l}` -/
  | enum (l : E2)
  /-- `(a, l)` -/
  | tuple (a l : E2)
  /-- `F1[l]` -/
  | fcall (d : TokData) (l : E2)
  /-- `P1[l]` -/
  | pcall (d : TokData) (l : E2)
  /-- `Fi1,2[ps](arg)` -/
  | filter (d : TokData) (ps arg : E2)
  /-- `∀vs∈dom body`; `vs` is a list of variables (local names or tuples of variables) -/
  | quant (q : Tok) (vs dom body : E2)
  /-- `D{v∈dom | body}` -/
  | decl (v dom body : E2)
deriving Repr

namespace E2

/-- set expression -/
def isS : E2 → Bool
  | .atom .. | .text .. | .sbin .. | .prod2 .. | .prodN .. | .pow _ | .enum _ | .tuple .. | .fcall .. | .filter ..
  | .decl .. => true
  | _ => false

/-- formula -/
def isL : E2 → Bool
  | .pred .. | .neg _ | .lbin .. | .pcall .. | .quant .. => true
  | _ => false

/-- list of phrases -/
def isA : E2 → Bool
  | .one _ | .more .. => true
  | _ => false

def isProd : E2 → Bool
  | .prod2 .. | .prodN .. => true
  | _ => false

def isPow : E2 → Bool
  | .pow _ => true
  | _ => false

/-- a variable of a declaration (local name or tuple of variables); for a list: every element is one -/
def isVar : E2 → Bool
  | .atom id _ => id == .ID_LOCAL
  | .tuple a l => a.isVar && l.isVar
  | .one a => a.isVar
  | .more a l => a.isVar && l.isVar
  | _ => false

/-- token id of the root -/
def top : E2 → Tok
  | .atom id _ => id
  | .text f _ _ => f
  | .sbin op _ _ => op
  | .prod2 .. | .prodN .. => .DECART
  | .pred op _ _ => op
  | .neg _ => .NOT
  | .lbin op _ _ => op
  | .pow _ => .BOOLEAN
  | .one _ | .more .. => .PUNC_COMMA
  | .enum _ => .NT_ENUMERATION
  | .tuple .. => .NT_TUPLE
  | .fcall .. | .pcall .. => .NT_FUNC_CALL
  | .filter .. => .FILTER
  | .quant q .. => q
  | .decl .. => .NT_DECLARATIVE_EXPR

def wf : E2 → Bool
  | .atom id _ => isAtomId id
  | .text f _ a => isTextFn f && a.isS && a.wf
  | .sbin op l r => isSetOp7 op && l.isS && r.isS && l.wf && r.wf
  | .prod2 a b => a.isS && b.isS && a.wf && b.wf
  | .prodN p k => p.isProd && k.isS && p.wf && k.wf
  | .pred op l r => isPredOp op && l.isS && r.isS && l.wf && r.wf
  | .neg x => x.isL && x.wf
  | .lbin op l r => isLogicOp op && l.isL && r.isL && l.wf && r.wf
  | .pow a => a.isS && a.wf
  | .one a => a.isS && a.wf
  | .more a l => a.isS && l.isA && a.wf && l.wf
  | .enum l => l.isA && l.wf
  | .tuple a l => a.isS && l.isA && a.wf && l.wf
  | .fcall _ l => l.isA && l.wf
  | .pcall _ l => l.isA && l.wf
  | .filter _ ps arg => ps.isA && arg.isS && ps.wf && arg.wf
  | .quant q vs dom body =>
    (q == .FORALL || q == .EXISTS) && vs.isA && vs.isVar && dom.isS && body.isL && vs.wf && dom.wf && body.wf
  | .decl v dom body => v.isS && v.isVar && dom.isS && body.isL && v.wf && dom.wf && body.wf

/-- a variable (or list of variables) as a declaration tree: tuples become `NT_TUPLE_DECL`; the children of the
result of a list are its elements -/
def dast : E2 → Ast
  | .atom id d => .node id d 0 0 []
  | .tuple a l => .node .NT_TUPLE_DECL .none 0 0 (a.dast :: l.dast.kids)
  | .one a => .node .PUNC_COMMA .none 0 0 [a.dast]
  | .more a l => .node .PUNC_COMMA .none 0 0 (a.dast :: l.dast.kids)
  | _ => .node .PUNC_COMMA .none 0 0 []

/-- the declaration node of a quantifier: the single variable, or `NT_ENUM_DECL` over all of them -/
def declOf : E2 → Ast
  | .one v => v.dast
  | vs => .node .NT_ENUM_DECL .none 0 0 vs.dast.kids

/-- the tree as the shared `Ast` (all positions 0); the children of the result of a list are its elements -/
def ast : E2 → Ast
  | .atom id d => .node id d 0 0 []
  | .text f d a => .node f d 0 0 [a.ast]
  | .sbin op l r => .node op .none 0 0 [l.ast, r.ast]
  | .prod2 a b => .node .DECART .none 0 0 [a.ast, b.ast]
  | .prodN p k => .node .DECART .none 0 0 (p.ast.kids ++ [k.ast])
  | .pred op l r => .node op .none 0 0 [l.ast, r.ast]
  | .neg x => .node .NOT .none 0 0 [x.ast]
  | .lbin op l r => .node op .none 0 0 [l.ast, r.ast]
  | .pow a => .node .BOOLEAN .none 0 0 [a.ast]
  | .one a => .node .PUNC_COMMA .none 0 0 [a.ast]
  | .more a l => .node .PUNC_COMMA .none 0 0 (a.ast :: l.ast.kids)
  | .enum l => .node .NT_ENUMERATION .none 0 0 l.ast.kids
  | .tuple a l => .node .NT_TUPLE .none 0 0 (a.ast :: l.ast.kids)
  | .fcall d l => .node .NT_FUNC_CALL .none 0 0 (.node .ID_FUNCTION d 0 0 [] :: l.ast.kids)
  | .pcall d l => .node .NT_FUNC_CALL .none 0 0 (.node .ID_PREDICATE d 0 0 [] :: l.ast.kids)
  | .filter d ps arg => .node .FILTER d 0 0 (ps.ast.kids ++ [arg.ast])
  | .quant q vs dom body => .node q .none 0 0 [vs.declOf, dom.ast, body.ast]
  | .decl v dom body => .node .NT_DECLARATIVE_EXPR .none 0 0 [v.dast, dom.ast, body.ast]

end E2

/-- `ViQuantifier`: the body is bracketed when the quantifier binds tighter than it -/
def brQ (q c : Tok) : Bool := compareOps q c == .greater

namespace E2

/-- the token sequence of the printed text -/
def toks : E2 → Toks
  | .atom id d => [tk id d]
  | .text f d a => tk f d :: tk .PUNC_PL :: (a.toks ++ [tk .PUNC_PR])
  | .sbin op l r => wrap (brSet op l.top .left) l.toks ++ tk op :: wrap (brSet op r.top .right) r.toks
  | .prod2 a b => wrap (brProd true a.top) a.toks ++ tk .DECART :: wrap (brProd false b.top) b.toks
  | .prodN p k => p.toks ++ tk .DECART :: wrap (brProd false k.top) k.toks
  | .pred op l r => l.toks ++ tk op :: r.toks
  | .neg x => tk .NOT :: wrap (brNot x.top) x.toks
  | .lbin op l r => wrap (brLogic op l.top .left) l.toks ++ tk op :: wrap (brLogic op r.top .right) r.toks
  | .pow a => if a.isPow then tk .BOOLEAN :: a.toks else tk .BOOLEAN :: tk .PUNC_PL :: (a.toks ++ [tk .PUNC_PR])
  | .one a => a.toks
  | .more a l => a.toks ++ tk .PUNC_COMMA :: l.toks
  | .enum l => tk .PUNC_CL :: (l.toks ++ [tk .PUNC_CR])
  | .tuple a l => tk .PUNC_PL :: (a.toks ++ tk .PUNC_COMMA :: (l.toks ++ [tk .PUNC_PR]))
  | .fcall d l => tk .ID_FUNCTION d :: tk .PUNC_SL :: (l.toks ++ [tk .PUNC_SR])
  | .pcall d l => tk .ID_PREDICATE d :: tk .PUNC_SL :: (l.toks ++ [tk .PUNC_SR])
  | .filter d ps arg => tk .FILTER d :: tk .PUNC_SL :: (ps.toks ++ tk .PUNC_SR :: tk .PUNC_PL :: (arg.toks ++ [tk .PUNC_PR]))
  | .quant q vs dom body => tk q :: (vs.toks ++ tk .IN :: (dom.toks ++ wrap (brQ q body.top) body.toks))
  | .decl v dom body =>
    tk .DECLARATIVE :: tk .PUNC_CL :: (v.toks ++ tk .IN :: (dom.toks ++ tk .PUNC_BAR :: (body.toks ++ [tk .PUNC_CR])))

/-- the raw tree the parser builds before `CreateSyntaxTree` (bracket nodes kept); the children of the result of a
list are the raw trees of its elements -/
def raw : E2 → Ast
  | .atom id d => .node id d 0 0 []
  | .text f d a => .node f d 0 0 [a.raw]
  | .sbin op l r => .node op .none 0 0 [wrapRaw (brSet op l.top .left) l.raw, wrapRaw (brSet op r.top .right) r.raw]
  | .prod2 a b => .node .DECART .none 0 0 [wrapRaw (brProd true a.top) a.raw, wrapRaw (brProd false b.top) b.raw]
  | .prodN p k => .node .DECART .none 0 0 (p.raw.kids ++ [wrapRaw (brProd false k.top) k.raw])
  | .pred op l r => .node op .none 0 0 [l.raw, r.raw]
  | .neg x => .node .NOT .none 0 0 [wrapRaw (brNot x.top) x.raw]
  | .lbin op l r => .node op .none 0 0 [wrapRaw (brLogic op l.top .left) l.raw, wrapRaw (brLogic op r.top .right) r.raw]
  | .pow a => .node .BOOLEAN .none 0 0 [a.raw]
  | .one a => .node .PUNC_COMMA .none 0 0 [a.raw]
  | .more a l => .node .PUNC_COMMA .none 0 0 (a.raw :: l.raw.kids)
  | .enum l => .node .NT_ENUMERATION .none 0 0 l.raw.kids
  | .tuple a l => .node .NT_TUPLE .none 0 0 (a.raw :: l.raw.kids)
  | .fcall d l => .node .NT_FUNC_CALL .none 0 0 (.node .ID_FUNCTION d 0 0 [] :: l.raw.kids)
  | .pcall d l => .node .NT_FUNC_CALL .none 0 0 (.node .ID_PREDICATE d 0 0 [] :: l.raw.kids)
  | .filter d ps arg => .node .FILTER d 0 0 (ps.raw.kids ++ [arg.raw])
  | .quant q vs dom body => .node q .none 0 0 [vs.declOf, dom.raw, wrapRaw (brQ q body.top) body.raw]
  | .decl v dom body => .node .NT_DECLARATIVE_EXPR .none 0 0 [v.dast, dom.raw, body.raw]

/-- nonterminal of the phrase -/
def kind : E2 → K
  | .sbin .. | .prod2 .. | .prodN .. => .setBin
  | .pred .. => .pred
  | .neg _ | .pcall .. | .quant .. => .unary
  | .lbin .. => .lbin
  | _ => .set

/-- lowest precedence on the unbracketed left spine = precedence of the root operator; other
phrases bind tighter than anything -/
def low : E2 → Nat
  | .sbin op _ _ => prec op
  | .prod2 .. | .prodN .. => prec .DECART
  | .lbin op _ _ => prec op
  | _ => 100

/-- a generous size measure: the fuel any sub-parser needs on this phrase -/
def sz : E2 → Nat
  | .atom .. => 4
  | .text _ _ a => a.sz + 8
  | .sbin _ l r => l.sz + r.sz + 16
  | .prod2 a b => a.sz + b.sz + 16
  | .prodN p k => p.sz + k.sz + 16
  | .pred _ l r => l.sz + r.sz + 8
  | .neg x => x.sz + 16
  | .lbin _ l r => l.sz + r.sz + 16
  | .pow a => a.sz + 8
  | .one a => a.sz
  | .more a l => a.sz + l.sz + 8
  | .enum l => l.sz + 16
  | .tuple a l => a.sz + l.sz + 16
  | .fcall _ l => l.sz + 16
  | .pcall _ l => l.sz + 16
  | .filter _ ps arg => ps.sz + arg.sz + 16
  | .quant _ vs dom body => vs.sz + dom.sz + body.sz + 16
  | .decl v dom body => v.sz + dom.sz + body.sz + 16

/-- root operator of a binary set phrase -/
def binTop? : E2 → Option Tok
  | .sbin cop _ _ => some cop
  | .prod2 .. | .prodN .. => some .DECART
  | _ => none

end E2

/-! ## what the grammar needs from the bracket decisions (as for `E`) -/

def okChildS2 (p : Tok) (c : E2) (side : Side) : Bool :=
  match c.binTop? with
  | some cop => brSet p cop side || condOK p cop side
  | none => !brSet p c.top side

def okFactor2 (first : Bool) (c : E2) : Bool :=
  match c.binTop? with
  | some cop => brProd first cop || (cop != .DECART && condOK .DECART cop (if first then .left else .right))
  | none => !brProd first c.top

def okChildL2 (p : Tok) (c : E2) (side : Side) : Bool :=
  match c with
  | .lbin cop _ _ => brLogic p cop side || condOK p cop side
  | .pred .. => true
  | _ => !brLogic p c.top side

/-- the operand of a prefix operator (`¬`, `∀`, `∃`) must be a `logic_no_binary`: a connective is bracketed, a
predicate may be, nothing else is; `br` = the bracket decision of the operator as a function of the operand's root -/
def okBody (br : Tok → Bool) (c : E2) : Bool :=
  match c with
  | .lbin cop _ _ => br cop
  | .pred .. => true
  | _ => !br c.top

def okNot2 (c : E2) : Bool := okBody brNot c

def okQ2 (q : Tok) (c : E2) : Bool := okBody (brQ q) c

def E2.ok : E2 → Bool
  | .atom .. => true
  | .text _ _ a => a.ok
  | .sbin op l r => okChildS2 op l .left && okChildS2 op r .right && l.ok && r.ok
  | .prod2 a b => okFactor2 true a && okFactor2 false b && a.ok && b.ok
  | .prodN p k => okFactor2 false k && p.ok && k.ok
  | .pred _ l r => l.ok && r.ok
  | .neg x => okNot2 x && x.ok
  | .lbin op l r => okChildL2 op l .left && okChildL2 op r .right && l.ok && r.ok
  | .pow a => a.ok
  | .one a => a.ok
  | .more a l => a.ok && l.ok
  | .enum l => l.ok
  | .tuple a l => a.ok && l.ok
  | .fcall _ l => l.ok
  | .pcall _ l => l.ok
  | .filter _ ps arg => ps.ok && arg.ok
  | .quant q vs dom body => okQ2 q body && vs.ok && dom.ok && body.ok
  | .decl v dom body => v.ok && dom.ok && body.ok

/-! ## the old fragment inside the new one -/

def E.emb : E → E2
  | .atom id d => .atom id d
  | .text f d a => .text f d a.emb
  | .sbin op l r => .sbin op l.emb r.emb
  | .prod2 a b => .prod2 a.emb b.emb
  | .prodN p k => .prodN p.emb k.emb
  | .pred op l r => .pred op l.emb r.emb
  | .neg x => .neg x.emb
  | .lbin op l r => .lbin op l.emb r.emb

/-! ## reading an `E2` phrase off an `Ast` -/

/-- a list of phrases as a first-order list -/
def listOf : List E2 → Option E2
  | [] => none
  | [a] => some (.one a)
  | a :: r => match listOf r with | some l => some (.more a l) | none => none

mutual
/-- declaration subtree → variable phrase (`NT_TUPLE_DECL` ↦ `tuple`) -/
def varOfAst : Ast → Option E2
  | .node id d _ _ kids =>
    if id == .ID_LOCAL then (match kids with | [] => some (.atom id d) | _ => none)
    else if id == .NT_TUPLE_DECL then
      (match d, varOfAstList kids with
       | .none, some (a :: b :: rest) => (listOf (b :: rest)).map fun l => E2.tuple a l
       | _, _ => none)
    else none
def varOfAstList : List Ast → Option (List E2)
  | [] => some []
  | k :: ks =>
    match varOfAst k, varOfAstList ks with
    | some e, some es => some (e :: es)
    | _, _ => none
end

mutual
/-- the `E2` phrase an `Ast` denotes, if it lies in the fragment (positions ignored) -/
def ofAst2 : Ast → Option E2
  | .node id d _ _ kids =>
    if id == .FORALL || id == .EXISTS then
      (match d, kids with
       | .none, [v, dom, body] =>
         let vs : Option E2 :=
           if v.id == .NT_ENUM_DECL then
             (match v.data, varOfAstList v.kids with
              | .none, some (a :: b :: rest) => listOf (a :: b :: rest)
              | _, _ => none)
           else (varOfAst v).map E2.one
         (match vs, ofAst2 dom, ofAst2 body with
          | some vs, some dm, some b => some (.quant id vs dm b)
          | _, _, _ => none)
       | _, _ => none)
    else if id == .NT_DECLARATIVE_EXPR then
      (match d, kids with
       | .none, [v, dom, body] =>
         (match varOfAst v, ofAst2 dom, ofAst2 body with
          | some v, some dm, some b => some (.decl v dm b)
          | _, _, _ => none)
       | _, _ => none)
    else if id == .NT_FUNC_CALL then
      (match d, kids with
       | .none, .node fid fd _ _ [] :: args =>
         (match ofAst2List args with
          | some es =>
            if fid == .ID_FUNCTION then (listOf es).map fun l => E2.fcall fd l
            else if fid == .ID_PREDICATE then (listOf es).map fun l => E2.pcall fd l
            else none
          | none => none)
       | _, _ => none)
    else
    match ofAst2List kids with
    | none => none
    | some es =>
      if isAtomId id then (match es with | [] => some (.atom id d) | _ => none)
      else if isTextFn id then (match es with | [a] => some (.text id d a) | _ => none)
      else if isSetOp7 id then (match d, es with | .none, [l, r] => some (.sbin id l r) | _, _ => none)
      else if isPredOp id then (match d, es with | .none, [l, r] => some (.pred id l r) | _, _ => none)
      else if isLogicOp id then (match d, es with | .none, [l, r] => some (.lbin id l r) | _, _ => none)
      else if id == .NOT then (match d, es with | .none, [x] => some (.neg x) | _, _ => none)
      else if id == .DECART then
        (match d, es with
         | .none, a :: b :: rest => some (rest.foldl (fun p k => E2.prodN p k) (.prod2 a b))
         | _, _ => none)
      else if id == .BOOLEAN then (match d, es with | .none, [a] => some (.pow a) | _, _ => none)
      else if id == .NT_ENUMERATION then (match d with | .none => (listOf es).map E2.enum | _ => none)
      else if id == .NT_TUPLE then
        (match d, es with | .none, a :: b :: rest => (listOf (b :: rest)).map fun l => E2.tuple a l | _, _ => none)
      else if id == .FILTER then
        (match es.getLast?, listOf es.dropLast with
         | some arg, some ps => some (.filter d ps arg)
         | _, _ => none)
      else none
def ofAst2List : List Ast → Option (List E2)
  | [] => some []
  | k :: ks =>
    match ofAst2 k, ofAst2List ks with
    | some e, some es => some (e :: es)
    | _, _ => none
end

end CCVerif.PP
