/-
Model of the operation schema (OSS) of ConceptCore (C19): OSSchema.cpp, ossGraphFacet.cpp,
ossGridFacet.cpp, ossSourceFacet.cpp, ossOperationsFacet.cpp, the part of JSON.cpp that loads an
OSS document (LoadPicts / LoadParent), and the SourceManager contract the library relies on
(Source.hpp, SourceManager.hpp; the deterministic manager of the harness, adapted from the
upstream test utility FakeSourceManager).

State = `Struct` (the key sets of the five pictogram-keyed tables, the graph facet with its index
bookkeeping, the grid) + `Dyn` (the *values* of the source handles and operation handles, the
environment of sources, the do-not-disturb guard). The split is a representation of the C++
`unordered_map`s as (key list, value table); it makes it a matter of typing that the reactions to
source events never change a key set.

Abstractions (all explicit):
* formal content of a source = an opaque `Content` (the class of its `CoreHash`; hash collisions
  are outside the model); `0` is the "no hash" value of a fresh / discarded handle;
* synthesis, aggregation and `CheckCall` of a synthesis with both operands present are oracles
  (`Oracle`): the model says *when* they are consulted and with which operand contents;
* iteration order of `storage` (an `unordered_map`) only matters to `Import` when two handles
  name the same source, which the harness checks never happens (`source-shared`);
* unchecked accesses (`operations.at`, `*translations`, the `assert`s of `ChildPosFor` /
  `ResultingTypeFor`, `optional::value`) become `Dyn.fault := some …` / `none`;
* loops with a hidden variant (`ClosestFreePos`, the re-entrant notification chain, the
  recursion of `Execute` through `PrepareParents`) take fuel.

`Variant` selects the code: `Variant.pinned` is /repo as pinned (three defects of the freshness
clause and one null dereference), `Variant.repaired` the proposed repairs; the harness probes which
one it runs against.
-/
namespace CCVerif.Oss

abbrev Pid := Nat
abbrev Content := Nat
abbrev SrcName := Nat

structure Pos where
  row : Int
  col : Int
deriving DecidableEq, Repr, Inhabited

inductive OpType | tba | merge | synt
deriving DecidableEq, Repr, Inhabited

/-- `OperationHandle::options`: `nullptr`, an empty `EquationOptions`, a non-empty one -/
inductive Opts | none | empty | some
deriving DecidableEq, Repr, Inhabited

inductive Status | undefined | defined | done | outdated | broken
deriving DecidableEq, Repr, Inhabited

/-- `src::Handle`: `src` = the pointer (name of the source it points to), `desc` = `desc.name` -/
structure Handle where
  src : Option SrcName := none
  desc : Option SrcName := none
  coreHash : Content := 0
deriving DecidableEq, Repr, Inhabited

def Handle.empty (h : Handle) : Bool := h.src.isNone && h.desc.isNone

/-- `OperationHandle`; `built` is a ghost: the operand contents used by the last execution -/
structure OpHandle where
  type : OpType := .tba
  opts : Opts := .none
  translations : Bool := false
  broken : Bool := false
  outdated : Bool := false
  built : Option (Option Content × Option Content) := none
deriving DecidableEq, Repr, Inhabited

/-! ## graph facet (ossGraphFacet.cpp) -/

structure Graph where
  items : List Pid := []
  adj : List (List Nat) := []
deriving DecidableEq, Repr, Inhabited

/-- `FindItemIndex` -/
def Graph.findItemIndex (g : Graph) (p : Pid) : Option Nat :=
  if g.items.idxOf p < g.items.length then some (g.items.idxOf p) else none

/-- `Item2ID(PictID)` (with `InsertKeyValue`) -/
def Graph.item2ID (g : Graph) (p : Pid) : Graph × Nat :=
  match g.findItemIndex p with
  | some i => (g, i)
  | none => ({ items := g.items ++ [p], adj := g.adj ++ [[]] }, g.items.length)

/-- `Item2ID(const std::vector<PictID>&)` -/
def Graph.items2ID (g : Graph) : List Pid → Graph × List Nat
  | [] => (g, [])
  | p :: ps =>
    let r := g.item2ID p
    let rs := r.1.items2ID ps
    (rs.1, r.2 :: rs.2)

/-- `AddItem`: `graph.at(Item2ID(item)) = Item2ID(connectedItems)` — the right-hand side is
evaluated first (assignment, C++17) -/
def Graph.addItem (g : Graph) (item : Pid) (conn : List Pid) : Graph :=
  let r := g.items2ID conn
  let q := r.1.item2ID item
  { q.1 with adj := q.1.adj.set q.2 r.2 }

def shiftIdx (k j : Nat) : Nat := if j > k then j - 1 else j

/-- `ossGraphFacet::Erase` (the caller has checked `core.Contains(item)`) -/
def Graph.erase (g : Graph) (item : Pid) : Graph :=
  match g.findItemIndex item with
  | none => g
  | some k => { items := g.items.eraseIdx k, adj := (g.adj.eraseIdx k).map (·.map (shiftIdx k)) }

/-- `Index2PIDs` (`items.at(index)`: under `StructInv` every index is in range, theorem
`index_in_range`) -/
def Graph.index2PIDs (g : Graph) (l : List Nat) : List Pid := l.filterMap (fun j => g.items[j]?)

def Graph.row (g : Graph) (i : Nat) : List Nat := g.adj.getD i []

/-- `ParentsOf` -/
def Graph.parentsOf (g : Graph) (p : Pid) : List Pid :=
  match g.findItemIndex p with
  | some i => g.index2PIDs (g.row i)
  | none => []

/-- `ChildrenOf` -/
def Graph.childrenOf (g : Graph) (p : Pid) : List Pid :=
  match g.findItemIndex p with
  | none => []
  | some k =>
    g.index2PIDs ((List.range g.adj.length).flatMap fun i =>
      if i != k then ((g.row i).filter (· == k)).map (fun _ => i) else [])

/-- `ParentIndex` -/
def Graph.parentIndex (g : Graph) (parent child : Pid) : Option Nat :=
  match g.findItemIndex parent, g.findItemIndex child with
  | some ip, some ic => let i := (g.row ic).idxOf ip; if i < (g.row ic).length then some i else none
  | _, _ => none

/-- `EdgeList` -/
def Graph.edgeList (g : Graph) : List (Pid × Pid) :=
  (List.range g.adj.length).flatMap fun i =>
    (g.row i).filterMap fun j =>
      match g.items[i]?, g.items[j]? with
      | some c, some p => some (c, p)
      | _, _ => none

/-- `ExecuteOrder` -/
def Graph.executeOrder (g : Graph) : List Pid :=
  (List.range g.adj.length).filterMap fun i => if (g.row i).length > 0 then g.items[i]? else none

/-- `LoadParent` -/
def Graph.loadParent (g : Graph) (child parent : Pid) : Graph × Bool :=
  if child == parent then (g, false)
  else
    let rc := g.item2ID child
    let rp := rc.1.item2ID parent
    let g := rp.1
    if (g.row rc.2).contains rp.2 || (g.row rp.2).contains rc.2 then (g, false)
    else ({ g with adj := g.adj.set rc.2 (g.row rc.2 ++ [rp.2]) }, true)

/-! ## grid facet (ossGridFacet.cpp) -/

abbrev Grid := List (Pos × Pid)

def Grid.contains (g : Grid) (pos : Pos) : Bool := g.any (·.1 == pos)
def Grid.cell (g : Grid) (pos : Pos) : Option Pid := (g.find? (·.1 == pos)).map (·.2)
def Grid.posOf (g : Grid) (p : Pid) : Option Pos := (g.find? (·.2 == p)).map (·.1)

/-- the loop of `ClosestFreePos`; `none` = no free cell met within the fuel -/
def closestFreeGo (g : Grid) : Nat → Pos → Pos → Option Pos
  | 0, _, _ => none
  | f + 1, l, r =>
    if !g.contains l then some l
    else if !g.contains r then some r
    else closestFreeGo g f { l with col := if l.col == 0 then 0 else l.col + 1 } { r with col := r.col + 1 }

def Grid.closestFreePos (g : Grid) (start : Pos := ⟨0, 0⟩) : Option Pos :=
  closestFreeGo g (g.length + 2) start start

def Grid.erasePid (g : Grid) (p : Pid) : Grid :=
  match g.posOf p with
  | some pos => g.filter (·.1 != pos)
  | none => g

/-- `SetPosFor`: `Erase(pid); grid[pos] = pid` -/
def Grid.setPosFor (g : Grid) (p : Pid) (pos : Pos) : Grid :=
  (pos, p) :: ((g.erasePid p).filter (·.1 != pos))

/-- `ChildPosFor`: `lround((e1 + e2 - row) / 2.0)` with `e = column + row / 2.0`, computed in
quarters: the argument of `lround` is `n / 4` -/
def Grid.childPosFor (g : Grid) (p1 p2 : Pid) : Option Pos :=
  match g.posOf p1, g.posOf p2 with
  | some a, some b =>
    let row := max a.row b.row + 1
    let n := 2 * a.col + a.row + 2 * b.col + b.row - 2 * row
    let col : Int := if n ≤ 0 then 0 else (n + 2) / 4
    g.closestFreePos ⟨row, col⟩
  | _, _ => none   -- `assert(pos1.has_value() && pos2.has_value())`

/-! ## the structural state -/

structure Struct where
  /-- keys of `OSSchema::storage` -/
  storage : List Pid := []
  /-- `idGen` (taken identifiers) -/
  ids : List Pid := []
  graph : Graph := {}
  grid : Grid := []
  /-- keys of `ossSourceFacet::sources` -/
  srcKeys : List Pid := []
  /-- keys of `ossOperationsFacet::operations` -/
  opKeys : List Pid := []
deriving DecidableEq, Repr, Inhabited

def Struct.contains (s : Struct) (p : Pid) : Bool := s.storage.contains p
def Struct.isOperable (s : Struct) (p : Pid) : Bool := s.opKeys.contains p

/-- the structural part of `InsertInternal` -/
def Struct.insertInternal (s : Struct) (p : Pid) (pos : Pos) (isOp : Bool) : Struct :=
  { s with
    ids := if s.ids.contains p then s.ids else p :: s.ids
    storage := if s.storage.contains p then s.storage else p :: s.storage
    grid := s.grid.setPosFor p pos
    srcKeys := if s.srcKeys.contains p then s.srcKeys else p :: s.srcKeys
    opKeys := if isOp then p :: s.opKeys.filter (· != p) else s.opKeys }

/-- `InsertBase` with the identifier the generator drew (`none`: inadmissible input / no cell) -/
def Struct.insertBase (s : Struct) (fresh : Pid) : Option Struct :=
  if s.ids.contains fresh then none
  else match s.grid.closestFreePos with
    | none => none
    | some pos => some (s.insertInternal fresh pos false)

/-- `InsertOperation`: `some none` = refused (`nullptr`) -/
def Struct.insertOperation (s : Struct) (a b fresh : Pid) : Option (Option Struct) :=
  if a == b then some none
  else if !s.contains a || !s.contains b then some none
  else if s.ids.contains fresh then none
  else
    let s1 := { s with graph := s.graph.addItem fresh [a, b] }
    match s1.grid.childPosFor a b with
    | none => none
    | some pos => some (some (s1.insertInternal fresh pos true))

/-- `OSSchema::Erase` is refused for a missing pict and for a pict with children -/
def Struct.erasable (s : Struct) (p : Pid) : Bool := s.contains p && (s.graph.childrenOf p).isEmpty

/-- first half of `Erase`: `graph->Erase; grid->Erase` (then `sources->Erase` runs `Discard`) -/
def Struct.eraseFacets (s : Struct) (p : Pid) : Struct :=
  { s with graph := s.graph.erase p, grid := s.grid.erasePid p }

/-- second half: `sources.erase; ops->Erase; idGen.FreeUID; storage.erase` -/
def Struct.eraseKeys (s : Struct) (p : Pid) : Struct :=
  { s with srcKeys := s.srcKeys.filter (· != p), opKeys := s.opKeys.filter (· != p),
           ids := s.ids.filter (· != p), storage := s.storage.filter (· != p) }

/-- `LoadPict` (structural part); `fresh` is the identifier drawn if `uid` is taken -/
def Struct.loadPict (s : Struct) (uid : Pid) (pos : Pos) (isOp : Bool) (fresh : Pid) : Option (Struct × Pid) :=
  let pos? := if (s.grid.cell pos).isSome then s.grid.closestFreePos pos else some pos
  match pos? with
  | none => none
  | some pos =>
    if s.ids.contains uid then
      if s.ids.contains fresh then none else some (s.insertInternal fresh pos isOp, fresh)
    else some (s.insertInternal uid pos isOp, uid)

def Struct.loadParent (s : Struct) (child parent : Pid) : Struct × Bool :=
  let r := s.graph.loadParent child parent
  ({ s with graph := r.1 }, r.2)

/-! ## the dynamic state -/

/-- a document of the source manager; `announced` is a ghost: the content at the last
announcement (creation, `TriggerSave`, `TriggerOpen`) -/
structure Source where
  name : SrcName
  content : Content := 0
  opened : Bool := true
  saved : Bool := true
  announced : Content := 0
deriving DecidableEq, Repr, Inhabited

structure Dyn where
  handles : List (Pid × Handle) := []
  ops : List (Pid × OpHandle) := []
  env : List Source := []
  /-- counter behind `CreateLocalDesc` / new user documents -/
  nextName : Nat := 0
  /-- `DndGuard` counter of the schema as an observer -/
  dnd : Nat := 0
  fault : Option String := none
deriving DecidableEq, Repr, Inhabited

def Dyn.handle (d : Dyn) (p : Pid) : Handle := ((d.handles.find? (·.1 == p)).map (·.2)).getD {}
def Dyn.op (d : Dyn) (p : Pid) : OpHandle := ((d.ops.find? (·.1 == p)).map (·.2)).getD {}
def Dyn.setHandle (d : Dyn) (p : Pid) (h : Handle) : Dyn := { d with handles := (p, h) :: d.handles.filter (·.1 != p) }
def Dyn.setOp (d : Dyn) (p : Pid) (o : OpHandle) : Dyn := { d with ops := (p, o) :: d.ops.filter (·.1 != p) }
def Dyn.dropPid (d : Dyn) (p : Pid) : Dyn := { d with handles := d.handles.filter (·.1 != p), ops := d.ops.filter (·.1 != p) }
def Dyn.source (d : Dyn) (n : SrcName) : Option Source := d.env.find? (·.name == n)
def Dyn.setSource (d : Dyn) (s : Source) : Dyn := { d with env := d.env.map fun x => if x.name == s.name then s else x }
def Dyn.stuck (d : Dyn) (why : String) : Dyn := { d with fault := some (d.fault.getD why) }

/-- `Src2PID`: the pict whose handle points to the source -/
def src2pid (s : Struct) (d : Dyn) (n : SrcName) : Option Pid := s.storage.find? fun p => (d.handle p).src == some n

/-- oracles: what the model does not compute -/
structure Oracle where
  /-- `CheckCall` of a synthesis (`rsSynt`) whose two operands have data -/
  check : Pid → Bool
  /-- formal content of the result: synthesis of the operands' contents aggregated with the
  previous result (`none`: there was none or it was discarded) -/
  synth : Pid → Content → Content → Option Content → Content
  /-- `ExtrapolateFromPrevious` succeeds -/
  aggOk : Pid → Bool
  /-- the answer of `CheckCall` at the moment `Execute(p)` itself asks (within one `ExecuteAll` the
  operands, hence the answer, may change again later: `check` is the last answer of the call) -/
  execCheck : Pid → Bool

/-- which code: `mark` = does `SaveOperationResult` mark the children outdated (0 no — pinned,
1 when the core hash of the result changed, 2 always); `narrow` = the guard covers `InputData`
only; `initNotify` = `InitFor` tells the children that the result was discarded; `nullTr` below -/
structure Variant where
  mark : Nat
  narrow : Bool
  initNotify : Bool
  /-- `AggregateVersions` treats stored data without translations as "cannot be aggregated"
  instead of dereferencing the null pointer -/
  nullTr : Bool
deriving DecidableEq, Repr, Inhabited

def Variant.pinned : Variant := ⟨0, false, false, false⟩
def Variant.repaired : Variant := ⟨1, true, true, true⟩

/-- the part of `CheckCall` that does not need the oracle; `args` = operand data present? -/
def checkCall (o : Oracle) (h : OpHandle) (p : Pid) (args : List Bool) : Bool :=
  match h.type with
  | .tba => false          -- no processor for `tba`
  | .merge => args.all id && (h.opts == .none || h.opts == .empty)
  | .synt => args.all id && o.check p

/-- the end of `CheckOperation` once `CallFor` has collected which operands have data -/
def checkFinish (o : Oracle) (p : Pid) (r : Dyn × List Bool) : Dyn :=
  let d := r.1
  let d := if r.2.length != 2 && (d.op p).type != .tba then d.stuck "assert(ssize(args) == 2)" else d
  let d := if (d.op p).type == .synt && (d.op p).opts == .none && r.2.all id then d.stuck "*params" else d
  d.setOp p { d.op p with broken := !checkCall o (d.op p) p r.2 }

mutual
/-- `TriggerSave` of a document + delivery of `SrcChanged` to the schema -/
def announce (s : Struct) (o : Oracle) : Nat → Dyn → SrcName → Dyn
  | 0, d, _ => d.stuck "fuel"
  | f + 1, d, n =>
    match d.source n with
    | none => d
    | some src =>
      if src.saved || !src.opened then d
      else
        let d := d.setSource { src with saved := true, announced := src.content }
        if d.dnd > 0 then d      -- `TryInvoking`: the observer is not observing
        else match src2pid s d n with
          | none => d
          | some p => syncPict s o f d p    -- `UpdateOnSrcChange`

/-- `SyncPict` = `UpdateHashes` (→ `OnCoreChange`) + `SyncData` (descriptor) -/
def syncPict (s : Struct) (o : Oracle) : Nat → Dyn → Pid → Dyn
  | 0, d, _ => d.stuck "fuel"
  | f + 1, d, p =>
    let h := d.handle p
    match h.src with
    | none => d.stuck "SyncData: null source"
    | some n =>
      let newHash := ((d.source n).map (·.content)).getD h.coreHash
      let d := d.setHandle p { h with coreHash := newHash }
      let d := if h.coreHash != newHash && d.dnd == 0 then coreChange s o f d p else d
      d.setHandle p { d.handle p with desc := some n }

/-- `OSSchema::OnCoreChange` -/
def coreChange (s : Struct) (o : Oracle) : Nat → Dyn → Pid → Dyn
  | 0, d, _ => d.stuck "fuel"
  | f + 1, d, p =>
    (s.graph.childrenOf p).foldl (fun d c =>
      if !s.isOperable c then d.stuck "operations.at"
      else
        let d := checkOp s o f d c
        d.setOp c { d.op c with outdated := true }) d

/-- `UpdateSync(pid)`: `SaveState` of the attached source -/
def updateSync (s : Struct) (o : Oracle) : Nat → Dyn → Pid → Dyn
  | 0, d, _ => d.stuck "fuel"
  | f + 1, d, p =>
    match (d.handle p).src with
    | none => d
    | some n => announce s o f d n

/-- `DataFor(pid)` = `OpenSrc` + `ReadData`: the content if the pict has data -/
def dataFor (s : Struct) (o : Oracle) : Nat → Dyn → Pid → Dyn × Option Content
  | 0, d, _ => (d.stuck "fuel", none)
  | f + 1, d, p =>
    if !s.contains p then (d, none)
    else
      let h := d.handle p
      if h.empty then (d, none)
      else match h.src with
        | some n => (d, (d.source n).map (·.content))
        | none =>
          match h.desc.bind d.source with
          | none => (d, none)
          | some src =>
            -- `Open` → `TriggerOpen` (imports are disabled), then `ConnectInternal(pid, src, !loadData)`
            let d := d.setSource { src with opened := true, announced := src.content }
            let d := d.setHandle p { d.handle p with src := some src.name }
            let d := syncPict s o f d p
            (d, some src.content)

/-- `CheckOperation` (with `CallFor`) -/
def checkOp (s : Struct) (o : Oracle) : Nat → Dyn → Pid → Dyn
  | 0, d, _ => d.stuck "fuel"
  | f + 1, d, p =>
    let r := (s.graph.parentsOf p).foldl (fun (acc : Dyn × List Bool) q =>
      let d := updateSync s o f acc.1 q
      let r := dataFor s o f d q
      (r.1, acc.2 ++ [r.2.isSome])) (d, [])
    checkFinish o p r
end

def fuelOf (d : Dyn) : Nat := 8 * (d.env.length + 2)

/-- user event: the document announces its pending change (`TriggerSave`) -/
def evAnnounce (s : Struct) (o : Oracle) (d : Dyn) (n : SrcName) : Dyn := announce s o (fuelOf d) d n

/-- user event `TriggerClose`: `SrcClosed` → `Disconnect`; a pending announcement is dropped -/
def evClose (s : Struct) (d : Dyn) (n : SrcName) : Dyn :=
  match d.source n with
  | none => d
  | some src =>
    let d := if d.dnd > 0 then d else
      match src2pid s d n with
      | some p => d.setHandle p { d.handle p with src := none }
      | none => d
    d.setSource { src with opened := false, saved := true }

/-- `ConnectInternal(pid, src, loadData)`: `SaveState; src = &src; SyncPict` -/
def connectInternal (s : Struct) (o : Oracle) (d : Dyn) (p : Pid) (n : SrcName) : Dyn :=
  let d := announce s o (fuelOf d) d n
  let d := d.setHandle p { d.handle p with src := some n }
  syncPict s o (fuelOf d) d p

/-- user event `TriggerOpen`: `SrcOpened` → `Import` -/
def evOpen (s : Struct) (o : Oracle) (d : Dyn) (n : SrcName) : Dyn :=
  match d.source n with
  | none => d
  | some src =>
    let d := d.setSource { src with opened := true, announced := src.content }
    if d.dnd > 0 then d
    else match s.storage.find? (fun p => let h := d.handle p; !h.empty && h.src.isNone && h.desc == some n) with
      | none => d
      | some p => connectInternal s o d p n

/-- the document is destroyed (closed first) -/
def evDestroy (s : Struct) (d : Dyn) (n : SrcName) : Dyn :=
  let d := match d.source n with
    | some src => if src.opened then evClose s d n else d
    | none => d
  { d with env := d.env.filter (·.name != n) }

/-- a new open document with the given content -/
def evNewSource (d : Dyn) (n : SrcName) (c : Content) : Dyn :=
  { d with env := d.env ++ [({ name := n, content := c, announced := c } : Source)], nextName := max d.nextName n }

/-- the user edits the document: pending change -/
def evEdit (d : Dyn) (n : SrcName) (c : Content) : Dyn :=
  match d.source n with
  | none => d
  | some src => d.setSource { src with content := c, saved := false }

/-- `SourceManager::Close` of the harness' manager: `TriggerSave; TriggerClose` -/
def mgrClose (s : Struct) (o : Oracle) (d : Dyn) (n : SrcName) : Dyn := evClose s (announce s o (fuelOf d) d n) n

/-- `ConnectPict2Src` (`ForceConnection`) -/
def connectPict2Src (s : Struct) (o : Oracle) (d : Dyn) (p : Pid) (n : SrcName) : Dyn × Bool :=
  if !s.contains p then (d, false)
  else match d.source n with
    | none => (d, false)
    | some src =>
      let h := d.handle p
      if h.src == some n then (updateSync s o (fuelOf d) d p, src.opened)
      else if (src2pid s d n).isSome then (d, false)
      else if !src.opened then (d, false)
      else
        let d := announce s o (fuelOf d) d n      -- `SaveState(src)`
        let d := match h.src with
          | some old => mgrClose s o d old
          | none => d
        (connectInternal s o d p n, true)

/-- `ossSourceFacet::Discard` -/
def discard (s : Struct) (o : Oracle) (d : Dyn) (p : Pid) : Dyn :=
  if !s.contains p then d
  else
    let d := updateSync s o (fuelOf d) d p
    let h := d.handle p
    if h.empty then d
    else
      let d := d.setHandle p {}        -- `DiscardSrc`
      match h.desc.bind d.source with
      | some src => if src.opened then mgrClose s o d src.name else d
      | none => d

/-- `InitFor`; `same` = the new options are `IsEqualTo` the current ones -/
def initFor (s : Struct) (v : Variant) (o : Oracle) (d : Dyn) (p : Pid) (t : OpType) (opts : Opts) (same : Bool) : Dyn × Bool :=
  if !s.isOperable p then (d, false)
  else if t == .synt && opts == .none then (d, false)
  else
    let h := d.op p
    if h.type == t && ((h.opts == .none) == (opts == .none)) && (opts == .none || same) then (d, true)
    else
      let d := d.setOp p { type := t, opts := opts }
      let d := discard s o d p
      let d := checkOp s o (fuelOf d) d p
      let d := if v.initNotify then coreChange s o (fuelOf d) d p else d
      (d, true)

/-- `InputData`, first half: the document the result goes to (a new one, named by
`CreateLocalDesc`, if the pictogram has none attached) -/
def inputTarget (d : Dyn) (p : Pid) : Dyn × SrcName :=
  match (d.handle p).src with
  | some n => (d, n)
  | none =>
    let n := d.nextName + 1
    let d := { d with nextName := n, env := d.env ++ [({ name := n, content := 0, announced := 0 } : Source)] }
    (d.setHandle p { src := none, desc := some n, coreHash := 0 }, n)

/-- `Source::WriteData`: the document gets the new content, the change is pending -/
def writeData (d : Dyn) (n : SrcName) (c : Content) : Dyn :=
  match d.source n with
  | some src => d.setSource { src with content := c, saved := false }
  | none => d.stuck "WriteData: no source"

/-- the loop over the children at the end of `SaveOperationResult` (`UpdateChild`; the repair marks
the child outdated) -/
def updateChildren (s : Struct) (v : Variant) (o : Oracle) (d : Dyn) (p : Pid) (changed : Bool) : Dyn :=
  (s.graph.childrenOf p).foldl (fun d c =>
    let d := if (s.graph.parentIndex p c).isNone then d.stuck "ParentIndex.value()" else d
    let d := checkOp s o (fuelOf d) d c
    if v.mark == 2 || (v.mark == 1 && changed) then d.setOp c { d.op c with outdated := true } else d) d

/-- `SaveOperationResult` with the result content `c` built from operand contents `built` -/
def saveResult (s : Struct) (v : Variant) (o : Oracle) (d : Dyn) (p : Pid) (c : Content)
    (built : Option Content × Option Content) : Dyn × Bool :=
  let oldHash := (d.handle p).coreHash
  let d := { d with dnd := d.dnd + 1 }                     -- `DndGuard`
  let t := inputTarget d p
  let d := writeData t.1 t.2 c
  let d := connectInternal s o d p t.2
  let d := if v.narrow then { d with dnd := d.dnd - 1 } else d
  let d := d.setOp p { d.op p with translations := true, broken := false, outdated := false, built := some built }
  let d := updateChildren s v o d p ((d.handle p).coreHash != oldHash)
  let d := if v.narrow then d else { d with dnd := d.dnd - 1 }
  (d, true)

/-- `RunOperation`: `CreateNewResult` (`CallFor` once more, synthesis), `AggregateVersions`,
`SaveOperationResult` -/
def runOperation (s : Struct) (v : Variant) (o : Oracle) (d : Dyn) (p : Pid) (autoDiscard : Bool) : Dyn × Bool :=
  let r := (s.graph.parentsOf p).foldl (fun (acc : Dyn × List (Option Content)) q =>
    let d := updateSync s o (fuelOf acc.1) acc.1 q
    let r := dataFor s o (fuelOf d) d q
    (r.1, acc.2 ++ [r.2])) (d, [])
  let d := r.1
  match r.2 with
  | [some c1, some c2] =>
    -- `AggregateVersions`
    let r := dataFor s o (fuelOf d) d p
    let d := r.1
    match r.2 with
    | none => saveResult s v o d p (o.synth p c1 c2 none) (some c1, some c2)
    | some _ =>
      let d := updateSync s o (fuelOf d) d p
      let noTr := !(d.op p).translations
      let d := if noTr && !v.nullTr then d.stuck "*translations" else d
      let old := (((d.handle p).src.bind d.source).map (·.content))
      if o.aggOk p && !noTr then saveResult s v o d p (o.synth p c1 c2 old) (some c1, some c2)
      else if !autoDiscard then (d, false)
      else
        let d := discard s o d p
        saveResult s v o d p (o.synth p c1 c2 none) (some c1, some c2)
  | _ => (d.stuck "Execute(call).value()", false)

/-- `Execute` after `PrepareParents` (result `pre`): `CheckOperation`, `RunOperation` -/
def finishExecute (s : Struct) (v : Variant) (o : Oracle) (p : Pid) (autoDiscard : Bool) (pre : Dyn × Bool) : Dyn × Bool :=
  if !pre.2 then (pre.1, false)
  else
    let d := checkOp s { o with check := fun q => if q == p then o.execCheck p else o.check q } (fuelOf pre.1) pre.1 p
    if (d.op p).broken then (d, false)
    else runOperation s v o d p autoDiscard

/-- `Execute` (with `PrepareParents`) -/
def execute (s : Struct) (v : Variant) (o : Oracle) : Nat → Dyn → Pid → Bool → Dyn × Bool
  | 0, d, _, _ => (d.stuck "fuel", false)
  | f + 1, d, p, autoDiscard =>
    if !s.isOperable p then (d, false)
    else
      finishExecute s v o p autoDiscard
        -- `PrepareParents`
        ((s.graph.parentsOf p).foldl (fun (acc : Dyn × Bool) q =>
          if !acc.2 then acc
          else if !s.isOperable q then acc
          else if (acc.1.op q).broken then (acc.1, false)
          else if (acc.1.op q).outdated then execute s v o f acc.1 q false
          else acc) (d, true))

/-- `ExecuteAll` -/
def executeAll (s : Struct) (v : Variant) (o : Oracle) (d : Dyn) : Dyn :=
  s.graph.executeOrder.foldl (fun d p =>
    if s.isOperable p then (execute s v o (s.storage.length + 2) d p true).1 else d) d

/-- `StatusOf` -/
def statusOf (s : Struct) (d : Dyn) (p : Pid) : Status :=
  if !s.isOperable p then .undefined
  else
    let h := d.op p
    if h.type == .tba then .undefined
    else if h.broken then .broken
    else if !(d.handle p).empty then (if h.outdated then .outdated else .done)
    else .defined

/-! ## the whole schema -/

structure St where
  s : Struct := {}
  d : Dyn := {}
deriving DecidableEq, Repr, Inhabited

/-- one saved pict of a document (`ExtractPicts`) -/
structure DocItem where
  uid : Pid
  pos : Pos
  handle : Handle      -- `src` is not saved
  op : Option OpHandle
deriving DecidableEq, Repr, Inhabited

def St.docItem (st : St) (p : Pid) : Option DocItem :=
  match st.s.grid.posOf p with
  | none => none    -- `Grid()(pict.uid).value()`
  | some pos => some { uid := p, pos := pos, handle := { (st.d.handle p) with src := none },
                       op := if st.s.isOperable p then some (st.d.op p) else none }

inductive Op where
  | insertBase (fresh : Pid)
  | insertOperation (a b fresh : Pid)
  | erase (p : Pid)
  | newSource (n : SrcName) (c : Content)
  | connect (p : Pid) (n : SrcName)
  | edit (n : SrcName) (c : Content)
  | announce (n : SrcName)
  | close (n : SrcName)
  | openSrc (n : SrcName)
  | destroy (n : SrcName)
  | initFor (p : Pid) (t : OpType) (opts : Opts) (same : Bool)
  | execute (p : Pid) (autoDiscard : Bool)
  | executeAll
  /-- save all documents → save the schema → load it into a new schema: items in the order
  `items`, connections in the order `edges` -/
  | reload (items : List Pid) (edges : List (Pid × Pid))
deriving Repr

/-- is `l` a rearrangement of `m` (decidable permutation test) -/
def isPerm [BEq α] : List α → List α → Bool
  | [], m => m.isEmpty
  | a :: l, m => m.contains a && isPerm l (m.erase a)

/-- `LoadPicts`, structural part. A document is loaded into a new schema, so an identifier of the
document that is already taken (a repeated `pictUID`) would make `LoadPict` draw a new one: such
documents are outside the model (`none`) -/
def loadPicts : List DocItem → Struct → Option Struct
  | [], s => some s
  | it :: r, s => (s.loadPict it.uid it.pos it.op.isSome it.uid).bind fun x => loadPicts r x.1

/-- `LoadPicts`, handles -/
def loadDyn (d : Dyn) (items : List DocItem) : Dyn :=
  items.foldl (fun d it =>
    let d := d.setHandle it.uid it.handle
    match it.op with
    | some h => d.setOp it.uid h
    | none => d) d

/-- `from_json` into a new schema: `LoadPict` per item, then `LoadParent` per connection -/
def loadDoc (d : Dyn) (items : List DocItem) (edges : List (Pid × Pid)) : Option St :=
  (loadPicts items {}).map fun s =>
    { s := edges.foldl (fun s e => (s.loadParent e.1 e.2).1) s
      d := loadDyn { d with handles := [], ops := [], dnd := 0 } items }

/-- the old schema goes away: `CloseAll` closes every connected source -/
def closeAll (s : Struct) (o : Oracle) (d : Dyn) : Dyn :=
  -- `~OSSchema` removes the observer before the facets are destroyed: the dying schema is deaf
  let d := { d with dnd := d.dnd + 1 }
  s.storage.foldl (fun d p => match (d.handle p).src with
    | some n => mgrClose s o d n
    | none => d) d

/-- one step; `none` = inadmissible input (an identifier that is not fresh, a reload that is not
a rearrangement of the saved document) or no free grid cell within the fuel -/
def step (v : Variant) (o : Oracle) (st : St) : Op → Option (St × Bool)
  | .insertBase fresh =>
    (st.s.insertBase fresh).map fun s' => ({ s := s', d := (st.d.dropPid fresh).setHandle fresh {} }, true)
  | .insertOperation a b fresh =>
    (st.s.insertOperation a b fresh).map fun
      | none => (st, false)
      | some s' => ({ s := s', d := ((st.d.dropPid fresh).setHandle fresh {}).setOp fresh {} }, true)
  | .erase p =>
    if !st.s.erasable p then some (st, false)
    else
      let s1 := st.s.eraseFacets p
      let d := discard s1 o st.d p
      some ({ s := s1.eraseKeys p, d := d.dropPid p }, true)
  | .newSource n c => if (st.d.source n).isSome then none else some ({ st with d := evNewSource st.d n c }, true)
  | .connect p n =>
    let r := connectPict2Src st.s o st.d p n
    -- ghost: a document attached by hand is not the result of the last execution
    let d := if r.2 && st.s.isOperable p then r.1.setOp p { r.1.op p with built := none } else r.1
    some ({ st with d := d }, r.2)
  | .edit n c => some ({ st with d := evEdit st.d n c }, true)
  | .announce n => some ({ st with d := evAnnounce st.s o st.d n }, true)
  | .close n => some ({ st with d := evClose st.s st.d n }, true)
  | .openSrc n => some ({ st with d := evOpen st.s o st.d n }, true)
  | .destroy n => some ({ st with d := evDestroy st.s st.d n }, true)
  | .initFor p t opts same => let r := initFor st.s v o st.d p t opts same; some ({ st with d := r.1 }, r.2)
  | .execute p a => let r := execute st.s v o (st.s.storage.length + 2) st.d p a; some ({ st with d := r.1 }, r.2)
  | .executeAll => some ({ st with d := executeAll st.s v o st.d }, true)
  | .reload items edges =>
    if !isPerm items st.s.storage || !isPerm edges st.s.graph.edgeList then none
    else
      -- "save all": pending changes of connected documents are announced before the schema is saved
      let d := st.s.storage.foldl (fun d p => updateSync st.s o (fuelOf d) d p) st.d
      let st := { st with d := d }
      if !items.all (fun p => (st.docItem p).isSome) then none     -- `Grid()(pict.uid).value()`
      else (loadDoc (closeAll st.s o st.d) (items.filterMap st.docItem) edges).map fun st' => (st', true)

def run (v : Variant) (o : Oracle) : List Op → Option St
  | [] => some {}
  | op :: ops => (run v o ops).bind fun st => (step v o st op).map (·.1)

/-- histories are written oldest first -/
def runHist (v : Variant) (o : Oracle) (ops : List Op) : Option St := run v o ops.reverse

/-! ## the freshness clause, as a predicate on a state (ghost fields `built` and `announced`) -/

/-- announced content of the source attached to a pict (`none`: no handle name / no document) -/
def St.announcedOf (st : St) (p : Pid) : Option Content :=
  ((st.d.handle p).desc.bind st.d.source).map (·.announced)

/-- an operation with a stored result that reports `done` was built from the announced content
of both parents -/
def St.freshAt (st : St) (p : Pid) : Bool :=
  if statusOf st.s st.d p != .done then true
  else match (st.d.op p).built, st.s.graph.parentsOf p with
    | some (b1, b2), [p1, p2] =>
      let ok (q : Pid) (b : Option Content) : Bool :=
        let h := st.d.handle q
        if h.empty then false                       -- the operand's result was discarded
        else match st.announcedOf q with
          | none => true                            -- the document itself is gone: nothing to compare
          | some c => b == some c
      ok p1 b1 && ok p2 b2
    | _, _ => true

def St.fresh (st : St) : Bool := st.s.opKeys.all st.freshAt

end CCVerif.Oss
