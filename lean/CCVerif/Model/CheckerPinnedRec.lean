import CCVerif.Model.Checker
/-
`ViRecursion` BEFORE the repair "a recursion whose step type does not stabilise is a type error"
(defect K10 of the C03 check): when the `typeDeductionDepth` rounds of type deduction ended without
the type of the step being stable, the loop simply ended and the last deduced type was used.
`checkPinnedRec` differs from `check` exactly in this rule; it exists only to keep the defect
documented as a closed fact (Properties/C03 `pinned_recursion_diverge_counterexample`).
-/
namespace CCVerif.Checker
open CCVerif.Syntax CCVerif.Types

/-- the retry loop of the pinned `ViRecursion`: returns the final `iterationValue`, stable or not -/
def recursionRoundsPinned (v : Visitor) (a : Ast) (idx : Nat) : Nat → Ty → M Ty
  | 0, it => M.pure it
  | n+1, it =>
    M.bind clearLocals fun _ =>
    M.bind (visitChildDecl v a 0 it) fun _ =>
    M.bind (childType v a idx) fun r =>
    M.bind (expectTy "ViRecursion" r) fun nt =>
    if nt == it then M.pure it else recursionRoundsPinned v a idx n nt

def viRecursionPinned (Γ : Ctx) (v : Visitor) (a : Ast) : M Unit :=
  M.bind startScope fun _ =>
  M.bind (childType v a 1) fun initR =>
  M.bind (expectTy "ViRecursion" initR) fun initT =>
  M.bind (visitChildDecl v a 0 initT) fun _ =>
  let isFull := a.id == .NT_RECURSIVE_FULL
  let idx := if isFull then 3 else 2
  M.bind (childType v a idx) fun itR =>
  match compatE Γ.traits itR initR with
  | none => stuckM "bad_variant_access:AreCompatible"
  | some false =>
    M.bind (kidM a idx) fun k => errFail EID.typesNotEqual k.lo
  | some true =>
    M.bind (expectTy "ViRecursion" itR) fun it0 =>
    M.bind (modifySt fun s => { s with noWarn := s.noWarn + 1 }) fun _ =>
    M.bind (recursionRoundsPinned v a idx typeDeductionDepth it0) fun it =>
    M.bind (modifySt fun s => { s with noWarn := s.noWarn - 1 }) fun _ =>
    M.bind (if isFull then visitChild v a 2 else M.pure ()) fun _ =>
    M.bind (endScope a.lo) fun _ =>
    match merge Γ.traits it initT with
    | none => M.bind (kidM a idx) fun k => errFail EID.typesNotEqual k.lo
    | some m => setCur (.ty m)

def dispatchPinnedRec (Γ : Ctx) (v : Visitor) (parent : Option Tok) (a : Ast) : M Unit :=
  match a.id with
  | .NT_RECURSIVE_FULL | .NT_RECURSIVE_SHORT => viRecursionPinned Γ v a
  | _ => dispatch Γ v parent a

def visitPinnedRec (Γ : Ctx) : Nat → Visitor
  | 0 => fun _ _ => stuckM "fuel"
  | n+1 => dispatchPinnedRec Γ (visitPinnedRec Γ n)

def checkPinnedRec (Γ : Ctx) (e : Ast) : CheckRes :=
  match visitPinnedRec Γ (Ast.depth e + 1) none e {} with
  | (.ok _, s) => ⟨.ok s.cur, s.errs.reverse, s.args, s.silent⟩
  | (.fail, s) => ⟨.fail, s.errs.reverse, s.args, s.silent⟩
  | (.stuck x, s) => ⟨.stuck x, s.errs.reverse, s.args, s.silent⟩

end CCVerif.Checker
