import CCVerif.Lemmas.EvalFuel
/-!
Fuel of the evaluator model, part 3: when `ev` does not answer `outOfFuel`.

`outOfFuel` has two sources in `ev`: the exhausted recursion depth, and the model's limits for materialising the lazy
sets of the C++ (`ℬ` beyond `POW_LIMIT`, `×` beyond `PROD_LIMIT`).  On trees without an eager `ℬ`, without `×` and
without `R{}` / `I{}` (`eagerFree`) the second source is absent: from `evDepth a` on `ev` never answers `outOfFuel`.
-/
namespace CCVerif.Eval
open CCVerif.Syntax CCVerif.Norm

def NoOOF {α} (r : R α) : Prop := ∀ k, r ≠ .fail .outOfFuel k

theorem NoOOF.ok {α} (a : α) (st : St) : NoOOF (R.ok a st) := fun _ h => by cases h
theorem NoOOF.asVal {r : R V} (h : NoOOF r) : NoOOF r.asVal := by
  intro k e
  cases r with
  | fail f n => have : (R.fail f n : R V).asVal = R.fail f n := rfl; rw [this] at e; injection e with e1 e2; subst e1; subst e2; exact h _ rfl
  | ok v st => cases v <;> cases e
theorem NoOOF.asSet {r : R V} (h : NoOOF r) : NoOOF r.asSet := by
  intro k e
  cases r with
  | fail f n => have : (R.fail f n : R V).asSet = R.fail f n := rfl; rw [this] at e; injection e with e1 e2; subst e1; subst e2; exact h _ rfl
  | ok v st =>
    cases v with
    | bool b => cases e
    | val w => cases w <;> cases e
theorem NoOOF.asInt {r : R V} (h : NoOOF r) : NoOOF r.asInt := by
  intro k e
  cases r with
  | fail f n => have : (R.fail f n : R V).asInt = R.fail f n := rfl; rw [this] at e; injection e with e1 e2; subst e1; subst e2; exact h _ rfl
  | ok v st =>
    cases v with
    | bool b => cases e
    | val w => cases w <;> cases e
theorem NoOOF.asBool {r : R V} (h : NoOOF r) : NoOOF r.asBool := by
  intro k e
  cases r with
  | fail f n => have : (R.fail f n : R V).asBool = R.fail f n := rfl; rw [this] at e; injection e with e1 e2; subst e1; subst e2; exact h _ rfl
  | ok v st => cases v <;> cases e

theorem NoOOF.of_fail {α β} {r : R α} (h : NoOOF r) {f : Fail} {k : Nat} (e : r = .fail f k) :
    NoOOF (R.fail (α := β) f k) := by
  intro k' e'
  injection e' with e1 e2
  subst e1; subst e2
  exact h _ e

theorem NoOOF.fail_ne {α} {f : Fail} (k : Nat) (h : f ≠ .outOfFuel) : NoOOF (R.fail (α := α) f k) := by
  intro k' e; injection e with e1 _; exact h e1

theorem quantLoop_noOOF (body : St → R V) (var : Nat) (univ : Bool) (pos : Int) (hb : ∀ st, NoOOF (body st)) :
    ∀ (dom : List Val) (st : St), NoOOF (quantLoop body var univ pos dom st)
  | [], st => by simp only [quantLoop]; exact NoOOF.ok _ _
  | x :: xs, st => by
    simp only [quantLoop]
    split
    · intro k h; cases h
    · cases hr : body { data := st.data.set var x, iters := st.iters + 1 } with
      | fail f k => exact (hb _).of_fail hr
      | ok v st' =>
        cases v with
        | val w => intro k h; cases h
        | bool b =>
          dsimp only
          split
          · exact NoOOF.ok _ _
          · exact quantLoop_noOOF body var univ pos hb xs st'

theorem declLoop_noOOF (body : St → R V) (var : Nat) (pos : Int) (hb : ∀ st, NoOOF (body st)) :
    ∀ (dom acc : List Val) (st : St), NoOOF (declLoop body var pos dom acc st)
  | [], acc, st => by simp only [declLoop]; exact NoOOF.ok _ _
  | x :: xs, acc, st => by
    simp only [declLoop]
    split
    · intro k h; cases h
    · cases hr : body { data := st.data.set var x, iters := st.iters + 1 } with
      | fail f k => exact (hb _).of_fail hr
      | ok v st' =>
        cases v with
        | val w => intro k h; cases h
        | bool b => exact declLoop_noOOF body var pos hb xs _ st'

theorem restoreSlot_noOOF {var : Nat} {saved : Val} {r : R V} (h : NoOOF r) : NoOOF (restoreSlot var saved r) := by
  cases r with
  | ok v st => exact NoOOF.ok _ _
  | fail f k => exact h

theorem foldl_R_noOOF {α β} {step : R α → β → R α} (hf : ∀ f k x, step (.fail f k) x = .fail f k)
    (hs : ∀ a st x, NoOOF (step (.ok a st) x)) : ∀ (l : List β) (init : R α), NoOOF init → NoOOF (l.foldl step init)
  | [], _, h => h
  | x :: xs, init, h => by
    simp only [List.foldl_cons]
    apply foldl_R_noOOF hf hs xs
    cases init with
    | fail f k => rw [hf]; exact h
    | ok a st => exact hs a st x

/-- tokens whose evaluation materialises a lazy set or runs a loop with a bound of its own -/
def eagerTok (t : Tok) : Bool :=
  t == .DECART || t == .BOOLEAN || t == .FILTER || t == .NT_IMPERATIVE_EXPR || t == .NT_RECURSIVE_FULL || t == .NT_RECURSIVE_SHORT

theorem evCore_noOOF (c : Ctx) (ch dk : Nat → St → R V) (lz : Ast → St → R V) (a : Ast) (p : Option Tok) (st : St)
    (hch : ∀ i st, NoOOF (ch i st)) (ht : eagerTok a.id = false)
    (hb : ∀ k, a.kids[1]? = some k → (k.id == Tok.BOOLEAN) = false) :
    NoOOF (evCore c ch dk lz a p st) := by
  simp only [evCore]
  split
  · exact hch 1 st
  · split
    all_goals (repeat' split)
    all_goals try (first
      | (intro k h; cases h; done)
      | (rename_i heq; first
          | exact (hch _ _).of_fail heq | exact (hch _ _).asVal.of_fail heq | exact (hch _ _).asSet.of_fail heq
          | exact (hch _ _).asInt.of_fail heq | exact (hch _ _).asBool.of_fail heq))
    all_goals try (exfalso; revert ht; simp only [*]; decide)
    all_goals try (first
      | exact restoreSlot_noOOF (quantLoop_noOOF _ _ _ _ (hch 2) _ _)
      | exact restoreSlot_noOOF (declLoop_noOOF _ _ _ (hch 2) _ _ _)
      | (rename_i heq; refine (foldl_R_noOOF (fun f k x => rfl) ?_ _ _ (NoOOF.ok _ _)).of_fail heq
         intro vs st' i
         dsimp only
         cases hr : (ch i st').asVal with
         | fail f k => exact (hch i st').asVal.of_fail hr
         | ok v st'' => exact NoOOF.ok _ _))
    all_goals
      exfalso
      cases hk : a.kids[1]? with
      | none => simp_all
      | some k => have := hb k hk; simp_all

mutual
/-- no node of the tree materialises a lazy set or runs `R{}` / `I{}` / a filter -/
def eagerFree : Ast → Bool
  | .node t _ _ _ ks => !eagerTok t && eagerFreeKids ks
def eagerFreeKids : List Ast → Bool
  | [] => true
  | k :: ks => eagerFree k && eagerFreeKids ks
end

theorem eagerFreeKids_mem {k : Ast} : ∀ {ks : List Ast}, eagerFreeKids ks = true → k ∈ ks → eagerFree k = true
  | [], _, h => by cases h
  | k' :: ks, he, h => by
    simp only [eagerFreeKids, Bool.and_eq_true] at he
    rcases List.mem_cons.mp h with rfl | h
    · exact he.1
    · exact eagerFreeKids_mem he.2 h

theorem eagerFree_tok {a : Ast} (h : eagerFree a = true) : eagerTok a.id = false := by
  cases a with
  | node t d lo hi ks => simp only [eagerFree, Bool.and_eq_true, Bool.not_eq_true'] at h; exact h.1

theorem eagerFree_kid {a k : Ast} (h : eagerFree a = true) (hk : k ∈ a.kids) : eagerFree k = true := by
  cases a with
  | node t d lo hi ks =>
    simp only [eagerFree, Bool.and_eq_true] at h
    exact eagerFreeKids_mem h.2 hk

/-- **on a tree without eager `ℬ` / `×` / `R{}` / `I{}` / filters the fuel of `ev` is the depth of the tree**: from
`evDepth a` on `ev` never answers `outOfFuel` -/
theorem ev_fuel_sufficient (c : Ctx) : ∀ (f : Nat) (a : Ast) (p : Option Tok) (st : St),
    eagerFree a = true → evDepth a ≤ f → NoOOF (ev c f a p st) := by
  intro f
  induction f with
  | zero => intro a p st _ h; have := evDepth_pos a; omega
  | succ f ih =>
    intro a p st he h
    rw [ev_succ]
    apply evCore_noOOF
    · intro i st
      unfold childF
      cases hk : a.kids[i]? with
      | none => intro k e; cases e
      | some k =>
        have hm := mem_of_getElem? hk
        have := evDepth_kid hm
        exact ih k _ st (eagerFree_kid he hm) (by omega)
    · exact eagerFree_tok he
    · intro k hk
      have ht := eagerFree_tok (eagerFree_kid he (mem_of_getElem? hk))
      simp only [eagerTok, Bool.or_eq_false_iff] at ht
      exact ht.1.1.1.1.2

end CCVerif.Eval
