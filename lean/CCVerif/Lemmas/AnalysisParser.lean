import CCVerif.Model.Parser
import CCVerif.Model.AstQuery
/-!
Helper lemmas of C04, part 3 — the parser model only builds ranges out of token ranges.

`Ranged Plo Phi t`: every node of `t` starts at a position satisfying `Plo` and ends at a position
satisfying `Phi`. Every semantic action of `RSParser.cpp` takes the start of a node from the start
of a token or of an operand and the end from the end of a token or of an operand, so the twelve
mutually recursive parser functions preserve `Ranged` for ANY pair of predicates that the tokens of
the input satisfy (`parserInv`, by induction on the fuel). Instances: "positions lie in
`[0, length]`", "every node starts where a token starts and ends where a token ends".
-/
namespace CCVerif.Analysis
open CCVerif.Syntax CCVerif.Generated CCVerif.Lexer CCVerif.Parser

inductive Ranged (Plo Phi : Int → Prop) : Ast → Prop where
  | node {id : Tok} {d : TokData} {lo hi : Int} {kids : List Ast} :
      Plo lo → Phi hi → (∀ k, k ∈ kids → Ranged Plo Phi k) → Ranged Plo Phi (.node id d lo hi kids)

/-- the tokens satisfy the two predicates -/
def TokInv (Plo Phi : Int → Prop) (ts : Toks) : Prop := ∀ t, t ∈ ts → Plo t.lo ∧ Phi t.hi

def AllRanged (Plo Phi : Int → Prop) (l : List Ast) : Prop := ∀ k, k ∈ l → Ranged Plo Phi k

variable {Plo Phi : Int → Prop}

theorem Ranged.plo {a : Ast} (h : Ranged Plo Phi a) : Plo a.lo := by cases h; assumption
theorem Ranged.phi {a : Ast} (h : Ranged Plo Phi a) : Phi a.hi := by cases h; assumption
theorem Ranged.kid {a : Ast} (h : Ranged Plo Phi a) : AllRanged Plo Phi a.kids := by cases h; assumption

theorem ranged_node_iff (id : Tok) (d : TokData) (lo hi : Int) (kids : List Ast) :
    Ranged Plo Phi (.node id d lo hi kids) ↔ Plo lo ∧ Phi hi ∧ AllRanged Plo Phi kids :=
  ⟨fun h => ⟨h.plo, h.phi, h.kid⟩, fun ⟨a, b, c⟩ => .node a b c⟩

@[simp] theorem tokInv_nil : TokInv Plo Phi [] := by intro t h; cases h
@[simp] theorem tokInv_cons (t : LTok) (ts : Toks) :
    TokInv Plo Phi (t :: ts) ↔ (Plo t.lo ∧ Phi t.hi) ∧ TokInv Plo Phi ts := by
  simp [TokInv]
theorem tokInv_drop (n : Nat) {ts : Toks} (h : TokInv Plo Phi ts) : TokInv Plo Phi (ts.drop n) :=
  fun t ht => h t (List.mem_of_mem_drop ht)
theorem tokInv_takeWhile (p : LTok → Bool) {ts : Toks} (h : TokInv Plo Phi ts) : TokInv Plo Phi (ts.takeWhile p) :=
  fun t ht => h t ((List.takeWhile_prefix p).subset ht)

@[simp] theorem allRanged_nil : AllRanged Plo Phi [] := by intro t h; cases h
@[simp] theorem allRanged_cons (a : Ast) (l : List Ast) :
    AllRanged Plo Phi (a :: l) ↔ Ranged Plo Phi a ∧ AllRanged Plo Phi l := by
  simp [AllRanged]
@[simp] theorem allRanged_append (l₁ l₂ : List Ast) :
    AllRanged Plo Phi (l₁ ++ l₂) ↔ AllRanged Plo Phi l₁ ∧ AllRanged Plo Phi l₂ := by
  simp only [AllRanged, List.mem_append]
  exact ⟨fun h => ⟨fun k hk => h k (Or.inl hk), fun k hk => h k (Or.inr hk)⟩,
    fun h k hk => hk.elim (h.1 k) (h.2 k)⟩
theorem allRanged_drop (n : Nat) {l : List Ast} (h : AllRanged Plo Phi l) : AllRanged Plo Phi (l.drop n) :=
  fun t ht => h t (List.mem_of_mem_drop ht)

mutual
/-- every node of a `Ranged` tree, as listed by `AstQuery.allNodes`, satisfies the two predicates -/
theorem ranged_allNodes : ∀ (a : Ast) (pre : List Nat), Ranged Plo Phi a →
    ∀ x, x ∈ AstQuery.allNodes pre a → Plo x.2.lo ∧ Phi x.2.hi
  | .node id d lo hi kids, pre, h, x, hx => by
    rw [AstQuery.allNodes] at hx
    rcases List.mem_cons.1 hx with rfl | hx
    · exact ⟨h.plo, h.phi⟩
    · exact ranged_allNodesKids kids pre 0 h.kid x hx
theorem ranged_allNodesKids : ∀ (l : List Ast) (pre : List Nat) (i : Nat), AllRanged Plo Phi l →
    ∀ x, x ∈ AstQuery.allNodesKids pre l i → Plo x.2.lo ∧ Phi x.2.hi
  | [], _, _, _, x, hx => by simp [AstQuery.allNodesKids] at hx
  | k :: ks, pre, i, h, x, hx => by
    rw [AstQuery.allNodesKids] at hx
    rcases List.mem_append.1 hx with hx | hx
    · exact ranged_allNodes k _ ((allRanged_cons k ks).1 h).1 x hx
    · exact ranged_allNodesKids ks pre (i + 1) ((allRanged_cons k ks).1 h).2 x hx
end

/-! ## the semantic actions -/

theorem ranged_leaf {t : LTok} (h1 : Plo t.lo) (h2 : Phi t.hi) : Ranged Plo Phi (leaf t) :=
  .node h1 h2 (by simp)

theorem ranged_setRange {a : Ast} {lo hi : Int} (ha : Ranged Plo Phi a) (h1 : Plo lo) (h2 : Phi hi) :
    Ranged Plo Phi (setRange a lo hi) :=
  .node h1 h2 ha.kid

theorem ranged_binary {a b : Ast} (op : LTok) (ha : Ranged Plo Phi a) (hb : Ranged Plo Phi b) :
    Ranged Plo Phi (binaryOperation a op b) :=
  .node ha.plo hb.phi (by intro k hk; simp at hk; rcases hk with rfl | rfl <;> assumption)

theorem ranged_unary {a : Ast} {op : LTok} (h1 : Plo op.lo) (ha : Ranged Plo Phi a) :
    Ranged Plo Phi (unaryOperation op a) :=
  .node h1 ha.phi (by intro k hk; simp at hk; subst hk; exact ha)

theorem ranged_removeBrackets {a : Ast} {l r : LTok} (h1 : Plo l.lo) (h2 : Phi r.hi) (ha : Ranged Plo Phi a) :
    Ranged Plo Phi (removeBrackets l a r) :=
  .node h1 h2 (by intro k hk; simp at hk; subst hk; exact ranged_setRange ha h1 h2)

theorem ranged_textOperator {a : Ast} {op rp : LTok} (h1 : Plo op.lo) (h2 : Phi rp.hi) (ha : Ranged Plo Phi a) :
    Ranged Plo Phi (textOperator op a rp) :=
  .node h1 h2 (by intro k hk; simp at hk; subst hk; exact ha)

theorem ranged_decartian {a b : Ast} (op : LTok) (ha : Ranged Plo Phi a) (hb : Ranged Plo Phi b) :
    Ranged Plo Phi (decartian a op b) := by
  unfold decartian; split
  · exact .node ha.plo hb.phi (by
      intro k hk; simp at hk; rcases hk with hk | rfl
      · exact ha.kid k hk
      · exact hb)
  · exact ranged_binary op ha hb

mutual
theorem ranged_tupleDecl : ∀ (a b : Ast), Ranged Plo Phi a → tupleDecl a = some b → Ranged Plo Phi b
  | .node id d lo hi kids, b, ha, h => by
    rw [tupleDecl] at h
    split at h
    · split at h
      · rename_i ks hks
        cases h
        exact .node ha.plo ha.phi (ranged_tupleDeclList kids ks ha.kid hks)
      · cases h
    · split at h
      · split at h
        · rename_i ks hks
          cases h
          exact .node ha.plo ha.phi (ranged_tupleDeclList kids ks ha.kid hks)
        · cases h
      · cases h
theorem ranged_tupleDeclList : ∀ (l m : List Ast), AllRanged Plo Phi l → tupleDeclList l = some m → AllRanged Plo Phi m
  | [], m, _, h => by rw [tupleDeclList] at h; cases h; simp
  | k :: ks, m, hl, h => by
    rw [tupleDeclList] at h
    split at h
    · rename_i k' ks' h1 h2
      cases h
      rw [allRanged_cons] at hl ⊢
      exact ⟨ranged_tupleDecl k k' hl.1 h1, ranged_tupleDeclList ks ks' hl.2 h2⟩
    · cases h
end

mutual
theorem ranged_stripBrackets : ∀ (a b : Ast), Ranged Plo Phi a → stripBrackets a = some b → Ranged Plo Phi b
  | .node id d lo hi kids, b, ha, h => by
    rw [stripBrackets.eq_def] at h
    simp only [] at h
    split at h
    · split at h
      · rename_i k ks
        have hk : Ranged Plo Phi k := ha.kid k (by simp [Ast.kids])
        exact ranged_stripBrackets k b hk h
      · cases h
    · split at h
      · rename_i ks hks
        cases h
        exact .node ha.plo ha.phi (ranged_stripBracketsList kids ks ha.kid hks)
      · cases h
theorem ranged_stripBracketsList : ∀ (l m : List Ast), AllRanged Plo Phi l → stripBracketsList l = some m → AllRanged Plo Phi m
  | [], m, _, h => by rw [stripBracketsList] at h; cases h; simp
  | k :: ks, m, hl, h => by
    rw [stripBracketsList] at h
    split at h
    · rename_i k' ks' h1 h2
      cases h
      rw [allRanged_cons] at hl ⊢
      exact ⟨ranged_stripBrackets k k' hl.1 h1, ranged_stripBracketsList ks ks' hl.2 h2⟩
    · cases h
end

theorem spanOf_fst (first : Ast) (rest : List Ast) : (spanOf first rest).1 = first.lo := rfl

theorem spanOf_snd {first : Ast} {rest : List Ast} (h1 : Ranged Plo Phi first) (h2 : AllRanged Plo Phi rest) :
    Phi (spanOf first rest).2 := by
  show Phi ((rest.getLast?.getD first).hi)
  cases hl : rest.getLast? with
  | none => exact h1.phi
  | some x => exact (h2 x (List.mem_of_getLast? hl)).phi

/-! ## the twelve parser functions -/

/-- what is proved of each parser function at one value of the fuel -/
structure ParserInv (Plo Phi : Int → Prop) (f : Nat) : Prop where
  enumE : ∀ toks es r, TokInv Plo Phi toks → enumE f toks = some (es, r) → AllRanged Plo Phi es ∧ TokInv Plo Phi r
  enumTail : ∀ acc toks es r, TokInv Plo Phi toks → AllRanged Plo Phi acc → enumTail f acc toks = some (es, r) →
    AllRanged Plo Phi es ∧ TokInv Plo Phi r
  varE : ∀ toks v r, TokInv Plo Phi toks → varE f toks = some (v, r) → Ranged Plo Phi v ∧ TokInv Plo Phi r
  varPackTail : ∀ acc toks es r, TokInv Plo Phi toks → AllRanged Plo Phi acc → varPackTail f acc toks = some (es, r) →
    AllRanged Plo Phi es ∧ TokInv Plo Phi r
  argDecls : ∀ acc toks es r, TokInv Plo Phi toks → AllRanged Plo Phi acc → argDecls f acc toks = some (es, r) →
    AllRanged Plo Phi es ∧ TokInv Plo Phi r
  blocks : ∀ acc toks es r, TokInv Plo Phi toks → AllRanged Plo Phi acc → blocks f acc toks = some (es, r) →
    AllRanged Plo Phi es ∧ TokInv Plo Phi r
  primary : ∀ toks k e r, TokInv Plo Phi toks → primary f toks = some (k, e, r) → Ranged Plo Phi e ∧ TokInv Plo Phi r
  setE : ∀ m toks k e r, TokInv Plo Phi toks → setE f m toks = some (k, e, r) → Ranged Plo Phi e ∧ TokInv Plo Phi r
  setLoop : ∀ m k lhs toks k' e r, TokInv Plo Phi toks → Ranged Plo Phi lhs → setLoop f m k lhs toks = some (k', e, r) →
    Ranged Plo Phi e ∧ TokInv Plo Phi r
  predE : ∀ toks k e r, TokInv Plo Phi toks → predE f toks = some (k, e, r) → Ranged Plo Phi e ∧ TokInv Plo Phi r
  logE : ∀ m toks k e r, TokInv Plo Phi toks → logE f m toks = some (k, e, r) → Ranged Plo Phi e ∧ TokInv Plo Phi r
  logLoop : ∀ m k lhs toks k' e r, TokInv Plo Phi toks → Ranged Plo Phi lhs → logLoop f m k lhs toks = some (k', e, r) →
    Ranged Plo Phi e ∧ TokInv Plo Phi r

theorem parserInv_zero : ParserInv Plo Phi 0 := by
  constructor <;> intros <;> simp_all [enumE, enumTail, varE, varPackTail, argDecls, blocks, primary, setE, setLoop, predE, logE, logLoop]

/-- closes one leaf of the case analysis of a parser function: the facts come from the induction
hypotheses (instantiated at the recursive calls recorded in the context) and the action lemmas -/
macro "parser_close" : tactic =>
  `(tactic| grind (gen := 20) (ematch := 20) [Ranged.plo, Ranged.phi, tokInv_cons, tokInv_drop, tokInv_nil,
      ranged_leaf, ranged_textOperator, ranged_unary, ranged_removeBrackets, ranged_binary, ranged_decartian,
      ranged_tupleDecl, ranged_node_iff, allRanged_cons, allRanged_append, allRanged_nil, allRanged_drop,
      spanOf_fst, spanOf_snd])

/-- case analysis of the function body held in `h` -/
macro "parser_cases" h:ident : tactic =>
  `(tactic| ((try simp only [] at $h:ident); repeat' (split at $h:ident)))

theorem step_enumE (f : Nat) (ih : ParserInv Plo Phi f) :
    ∀ toks es r, TokInv Plo Phi toks → enumE (f + 1) toks = some (es, r) → AllRanged Plo Phi es ∧ TokInv Plo Phi r := by
  have i1 := ih.enumE; have i2 := ih.enumTail; have i3 := ih.varE; have i4 := ih.varPackTail
  have i5 := ih.argDecls; have i6 := ih.blocks; have i7 := ih.primary; have i8 := ih.setE
  have i9 := ih.setLoop; have i10 := ih.predE; have i11 := ih.logE; have i12 := ih.logLoop
  intro toks es r ht h
  rw [enumE.eq_def] at h; parser_cases h
  all_goals try (cases h; done)
  all_goals parser_close

theorem step_enumTail (f : Nat) (ih : ParserInv Plo Phi f) :
    ∀ acc toks es r, TokInv Plo Phi toks → AllRanged Plo Phi acc → enumTail (f + 1) acc toks = some (es, r) →
    AllRanged Plo Phi es ∧ TokInv Plo Phi r := by
  have i1 := ih.enumE; have i2 := ih.enumTail; have i3 := ih.varE; have i4 := ih.varPackTail
  have i5 := ih.argDecls; have i6 := ih.blocks; have i7 := ih.primary; have i8 := ih.setE
  have i9 := ih.setLoop; have i10 := ih.predE; have i11 := ih.logE; have i12 := ih.logLoop
  intro acc toks es r ht ha h
  rw [enumTail.eq_def] at h; parser_cases h
  all_goals try (cases h; done)
  all_goals parser_close

theorem step_varE (f : Nat) (ih : ParserInv Plo Phi f) :
    ∀ toks v r, TokInv Plo Phi toks → varE (f + 1) toks = some (v, r) → Ranged Plo Phi v ∧ TokInv Plo Phi r := by
  have i1 := ih.enumE; have i2 := ih.enumTail; have i3 := ih.varE; have i4 := ih.varPackTail
  have i5 := ih.argDecls; have i6 := ih.blocks; have i7 := ih.primary; have i8 := ih.setE
  have i9 := ih.setLoop; have i10 := ih.predE; have i11 := ih.logE; have i12 := ih.logLoop
  intro toks v r ht h
  rw [varE.eq_def] at h; parser_cases h
  all_goals try (cases h; done)
  all_goals parser_close

theorem step_varPackTail (f : Nat) (ih : ParserInv Plo Phi f) :
    ∀ acc toks es r, TokInv Plo Phi toks → AllRanged Plo Phi acc → varPackTail (f + 1) acc toks = some (es, r) →
    AllRanged Plo Phi es ∧ TokInv Plo Phi r := by
  have i1 := ih.enumE; have i2 := ih.enumTail; have i3 := ih.varE; have i4 := ih.varPackTail
  have i5 := ih.argDecls; have i6 := ih.blocks; have i7 := ih.primary; have i8 := ih.setE
  have i9 := ih.setLoop; have i10 := ih.predE; have i11 := ih.logE; have i12 := ih.logLoop
  intro acc toks es r ht ha h
  rw [varPackTail.eq_def] at h; parser_cases h
  all_goals try (cases h; done)
  all_goals parser_close

theorem step_argDecls (f : Nat) (ih : ParserInv Plo Phi f) :
    ∀ acc toks es r, TokInv Plo Phi toks → AllRanged Plo Phi acc → argDecls (f + 1) acc toks = some (es, r) →
    AllRanged Plo Phi es ∧ TokInv Plo Phi r := by
  have i1 := ih.enumE; have i2 := ih.enumTail; have i3 := ih.varE; have i4 := ih.varPackTail
  have i5 := ih.argDecls; have i6 := ih.blocks; have i7 := ih.primary; have i8 := ih.setE
  have i9 := ih.setLoop; have i10 := ih.predE; have i11 := ih.logE; have i12 := ih.logLoop
  intro acc toks es r ht ha h
  rw [argDecls.eq_def] at h; parser_cases h
  all_goals try (cases h; done)
  all_goals parser_close

theorem step_blocks (f : Nat) (ih : ParserInv Plo Phi f) :
    ∀ acc toks es r, TokInv Plo Phi toks → AllRanged Plo Phi acc → blocks (f + 1) acc toks = some (es, r) →
    AllRanged Plo Phi es ∧ TokInv Plo Phi r := by
  have i1 := ih.enumE; have i2 := ih.enumTail; have i3 := ih.varE; have i4 := ih.varPackTail
  have i5 := ih.argDecls; have i6 := ih.blocks; have i7 := ih.primary; have i8 := ih.setE
  have i9 := ih.setLoop; have i10 := ih.predE; have i11 := ih.logE; have i12 := ih.logLoop
  intro acc toks es r ht ha h
  rw [blocks.eq_def] at h; parser_cases h
  all_goals try (cases h; done)
  all_goals parser_close

set_option maxHeartbeats 1000000 in
theorem step_primary (f : Nat) (ih : ParserInv Plo Phi f) :
    ∀ toks k e r, TokInv Plo Phi toks → primary (f + 1) toks = some (k, e, r) → Ranged Plo Phi e ∧ TokInv Plo Phi r := by
  have i1 := ih.enumE; have i2 := ih.enumTail; have i3 := ih.varE; have i4 := ih.varPackTail
  have i5 := ih.argDecls; have i6 := ih.blocks; have i7 := ih.primary; have i8 := ih.setE
  have i9 := ih.setLoop; have i10 := ih.predE; have i11 := ih.logE; have i12 := ih.logLoop
  intro toks k e r ht h
  rw [primary.eq_def] at h; parser_cases h
  all_goals try (cases h; done)
  all_goals parser_close

theorem step_setE (f : Nat) (ih : ParserInv Plo Phi f) :
    ∀ m toks k e r, TokInv Plo Phi toks → setE (f + 1) m toks = some (k, e, r) → Ranged Plo Phi e ∧ TokInv Plo Phi r := by
  have i1 := ih.enumE; have i2 := ih.enumTail; have i3 := ih.varE; have i4 := ih.varPackTail
  have i5 := ih.argDecls; have i6 := ih.blocks; have i7 := ih.primary; have i8 := ih.setE
  have i9 := ih.setLoop; have i10 := ih.predE; have i11 := ih.logE; have i12 := ih.logLoop
  intro m toks k e r ht h
  rw [setE.eq_def] at h; parser_cases h
  all_goals try (cases h; done)
  all_goals parser_close

theorem step_setLoop (f : Nat) (ih : ParserInv Plo Phi f) :
    ∀ m k lhs toks k' e r, TokInv Plo Phi toks → Ranged Plo Phi lhs → setLoop (f + 1) m k lhs toks = some (k', e, r) →
    Ranged Plo Phi e ∧ TokInv Plo Phi r := by
  have i1 := ih.enumE; have i2 := ih.enumTail; have i3 := ih.varE; have i4 := ih.varPackTail
  have i5 := ih.argDecls; have i6 := ih.blocks; have i7 := ih.primary; have i8 := ih.setE
  have i9 := ih.setLoop; have i10 := ih.predE; have i11 := ih.logE; have i12 := ih.logLoop
  intro m k lhs toks k' e r ht hl h
  rw [setLoop.eq_def] at h; parser_cases h
  all_goals try (cases h; done)
  all_goals parser_close

theorem step_predE (f : Nat) (ih : ParserInv Plo Phi f) :
    ∀ toks k e r, TokInv Plo Phi toks → predE (f + 1) toks = some (k, e, r) → Ranged Plo Phi e ∧ TokInv Plo Phi r := by
  have i1 := ih.enumE; have i2 := ih.enumTail; have i3 := ih.varE; have i4 := ih.varPackTail
  have i5 := ih.argDecls; have i6 := ih.blocks; have i7 := ih.primary; have i8 := ih.setE
  have i9 := ih.setLoop; have i10 := ih.predE; have i11 := ih.logE; have i12 := ih.logLoop
  intro toks k e r ht h
  rw [predE.eq_def] at h; parser_cases h
  all_goals try (cases h; done)
  all_goals parser_close

theorem step_logE (f : Nat) (ih : ParserInv Plo Phi f) :
    ∀ m toks k e r, TokInv Plo Phi toks → logE (f + 1) m toks = some (k, e, r) → Ranged Plo Phi e ∧ TokInv Plo Phi r := by
  have i1 := ih.enumE; have i2 := ih.enumTail; have i3 := ih.varE; have i4 := ih.varPackTail
  have i5 := ih.argDecls; have i6 := ih.blocks; have i7 := ih.primary; have i8 := ih.setE
  have i9 := ih.setLoop; have i10 := ih.predE; have i11 := ih.logE; have i12 := ih.logLoop
  intro m toks k e r ht h
  rw [logE.eq_def] at h; parser_cases h
  all_goals try (cases h; done)
  all_goals parser_close

theorem step_logLoop (f : Nat) (ih : ParserInv Plo Phi f) :
    ∀ m k lhs toks k' e r, TokInv Plo Phi toks → Ranged Plo Phi lhs → logLoop (f + 1) m k lhs toks = some (k', e, r) →
    Ranged Plo Phi e ∧ TokInv Plo Phi r := by
  have i1 := ih.enumE; have i2 := ih.enumTail; have i3 := ih.varE; have i4 := ih.varPackTail
  have i5 := ih.argDecls; have i6 := ih.blocks; have i7 := ih.primary; have i8 := ih.setE
  have i9 := ih.setLoop; have i10 := ih.predE; have i11 := ih.logE; have i12 := ih.logLoop
  intro m k lhs toks k' e r ht hl h
  rw [logLoop.eq_def] at h; parser_cases h
  all_goals try (cases h; done)
  all_goals parser_close

theorem parserInv_succ (f : Nat) (ih : ParserInv Plo Phi f) : ParserInv Plo Phi (f + 1) :=
  ⟨step_enumE f ih, step_enumTail f ih, step_varE f ih, step_varPackTail f ih, step_argDecls f ih, step_blocks f ih,
   step_primary f ih, step_setE f ih, step_setLoop f ih, step_predE f ih, step_logE f ih, step_logLoop f ih⟩

/-- **the invariant of the whole recursive-descent parser**, every fuel -/
theorem parserInv : ∀ f : Nat, ParserInv Plo Phi f
  | 0 => parserInv_zero
  | f + 1 => parserInv_succ f (parserInv f)

/-! ## the entry points -/

theorem ranged_logicOrSet (f : Nat) (toks : Toks) (e : Ast) (r : Toks) (ht : TokInv Plo Phi toks)
    (h : logicOrSet f toks = some (e, r)) : Ranged Plo Phi e ∧ TokInv Plo Phi r := by
  have i11 := (parserInv (Plo := Plo) (Phi := Phi) f).logE
  unfold logicOrSet at h; parser_cases h
  all_goals try (cases h; done)
  all_goals parser_close

theorem ranged_noDeclaration (f : Nat) (toks : Toks) (e : Ast) (r : Toks) (ht : TokInv Plo Phi toks)
    (h : noDeclaration f toks = some (e, r)) : Ranged Plo Phi e ∧ TokInv Plo Phi r := by
  have i5 := (parserInv (Plo := Plo) (Phi := Phi) f).argDecls
  have i0 := ranged_logicOrSet (Plo := Plo) (Phi := Phi) f
  unfold noDeclaration at h; parser_cases h
  all_goals try (cases h; done)
  all_goals parser_close

theorem ranged_expression (f : Nat) (toks : Toks) (e : Ast) (ht : TokInv Plo Phi toks)
    (h : expression f toks = some e) : Ranged Plo Phi e := by
  have i0 := ranged_noDeclaration (Plo := Plo) (Phi := Phi) f
  unfold expression at h; parser_cases h
  all_goals try (cases h; done)
  all_goals parser_close

/-- **every node of a tree returned by `parseToks` starts at a position satisfying `Plo` and ends at
a position satisfying `Phi`, whenever the starts / ends of the tokens the parser sees (those before END
or the first INTERRUPT) do** -/
theorem ranged_parseToks_body (ts : Toks) (t : Ast)
    (ht : TokInv Plo Phi (ts.takeWhile (fun t => t.id != .END && t.id != .INTERRUPT))) (h : parseToks ts = some t) :
    Ranged Plo Phi t := by
  unfold parseToks at h
  simp only [] at h
  split at h
  · cases h
  · split at h
    · rename_i raw hraw
      split at h
      · exact ranged_stripBrackets raw t (ranged_expression _ _ raw ht hraw) h
      · cases h
    · cases h

theorem ranged_parseToks (ts : Toks) (t : Ast) (ht : TokInv Plo Phi ts) (h : parseToks ts = some t) :
    Ranged Plo Phi t :=
  ranged_parseToks_body ts t (tokInv_takeWhile _ ht) h

end CCVerif.Analysis
