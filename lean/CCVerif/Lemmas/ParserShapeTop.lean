import CCVerif.Lemmas.ParserShapeSteps
import CCVerif.Lemmas.CheckerParsed
set_option linter.unusedVariables false
set_option linter.unusedSectionVars false
/-!
Helper lemmas of C06 / C04, part 3 — the step of `primary`, the induction on the fuel, the entry points
(`logic_or_setexpr`, `function_definition`, `global_declaration`), the payloads of lexed tokens, and the
result: every tree `parse` returns is `Checker.WfParsed`.
-/
namespace CCVerif.ParserShape
open CCVerif.Syntax CCVerif.Generated CCVerif.Lexer CCVerif.Parser CCVerif.Types CCVerif.Checker

variable {Γ : Ctx}

theorem step_primary (f : Nat) (ih : ParserWf Γ f) :
    ∀ toks k e r, AllOK Γ toks → primary (f + 1) toks = some (k, e, r) →
    RawWf Γ (catK k) e ∧ AllOK Γ r ∧ (peek toks = .BOOLEAN → k = .set) := by
  intro toks k e r ht h
  rw [primary.eq_def] at h; parser_cases h
  all_goals try (cases h; done)
  all_goals cases h
  all_goals try tok_eqs
  all_goals shape_close

theorem parserWf_succ (f : Nat) (ih : ParserWf Γ f) : ParserWf Γ (f + 1) where
  enumE := fun toks h => resL_intro fun es r he => step_enumE f ih toks es r h he
  enumTail := fun acc toks h => resL_intro fun es r he => step_enumTail f ih acc toks es r h he
  varE := fun toks h => resV_intro fun v r he => step_varE f ih toks v r h he
  varPackTail := fun acc toks h => resL_intro fun es r he => step_varPackTail f ih acc toks es r h he
  argDecls := fun acc toks h => resA_intro fun es r he => step_argDecls f ih acc toks es r h he
  blocks := fun acc toks h => resL_intro fun es r he => step_blocks f ih acc toks es r h he
  primary := fun toks h => resP_intro fun k e r he => step_primary f ih toks k e r h he
  setE := fun m toks h => resT_intro fun k e r he => step_setE f ih m toks k e r h he
  setLoop := fun m k lhs toks h1 h2 => resT_intro fun k' e r he => step_setLoop f ih m k lhs toks k' e r h1 h2 he
  predE := fun toks h => resT_intro fun k e r he => step_predE f ih toks k e r h he
  logE := fun m toks h => resT_intro fun k e r he => step_logE f ih m toks k e r h he
  logLoop := fun m k lhs toks h1 h2 => resT_intro fun k' e r he => step_logLoop f ih m k lhs toks k' e r h1 h2 he

/-- **the shape invariant of the whole recursive-descent parser**, every fuel -/
theorem parserWf : ∀ f : Nat, ParserWf Γ f
  | 0 => parserWf_zero
  | f + 1 => parserWf_succ f (parserWf f)

/-! ## the entry points -/

/-- raw definition: an expression or a function definition -/
def RawDef (Γ : Ctx) (raw : Ast) : Prop := ∃ t xs, stripBrackets raw = some t ∧ WfDef Γ xs t
/-- raw whole input -/
def RawTop (Γ : Ctx) (raw : Ast) : Prop := ∃ t xs, stripBrackets raw = some t ∧ WfParsed Γ xs t

theorem rawDef_of_expr {c : Cat} {e : Ast} (hc : c = .S ∨ c = .L) (h : RawWf Γ c e) : RawDef Γ e := by
  obtain ⟨t, st, wt⟩ := h
  rcases hc with rfl | rfl
  · exact ⟨t, [], st, .expr (Or.inl wt)⟩
  · exact ⟨t, [], st, .expr (Or.inr wt)⟩

theorem nest_logicOrSet (f : Nat) (toks : Toks) (e : Ast) (r : Toks) (ht : AllOK Γ toks)
    (h : logicOrSet f toks = some (e, r)) : (RawWf Γ .S e ∨ RawWf Γ .L e) ∧ AllOK Γ r := by
  have ih := parserWf (Γ := Γ) f
  unfold logicOrSet at h; parser_cases h
  all_goals try (cases h; done)
  all_goals cases h
  all_goals try tok_eqs
  all_goals shape_close

/-- a list of raw argument declarations strips to `WfArgs` -/
theorem allRawArg_strip : ∀ (l : List Ast), AllRawArg Γ l → ∃ l' xs, stripBracketsList l = some l' ∧ WfArgs Γ xs l'
  | [], _ => ⟨[], [], strip_list_nil, .nil⟩
  | a :: l, h => by
    obtain ⟨a', x, sa, wa⟩ := h a (by simp)
    obtain ⟨l', xs, sl, wl⟩ := allRawArg_strip l (fun k hk => h k (by simp [hk]))
    exact ⟨a' :: l', x :: xs, strip_list_cons sa sl, .cons wa wl⟩

/-- `FunctionDeclaration` -/
theorem raw_funcdef {ds : List Ast} {e : Ast} {lo hi la ha : Int} (hd : AllRawArg Γ ds) (he : RawWf Γ .S e ∨ RawWf Γ .L e) :
    RawDef Γ (.node .NT_FUNC_DEFINITION .none lo hi [.node .NT_ARGUMENTS .none la ha ds, e]) := by
  obtain ⟨ds', xs, sds, wds⟩ := allRawArg_strip ds hd
  have sargs : stripBrackets (.node .NT_ARGUMENTS .none la ha ds) = some (.node .NT_ARGUMENTS .none la ha ds') := by
    rw [strip_node _ _ _ _ (by decide), sds]; rfl
  rcases he with ⟨t, st, wt⟩ | ⟨t, st, wt⟩
  · exact ⟨_, xs, by rw [strip_node _ _ _ _ (by decide), strip2 sargs st]; rfl, .funcdef wds (Or.inl wt)⟩
  · exact ⟨_, xs, by rw [strip_node _ _ _ _ (by decide), strip2 sargs st]; rfl, .funcdef wds (Or.inr wt)⟩

theorem nest_noDeclaration (f : Nat) (toks : Toks) (e : Ast) (r : Toks) (ht : AllOK Γ toks)
    (h : noDeclaration f toks = some (e, r)) : RawDef Γ e ∧ AllOK Γ r := by
  have ih := parserWf (Γ := Γ) f
  have i0 := nest_logicOrSet (Γ := Γ) f
  unfold noDeclaration at h; parser_cases h
  all_goals try (cases h; done)
  all_goals try (injection h with h; injection h with h1 h2; subst h1 h2)
  all_goals try tok_eqs
  all_goals grind (gen := 20) (ematch := 20) [allOK_cons, allOK_nil, rawDef_of_expr, raw_funcdef, allRawArg_nil, spanOf]

/-- `FinalizeCstEmpty` / `FinalizeCstExpression` -/
theorem raw_define1 {g m : LTok} {lo hi : Int} (hg : TokOK Γ g)
    (hid : g.id = .ID_GLOBAL ∨ g.id = .ID_FUNCTION ∨ g.id = .ID_PREDICATE) (hm : m.id = .PUNC_DEFINE) :
    RawTop Γ (.node m.id m.data lo hi [leaf g]) := by
  obtain ⟨x, hx⟩ := hg.text (by rcases hid with h | h | h <;> simp [h])
  have sleaf : stripBrackets (leaf g) = some (.node g.id (.text x) g.lo g.hi []) := by
    unfold leaf; rw [hx]
    rw [strip_node _ _ _ _ (by rcases hid with h | h | h <;> rw [h] <;> decide), strip_list_nil]; rfl
  rw [hm]
  exact ⟨_, [], by rw [strip_node _ _ _ _ (by decide), strip1 sleaf]; rfl, .top .define1⟩

theorem raw_define2 {g m : LTok} {e : Ast} {lo hi : Int} (hg : TokOK Γ g)
    (hid : g.id = .ID_GLOBAL ∨ g.id = .ID_FUNCTION ∨ g.id = .ID_PREDICATE) (hm : m.id = .PUNC_DEFINE ∨ m.id = .PUNC_STRUCT)
    (he : RawDef Γ e) : RawTop Γ (.node m.id m.data lo hi [leaf g, e]) := by
  obtain ⟨x, hx⟩ := hg.text (by rcases hid with h | h | h <;> simp [h])
  have sleaf : stripBrackets (leaf g) = some (.node g.id (.text x) g.lo g.hi []) := by
    unfold leaf; rw [hx]
    rw [strip_node _ _ _ _ (by rcases hid with h | h | h <;> rw [h] <;> decide), strip_list_nil]; rfl
  obtain ⟨t, xs, st, wt⟩ := he
  rcases hm with h | h <;> rw [h]
  · exact ⟨_, xs, by rw [strip_node _ _ _ _ (by decide), strip2 sleaf st]; rfl, .top (.define2 wt)⟩
  · exact ⟨_, xs, by rw [strip_node _ _ _ _ (by decide), strip2 sleaf st]; rfl, .structAny wt⟩

theorem rawTop_of_def {e : Ast} (h : RawDef Γ e) : RawTop Γ e := by
  obtain ⟨t, xs, st, wt⟩ := h
  exact ⟨t, xs, st, .top (.ofDef wt)⟩

theorem nest_expression (f : Nat) (toks : Toks) (e : Ast) (ht : AllOK Γ toks)
    (h : expression f toks = some e) : RawTop Γ e := by
  have i0 := nest_noDeclaration (Γ := Γ) f
  unfold expression at h; parser_cases h
  all_goals try (cases h; done)
  all_goals try (injection h with h; subst h)
  all_goals try tok_eqs
  all_goals grind (gen := 20) (ematch := 20) [allOK_cons, allOK_nil, raw_define1, raw_define2, rawTop_of_def]

/-- **every tree `parseToks` returns has the shape `WfParsed`**, whenever the tokens the parser sees carry the
payload of their kind and every function name among them is not LOGIC-typed in `Γ` -/
theorem parseToks_wfParsed (ts : Toks) (t : Ast)
    (ht : AllOK Γ (ts.takeWhile (fun t => t.id != .END && t.id != .INTERRUPT))) (h : parseToks ts = some t) :
    ∃ xs, WfParsed Γ xs t := by
  unfold parseToks at h
  simp only [] at h
  split at h
  · cases h
  · split at h
    · rename_i raw hraw
      split at h
      · obtain ⟨t', xs, st, wt⟩ := nest_expression _ _ raw ht hraw
        rw [h] at st; cases st
        exact ⟨xs, wt⟩
      · cases h
    · cases h

/-! ## payloads of lexed tokens -/

theorem fromIndexSequence_ne_nil (s : List Nat) : fromIndexSequence s ≠ [] := by
  unfold fromIndexSequence
  simp

/-- a lexed token carries the payload of its kind (`LexerBase::ParseData`) -/
theorem toTok_payload (r : RawTok) :
    ((r.toTok.id = .ID_LOCAL ∨ r.toTok.id = .ID_GLOBAL ∨ r.toTok.id = .ID_FUNCTION ∨ r.toTok.id = .ID_PREDICATE ∨
        r.toTok.id = .ID_RADICAL) → ∃ x, r.toTok.data = .text x) ∧
    ((r.toTok.id = .BIGPR ∨ r.toTok.id = .SMALLPR ∨ r.toTok.id = .FILTER) → ∃ idx, idx ≠ [] ∧ r.toTok.data = .tuple idx) := by
  simp only [RawTok.toTok]
  constructor
  · rintro (h | h | h | h | h) <;> rw [h] <;> exact ⟨_, rfl⟩
  · rintro (h | h | h) <;> rw [h] <;> exact ⟨_, fromIndexSequence_ne_nil _, rfl⟩

/-- the one hypothesis on the context: a function name that occurs in the text is not LOGIC-typed
(always true of a `Schema`: a function constituent must be typed; a predicate name is lexically distinct) -/
def FuncsNotLogic (Γ : Ctx) (ts : Toks) : Prop :=
  ∀ t, t ∈ ts → t.id = .ID_FUNCTION → ∀ f, t.data = .text f → lookup Γ.types f ≠ some .logic

/-- executable form of `FuncsNotLogic` (for closed examples) -/
def funcsNotLogicB (Γ : Ctx) (ts : Toks) : Bool :=
  ts.all fun t => match t.id, t.data with
    | .ID_FUNCTION, .text f => (match lookup Γ.types f with | some .logic => false | _ => true)
    | _, _ => true

theorem funcsNotLogic_of_check {syn : Syn} {text : List Nat}
    (h : (lex syn text).map (funcsNotLogicB Γ) = some true) : ∀ ts, lex syn text = some ts → FuncsNotLogic Γ ts := by
  intro ts hts t ht hid f hf hl
  rw [hts] at h
  simp only [Option.map_some, Option.some.injEq, funcsNotLogicB, List.all_eq_true] at h
  have := h t ht
  rw [hid, hf] at this
  simp only [hl] at this
  cases this

theorem lex_allOK (syn : Syn) (text : List Nat) (ts : Toks) (h : lex syn text = some ts) (hΓ : FuncsNotLogic Γ ts) :
    AllOK Γ ts := by
  unfold lex at h
  cases hr : lexRaw syn text with
  | none => rw [hr] at h; cases h
  | some rs =>
    rw [hr] at h; simp at h; subst h
    intro t ht
    obtain ⟨r, hrm, rfl⟩ := List.mem_map.1 ht
    exact ⟨(toTok_payload r).1, (toTok_payload r).2, hΓ _ ht⟩

/-- **every tree `parse` returns has the shape `WfParsed`** (arity, token payload, non-empty index lists, set /
logic / declaration positions of `Checker.Wf`; at the top `e`, `[args] e`, `X:==`, `X:==…`, `S::=…`), for every
text of both syntaxes and every context in which the function names of the text are not LOGIC-typed -/
theorem parse_wfParsed (syn : Syn) (text : List Nat) (t : Ast) (h : parse syn text = some t)
    (hΓ : ∀ ts, lex syn text = some ts → FuncsNotLogic Γ ts) : ∃ xs, WfParsed Γ xs t := by
  unfold parse at h
  cases hl : lex syn text with
  | none => rw [hl] at h; cases h
  | some ts =>
    rw [hl] at h
    exact parseToks_wfParsed ts t (allOK_takeWhile _ (lex_allOK syn text ts hl (hΓ ts hl))) h

end CCVerif.ParserShape
