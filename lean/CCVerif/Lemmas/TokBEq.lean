import CCVerif.Model.Syntax
/-!
The derived `BEq` on token kinds and token payloads decides equality (the derive handler does not
produce `LawfulBEq`).
-/
namespace CCVerif.Syntax

theorem tok_beq_eq (a b : Tok) (h : (a == b) = true) : a = b := by
  cases a <;> cases b <;> first | rfl | cases h

theorem tok_beq_refl (a : Tok) : (a == a) = true := by cases a <;> rfl

theorem tok_beq_iff (a b : Tok) : (a == b) = true ↔ a = b :=
  ⟨tok_beq_eq a b, fun h => h ▸ tok_beq_refl a⟩

theorem tokData_beq_eq (a b : TokData) (h : (a == b) = true) : a = b := by
  cases a <;> cases b
  case tuple.tuple x y =>
    have : (x == y) = true := h
    rw [eq_of_beq this]
  all_goals first | rfl | (cases h; done) | (simp only [BEq.beq, instBEqTokData.beq] at h; simp_all)

end CCVerif.Syntax
