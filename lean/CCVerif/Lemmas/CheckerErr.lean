import CCVerif.Model.Checker
/-!
Helper lemmas for C03 `reject_has_critical_in_range`: a Hoare-style predicate over the
checker monad. `Good lo hi m` says that running `m` from any state only appends errors
positioned in `[lo, hi]`, and if it returns `fail` then either the ghost flag `silent` is set or
one of the appended errors is critical.
-/
namespace CCVerif.Checker
open CCVerif.Syntax CCVerif.Types

/-- ranges are non-empty and children lie inside their parent (true of every parser-built tree) -/
inductive WfRange : Ast → Prop where
  | node {t : Tok} {d : TokData} {lo hi : Int} {ks : List Ast} :
      lo < hi → (∀ k, k ∈ ks → WfRange k) → (∀ k, k ∈ ks → lo ≤ k.lo ∧ k.hi ≤ hi) →
      WfRange (.node t d lo hi ks)

theorem WfRange.lt {a : Ast} (h : WfRange a) : a.lo < a.hi := by
  cases h with | node h1 _ _ => exact h1

theorem WfRange.kid {a k : Ast} (h : WfRange a) (hk : k ∈ a.kids) :
    WfRange k ∧ a.lo ≤ k.lo ∧ k.hi ≤ a.hi := by
  cases h with | node _ h2 h3 => exact ⟨h2 k hk, h3 k hk⟩

theorem kid_mem {a k : Ast} {i : Nat} (h : a.kid i = some k) : k ∈ a.kids := by
  unfold Ast.kid at h; exact List.mem_of_getElem? h

def isFail {α} : Res α → Prop
  | .fail => True
  | _ => False

structure Good (lo hi : Int) {α : Type} (m : M α) : Prop where
  run : ∀ s : St, ∃ new : List Err, (m s).2.errs = new ++ s.errs ∧
    (∀ e, e ∈ new → lo ≤ e.2 ∧ e.2 ≤ hi) ∧
    (isFail (m s).1 → (m s).2.silent = true ∨ ∃ e, e ∈ new ∧ isCritical e.1 = true)

variable {lo hi : Int}

theorem Good.mono {α} {m : M α} {lo' hi' : Int} (h : Good lo hi m) (h1 : lo' ≤ lo) (h2 : hi ≤ hi') :
    Good lo' hi' m := by
  refine ⟨fun s => ?_⟩
  obtain ⟨new, e1, e2, e3⟩ := h.run s
  exact ⟨new, e1, fun e he => ⟨Int.le_trans h1 (e2 e he).1, Int.le_trans (e2 e he).2 h2⟩, e3⟩

theorem good_pure {α} (a : α) : Good lo hi (M.pure a) := by
  refine ⟨fun s => ?_⟩; exact ⟨[], rfl, by simp, by simp [M.pure, isFail]⟩

theorem good_stuck {α} (x : String) : Good lo hi (stuckM x : M α) := by
  refine ⟨fun s => ?_⟩; exact ⟨[], rfl, by simp, by simp [stuckM, isFail]⟩

theorem good_failSilent {α} : Good lo hi (failSilent : M α) := by
  refine ⟨fun s => ?_⟩; exact ⟨[], rfl, by simp, by simp [failSilent]⟩

theorem good_setCur (t : ExprTy) : Good lo hi (setCur t) := by
  refine ⟨fun s => ?_⟩; exact ⟨[], rfl, by simp, by simp [setCur, isFail]⟩

theorem good_getSt : Good lo hi getSt := by
  refine ⟨fun s => ?_⟩; exact ⟨[], rfl, by simp, by simp [getSt, isFail]⟩

theorem good_modify (f : St → St) (h : ∀ s, (f s).errs = s.errs) : Good lo hi (modifySt f) := by
  refine ⟨fun s => ?_⟩; exact ⟨[], by simp [modifySt, h], by simp, by simp [modifySt, isFail]⟩

theorem good_errFail {α} (eid : Nat) (pos : Int) (hc : isCritical eid = true) (h1 : lo ≤ pos) (h2 : pos ≤ hi) :
    Good lo hi (errFail eid pos : M α) := by
  refine ⟨fun s => ?_⟩
  refine ⟨[(eid, pos)], rfl, ?_, ?_⟩
  · intro e he; simp at he; subst he; exact ⟨h1, h2⟩
  · intro _; exact Or.inr ⟨(eid, pos), by simp, hc⟩

theorem good_errFailTok {α} (a : Ast) (eid : Nat) (pos : Int) (hc : isCritical eid = true) (h1 : lo ≤ pos) (h2 : pos ≤ hi) :
    Good lo hi (errFailTok a eid pos : M α) := by
  unfold errFailTok
  split
  · exact good_stuck _
  · exact good_errFail eid pos hc h1 h2

theorem good_bind {α β} {m : M α} {f : α → M β} (hm : Good lo hi m) (hf : ∀ a, Good lo hi (f a)) :
    Good lo hi (M.bind m f) := by
  refine ⟨fun s => ?_⟩
  obtain ⟨new1, e1, r1, f1⟩ := hm.run s
  unfold M.bind
  cases hms : m s with
  | mk r s1 =>
    rw [hms] at e1 f1
    cases r with
    | ok a =>
      obtain ⟨new2, e2, r2, f2⟩ := (hf a).run s1
      refine ⟨new2 ++ new1, ?_, ?_, ?_⟩
      · simp only [] ; rw [e2]; simp at e1; rw [e1]; simp
      · intro e he; rcases List.mem_append.mp he with h | h
        · exact r2 e h
        · exact r1 e h
      · intro hfail
        rcases f2 hfail with h | ⟨e, he, hc⟩
        · exact Or.inl h
        · exact Or.inr ⟨e, List.mem_append.mpr (Or.inl he), hc⟩
    | fail => exact ⟨new1, e1, r1, f1⟩
    | stuck x => exact ⟨new1, e1, r1, by simp [isFail]⟩

theorem good_kidM (a : Ast) (i : Nat) : Good lo hi (kidM a i) := by
  unfold kidM; split
  · exact good_pure _
  · exact good_stuck _

theorem good_kidM_bind {α} {a : Ast} {i : Nat} {f : Ast → M α}
    (h : ∀ k, a.kid i = some k → Good lo hi (f k)) : Good lo hi (M.bind (kidM a i) f) := by
  unfold kidM
  cases hk : a.kid i with
  | none => refine ⟨fun s => ?_⟩; exact ⟨[], rfl, by simp, by simp [M.bind, stuckM, isFail]⟩
  | some k =>
    have := h k hk
    refine ⟨fun s => ?_⟩; simpa [M.bind, M.pure] using this.run s

/-- hypothesis on the recursive visitor -/
def GoodV (v : Visitor) : Prop := ∀ p k, WfRange k → Good k.lo k.hi (v p k)

theorem good_v_kid {v : Visitor} (hv : GoodV v) {a k : Ast} (hw : WfRange a) (hk : k ∈ a.kids) (p : Option Tok) :
    Good a.lo a.hi (v p k) := by
  obtain ⟨w, h1, h2⟩ := hw.kid hk
  exact (hv p k w).mono h1 h2

theorem good_visitChild {v : Visitor} (hv : GoodV v) {a : Ast} (hw : WfRange a) (i : Nat) :
    Good a.lo a.hi (visitChild v a i) := by
  unfold visitChild
  exact good_kidM_bind fun k hk => good_v_kid hv hw (kid_mem hk) _

theorem good_visitAll {v : Visitor} (hv : GoodV v) {a : Ast} (hw : WfRange a) (p : Tok) :
    ∀ ks : List Ast, (∀ k, k ∈ ks → k ∈ a.kids) → Good a.lo a.hi (visitAll v p ks)
  | [], _ => good_pure _
  | k :: ks, h => by
    unfold visitAll
    exact good_bind (good_v_kid hv hw (h k (by simp)) _) fun _ =>
      good_visitAll hv hw p ks fun k' hk' => h k' (by simp [hk'])

theorem good_childType {v : Visitor} (hv : GoodV v) {a : Ast} (hw : WfRange a) (i : Nat) :
    Good a.lo a.hi (childType v a i) := by
  unfold childType
  apply good_kidM_bind
  intro k hk
  refine ⟨fun s => ?_⟩
  obtain ⟨new, e1, e2, e3⟩ := (good_v_kid hv hw (kid_mem hk) (some a.id)).run s
  refine ⟨new, ?_, e2, ?_⟩
  · dsimp only; revert e1; generalize v (some a.id) k s = r; intro e1
    obtain ⟨r, s'⟩ := r; cases r <;> simpa using e1
  · dsimp only; revert e3; generalize v (some a.id) k s = r; intro e3
    obtain ⟨r, s'⟩ := r; cases r <;> simp_all [isFail]

theorem good_expectTy (site : String) (t : ExprTy) : Good lo hi (expectTy site t) := by
  unfold expectTy; split
  · exact good_pure _
  · exact good_stuck _

theorem good_textOf (a : Ast) : Good lo hi (textOf a) := by
  unfold textOf; split
  · exact good_pure _
  · exact good_stuck _

theorem good_tupleOfData (a : Ast) : Good lo hi (tupleOfData a) := by
  unfold tupleOfData; split
  · exact good_pure _
  · exact good_stuck _

theorem good_mkTuple (site : String) (cs : List Ty) : Good lo hi (mkTuple site cs) := by
  unfold mkTuple; split
  · exact good_stuck _
  · exact good_pure _

theorem kid_lo_range {a k : Ast} {i : Nat} (hw : WfRange a) (hk : a.kid i = some k) :
    a.lo ≤ k.lo ∧ k.lo ≤ a.hi ∧ a.lo ≤ k.lo + 1 ∧ k.lo + 1 ≤ a.hi ∧ a.lo ≤ k.hi ∧ k.hi ≤ a.hi := by
  obtain ⟨w, h1, h2⟩ := hw.kid (kid_mem hk)
  have := w.lt
  omega

/-- `kidM a i >>= fun k => errFail eid k.lo` with a critical `eid` -/
theorem good_kidErr {α} {a : Ast} (hw : WfRange a) (i : Nat) (eid : Nat) (hc : isCritical eid = true) :
    Good a.lo a.hi (M.bind (kidM a i) fun k => (errFail eid k.lo : M α)) :=
  good_kidM_bind fun _ hk =>
    good_errFail _ _ hc (kid_lo_range hw hk).1 (kid_lo_range hw hk).2.1

theorem good_kidErrTok {α} {a : Ast} (hw : WfRange a) (i : Nat) (eid : Nat) (hc : isCritical eid = true) :
    Good a.lo a.hi (M.bind (kidM a i) fun k => (errFailTok a eid k.lo : M α)) :=
  good_kidM_bind fun _ hk =>
    good_errFailTok _ _ _ hc (kid_lo_range hw hk).1 (kid_lo_range hw hk).2.1

theorem good_childTypeDebool {v : Visitor} (hv : GoodV v) {a : Ast} (hw : WfRange a) (i : Nat) (eid : Nat)
    (hc : isCritical eid = true) (tok : Bool) : Good a.lo a.hi (childTypeDebool v a i eid tok) := by
  unfold childTypeDebool
  apply good_bind (good_childType hv hw i)
  intro r
  split
  · exact good_failSilent
  · split
    · exact good_pure _
    · split
      · exact good_pure _
      · apply good_kidM_bind; intro k hk
        split
        · exact good_errFailTok _ _ _ hc (kid_lo_range hw hk).1 (kid_lo_range hw hk).2.1
        · exact good_errFail _ _ hc (kid_lo_range hw hk).1 (kid_lo_range hw hk).2.1

theorem good_startScope : Good lo hi startScope := good_modify _ (fun _ => rfl)

theorem good_clearLocals : Good lo hi clearLocals := good_modify _ (fun _ => rfl)

theorem endScopeGo_range (nw : Bool) (pos : Int) : ∀ (ls : List LocalData) (e : Err),
    e ∈ (endScopeGo nw pos ls).2 → e.2 = pos
  | [], e, h => by simp [endScopeGo] at h
  | v :: vs, e, h => by
    have ih := endScopeGo_range nw pos vs e
    unfold endScopeGo at h
    simp only [] at h
    split at h
    · split at h
      · simp at h; rcases h with h | h
        · subst h; rfl
        · exact ih h
      · exact ih h
    · exact ih h

theorem good_endScope (pos : Int) (h1 : lo ≤ pos) (h2 : pos ≤ hi) : Good lo hi (endScope pos) := by
  refine ⟨fun s => ?_⟩
  refine ⟨(endScopeGo (decide (s.noWarn > 0)) pos s.locals).2.reverse, ?_, ?_, ?_⟩
  · simp [endScope, modifySt]
  · intro e he
    have := endScopeGo_range _ pos s.locals e (by simpa using he)
    rw [this]; exact ⟨h1, h2⟩
  · simp [endScope, modifySt, isFail]

theorem good_addLocal (name : String) (t : Ty) (pos : Int) (h1 : lo ≤ pos) (h2 : pos ≤ hi) :
    Good lo hi (addLocal name t pos) := by
  refine ⟨fun s => ?_⟩
  unfold addLocal
  split
  · split
    · refine ⟨[(EID.localShadowing, pos)], rfl, ?_, ?_⟩
      · intro e he; simp at he; subst he; exact ⟨h1, h2⟩
      · intro _; exact Or.inr ⟨(EID.localShadowing, pos), by simp, (by decide : isCritical EID.localShadowing = true)⟩
    · by_cases hn : s.noWarn > 0
      · exact ⟨[], by simp [hn], by simp, by simp [isFail]⟩
      · refine ⟨[(EID.localDoubleDeclare, pos)], by simp [hn], ?_, by simp [isFail]⟩
        intro e he; simp at he; subst he; exact ⟨h1, h2⟩
  · exact ⟨[], rfl, by simp, by simp [isFail]⟩

theorem good_getLocal (name : String) (pos : Int) (h1 : lo ≤ pos) (h2 : pos ≤ hi) :
    Good lo hi (getLocal name pos) := by
  refine ⟨fun s => ?_⟩
  unfold getLocal
  split
  · split
    · exact ⟨[], rfl, by simp, by simp⟩
    · refine ⟨[(EID.localUndeclared, pos)], rfl, ?_, ?_⟩
      · intro e he; simp at he; subst he; exact ⟨h1, h2⟩
      · intro _; exact Or.inr ⟨(EID.localUndeclared, pos), by simp, (by decide : isCritical EID.localUndeclared = true)⟩
  · split
    · refine ⟨[(EID.localOutOfScope, pos)], rfl, ?_, ?_⟩
      · intro e he; simp at he; subst he; exact ⟨h1, h2⟩
      · intro _; exact Or.inr ⟨(EID.localOutOfScope, pos), by simp, (by decide : isCritical EID.localOutOfScope = true)⟩
    · exact ⟨[], rfl, by simp, by simp [isFail]⟩

theorem good_visitChildDecl {v : Visitor} (hv : GoodV v) {a : Ast} (hw : WfRange a) (i : Nat) (t : Ty) :
    Good a.lo a.hi (visitChildDecl v a i t) := by
  unfold visitChildDecl
  exact good_bind (good_setCur _) fun _ => good_bind (good_modify _ fun _ => rfl) fun _ =>
    good_bind (good_visitChild hv hw i) fun _ => good_bind (good_modify _ fun _ => rfl) fun _ => good_setCur _


/-! ## the rules -/

theorem good_errHere {α} {a : Ast} (hw : WfRange a) (eid : Nat) (hc : isCritical eid = true) :
    Good a.lo a.hi (errFail eid a.lo : M α) :=
  good_errFail _ _ hc (Int.le_refl _) (Int.le_of_lt hw.lt)

theorem good_endScopeHere {a : Ast} (hw : WfRange a) : Good a.lo a.hi (endScope a.lo) :=
  good_endScope _ (Int.le_refl _) (Int.le_of_lt hw.lt)

/-- one step of the syntax-directed proof search over a rule body -/
syntax "good_step" ident ident : tactic
macro_rules
  | `(tactic| good_step $hv $hw) => `(tactic| first
    | exact good_pure _ | exact good_stuck _ | exact good_failSilent | exact good_setCur _ | exact good_getSt
    | exact good_expectTy _ _ | exact good_kidM _ _ | exact good_textOf _ | exact good_tupleOfData _ | exact good_mkTuple _ _
    | exact good_childType $hv $hw _ | exact good_visitChild $hv $hw _ | exact good_visitChildDecl $hv $hw _ _
    | exact good_startScope | exact good_clearLocals | exact good_modify _ (fun _ => rfl)
    | (refine good_kidErr $hw _ _ ?_; decide) | (refine good_kidErrTok $hw _ _ ?_; decide)
    | (refine good_childTypeDebool $hv $hw _ _ ?_ _; decide)
    | (refine good_errHere $hw _ ?_; decide) | exact good_endScopeHere $hw
    | exact good_addLocal _ _ _ (Int.le_refl _) (Int.le_of_lt (WfRange.lt $hw))
    | exact good_getLocal _ _ (Int.le_refl _) (Int.le_of_lt (WfRange.lt $hw))
    | apply good_bind
    | intro _
    | split
    | (dsimp only; split))

syntax "good_auto" ident ident : tactic
macro_rules
  | `(tactic| good_auto $hv $hw) => `(tactic| repeat (any_goals (good_step $hv $hw)))

section
variable {v : Visitor} (hv : GoodV v) {a : Ast} (hw : WfRange a)
include hv hw

theorem good_viGlobalDeclaration : Good a.lo a.hi (viGlobalDeclaration v a) := by
  unfold viGlobalDeclaration
  split
  · split
    · apply good_kidM_bind; intro k hk
      exact good_errFail _ _ (by decide) (kid_lo_range hw hk).2.2.2.2.1 (kid_lo_range hw hk).2.2.2.2.2
    · apply good_bind (good_childType hv hw _); intro mt
      apply good_bind (good_expectTy _ _); intro t
      split
      · exact good_setCur _
      · apply good_kidM_bind; intro k hk
        exact good_errFail _ _ (by decide) (kid_lo_range hw hk).2.2.2.2.1 (kid_lo_range hw hk).2.2.2.2.2
  · split
    · apply good_kidM_bind; intro k hk; good_auto hv hw
    · good_auto hv hw

theorem good_viFunctionDefinition : Good a.lo a.hi (viFunctionDefinition v a) := by
  unfold viFunctionDefinition
  good_auto hv hw

theorem good_checkArgsGo (Γ : Ctx) (fn : String) : ∀ (n : Nat) (decl : List (String × Ty)) (child : Nat) (subs : Subst),
    Good a.lo a.hi (checkArgsGo Γ v a fn n decl child subs)
  | 0, _, _, _ => good_pure _
  | n+1, decl, child, subs => by
    unfold checkArgsGo
    apply good_bind (good_childType hv hw _)
    intro ct
    split
    · exact good_failSilent
    · split
      · exact good_stuck _
      · dsimp only
        split
        · (refine good_kidErr hw _ _ ?_; decide)
        · exact good_checkArgsGo Γ fn n _ _ _

theorem good_checkFuncArguments (Γ : Ctx) (fn : String) : Good a.lo a.hi (checkFuncArguments Γ v a fn) := by
  unfold checkFuncArguments
  split
  · (refine good_kidErr hw _ _ ?_; decide)
  · dsimp only
    split
    · (refine good_kidErr hw _ _ ?_; decide)
    · exact good_checkArgsGo hv hw Γ fn _ _ _ _

theorem good_viFunctionCall (Γ : Ctx) : Good a.lo a.hi (viFunctionCall Γ v a) := by
  unfold viFunctionCall
  apply good_kidM_bind; intro k0 _
  apply good_bind (good_textOf _); intro fn
  split
  · (refine good_errHere hw _ ?_; decide)
  · apply good_bind (good_checkFuncArguments hv hw Γ fn); intro subs
    split <;> exact good_setCur _

theorem good_tupleDeclGo (p : Tok) : ∀ (ks : List Ast) (cs : List Ty), (∀ k, k ∈ ks → k ∈ a.kids) →
    Good a.lo a.hi (tupleDeclGo v p ks cs)
  | [], _, _ => by unfold tupleDeclGo; exact good_pure _
  | _ :: _, [], _ => by unfold tupleDeclGo; exact good_stuck _
  | k :: ks, c :: cs, h => by
    unfold tupleDeclGo
    apply good_bind (good_setCur _); intro _
    apply good_bind (good_v_kid hv hw (h k (by simp)) _); intro _
    exact good_tupleDeclGo p ks cs fun k' hk' => h k' (by simp [hk'])

theorem good_viTupleDeclaration : Good a.lo a.hi (viTupleDeclaration v a) := by
  unfold viTupleDeclaration
  apply good_bind good_getSt; intro s
  apply good_bind (good_expectTy _ _); intro t
  split
  · split
    · (refine good_kidErr hw _ _ ?_; decide)
    · apply good_bind (good_tupleDeclGo hv hw _ _ _ fun _ h => h); intro _; exact good_setCur _
  · (refine good_kidErr hw _ _ ?_; decide)

theorem good_viAllLogic : Good a.lo a.hi (viAllLogic v a) := by
  unfold viAllLogic
  apply good_bind (good_visitAll hv hw _ _ fun _ h => h); intro _; exact good_setCur _

theorem good_viArgument : Good a.lo a.hi (viArgument v a) := by
  unfold viArgument; good_auto hv hw

theorem good_viCard : Good a.lo a.hi (viCard v a) := by
  unfold viCard; good_auto hv hw

theorem good_viArithmetic (Γ : Ctx) : Good a.lo a.hi (viArithmetic Γ v a) := by
  unfold viArithmetic; good_auto hv hw

theorem good_viIntegerPredicate (Γ : Ctx) : Good a.lo a.hi (viIntegerPredicate Γ v a) := by
  unfold viIntegerPredicate; good_auto hv hw

theorem good_viQuantifier : Good a.lo a.hi (viQuantifier v a) := by
  unfold viQuantifier; good_auto hv hw

theorem good_viEquals (Γ : Ctx) : Good a.lo a.hi (viEquals Γ v a) := by
  unfold viEquals; good_auto hv hw

theorem good_viSetexprPredicate (Γ : Ctx) : Good a.lo a.hi (viSetexprPredicate Γ v a) := by
  unfold viSetexprPredicate
  apply good_bind (good_childTypeDebool hv hw _ _ (by decide) _); intro d2
  apply good_bind (good_childType hv hw _); intro r1
  split
  · exact good_stuck _
  · exact good_setCur _
  · apply good_kidM_bind; intro k hk
    refine good_errFail _ _ ?_ (kid_lo_range hw hk).1 (kid_lo_range hw hk).2.1
    split <;> decide

theorem good_viDeclarative : Good a.lo a.hi (viDeclarative v a) := by
  unfold viDeclarative; good_auto hv hw

theorem good_viImperative : Good a.lo a.hi (viImperative v a) := by
  unfold viImperative
  apply good_bind good_startScope; intro _
  apply good_bind (good_visitAll hv hw _ _ fun _ h => List.mem_of_mem_drop h); intro _
  good_auto hv hw

theorem good_viIterate : Good a.lo a.hi (viIterate v a) := by
  unfold viIterate; good_auto hv hw

theorem good_viAssign : Good a.lo a.hi (viAssign v a) := by
  unfold viAssign; good_auto hv hw

theorem good_recursionRounds (te : TraitEnv) (idx : Nat) :
    ∀ (n : Nat) (it : Ty), Good a.lo a.hi (recursionRounds te v a idx n it)
  | 0, _ => good_pure _
  | n+1, it => by
    unfold recursionRounds
    apply good_bind good_clearLocals; intro _
    apply good_bind (good_visitChildDecl hv hw _ _); intro _
    apply good_bind (good_childType hv hw _); intro r
    apply good_bind (good_expectTy _ _); intro nt
    split
    · exact good_pure _
    · split
      · exact good_pure _
      · exact good_recursionRounds te idx n _

theorem good_viRecursion (Γ : Ctx) : Good a.lo a.hi (viRecursion Γ v a) := by
  unfold viRecursion
  apply good_bind good_startScope; intro _
  apply good_bind (good_childType hv hw _); intro initR
  apply good_bind (good_expectTy _ _); intro initT
  apply good_bind (good_visitChildDecl hv hw _ _); intro _
  apply good_bind (good_childType hv hw _); intro itR
  split
  · exact good_stuck _
  · (refine good_kidErr hw _ _ ?_; decide)
  · apply good_bind (good_expectTy _ _); intro it0
    split
    · (refine good_kidErr hw _ _ ?_; decide)
    · apply good_bind
      · exact good_modify _ (fun _ => rfl)
      intro _
      apply good_bind (good_recursionRounds hv hw _ _ _ _); intro it
      good_auto hv hw

theorem good_deboolAll (eid : Nat) (hc : isCritical eid = true) : ∀ (n i : Nat), Good a.lo a.hi (deboolAll v a eid n i)
  | 0, _ => good_pure _
  | n+1, i => by
    unfold deboolAll
    apply good_bind (good_childTypeDebool hv hw _ _ hc _); intro t
    apply good_bind (good_deboolAll eid hc n (i + 1)); intro ts
    exact good_pure _

theorem good_viDecart : Good a.lo a.hi (viDecart v a) := by
  unfold viDecart
  apply good_bind (good_deboolAll hv hw _ (by decide) _ _); intro fs
  good_auto hv hw

theorem good_viBoolean : Good a.lo a.hi (viBoolean v a) := by
  unfold viBoolean; good_auto hv hw

theorem good_typesAll (site : String) : ∀ (n i : Nat), Good a.lo a.hi (typesAll v a site n i)
  | 0, _ => good_pure _
  | n+1, i => by
    unfold typesAll
    apply good_bind (good_childType hv hw _); intro r
    apply good_bind (good_expectTy _ _); intro t
    apply good_bind (good_typesAll site n (i + 1)); intro ts
    exact good_pure _

theorem good_viTuple : Good a.lo a.hi (viTuple v a) := by
  unfold viTuple
  apply good_bind (good_typesAll hv hw _ _ _); intro cs
  good_auto hv hw

theorem good_enumGo (Γ : Ctx) : ∀ (n child : Nat) (t : Ty), Good a.lo a.hi (enumGo Γ v a n child t)
  | 0, _, _ => good_pure _
  | n+1, child, t => by
    unfold enumGo
    apply good_bind (good_childType hv hw _); intro r
    apply good_bind (good_expectTy _ _); intro ct
    split
    · (refine good_kidErr hw _ _ ?_; decide)
    · exact good_enumGo Γ n _ _

theorem good_viEnumeration (Γ : Ctx) : Good a.lo a.hi (viEnumeration Γ v a) := by
  unfold viEnumeration
  apply good_bind (good_childType hv hw _); intro r
  apply good_bind (good_expectTy _ _); intro t0
  apply good_bind (good_enumGo hv hw Γ _ _ _); intro t
  exact good_setCur _

theorem good_viDebool : Good a.lo a.hi (viDebool v a) := by
  unfold viDebool; good_auto hv hw

theorem good_viSetexprBinary (Γ : Ctx) : Good a.lo a.hi (viSetexprBinary Γ v a) := by
  unfold viSetexprBinary; good_auto hv hw

theorem good_viProjectSet : Good a.lo a.hi (viProjectSet v a) := by
  unfold viProjectSet; good_auto hv hw

theorem good_viProjectTuple : Good a.lo a.hi (viProjectTuple v a) := by
  unfold viProjectTuple; good_auto hv hw

theorem good_filterParamsGo (Γ : Ctx) : ∀ (n child : Nat) (bases : List Ty), Good a.lo a.hi (filterParamsGo Γ v a n child bases)
  | 0, _, _ => good_pure _
  | n+1, child, bases => by
    unfold filterParamsGo
    apply good_bind (good_childType hv hw _); intro r
    apply good_bind (good_expectTy _ _); intro pt
    split
    · exact good_stuck _
    · split
      · split
        · exact good_filterParamsGo Γ n _ _
        · (refine good_kidErr hw _ _ ?_; decide)
      · (refine good_kidErr hw _ _ ?_; decide)

theorem good_visitParamsGo : ∀ (n child : Nat), Good a.lo a.hi (visitParamsGo v a n child)
  | 0, _ => good_pure _
  | n+1, child => by
    unfold visitParamsGo
    apply good_bind (good_childType hv hw _); intro _
    exact good_visitParamsGo n _

theorem good_viFilter (Γ : Ctx) : Good a.lo a.hi (viFilter Γ v a) := by
  unfold viFilter
  apply good_bind (good_tupleOfData _); intro idx
  dsimp only
  split
  · (refine good_errHere hw _ ?_; decide)
  · apply good_bind (good_childType hv hw _); intro r
    apply good_bind (good_expectTy _ _); intro arg
    split
    · apply good_bind (good_visitParamsGo hv hw _ _); intro _; exact good_setCur _
    · split
      · split
        · (refine good_kidErrTok hw _ _ ?_; decide)
        · split
          · apply good_bind (good_filterParamsGo hv hw Γ _ _ _); intro _; exact good_setCur _
          · good_auto hv hw
      · (refine good_kidErrTok hw _ _ ?_; decide)

theorem good_viReduce : Good a.lo a.hi (viReduce v a) := by
  unfold viReduce
  apply good_bind (good_childType hv hw _); intro r
  apply good_bind (good_expectTy _ _); intro arg
  split
  · exact good_setCur _
  · split
    · exact good_setCur _
    · apply good_kidM_bind; intro k hk
      exact good_errFail _ _ (by decide) (kid_lo_range hw hk).2.2.1 (kid_lo_range hw hk).2.2.2.1

theorem good_viGlobal (Γ : Ctx) (parent : Option Tok) : Good a.lo a.hi (viGlobal Γ parent a) := by
  unfold viGlobal
  apply good_bind (good_textOf _); intro alias
  split
  · (refine good_errHere hw _ ?_; decide)
  · split
    · (refine good_errHere hw _ ?_; decide)
    · split
      · (refine good_errHere hw _ ?_; decide)
      · exact good_setCur _

theorem good_viRadical (Γ : Ctx) : Good a.lo a.hi (viRadical Γ a) := by
  unfold viRadical
  apply good_bind (good_textOf _); intro alias
  apply good_bind good_getSt; intro s
  split
  · (refine good_errHere hw _ ?_; decide)
  · exact good_setCur _

theorem good_viLocal : Good a.lo a.hi (viLocal a) := by
  unfold viLocal
  apply good_bind (good_textOf _); intro name
  apply good_bind good_getSt; intro s
  split
  · apply good_bind (good_expectTy _ _); intro t
    exact good_addLocal _ _ _ (Int.le_refl _) (Int.le_of_lt hw.lt)
  · apply good_bind (good_getLocal _ _ (Int.le_refl _) (Int.le_of_lt hw.lt)); intro t
    exact good_setCur _

theorem good_viEmptySet (parent : Option Tok) : Good a.lo a.hi (viEmptySet parent a) := by
  unfold viEmptySet
  split
  · (refine good_errHere hw _ ?_; decide)
  · exact good_setCur _

theorem good_dispatch (Γ : Ctx) (parent : Option Tok) : Good a.lo a.hi (dispatch Γ v parent a) := by
  unfold dispatch
  split
  all_goals first
    | exact good_viGlobal hv hw Γ parent | exact good_viLocal hv hw | exact good_viRadical hv hw Γ
    | exact good_viFunctionDefinition hv hw | exact good_viFunctionCall hv hw Γ
    | exact good_setCur _ | exact good_viEmptySet hv hw parent | exact good_viTupleDeclaration hv hw
    | exact good_viAllLogic hv hw | exact good_viArgument hv hw | exact good_viArithmetic hv hw Γ
    | exact good_viCard hv hw | exact good_viQuantifier hv hw | exact good_viEquals hv hw Γ
    | exact good_viIntegerPredicate hv hw Γ | exact good_viSetexprPredicate hv hw Γ
    | exact good_viIterate hv hw | exact good_viAssign hv hw | exact good_viDeclarative hv hw
    | exact good_viImperative hv hw | exact good_viDecart hv hw | exact good_viBoolean hv hw
    | exact good_viRecursion hv hw Γ | exact good_viTuple hv hw | exact good_viEnumeration hv hw Γ
    | exact good_viDebool hv hw | exact good_viSetexprBinary hv hw Γ | exact good_viProjectSet hv hw
    | exact good_viProjectTuple hv hw | exact good_viFilter hv hw Γ | exact good_viReduce hv hw
    | exact good_viGlobalDeclaration hv hw

end

theorem good_visit (Γ : Ctx) : ∀ n : Nat, GoodV (visit Γ n)
  | 0 => fun _ _ _ => good_stuck _
  | n+1 => fun p _ hw => good_dispatch (good_visit Γ n) hw Γ p

end CCVerif.Checker
