import CCVerif.Model.Checker
import CCVerif.Model.EntryPoints
import CCVerif.Lemmas.CheckerTotal
import CCVerif.Lemmas.CheckerParsed
import CCVerif.Lemmas.VClassSound
import CCVerif.Lemmas.VClassTop
/-!
C04, value audit: STUCK-FREEDOM of the `ValueAuditor` model (`vcheck`) on every tree of the parser's shape
(`WfParsed`).

* `vcheck_stuck_only_fuel` : with well shaped stored definitions (`AstsShape`) and matching arities (`ArityOK` of the
  input and of every stored body: the C++ `assert`), the only `stuck` site `vcheck` can report is the model's own
  `"fuel"` — no unchecked access / failing assert of the C++ is reachable;
* `vcheck_not_stuck_of_fuel`, `vcheck_not_stuck` : with acyclic stored definitions (`AstsAcyclic`) the fuel
  `vfuel Γ t` of the entry point suffices: `stuck = none`.
-/
namespace CCVerif.Checker
open CCVerif.Syntax CCVerif.Types CCVerif.Spec

/-! ## predicates over all nodes of a tree -/

/-- `p` holds at every node of the tree -/
def allNodes (p : Ast → Bool) : Ast → Bool
  | .node t d lo hi ks => p (.node t d lo hi ks) && allList ks
where allList : List Ast → Bool
  | [] => true
  | k :: ks => allNodes p k && allList ks

theorem allList_mem {p : Ast → Bool} : ∀ {ks : List Ast} {k : Ast}, allNodes.allList p ks = true → k ∈ ks →
    allNodes p k = true
  | [], _, _, hk => by simp at hk
  | k' :: ks, k, h, hk => by
    simp only [allNodes.allList, Bool.and_eq_true] at h
    rcases List.mem_cons.mp hk with rfl | hk
    · exact h.1
    · exact allList_mem h.2 hk

theorem allNodes_kid {p : Ast → Bool} {e k : Ast} (h : allNodes p e = true) (hk : k ∈ e.kids) :
    allNodes p k = true := by
  cases e with
  | node t d lo hi ks =>
    simp only [allNodes, Bool.and_eq_true] at h
    exact allList_mem h.2 hk

theorem allNodes_self {p : Ast → Bool} {e : Ast} (h : allNodes p e = true) : p e = true := by
  cases e with
  | node t d lo hi ks =>
    simp only [allNodes, Bool.and_eq_true] at h
    exact h.1

mutual
theorem allNodes_of_forall {p : Ast → Bool} (h : ∀ a, p a = true) : ∀ e, allNodes p e = true
  | .node t d lo hi ks => by
    simp only [allNodes, Bool.and_eq_true]
    exact ⟨h _, allList_of_forall h ks⟩
theorem allList_of_forall {p : Ast → Bool} (h : ∀ a, p a = true) : ∀ ks, allNodes.allList p ks = true
  | [] => rfl
  | k :: ks => by
    simp only [allNodes.allList, Bool.and_eq_true]
    exact ⟨allNodes_of_forall h k, allList_of_forall h ks⟩
end

/-- number of declared arguments of the stored definition of `f` (what `ViFunctionCall` reads) -/
def declLen (Γ : Ctx) (f : String) : Option Nat :=
  match lookup Γ.asts f with
  | some tree =>
    match tree.kid 1 with
    | some fd =>
      match fd.kid 0 with
      | some decl => some decl.kids.length
      | none => none
    | none => none
  | none => none

/-- at a call of a function with a stored definition the number of arguments is the declared one -/
def nodeArity (Γ : Ctx) (a : Ast) : Bool :=
  !(decide (a.id = .NT_FUNC_CALL)) ||
  match a.kids with
  | .node _ (.text f) _ _ _ :: args =>
    (match declLen Γ f with
     | some n => n == args.length
     | none => true)
  | _ => true

/-- the C++ `assert(size(args) == size(argsVals))` of `ViFunctionCall`, at every call inside the tree -/
def ArityOK (Γ : Ctx) (e : Ast) : Prop := allNodes (nodeArity Γ) e = true

instance (Γ : Ctx) (e : Ast) : Decidable (ArityOK Γ e) := by unfold ArityOK; infer_instance

/-- at a call of a function with a stored definition the callee's rank is below `r` -/
def nodeRank (Γ : Ctx) (rank : String → Nat) (r : Nat) (a : Ast) : Bool :=
  !(decide (a.id = .NT_FUNC_CALL)) ||
  match a.kids with
  | .node _ (.text f) _ _ _ :: _ =>
    (match lookup Γ.asts f with
     | some _ => decide (rank f < r)
     | none => true)
  | _ => true

/-- every call inside the tree of a function with a stored definition has rank `< r` -/
def CallsBelow (Γ : Ctx) (rank : String → Nat) (r : Nat) (e : Ast) : Prop := allNodes (nodeRank Γ rank r) e = true

instance (Γ : Ctx) (rank : String → Nat) (r : Nat) (e : Ast) : Decidable (CallsBelow Γ rank r e) := by
  unfold CallsBelow; infer_instance

/-! ## hypotheses on the context -/

/-- the stored definitions have the shape `name :== [decls] body` the auditor reads without checks -/
def AstsShape (Γ : Ctx) : Prop :=
  ∀ f tree, lookup Γ.asts f = some tree →
    ∃ fd decl body, tree.kid 1 = some fd ∧ fd.kid 0 = some decl ∧ fd.kid 1 = some body ∧
      (∀ d ∈ decl.kids, ∃ t s lo hi ks, d.kid 0 = some (.node t (.text s) lo hi ks)) ∧
      (Wf Γ .S body ∨ Wf Γ .L body)

theorem astsWf_of_shape {Γ : Ctx} (h : AstsShape Γ) : AstsWf Γ := by
  intro f tree fd body hl h1 hb
  obtain ⟨fd', decl, body', h1', _, hb', _, hw⟩ := h f tree hl
  rw [h1] at h1'; cases h1'
  rw [hb] at hb'; cases hb'
  exact hw

/-- the arity condition inside every stored body -/
def AstsArity (Γ : Ctx) : Prop :=
  ∀ f tree fd body, lookup Γ.asts f = some tree → tree.kid 1 = some fd → fd.kid 1 = some body → ArityOK Γ body

/-- the stored definitions are not recursive: calls inside the body of `f` go to functions of smaller rank -/
def AstsAcyclic (Γ : Ctx) (rank : String → Nat) : Prop :=
  ∀ f tree fd body, lookup Γ.asts f = some tree → tree.kid 1 = some fd → fd.kid 1 = some body →
    CallsBelow Γ rank (rank f) body

theorem arity_call {Γ : Ctx} {d : TokData} {lo hi lf hf : Int} {tf : Tok} {f : String} {kf as : List Ast}
    {tree fd decl : Ast}
    (h : ArityOK Γ (.node .NT_FUNC_CALL d lo hi (.node tf (.text f) lf hf kf :: as)))
    (hl : lookup Γ.asts f = some tree) (h1 : tree.kid 1 = some fd) (h0 : fd.kid 0 = some decl) :
    decl.kids.length = as.length := by
  have := allNodes_self h
  simpa [nodeArity, Ast.id, Ast.kids, declLen, hl, h1, h0] using this

theorem rank_call {Γ : Ctx} {rank : String → Nat} {r : Nat} {d : TokData} {lo hi lf hf : Int} {tf : Tok}
    {f : String} {kf as : List Ast} {tree : Ast}
    (h : CallsBelow Γ rank r (.node .NT_FUNC_CALL d lo hi (.node tf (.text f) lf hf kf :: as)))
    (hl : lookup Γ.asts f = some tree) : rank f < r := by
  have := allNodes_self h
  simpa [nodeRank, Ast.id, Ast.kids, hl] using this

/-! ## the weight of the stored definitions below a rank -/

def wBelow (rank : String → Nat) (r : Nat) : List (String × Ast) → Nat
  | [] => 0
  | (f, t) :: rest => (if rank f < r then Ast.depth t else 0) + wBelow rank r rest

theorem wBelow_mono {rank : String → Nat} {r r' : Nat} (h : r ≤ r') : ∀ l, wBelow rank r l ≤ wBelow rank r' l
  | [] => Nat.le_refl _
  | (f, t) :: rest => by
    simp only [wBelow]
    have := wBelow_mono (rank := rank) h rest
    by_cases h1 : rank f < r
    · have h2 : rank f < r' := by omega
      simp only [h1, h2, if_true]; omega
    · simp only [h1, if_false]; omega

theorem wBelow_lookup {rank : String → Nat} {r : Nat} {g : String} {tree : Ast} (hr : rank g < r) :
    ∀ l : List (String × Ast), lookup l g = some tree → Ast.depth tree + wBelow rank (rank g) l ≤ wBelow rank r l
  | [], h => by simp [lookup] at h
  | (f, t) :: rest, h => by
    simp only [lookup] at h
    simp only [wBelow]
    by_cases hfg : (f == g) = true
    · have : f = g := by simpa using hfg
      subst this
      simp only [beq_self_eq_true, if_true, Option.some.injEq] at h
      subst h
      have := wBelow_mono (rank := rank) (Nat.le_of_lt hr) rest
      simp only [hr, Nat.lt_irrefl, if_true, if_false]; omega
    · simp only [hfg] at h
      have ih := wBelow_lookup hr rest h
      have : (if rank f < rank g then Ast.depth t else 0) ≤ (if rank f < r then Ast.depth t else 0) := by
        by_cases h1 : rank f < rank g
        · have h2 : rank f < r := by omega
          simp [h1, h2]
        · simp [h1]
      omega

theorem wBelow_le_foldl {rank : String → Nat} {r : Nat} : ∀ (l : List (String × Ast)) (acc : Nat),
    acc + wBelow rank r l ≤ (l.map (fun a => Ast.depth a.2)).foldl (· + ·) acc
  | [], acc => by simp [wBelow]
  | (f, t) :: rest, acc => by
    simp only [wBelow, List.map_cons, List.foldl_cons]
    have := wBelow_le_foldl (rank := rank) (r := r) rest (acc + Ast.depth t)
    by_cases h1 : rank f < r
    · simp only [h1, if_true]; omega
    · simp only [h1, if_false]; omega

/-- an upper bound of the ranks of the stored names -/
def rankBound (rank : String → Nat) : List (String × Ast) → Nat
  | [] => 0
  | (f, _) :: rest => max (rank f + 1) (rankBound rank rest)

theorem rank_lt_bound {rank : String → Nat} {g : String} {tree : Ast} :
    ∀ l : List (String × Ast), lookup l g = some tree → rank g < rankBound rank l
  | [], h => by simp [lookup] at h
  | (f, t) :: rest, h => by
    simp only [lookup] at h
    simp only [rankBound]
    by_cases hfg : (f == g) = true
    · have : f = g := by simpa using hfg
      subst this
      omega
    · simp only [hfg] at h
      have := rank_lt_bound (rank := rank) rest h
      omega

theorem callsBelow_bound (Γ : Ctx) (rank : String → Nat) (e : Ast) :
    CallsBelow Γ rank (rankBound rank Γ.asts) e := by
  refine allNodes_of_forall (fun a => ?_) e
  obtain ⟨t, d, lo, hi, ks⟩ := a
  by_cases ht : t = .NT_FUNC_CALL
  · subst ht
    simp only [nodeRank, Ast.id, Ast.kids, decide_true, Bool.not_true, Bool.false_or]
    split
    · rename_i f _ _ _ _
      cases hl : lookup Γ.asts f with
      | none => rfl
      | some tree => simpa using rank_lt_bound (rank := rank) _ hl
    · rfl
  · simp [nodeRank, Ast.id, ht]

/-! ## the triple -/

/-- outcome of a run: a value with `Post`, a rejection, or `stuck` — only at `"fuel"`, and only if `Q` fails -/
def NOut {α : Type} (Q : Prop) (Post : α → Prop) : Res α × VSt → Prop
  | (.ok a, _) => Post a
  | (.fail, _) => True
  | (.stuck x, _) => x = "fuel" ∧ ¬ Q

/-- `NS Q Post m`: no run of `m` is stuck except by lack of fuel, and not even that when `Q` holds -/
def NS {α : Type} (Q : Prop) (Post : α → Prop) (m : VM α) : Prop := ∀ s, NOut Q Post (m s)

section triples
variable {Q : Prop}

theorem ns_bind {α β : Type} {Mid : α → Prop} {Post : β → Prop} {m : VM α} {f : α → VM β}
    (h1 : NS Q Mid m) (h2 : ∀ a, Mid a → NS Q Post (f a)) : NS Q Post (VM.bind m f) := by
  intro s
  have h := h1 s
  unfold VM.bind
  generalize m s = r at h ⊢
  obtain ⟨r, s1⟩ := r
  cases r with
  | ok a => exact h2 a h s1
  | fail => trivial
  | stuck x => exact h

theorem ns_bindT {α β : Type} {Post : β → Prop} {m : VM α} {f : α → VM β}
    (h1 : NS Q (fun _ => True) m) (h2 : ∀ a, NS Q Post (f a)) : NS Q Post (VM.bind m f) :=
  ns_bind h1 (fun a _ => h2 a)

theorem ns_pure {α : Type} {Post : α → Prop} (a : α) (h : Post a) : NS Q Post (VM.pure a) := fun _ => h
theorem ns_set (c : VClass) : NS Q (fun (_ : Unit) => True) (vSet c) := fun _ => trivial
theorem ns_get : NS Q (fun (_ : VClass) => True) vGet := fun _ => trivial
theorem ns_errFail {α : Type} {Post : α → Prop} {report : Bool} {eid : Nat} {pos : Int} :
    NS Q Post (VM.bind (vErr report eid pos) fun _ => (vFail : VM α)) := fun _ => trivial

variable {report : Bool} {v : VVisitor}

theorem ns_visitChild_at {a k : Ast} {i : Nat} (hk : a.kid i = some k) (h : NS Q (fun _ => True) (v k)) :
    NS Q (fun _ => True) (vVisitChild v a i) := by
  simp only [vVisitChild, vKid, hk, vbind_pure]; exact h

theorem ns_assertValue_at {a k : Ast} {i : Nat} (hk : a.kid i = some k) (h : NS Q (fun _ => True) (v k)) :
    NS Q (fun _ => True) (vAssertValue report v a i) := by
  simp only [vAssertValue, vKid, hk, vbind_pure]
  refine ns_bindT h fun _ => ns_bindT ns_get fun c => ?_
  split
  · exact ns_errFail
  · exact ns_pure _ trivial

theorem ns_visitAll : ∀ (ks : List Ast), (∀ k ∈ ks, NS Q (fun _ => True) (v k)) →
    NS Q (fun _ => True) (vVisitAll v ks)
  | [], _ => ns_pure () trivial
  | k :: ks, h => by
    simp only [vVisitAll]
    exact ns_bindT (h k (by simp)) fun _ => ns_visitAll ks (fun k' hk' => h k' (by simp [hk']))

theorem ns_args : ∀ (ks : List Ast), (∀ k ∈ ks, NS Q (fun _ => True) (v k)) →
    NS Q (fun cs => cs.length = ks.length) (vArgs v ks)
  | [], _ => ns_pure [] rfl
  | k :: ks, h => by
    simp only [vArgs]
    exact ns_bindT (h k (by simp)) fun _ => ns_bindT ns_get fun c =>
      ns_bind (ns_args ks (fun k' hk' => h k' (by simp [hk']))) fun cs hcs => ns_pure _ (by simp [hcs])

theorem ns_decartGo : ∀ (ks : List Ast) (t : VClass), (∀ k ∈ ks, NS Q (fun _ => True) (v k)) →
    NS Q (fun _ => True) (vDecartGo v ks t)
  | [], t, _ => ns_set t
  | k :: ks, t, h => by
    simp only [vDecartGo]
    exact ns_bindT (h k (by simp)) fun _ => ns_bindT ns_get fun c =>
      ns_decartGo ks _ (fun k' hk' => h k' (by simp [hk']))

theorem ns_assertAll_run (a : Ast) (hK : ∀ k ∈ a.kids, NS Q (fun _ => True) (v k)) : ∀ (n i : Nat),
    i + n ≤ a.kids.length → NS Q (fun _ => True) (vAssertAll report v a n i)
  | 0, _, _ => ns_pure () trivial
  | n+1, i, hi => by
    have hlt : i < a.kids.length := by omega
    have hk : a.kid i = some a.kids[i] := by simp [Ast.kid, hlt]
    simp only [vAssertAll]
    exact ns_bindT (ns_assertValue_at hk (hK _ (List.getElem_mem hlt))) fun _ =>
      ns_assertAll_run a hK n (i + 1) (by omega)

theorem ns_assertAll {a : Ast} (hK : ∀ k ∈ a.kids, NS Q (fun _ => True) (v k)) :
    NS Q (fun _ => True) (vAssertAll report v a a.kids.length 0) :=
  ns_assertAll_run a hK _ 0 (by omega)

theorem ns_visitChild {a : Ast} {i : Nat} (hK : ∀ k ∈ a.kids, NS Q (fun _ => True) (v k)) (hi : i < a.kids.length) :
    NS Q (fun _ => True) (vVisitChild v a i) :=
  ns_visitChild_at (k := a.kids[i]) (by simp [Ast.kid, hi]) (hK _ (List.getElem_mem hi))

theorem ns_assertValue {a : Ast} {i : Nat} (hK : ∀ k ∈ a.kids, NS Q (fun _ => True) (v k)) (hi : i < a.kids.length) :
    NS Q (fun _ => True) (vAssertValue report v a i) :=
  ns_assertValue_at (k := a.kids[i]) (by simp [Ast.kid, hi]) (hK _ (List.getElem_mem hi))

theorem ns_allSet {a : Ast} {c : VClass} (hK : ∀ k ∈ a.kids, NS Q (fun _ => True) (v k)) :
    NS Q (fun _ => True) (vAllSet v a c) :=
  ns_bindT (ns_visitAll _ hK) fun _ => ns_set c

end triples

/-- closes the arms of `vDispatch` whose children are all covered by `hK` -/
syntax "ns_auto " term : tactic
macro_rules
  | `(tactic| ns_auto $hK) => `(tactic|
    repeat (first
      | exact ns_set _
      | exact ns_pure _ trivial
      | exact ns_get
      | exact ns_errFail
      | exact ns_visitChild $hK (by first | decide | simp [Ast.kids])
      | exact ns_assertValue $hK (by first | decide | simp [Ast.kids])
      | exact ns_assertAll $hK
      | exact ns_visitAll _ $hK
      | exact ns_visitAll _ (fun k hk => $hK k (List.mem_of_mem_drop hk))
      | exact ns_decartGo _ _ $hK
      | exact ns_allSet $hK
      | refine ns_bindT ?_ (fun _ => ?_)))

theorem propsOf_isSome : ∀ (ds : List Ast) (cs : List VClass), ds.length = cs.length →
    (∀ d ∈ ds, ∃ t s lo hi ks, d.kid 0 = some (.node t (.text s) lo hi ks)) → ∃ ps, propsOf ds cs = some ps
  | [], _, _, _ => ⟨[], by simp [propsOf]⟩
  | _ :: _, [], hl, _ => by simp at hl
  | d :: ds, c :: cs, hl, h => by
    obtain ⟨rest, hr⟩ := propsOf_isSome ds cs (by simpa using hl) (fun d' hd' => h d' (by simp [hd']))
    obtain ⟨t, s, lo, hi, ks, hd⟩ := h d (by simp)
    simp only [propsOf, hr, hd]
    split <;> exact ⟨_, rfl⟩

/-! ## enough fuel -/

/-- the fuel `n` covers the tree and the stored definitions reachable from it -/
def Enough (Γ : Ctx) (rank : String → Nat) (n : Nat) (e : Ast) : Prop :=
  ∃ r, CallsBelow Γ rank r e ∧ Ast.depth e + wBelow rank r Γ.asts + 1 ≤ n

theorem enough_kid {Γ : Ctx} {rank : String → Nat} {n : Nat} {e k : Ast} (h : Enough Γ rank (n+1) e)
    (hk : k ∈ e.kids) : Enough Γ rank n k := by
  obtain ⟨r, hc, hle⟩ := h
  have := depth_kid hk
  exact ⟨r, allNodes_kid hc hk, by omega⟩

theorem ns_zero {Γ : Ctx} {rank : String → Nat} {Q : Prop} {report : Bool} {P : List String} {e : Ast}
    (h : Q → Enough Γ rank 0 e) : NS Q (fun _ => True) (vVisit Γ 0 report P e) := by
  intro s
  refine ⟨rfl, fun q => ?_⟩
  obtain ⟨r, _, hle⟩ := h q
  omega

/-! ## expressions -/

def VNS (Γ : Ctx) (rank : String → Nat) (Q : Prop) (n : Nat) : Prop :=
  ∀ (report : Bool) (P : List String) (cat : Cat) (e : Ast), Wf Γ cat e → cat ≠ .DE → ArityOK Γ e →
    (Q → Enough Γ rank n e) → NS Q (fun _ => True) (vVisit Γ n report P e)

/-- the function-call arm -/
theorem call_ns {Γ : Ctx} {rank : String → Nat} {Q : Prop} (hΓ : AstsShape Γ) (hA : AstsArity Γ)
    (hAc : Q → AstsAcyclic Γ rank) {n : Nat} (ih : VNS Γ rank Q n) {report : Bool} {P : List String}
    {d : TokData} {lo hi lf hf : Int} {tf : Tok} {f : String} {kf as : List Ast}
    (hK : ∀ k ∈ as, NS Q (fun _ => True) (vVisit Γ n report P k))
    (har : ArityOK Γ (.node .NT_FUNC_CALL d lo hi (.node tf (.text f) lf hf kf :: as)))
    (hen : Q → Enough Γ rank (n+1) (.node .NT_FUNC_CALL d lo hi (.node tf (.text f) lf hf kf :: as))) :
    NS Q (fun _ => True)
      (vVisit Γ (n+1) report P (.node .NT_FUNC_CALL d lo hi (.node tf (.text f) lf hf kf :: as))) := by
  have hk0 : (Ast.node .NT_FUNC_CALL d lo hi (.node tf (.text f) lf hf kf :: as)).kid 0
      = some (.node tf (.text f) lf hf kf) := rfl
  have hdr : (Ast.node .NT_FUNC_CALL d lo hi (.node tf (.text f) lf hf kf :: as)).kids.drop 1 = as := rfl
  have hdt : (Ast.node tf (.text f) lf hf kf).data = .text f := rfl
  simp only [vVisit, vDispatch, Ast.id, vKid, hk0, vbind_pure, vText, hdt, hdr]
  split
  · exact ns_errFail
  · refine ns_bind (ns_args as hK) (fun cs hcs => ?_)
    split
    · exact ns_set _
    · cases hast : lookup Γ.asts f with
      | none => exact ns_errFail
      | some tree =>
        obtain ⟨fd, decl, body, h1, h0, hb, hdecl, hbw⟩ := hΓ f tree hast
        have hlen : decl.kids.length = cs.length := (arity_call har hast h1 h0).trans hcs.symm
        have hne : (decl.kids.length != cs.length) = false := by simp [hlen]
        obtain ⟨ps, hps⟩ := propsOf_isSome _ _ hlen hdecl
        simp only [h1, h0, hb, hne, hps]
        have hbar := hA f tree fd body hast h1 hb
        have hben : Q → Enough Γ rank n body := by
          intro q
          obtain ⟨r, hc, hle⟩ := hen q
          have hr := rank_call hc hast
          have hw := wBelow_lookup (rank := rank) hr Γ.asts hast
          have d1 := depth_kid (kid_mem' h1)
          have d2 := depth_kid (kid_mem' hb)
          exact ⟨rank f, hAc q f tree fd body hast h1 hb, by omega⟩
        have hsub : NS Q (fun _ => True) (vVisit Γ n false ps body) := by
          rcases hbw with w | w
          · exact ih false ps _ body w (by decide) hbar hben
          · exact ih false ps _ body w (by decide) hbar hben
        have hrun := hsub {}
        generalize vVisit Γ n false ps body {} = r at hrun ⊢
        obtain ⟨r, s1⟩ := r
        cases r with
        | ok u => exact ns_set _
        | fail => exact ns_errFail
        | stuck x => exact fun _ => hrun

set_option maxHeartbeats 1000000 in
theorem vns_all {Γ : Ctx} {rank : String → Nat} {Q : Prop} (hΓ : AstsShape Γ) (hA : AstsArity Γ)
    (hAc : Q → AstsAcyclic Γ rank) : ∀ n, VNS Γ rank Q n
  | 0 => fun _ _ _ _ _ _ _ hen => ns_zero hen
  | n+1 => by
    have ih := vns_all hΓ hA hAc n
    intro report P cat e hw hc har hen
    have K : ∀ {cat : Cat} {k : Ast}, Wf Γ cat k → cat ≠ .DE → k ∈ e.kids →
        NS Q (fun _ => True) (vVisit Γ n report P k) := fun {cat k} hw' hc' hk =>
      ih report P cat k hw' hc' (allNodes_kid har hk) (fun q => enough_kid (hen q) hk)
    cases hw with
    | sGlobal ht =>
      rcases ht with rfl | rfl | rfl <;>
      · simp only [vVisit, vDispatch, Ast.id, vText, Ast.data, vbind_pure]
        split
        · exact ns_errFail
        · exact ns_set _
    | sLocal => simp only [vVisit, vDispatch, Ast.id, vText, Ast.data, vbind_pure]; exact ns_set _
    | sRadical => simp only [vVisit, vDispatch, Ast.id]; exact ns_set _
    | sInt => simp only [vVisit, vDispatch, Ast.id]; exact ns_set _
    | sIntset => simp only [vVisit, vDispatch, Ast.id]; exact ns_set _
    | sEmpty => simp only [vVisit, vDispatch, Ast.id]; exact ns_set _
    | @sArith tok d lo hi a b ht wa wb =>
      have hK : ∀ k ∈ (Ast.node tok d lo hi [a, b]).kids, NS Q (fun _ => True) (vVisit Γ n report P k) := by
        intro k hk
        have hk' := hk
        simp only [Ast.kids, List.mem_cons, List.not_mem_nil, or_false] at hk'
        rcases hk' with rfl | rfl
        · exact K wa (by decide) hk
        · exact K wb (by decide) hk
      rcases ht with rfl | rfl | rfl <;>
      · simp only [vVisit, vDispatch, Ast.id]
        ns_auto hK
    | @sUnary tok d lo hi a ht wa =>
      have hK : ∀ k ∈ (Ast.node tok d lo hi [a]).kids, NS Q (fun _ => True) (vVisit Γ n report P k) := by
        intro k hk
        have hk' := hk
        simp only [Ast.kids, List.mem_cons, List.not_mem_nil, or_false] at hk'
        subst hk'
        exact K wa (by decide) hk
      rcases ht with rfl | rfl | rfl | rfl | rfl <;>
      · simp only [vVisit, vDispatch, Ast.id]
        ns_auto hK
    | @sSetbin tok d lo hi a b ht wa wb =>
      have hK : ∀ k ∈ (Ast.node tok d lo hi [a, b]).kids, NS Q (fun _ => True) (vVisit Γ n report P k) := by
        intro k hk
        have hk' := hk
        simp only [Ast.kids, List.mem_cons, List.not_mem_nil, or_false] at hk'
        rcases hk' with rfl | rfl
        · exact K wa (by decide) hk
        · exact K wb (by decide) hk
      rcases ht with rfl | rfl | rfl | rfl <;>
      · simp only [vVisit, vDispatch, Ast.id]
        ns_auto hK
    | @sEnum d lo hi a ks hS =>
      have hK : ∀ k ∈ (Ast.node .NT_ENUMERATION d lo hi (a :: ks)).kids,
          NS Q (fun _ => True) (vVisit Γ n report P k) := fun k hk => K (hS k hk) (by decide) hk
      simp only [vVisit, vDispatch, Ast.id]
      ns_auto hK
    | @sMany tok d lo hi a b ks ht hS =>
      have hK : ∀ k ∈ (Ast.node tok d lo hi (a :: b :: ks)).kids,
          NS Q (fun _ => True) (vVisit Γ n report P k) := fun k hk => K (hS k hk) (by decide) hk
      rcases ht with rfl | rfl <;>
      · simp only [vVisit, vDispatch, Ast.id]
        ns_auto hK
    | @sProj tok idx lo hi a ht _ wa =>
      have hK : ∀ k ∈ (Ast.node tok (.tuple idx) lo hi [a]).kids, NS Q (fun _ => True) (vVisit Γ n report P k) := by
        intro k hk
        have hk' := hk
        simp only [Ast.kids, List.mem_cons, List.not_mem_nil, or_false] at hk'
        subst hk'
        exact K wa (by decide) hk
      rcases ht with rfl | rfl <;>
      · simp only [vVisit, vDispatch, Ast.id]
        ns_auto hK
    | @sFilter idx lo hi p ks _ hS hne =>
      have hK : ∀ k ∈ (Ast.node .FILTER (.tuple idx) lo hi (p :: ks)).kids,
          NS Q (fun _ => True) (vVisit Γ n report P k) := fun k hk => K (hS k hk) (by decide) hk
      simp only [vVisit, vDispatch, Ast.id]
      ns_auto hK
    | @sDeclarative d lo hi p dom body wp wd wb =>
      have hK : ∀ k ∈ (Ast.node .NT_DECLARATIVE_EXPR d lo hi [p, dom, body]).kids,
          NS Q (fun _ => True) (vVisit Γ n report P k) := by
        intro k hk
        have hk' := hk
        simp only [Ast.kids, List.mem_cons, List.not_mem_nil, or_false] at hk'
        rcases hk' with rfl | rfl | rfl
        · exact K wp (by decide) hk
        · exact K wd (by decide) hk
        · exact K wb (by decide) hk
      simp only [vVisit, vDispatch, Ast.id]
      ns_auto hK
    | @sImperative d lo hi value blocks wv hB =>
      have hK : ∀ k ∈ (Ast.node .NT_IMPERATIVE_EXPR d lo hi (value :: blocks)).kids,
          NS Q (fun _ => True) (vVisit Γ n report P k) := by
        intro k hk
        have hk' := hk
        simp only [Ast.kids, List.mem_cons] at hk'
        rcases hk' with rfl | hb
        · exact K wv (by decide) hk
        · exact K (hB k hb) (by decide) hk
      simp only [vVisit, vDispatch, Ast.id]
      ns_auto hK
    | @sRecShort d lo hi p init step wp wi ws =>
      have hK : ∀ k ∈ (Ast.node .NT_RECURSIVE_SHORT d lo hi [p, init, step]).kids,
          NS Q (fun _ => True) (vVisit Γ n report P k) := by
        intro k hk
        have hk' := hk
        simp only [Ast.kids, List.mem_cons, List.not_mem_nil, or_false] at hk'
        rcases hk' with rfl | rfl | rfl
        · exact K wp (by decide) hk
        · exact K wi (by decide) hk
        · exact K ws (by decide) hk
      simp only [vVisit, vDispatch, Ast.id]
      ns_auto hK
    | @sRecFull d lo hi p init cond step wp wi wc ws =>
      have hK : ∀ k ∈ (Ast.node .NT_RECURSIVE_FULL d lo hi [p, init, cond, step]).kids,
          NS Q (fun _ => True) (vVisit Γ n report P k) := by
        intro k hk
        have hk' := hk
        simp only [Ast.kids, List.mem_cons, List.not_mem_nil, or_false] at hk'
        rcases hk' with rfl | rfl | rfl | rfl
        · exact K wp (by decide) hk
        · exact K wi (by decide) hk
        · exact K wc (by decide) hk
        · exact K ws (by decide) hk
      simp only [vVisit, vDispatch, Ast.id]
      ns_auto hK
    | sCall _ hS =>
      exact call_ns hΓ hA hAc ih
        (fun k hk => K (hS k hk) (by decide) (by simp only [Ast.kids, List.mem_cons] at hk ⊢; exact Or.inr hk)) har hen
    | @lNot d lo hi a wa =>
      have hK : ∀ k ∈ (Ast.node .NOT d lo hi [a]).kids, NS Q (fun _ => True) (vVisit Γ n report P k) := by
        intro k hk
        have hk' := hk
        simp only [Ast.kids, List.mem_cons, List.not_mem_nil, or_false] at hk'
        subst hk'
        exact K wa (by decide) hk
      simp only [vVisit, vDispatch, Ast.id]
      ns_auto hK
    | @lBin tok d lo hi a b ht wa wb =>
      have hK : ∀ k ∈ (Ast.node tok d lo hi [a, b]).kids, NS Q (fun _ => True) (vVisit Γ n report P k) := by
        intro k hk
        have hk' := hk
        simp only [Ast.kids, List.mem_cons, List.not_mem_nil, or_false] at hk'
        rcases hk' with rfl | rfl
        · exact K wa (by decide) hk
        · exact K wb (by decide) hk
      rcases ht with rfl | rfl | rfl | rfl <;>
      · simp only [vVisit, vDispatch, Ast.id]
        ns_auto hK
    | @lPred tok d lo hi a b ht wa wb =>
      have hK : ∀ k ∈ (Ast.node tok d lo hi [a, b]).kids, NS Q (fun _ => True) (vVisit Γ n report P k) := by
        intro k hk
        have hk' := hk
        simp only [Ast.kids, List.mem_cons, List.not_mem_nil, or_false] at hk'
        rcases hk' with rfl | rfl
        · exact K wa (by decide) hk
        · exact K wb (by decide) hk
      rcases ht with rfl | rfl | rfl | rfl | rfl | rfl | rfl | rfl | rfl | rfl | rfl <;>
      · simp only [vVisit, vDispatch, Ast.id]
        ns_auto hK
    | @lQuant tok d lo hi p dom body ht _ wd wb =>
      have kd := K wd (by decide) (by simp [Ast.kids])
      have kb := K wb (by decide) (by simp [Ast.kids])
      rcases ht with rfl | rfl <;>
      · simp only [vVisit, vDispatch, Ast.id]
        exact ns_bindT (ns_assertValue_at (k := dom) rfl kd) fun _ => ns_visitChild_at (k := body) rfl kb
    | lCall hS =>
      exact call_ns hΓ hA hAc ih
        (fun k hk => K (hS k hk) (by decide) (by simp only [Ast.kids, List.mem_cons] at hk ⊢; exact Or.inr hk)) har hen
    | @lIterate d lo hi p dom wp wd =>
      have hK : ∀ k ∈ (Ast.node .ITERATE d lo hi [p, dom]).kids, NS Q (fun _ => True) (vVisit Γ n report P k) := by
        intro k hk
        have hk' := hk
        simp only [Ast.kids, List.mem_cons, List.not_mem_nil, or_false] at hk'
        rcases hk' with rfl | rfl
        · exact K wp (by decide) hk
        · exact K wd (by decide) hk
      simp only [vVisit, vDispatch, Ast.id]
      ns_auto hK
    | @lAssign d lo hi p ex wp wd =>
      have hK : ∀ k ∈ (Ast.node .ASSIGN d lo hi [p, ex]).kids, NS Q (fun _ => True) (vVisit Γ n report P k) := by
        intro k hk
        have hk' := hk
        simp only [Ast.kids, List.mem_cons, List.not_mem_nil, or_false] at hk'
        rcases hk' with rfl | rfl
        · exact K wp (by decide) hk
        · exact K wd (by decide) hk
      simp only [vVisit, vDispatch, Ast.id]
      ns_auto hK
    | dLocal => simp only [vVisit, vDispatch, Ast.id, vText, Ast.data, vbind_pure]; exact ns_set _
    | @dTuple d lo hi k ks hD =>
      have hK : ∀ k' ∈ (Ast.node .NT_TUPLE_DECL d lo hi (k :: ks)).kids,
          NS Q (fun _ => True) (vVisit Γ n report P k') := fun k' hk => K (hD k' hk) (by decide) hk
      simp only [vVisit, vDispatch, Ast.id]
      ns_auto hK
    | deOfD _ => exact absurd rfl hc
    | deEnum _ => exact absurd rfl hc

/-! ## whole inputs -/

section top
variable {Γ : Ctx} {rank : String → Nat} {Q : Prop}

/-- the nodes `[decls] body`, `decls`, `x ∈ dom`: all children are visited -/
theorem visitAllNode_ns {report : Bool} {P : List String} {a : Ast}
    (hid : a.id = .NT_FUNC_DEFINITION ∨ a.id = .NT_ARGUMENTS ∨ a.id = .NT_ARG_DECL)
    (hk : ∀ k ∈ a.kids, ∀ n', (Q → Enough Γ rank n' k) → NS Q (fun _ => True) (vVisit Γ n' report P k)) :
    ∀ n, (Q → Enough Γ rank n a) → NS Q (fun _ => True) (vVisit Γ n report P a)
  | 0, hen => ns_zero hen
  | n+1, hen => by
    obtain ⟨t, d, lo, hi, ks⟩ := a
    have hK : ∀ k ∈ (Ast.node t d lo hi ks).kids, NS Q (fun _ => True) (vVisit Γ n report P k) :=
      fun k hk' => hk k hk' n (fun q => enough_kid (hen q) hk')
    simp only [Ast.id] at hid
    rcases hid with rfl | rfl | rfl <;>
    · simp only [vVisit, vDispatch, Ast.id]
      exact ns_visitAll _ hK

variable (hΓ : AstsShape Γ) (hA : AstsArity Γ) (hAc : Q → AstsAcyclic Γ rank)
include hΓ hA hAc

theorem wf_ns {report : Bool} {P : List String} {e : Ast} (hw : Wf Γ .S e ∨ Wf Γ .L e) (har : ArityOK Γ e)
    (n : Nat) (hen : Q → Enough Γ rank n e) : NS Q (fun _ => True) (vVisit Γ n report P e) := by
  rcases hw with w | w
  · exact vns_all hΓ hA hAc n report P _ e w (by decide) har hen
  · exact vns_all hΓ hA hAc n report P _ e w (by decide) har hen

theorem argdecl_ns {report : Bool} {P : List String} {x : String} {d : Ast} (hw : WfArg Γ x d) (har : ArityOK Γ d)
    (n : Nat) (hen : Q → Enough Γ rank n d) : NS Q (fun _ => True) (vVisit Γ n report P d) := by
  match hw with
  | @WfArg.mk _ x dd lo hi ll hl kl dom wd =>
    refine visitAllNode_ns (Or.inr (Or.inr rfl)) (fun k hk n' hen' => ?_) n hen
    have hk' := hk
    simp only [Ast.kids, List.mem_cons, List.not_mem_nil, or_false] at hk'
    rcases hk' with rfl | rfl
    · exact vns_all hΓ hA hAc n' report P _ _ (.sLocal) (by decide) (allNodes_kid har hk) hen'
    · exact vns_all hΓ hA hAc n' report P _ _ wd (by decide) (allNodes_kid har hk) hen'

theorem def_ns {report : Bool} {P : List String} {xs : List String} {e : Ast} (hw : WfDef Γ xs e) (har : ArityOK Γ e)
    (n : Nat) (hen : Q → Enough Γ rank n e) : NS Q (fun _ => True) (vVisit Γ n report P e) := by
  cases hw with
  | expr h => exact wf_ns hΓ hA hAc h har n hen
  | @funcdef xs d da lo hi la ha decls body wargs wbody =>
    refine visitAllNode_ns (Or.inl rfl) (fun k hk n' hen' => ?_) n hen
    have hk' := hk
    simp only [Ast.kids, List.mem_cons, List.not_mem_nil, or_false] at hk'
    rcases hk' with rfl | rfl
    · have har' := allNodes_kid har hk
      refine visitAllNode_ns (Or.inr (Or.inl rfl)) (fun k2 hk2 n2 hen2 => ?_) n' hen'
      obtain ⟨x, wx⟩ := wfArgs_mem wargs k2 hk2
      exact argdecl_ns hΓ hA hAc wx (allNodes_kid har' hk2) n2 hen2
    · exact wf_ns hΓ hA hAc wbody (allNodes_kid har hk) n' hen'

theorem parsed_ns {xs : List String} {e : Ast} (hw : WfParsed Γ xs e) (har : ArityOK Γ e)
    (n : Nat) (hen : Q → Enough Γ rank n e) : NS Q (fun _ => True) (vVisit Γ n true [] e) := by
  have hne : (Tok.PUNC_DEFINE == Tok.PUNC_STRUCT) = false := by decide
  have hss : (Tok.PUNC_STRUCT == Tok.PUNC_STRUCT) = true := by decide
  cases n with
  | zero => exact ns_zero hen
  | succ n =>
    cases hw with
    | top hw =>
      cases hw with
      | ofDef h => exact def_ns hΓ hA hAc h har _ hen
      | @define1 d lo hi ln hn tn x kn =>
        have hlen : ∀ k : Ast, ((Ast.node .PUNC_DEFINE d lo hi [k]).kids.length == 1) = true := fun _ => rfl
        simp only [vVisit, vDispatch, Ast.id, hne, hlen]
        exact ns_set _
      | @define2 xs d lo hi nm ex h =>
        have hk : ex ∈ (Ast.node .PUNC_DEFINE d lo hi [nm, ex]).kids := by simp [Ast.kids]
        have hex := def_ns (report := true) (P := []) hΓ hA hAc h (allNodes_kid har hk) n
          (fun q => enough_kid (hen q) hk)
        have hlen : ((Ast.node .PUNC_DEFINE d lo hi [nm, ex]).kids.length == 1) = false := rfl
        simp only [vVisit, vDispatch, Ast.id, hne, hlen, Bool.false_eq_true, if_false]
        exact ns_visitChild_at (k := ex) rfl hex
      | @struct d lo hi nm ex h =>
        have hk : ex ∈ (Ast.node .PUNC_STRUCT d lo hi [nm, ex]).kids := by simp [Ast.kids]
        have hex := wf_ns (report := true) (P := []) hΓ hA hAc (Or.inl h) (allNodes_kid har hk) n
          (fun q => enough_kid (hen q) hk)
        simp only [vVisit, vDispatch, Ast.id, hss]
        exact ns_bindT (ns_visitChild_at (k := ex) rfl hex) fun _ => ns_set _
    | @structAny d lo hi nm ex h =>
      have hk : ex ∈ (Ast.node .PUNC_STRUCT d lo hi [nm, ex]).kids := by simp [Ast.kids]
      have hex := def_ns (report := true) (P := []) hΓ hA hAc h (allNodes_kid har hk) n
        (fun q => enough_kid (hen q) hk)
      simp only [vVisit, vDispatch, Ast.id, hss]
      exact ns_bindT (ns_visitChild_at (k := ex) rfl hex) fun _ => ns_set _

end top

/-! ## the theorems -/

theorem stuck_of_ns {Γ : Ctx} {Q : Prop} {fuel : Nat} {t : Ast}
    (h : NS Q (fun _ => True) (vVisit Γ fuel true [] t)) {x : String} (hx : (vcheck Γ fuel t).stuck = some x) :
    x = "fuel" ∧ ¬ Q := by
  have h := h {}
  unfold vcheck at hx
  generalize vVisit Γ fuel true [] t {} = r at h hx
  obtain ⟨r, s⟩ := r
  cases r with
  | ok u => cases hx
  | fail => cases hx
  | stuck y => cases hx; exact h

/-- (1) On a parsed tree, with well shaped stored definitions and matching arities, no unchecked access and no
failing assert of the C++ `ValueAuditor` is reachable: the only `stuck` site is the model's own `"fuel"`. -/
theorem vcheck_stuck_only_fuel {Γ : Ctx} {xs : List String} {t : Ast} (hΓ : AstsShape Γ) (hA : AstsArity Γ)
    (hw : WfParsed Γ xs t) (ht : ArityOK Γ t) : ∀ fuel x, (vcheck Γ fuel t).stuck = some x → x = "fuel" := by
  intro fuel x hx
  exact (stuck_of_ns (parsed_ns (Q := False) (rank := fun _ => 0) hΓ hA (fun q => q.elim) hw ht fuel
    (fun q => q.elim)) hx).1

/-- (2), explicit bound: with acyclic stored definitions, fuel above the depth of the tree plus the depths of the
stored definitions of rank `< r` (`r` bounds the ranks of the functions the tree calls) is enough. -/
theorem vcheck_not_stuck_of_fuel {Γ : Ctx} {rank : String → Nat} {xs : List String} {t : Ast} {r fuel : Nat}
    (hΓ : AstsShape Γ) (hA : AstsArity Γ) (hAc : AstsAcyclic Γ rank) (hw : WfParsed Γ xs t) (ht : ArityOK Γ t)
    (hr : CallsBelow Γ rank r t) (hf : Ast.depth t + wBelow rank r Γ.asts + 1 ≤ fuel) :
    (vcheck Γ fuel t).stuck = none := by
  cases hx : (vcheck Γ fuel t).stuck with
  | none => rfl
  | some x =>
    exact absurd trivial (stuck_of_ns (parsed_ns (Q := True) (rank := rank) hΓ hA (fun _ => hAc) hw ht fuel
      (fun _ => ⟨r, hr, hf⟩)) hx).2

/-- (2) With acyclic stored definitions the value audit of the entry point (`checkEntry` runs
`vcheck Γ (vfuel Γ t) t`) is never stuck. -/
theorem vcheck_not_stuck {Γ : Ctx} {rank : String → Nat} {xs : List String} {t : Ast}
    (hΓ : AstsShape Γ) (hA : AstsArity Γ) (hAc : AstsAcyclic Γ rank) (hw : WfParsed Γ xs t) (ht : ArityOK Γ t) :
    (vcheck Γ (CCVerif.Entry.vfuel Γ t) t).stuck = none := by
  refine vcheck_not_stuck_of_fuel hΓ hA hAc hw ht (callsBelow_bound Γ rank t) ?_
  have := wBelow_le_foldl (rank := rank) (r := rankBound rank Γ.asts) Γ.asts 0
  unfold CCVerif.Entry.vfuel
  omega

/-! ## non-vacuity -/

section examples

/-- `F1 :== [a ∈ Z] a ∪ a` -/
def exF1 : Ast :=
  .node .PUNC_DEFINE .none 0 0 [.node .ID_FUNCTION (.text "F1") 0 0 [],
    .node .NT_FUNC_DEFINITION .none 0 0 [
      .node .NT_ARGUMENTS .none 0 0 [.node .NT_ARG_DECL .none 0 0 [.node .ID_LOCAL (.text "a") 0 0 [],
        .node .LIT_INTSET .none 0 0 []]],
      .node .UNION .none 0 0 [.node .ID_LOCAL (.text "a") 0 0 [], .node .ID_LOCAL (.text "a") 0 0 []]]]

def exCtx : Ctx := { vclass := [("F1", .value)], asts := [("F1", exF1)] }

/-- `F1[Z]`: the argument is a property, the stored body is audited -/
def exCall : Ast :=
  .node .NT_FUNC_CALL .none 0 0 [.node .ID_FUNCTION (.text "F1") 0 0 [], .node .LIT_INTSET .none 0 0 []]

/-- `F1[Z, Z]`: two arguments for the unary `F1` -/
def exCall2 : Ast :=
  .node .NT_FUNC_CALL .none 0 0 [.node .ID_FUNCTION (.text "F1") 0 0 [], .node .LIT_INTSET .none 0 0 [],
    .node .LIT_INTSET .none 0 0 []]

theorem exCtx_lookup {f : String} {tree : Ast} (h : lookup exCtx.asts f = some tree) : tree = exF1 := by
  simp only [exCtx, lookup] at h
  split at h
  · exact (Option.some.inj h).symm
  · cases h

theorem exShape : AstsShape exCtx := by
  intro f tree h
  cases exCtx_lookup h
  refine ⟨_, _, _, rfl, rfl, rfl, ?_, Or.inl (.sSetbin (Or.inl rfl) .sLocal .sLocal)⟩
  intro d hd
  simp only [Ast.kids, List.mem_cons, List.not_mem_nil, or_false] at hd
  subst hd
  exact ⟨_, _, _, _, _, rfl⟩

theorem exArity : AstsArity exCtx := by
  intro f tree fd body h h1 hb
  cases exCtx_lookup h
  cases h1
  cases hb
  decide +kernel

theorem exAcyclic : AstsAcyclic exCtx (fun _ => 0) := by
  intro f tree fd body h h1 hb
  cases exCtx_lookup h
  cases h1
  cases hb
  show CallsBelow exCtx (fun _ => 0) 0 _
  decide +kernel

theorem exParsed : WfParsed exCtx [] exCall := by
  refine .top (.ofDef (.expr (Or.inr (.lCall fun k hk => ?_))))
  simp only [List.mem_cons, List.not_mem_nil, or_false] at hk
  subst hk
  exact .sIntset

example : ∀ fuel x, (vcheck exCtx fuel exCall).stuck = some x → x = "fuel" :=
  vcheck_stuck_only_fuel exShape exArity exParsed (by decide +kernel)

example : (vcheck exCtx (CCVerif.Entry.vfuel exCtx exCall) exCall).stuck = none :=
  vcheck_not_stuck exShape exArity exAcyclic exParsed (by decide +kernel)

/-- the call is inlined (class of the body with `a` a property) and the run is not stuck -/
example : (vcheck exCtx (CCVerif.Entry.vfuel exCtx exCall) exCall).out = some .props ∧
    (vcheck exCtx (CCVerif.Entry.vfuel exCtx exCall) exCall).stuck = none := by decide +kernel

/-- `"fuel"` is a real outcome of the model when the fuel is too small -/
example : (vcheck exCtx 2 exCall).stuck = some "fuel" := by decide +kernel

/-- the arity hypothesis is needed: `F1[Z, Z]` violates it and hits the C++ `assert` -/
example : ¬ ArityOK exCtx exCall2 := by decide +kernel
example : (vcheck exCtx (CCVerif.Entry.vfuel exCtx exCall2) exCall2).stuck = some "assert:args" := by decide +kernel

/-- the acyclicity hypothesis is needed: with the recursive `F1 :== [a ∈ Z] F1[a]` the model runs out of fuel
(the C++ recursion does not terminate) -/
def exRec : Ctx :=
  { vclass := [("F1", .value)],
    asts := [("F1", .node .PUNC_DEFINE .none 0 0 [.node .ID_FUNCTION (.text "F1") 0 0 [],
      .node .NT_FUNC_DEFINITION .none 0 0 [
        .node .NT_ARGUMENTS .none 0 0 [.node .NT_ARG_DECL .none 0 0 [.node .ID_LOCAL (.text "a") 0 0 [],
          .node .LIT_INTSET .none 0 0 []]],
        .node .NT_FUNC_CALL .none 0 0 [.node .ID_FUNCTION (.text "F1") 0 0 [],
          .node .ID_LOCAL (.text "a") 0 0 []]]])] }
example : (vcheck exRec (CCVerif.Entry.vfuel exRec exCall) exCall).stuck = some "fuel" := by decide +kernel

end examples

end CCVerif.Checker
