import CCVerif.Lemmas.RSModelGen
/-!
C11, generic, the renaming operations (`SetAliasFor` with / without substitution,
`SubstitueAliases`): values survive a renaming if analysis and evaluation are EQUIVARIANT — renaming
the constituents and, consistently, the names in the definitions changes the analysis entries in a
uniform way (`renI`: the types mention aliases) and does not change the values.
-/
namespace CCVerif.RSModelGen
open CCVerif CCVerif.SchemaGen CCVerif.Graph
open CCVerif.Schema (Kind lookup)

variable {D I V : Type} {A : Analysis D I} {E : Eval D I V}

/-- a (partial) renaming applied to a name -/
def ren (f : String → Option String) (n : String) : String := (f n).getD n

/-- renaming of the definition only -/
def renDef (A : Analysis D I) (f : String → Option String) (x : Cst D) : Cst D :=
  { x with defn := A.rename f x.defn }
/-- renaming of alias and definition -/
def renCst (A : Analysis D I) (f : String → Option String) (x : Cst D) : Cst D :=
  { x with alias := ren f x.alias, defn := A.rename f x.defn }

/-- equivariance hypotheses (on top of `Lawful A`, `EvalLawful A E`) -/
structure Equivariant (A : Analysis D I) (E : Eval D I V) where
  /-- how an analysis entry changes when the aliases it mentions are renamed -/
  renI : (String → String) → I → I
  ok_ren : ∀ g i, A.ok (renI g i) = A.ok i
  verified_ren : ∀ g i, E.verified (renI g i) = E.verified i
  /-- a renaming that does not touch the mentioned names leaves the definition alone -/
  rename_id : ∀ (f : String → Option String) (d : D), (∀ m ∈ A.mentions d, ren f m = m) → A.rename f d = d
  mentions_rename : ∀ (f : String → Option String) (d : D),
    A.mentions (A.rename f d) = (A.mentions d).map (ren f)
  /-- a successful analysis commutes with a consistent renaming of constituent, definition and context -/
  analyse_ren : ∀ (f : String → Option String) (sk sk' : Skel) (ctx ctx' : String → Option I) (c : Cst D),
    A.ok (A.analyse sk ctx c) = true →
    (∀ m ∈ A.mentions c.defn, ctx' (ren f m) = (ctx m).map (renI (ren f))) →
    A.analyse sk' ctx' (renCst A f c) = renI (ren f) (A.analyse sk ctx c)
  /-- the value does not change under a consistent renaming of definition and context -/
  eval_ren : ∀ (f : String → Option String) (ctx ctx' : String → Option V) (c : Cst D) (v : V),
    (∀ m ∈ A.mentions c.defn, ∀ x, ctx m = some x → ctx' (ren f m) = some x) →
    E.eval ctx c = some v → E.eval ctx' (renCst A f c) = some v

/-! ## transfer under renaming -/

theorem _root_.CCVerif.SchemaGen.Val.transfer_ren (hE : EvalLawful A E) (hQ : Equivariant A E)
    {s s' : List (Cst D)} (f : String → Option String) (Q : Nat → Prop)
    (hmem : ∀ c ∈ s, Q c.uid → renCst A f c ∈ s')
    (hfa : ∀ c ∈ s, Q c.uid → ∀ m ∈ A.mentions c.defn, ∀ w, findAliasL s m = some w →
      findAliasL s' (ren f m) = some w ∧ Q w)
    {u : Nat} {i : I} (h : Val A s u i) : Q u → Val A s' u (hQ.renI (ren f) i) := by
  induction h with
  | @mk c jf hc hd hok ih =>
    intro hq
    have hres : ∀ m ∈ A.mentions c.defn, ∃ w, findAliasL s m = some w := by
      intro m hm
      cases hf : findAliasL s m with
      | none =>
        have := hE.missing (skelOf s) (ctxOf s jf) c m hm (by unfold ctxOf; rw [hf]; rfl)
        rw [this] at hok
        cases hok
      | some w => exact ⟨w, rfl⟩
    have heq : A.analyse (skelOf s') (ctxOf s' (fun v => hQ.renI (ren f) (jf v))) (renCst A f c) =
        hQ.renI (ren f) (A.analyse (skelOf s) (ctxOf s jf) c) := by
      apply hQ.analyse_ren f _ _ _ _ c hok
      intro m hm
      obtain ⟨w, hw⟩ := hres m hm
      unfold ctxOf
      rw [hw, (hfa c hc hq m hm w hw).1]
      rfl
    have := Val.mk (A := A) (s := s') (c := renCst A f c) (fun v => hQ.renI (ren f) (jf v)) (hmem c hc hq)
      (fun m' hm' v hv => by
        have hm'' : m' ∈ (A.mentions c.defn).map (ren f) := by
          rw [← hQ.mentions_rename]; exact hm'
        obtain ⟨m, hm, rfl⟩ := List.mem_map.1 hm''
        obtain ⟨w, hw⟩ := hres m hm
        obtain ⟨h1, h2⟩ := hfa c hc hq m hm w hw
        rw [h1] at hv
        have e : w = v := Option.some.inj hv
        subst e
        exact ih m hm w hw h2)
      (by rw [heq, hQ.ok_ren]; exact hok)
    rw [heq] at this
    exact this

theorem TVal.transfer_ren (hE : EvalLawful A E) (hQ : Equivariant A E) {s s' : List (Cst D)}
    {dat dat' : Nat → Option V} (hn : (uids s).Nodup) (f : String → Option String) (Q : Nat → Prop)
    (hmem : ∀ c ∈ s, Q c.uid → renCst A f c ∈ s')
    (hfa : ∀ c ∈ s, Q c.uid → ∀ m ∈ A.mentions c.defn, ∀ w, findAliasL s m = some w →
      findAliasL s' (ren f m) = some w ∧ Q w)
    (hdat : ∀ c ∈ s, Q c.uid → c.kind = .base → dat' c.uid = dat c.uid)
    {u : Nat} {v : V} (h : TVal A E s dat u v) : Q u → TVal A E s' dat' u v := by
  induction h with
  | @base c v hc hk hd =>
    intro hq
    exact TVal.base (c := renCst A f c) (hmem c hc hq) hk (by
      show dat' c.uid = some v
      rw [hdat c hc hq hk]; exact hd)
  | @term c i v vf hc hk hv hver hdeps hev ih =>
    intro hq
    have hres := hv.resolved hE hn hc
    refine TVal.term (c := renCst A f c) vf (hmem c hc hq) hk (hv.transfer_ren hE hQ f Q hmem hfa hq)
      (by rw [hQ.verified_ren]; exact hver) ?_ ?_
    · intro m' hm' w x hw hx
      have hm'' : m' ∈ (A.mentions c.defn).map (ren f) := by
        rw [← hQ.mentions_rename]; exact hm'
      obtain ⟨m, hm, rfl⟩ := List.mem_map.1 hm''
      obtain ⟨w0, _, hw0, _⟩ := hres m hm
      obtain ⟨h1, h2⟩ := hfa c hc hq m hm w0 hw0
      rw [h1] at hw
      have e : w0 = w := Option.some.inj hw
      subst e
      exact ih m hm w0 x hw0 hx h2
    · refine hQ.eval_ren f (ctxV s vf) (ctxV s' vf) c v ?_ hev
      intro m hm x hx
      obtain ⟨w0, _, hw0, _⟩ := hres m hm
      unfold ctxV at hx ⊢
      rw [hw0] at hx
      rw [(hfa c hc hq m hm w0 hw0).1]
      exact hx

/-! ## the store after `TranslateAll`, `SetAliasFor` -/

section steps
variable [DecidableEq D]

omit [DecidableEq D] in
theorem translate_fold_store (f : String → Option String) (l : List (Cst D)) : ∀ s0 : SchemaGen.St D I,
    s0.invalid = true → (uids l).Nodup →
    (l.foldl (fun (s : SchemaGen.St D I) (c : Cst D) =>
        SchemaGen.St.graphUpdateFor A { s with store := s.store.map (fun (x : Cst D) =>
          if x.uid == c.uid then { x with defn := A.rename f x.defn } else x) } c.uid) s0).store =
      s0.store.map (fun x => if x.uid ∈ uids l then renDef A f x else x) := by
  induction l with
  | nil =>
    intro s0 _ _
    simp [uids]
  | cons c l ih =>
    intro s0 hv hn
    simp only [uids, List.map_cons, List.nodup_cons] at hn
    rw [List.foldl_cons, graphUpdateFor_invalid (by exact hv)]
    rw [ih _ (by exact hv) hn.2]
    simp only
    rw [List.map_map]
    apply List.map_congr_left
    intro x _
    simp only [Function.comp]
    by_cases hx : x.uid = c.uid
    · have h1 : (x.uid == c.uid) = true := by simpa using hx
      simp only [h1, if_true]
      have h2 : x.uid ∉ uids l := by rw [hx]; exact hn.1
      have h3 : x.uid ∈ uids (c :: l) := by simp [uids, hx]
      rw [if_neg h2, if_pos h3]
      rfl
    · have h1 : (x.uid == c.uid) = false := by simpa using hx
      simp only [h1, Bool.false_eq_true, if_false]
      by_cases h2 : x.uid ∈ uids l
      · rw [if_pos h2, if_pos (by simp only [uids, List.map_cons]; exact List.mem_cons_of_mem _ h2)]
      · rw [if_neg h2, if_neg]
        simp only [uids, List.map_cons, List.mem_cons, not_or]
        exact ⟨hx, h2⟩

omit [DecidableEq D] in
theorem translateAll_store (hA : Lawful A) {st : SchemaGen.St D I} (hb : Base st) (hv : st.invalid = true)
    (f : String → Option String) : (st.translateAll A f).store = st.store.map (renDef A f) := by
  unfold SchemaGen.St.translateAll
  simp only
  have := fold_preserve (fun (s : SchemaGen.St D I) (c : Cst D) =>
      SchemaGen.St.graphUpdateFor A { s with store := s.store.map (fun (x : Cst D) =>
        if x.uid == c.uid then { x with defn := A.rename f x.defn } else x) } c.uid)
    (by
      intro s c hs
      rw [graphUpdateFor_invalid (by exact hs)]
      refine ⟨uids_map_pres _ (fun x => ?_) _, rfl, hs⟩
      split <;> rfl) st.store st hv
  obtain ⟨r1, r2, r3⟩ := this
  rw [(updateState_spec hA (hb.of_eq r1 r2) (Or.inl r3)).2, translate_fold_store f st.store st hv hb.nodup]
  apply List.map_congr_left
  intro x hx
  rw [if_pos (mem_uids.2 ⟨x, hx, rfl⟩)]


def setAl (u : Nat) (a : String) (x : Cst D) : Cst D := if x.uid == u then { x with alias := a } else x

theorem setAlias_spec (hA : Lawful A) {sch : SchemaGen.St D I} (h : SchemaGen.WF A sch) {u : Nat} {a : String} (sb : Bool) {c : Cst D}
    (hat : sch.at u = some c) (hne : ¬ c.alias = a) :
    (SchemaGen.step A sch (.setAlias u a sb)).store =
      if sb then (sch.store.map (setAl u a)).map (renDef A (fun n => if n == c.alias then some a else none))
      else sch.store.map (setAl u a) := by
  have hb : Base ({ sch with invalid := true, store := sch.store.map (fun (x : Cst D) =>
      if x.uid == u then { x with alias := a } else x) } : SchemaGen.St D I) :=
    h.base.of_eq (uids_map_pres _ (fun x => by split <;> rfl) _) rfl
  unfold SchemaGen.step
  simp only
  rw [hat]
  simp only
  rw [if_neg hne]
  cases sb with
  | true =>
    simp only [if_true]
    rw [translateAll_store hA hb rfl]
    rfl
  | false =>
    simp only [Bool.false_eq_true, if_false]
    rw [(updateState_spec hA hb (Or.inl rfl)).2]
    rfl

omit [DecidableEq D] in
theorem setAl_facts {s : List (Cst D)} (hn : (uids s).Nodup) (hdist : (s.map (·.alias)).Nodup) {c : Cst D}
    (hc : c ∈ s) {u : Nat} (hcu : c.uid = u) (a : String) :
    ∀ c1 ∈ s, (setAl u a c1).uid = c1.uid ∧ (setAl u a c1).kind = c1.kind ∧
      (setAl u a c1).defn = c1.defn ∧
      (setAl u a c1).alias = (fun n => if n == c.alias then a else n) c1.alias ∧
      (c1.uid ≠ u → setAl u a c1 = c1) := by
  intro c1 hc1
  unfold setAl
  by_cases h1 : c1.uid = u
  · have h1' : (c1.uid == u) = true := by simpa using h1
    have : c1 = c := eq_of_uid_eq hn hc1 hc (h1.trans hcu.symm)
    subst this
    rw [if_pos h1']
    simp [h1]
  · have h1' : (c1.uid == u) = false := by simpa using h1
    have hna : c1.alias ≠ c.alias := by
      intro e1
      exact h1 (by rw [eq_of_alias_eq hdist hc1 hc e1]; exact hcu)
    rw [if_neg (by simp [h1'])]
    simp [hna]



omit [DecidableEq D] in
/-- a schema-level step that renames aliases and mentions by `f`, keeping the resolution of the
mentions (aliases are pairwise distinct afterwards) -/
theorem Inv.rename (hE : EvalLawful A E) (hQ : Equivariant A E) {st : St D I V} (h : Inv A E st)
    {sch' : SchemaGen.St D I} (hwf : SchemaGen.WF A sch') (hd : AliasesDistinct sch')
    (f : String → Option String) (hstore : sch'.store = st.sch.store.map (renCst A f)) :
    Inv A E { st with sch := sch' } := by
  refine ⟨hwf, hd, ?_⟩
  intro w v hkw hvw
  obtain ⟨c', _, hc', hc'u, hc'k⟩ := kindOf_eq_some hkw
  have hc'' : c' ∈ st.sch.store.map (renCst A f) := by rw [← hstore]; exact hc'
  obtain ⟨c, hc, hAc⟩ := List.mem_map.1 hc''
  have hkw0 : st.kindOf w = some .term := by
    rw [← hc'u, ← hAc]
    show st.kindOf c.uid = _
    rw [kindOf_of_mem h.wf.base.nodup hc, ← hc'k, ← hAc]
    rfl
  have ht := h.val w v hkw0 hvw
  refine TVal.transfer_ren hE hQ h.wf.base.nodup f (fun _ => True) ?_ ?_ (fun _ _ _ _ => rfl) ht trivial
  · intro c1 hc1 _
    show renCst A f c1 ∈ sch'.store
    rw [hstore]
    exact List.mem_map.2 ⟨c1, hc1, rfl⟩
  · intro c1 _ _ m _ w' hw'
    obtain ⟨c3, hc3, hc3u, hc3a⟩ := findAliasL_mem hw'
    have hmem3 : renCst A f c3 ∈ sch'.store := by rw [hstore]; exact List.mem_map.2 ⟨c3, hc3, rfl⟩
    have := findAliasL_of_distinct hd hmem3
    have e1 : (renCst A f c3).alias = ren f m := by show ren f c3.alias = _; rw [hc3a]
    have e2 : (renCst A f c3).uid = w' := hc3u
    rw [e1, e2] at this
    exact ⟨this, trivial⟩

omit [DecidableEq D] in
theorem ren_setAlias (old a n : String) :
    ren (fun n => if n == old then some a else none) n = if n == old then a else n := by
  unfold ren
  by_cases h : n = old <;> simp [h]

theorem Inv.setAliasTrue (hA : Lawful A) (hE : EvalLawful A E) (hQ : Equivariant A E) {st : St D I V}
    (h : Inv A E st) (u : Nat) (a : String)
    (hd : AliasesDistinct (RSModelGen.step A E st (.schema (.setAlias u a true))).sch) :
    Inv A E (RSModelGen.step A E st (.schema (.setAlias u a true))) := by
  have e0 : RSModelGen.step A E st (.schema (.setAlias u a true)) =
      { st with sch := SchemaGen.step A st.sch (.setAlias u a true) } := rfl
  rw [e0] at hd ⊢
  have hwf' : SchemaGen.WF A (SchemaGen.step A st.sch (.setAlias u a true)) := h.wf.setAlias hA u a true
  cases hat : st.sch.at u with
  | none =>
    have e : SchemaGen.step A st.sch (.setAlias u a true) = st.sch := by
      unfold SchemaGen.step; simp only; rw [hat]
    rw [e]; exact h
  | some c =>
    by_cases hne : c.alias = a
    · have e : SchemaGen.step A st.sch (.setAlias u a true) = st.sch := by
        unfold SchemaGen.step; simp only; rw [hat]; simp only; rw [if_pos hne]
      rw [e]; exact h
    · have hst := setAlias_spec hA h.wf true hat hne
      obtain ⟨hc, hcu⟩ := mem_of_at hat
      have hn := h.wf.base.nodup
      generalize SchemaGen.step A st.sch (.setAlias u a true) = sch' at hd hwf' hst ⊢
      have hd0 : AliasesDistinct sch' := hd
      have hal := setAl_facts hn h.dist hc hcu a
      simp only [if_true] at hst
      rw [List.map_map] at hst
      refine h.rename hE hQ hwf' hd0 (fun n => if n == c.alias then some a else none) ?_
      rw [hst]
      apply List.map_congr_left
      intro c1 hc1
      obtain ⟨b1, b2, b3, b4, _⟩ := hal c1 hc1
      simp only [Function.comp]
      unfold renDef renCst
      rw [b3]
      have : (setAl u a c1) = { c1 with alias := (setAl u a c1).alias } := by
        cases hx : setAl u a c1 with
        | mk u' a' k' d' =>
          rw [hx] at b1 b2 b3
          simp only at b1 b2 b3
          subst b1; subst b2; subst b3
          rfl
      rw [this, b4, ren_setAlias]

theorem Inv.substitute (hA : Lawful A) (hE : EvalLawful A E) (hQ : Equivariant A E) {st : St D I V}
    (h : Inv A E st) (m : List (String × String))
    (hd : AliasesDistinct (RSModelGen.step A E st (.schema (.substitute m))).sch) :
    Inv A E (RSModelGen.step A E st (.schema (.substitute m))) := by
  have e0 : RSModelGen.step A E st (.schema (.substitute m)) =
      { st with sch := SchemaGen.step A st.sch (.substitute m) } := rfl
  rw [e0] at hd ⊢
  have hwf' : SchemaGen.WF A (SchemaGen.step A st.sch (.substitute m)) := h.wf.substitute hA m
  have hb : Base ({ st.sch with invalid := true, store := st.sch.store.map (fun (x : Cst D) =>
      { x with alias := (lookup m x.alias).getD x.alias }) } : SchemaGen.St D I) :=
    h.wf.base.of_eq (uids_map_pres (fun (x : Cst D) =>
      { x with alias := (lookup m x.alias).getD x.alias }) (fun x => rfl) st.sch.store) rfl
  have hst : (SchemaGen.step A st.sch (.substitute m)).store =
      (st.sch.store.map (fun (x : Cst D) => { x with alias := (lookup m x.alias).getD x.alias })).map
        (renDef A (lookup m)) := by
    unfold SchemaGen.step
    simp only
    rw [translateAll_store hA hb rfl]
  generalize SchemaGen.step A st.sch (.substitute m) = sch' at hd hwf' hst ⊢
  rw [List.map_map] at hst
  exact h.rename hE hQ hwf' hd (lookup m) hst

/-- `SetAliasFor(u, a, substitute = false)` as repaired: the dependants of `u`, collected before the
rename, are reset; what does not depend on `u` does not mention the old alias, and nothing that
has a value mentions the new one -/
theorem Inv.setAliasFalse (hA : Lawful A) (hE : EvalLawful A E) (hQ : Equivariant A E) {st : St D I V}
    (h : Inv A E st) (u : Nat) (a : String)
    (hd : AliasesDistinct (RSModelGen.step A E st (.schema (.setAlias u a false))).sch) :
    Inv A E (RSModelGen.step A E st (.schema (.setAlias u a false))) := by
  have hwf' : SchemaGen.WF A (SchemaGen.step A st.sch (.setAlias u a false)) := h.wf.setAlias hA u a false
  have hn := h.wf.base.nodup
  cases hat : st.sch.at u with
  | none =>
    have hcont : st.sch.contains u = false := by unfold SchemaGen.St.contains; rw [hat]; rfl
    have e : RSModelGen.step A E st (.schema (.setAlias u a false)) = st := by
      unfold RSModelGen.step
      simp only [hcont, Bool.not_false, if_true]
      have e' : SchemaGen.step A st.sch (.setAlias u a false) = st.sch := by
        unfold SchemaGen.step; simp only; rw [hat]
      rw [e']
    rw [e]; exact h
  | some c =>
    have hcont : st.sch.contains u = true := by unfold SchemaGen.St.contains; rw [hat]; rfl
    obtain ⟨hc, hcu⟩ := mem_of_at hat
    have hu : u ∈ uids st.sch.store := mem_uids.2 ⟨c, hc, hcu⟩
    by_cases hne : c.alias = a
    · have e : RSModelGen.step A E st (.schema (.setAlias u a false)) = st := by
        unfold RSModelGen.step
        simp only [hcont, Bool.not_true, Bool.false_eq_true, if_false]
        rw [ensureGraph_valid h.wf.valid, hat]
        have e' : SchemaGen.step A st.sch (.setAlias u a false) = st.sch := by
          unfold SchemaGen.step; simp only; rw [hat]; simp only; rw [if_pos hne]
        simp only [Option.map_some, hne, beq_self_eq_true, if_true]
        rw [e']
      rw [e]; exact h
    · have e : RSModelGen.step A E st (.schema (.setAlias u a false)) =
          St.resetItems E { st with sch := SchemaGen.step A st.sch (.setAlias u a false) }
            (Graph.expandOutputs st.sch.graph [u]) u := by
        unfold RSModelGen.step
        simp only [hcont, Bool.not_true, Bool.false_eq_true, if_false]
        rw [ensureGraph_valid h.wf.valid, hat]
        have : ((some c).map (·.alias) == some a) = false := by simpa using hne
        rw [this]
        simp only [Bool.false_eq_true, if_false]
      rw [e] at hd ⊢
      have hst := setAlias_spec hA h.wf false hat hne
      simp only [Bool.false_eq_true, if_false] at hst
      have hXm := mem_expansion h.wf.cur hu
      generalize SchemaGen.step A st.sch (.setAlias u a false) = sch' at hd hwf' hst ⊢
      obtain ⟨r1, r2⟩ := resetItems_spec (E := E) (Graph.expandOutputs st.sch.graph [u]) u
        ({ st with sch := sch' } : St D I V)
      have hsch : (St.resetItems E { st with sch := sch' } (Graph.expandOutputs st.sch.graph [u]) u).sch = sch' := r1
      have hd0 : (sch'.store.map (·.alias)).Nodup := by rw [hsch] at hd; exact hd
      have hn' : (uids sch'.store).Nodup := hwf'.base.nodup
      have hal := setAl_facts hn h.dist hc hcu a
      have hmem' : ∀ c1 ∈ st.sch.store, setAl u a c1 ∈ sch'.store := by
        intro c1 hc1
        rw [hst]; exact List.mem_map.2 ⟨c1, hc1, rfl⟩
      have hk1 : ∀ c1 ∈ st.sch.store, ({ st with sch := sch' } : St D I V).kindOf c1.uid = some c1.kind := by
        intro c1 hc1
        obtain ⟨b1, b2, _⟩ := hal c1 hc1
        rw [← b1, kindOf_of_mem (st := { st with sch := sch' }) hn' (hmem' c1 hc1), b2]
      have hold : findAliasL st.sch.store c.alias = some u := by
        rw [findAliasL_of_distinct h.dist hc, hcu]
      -- the constituents that do not depend on `u`
      have hedge : ∀ c1 ∈ st.sch.store, ∀ m ∈ A.mentions c1.defn, ∀ w', findAliasL st.sch.store m = some w' →
          (w', c1.uid) ∈ Graph.edges st.sch.graph := fun c1 hc1 m hm w' hw' =>
        (h.wf.cur.edges w' c1.uid).2 ⟨c1, hc1, rfl, mem_inputsOfL.2 ⟨m, hm, hw'⟩⟩
      have hnotold : ∀ c1 ∈ st.sch.store, ¬ ReachPlus (Graph.edges st.sch.graph) u c1.uid →
          ∀ m ∈ A.mentions c1.defn, m ≠ c.alias := by
        intro c1 hc1 hq m hm e1
        apply hq
        exact ⟨c1.uid, hedge c1 hc1 m hm u (by rw [e1]; exact hold), Reach.refl _⟩
      refine ⟨by rw [hsch]; exact hwf', hd, ?_⟩
      intro w v hkw hvw
      have hkw1 : ({ st with sch := sch' } : St D I V).kindOf w = some .term := by
        rw [← kindOf_congr (st := { st with sch := sch' })
          (st' := St.resetItems E { st with sch := sch' } (Graph.expandOutputs st.sch.graph [u]) u)
          (by rw [r1])]
        exact hkw
      obtain ⟨c', _, hc', hc'u, hc'k⟩ := kindOf_eq_some hkw1
      have hc'' : c' ∈ st.sch.store.map (setAl u a) := by rw [← hst]; exact hc'
      obtain ⟨c0, hc0, hAc⟩ := List.mem_map.1 hc''
      obtain ⟨a1, a2, _⟩ := hal c0 hc0
      have hkw0 : st.kindOf w = some .term := by
        rw [← hc'u, ← hAc, a1, kindOf_of_mem hn hc0, ← a2, hAc, hc'k]
      have hdata : st.dataFor w = some v := by
        by_cases hX : w ∈ Graph.expandOutputs st.sch.graph [u] ∧ w ≠ u
        · rw [(r2 w).1 ⟨hX.1, hX.2, hkw1⟩] at hvw
          cases hvw
        · rw [(r2 w).2 (fun h' => hX ⟨h'.1, h'.2.1⟩)] at hvw
          exact hvw
      have ht := h.val w v hkw0 hdata
      have hq : ¬ ReachPlus (Graph.edges st.sch.graph) u w := by
        by_cases hwu : w = u
        · rw [hwu]
          have hc0u : c0.uid = u := by rw [← a1, hAc, hc'u, hwu]
          have hc0k : c0.kind = .term := by rw [← a2, hAc, hc'k]
          rw [hwu, ← hc0u] at ht
          obtain ⟨i, hval⟩ := ht.val hn hc0 hc0k
          rw [hc0u] at hval
          exact hval.acyclic h.wf.cur hn u (Reach.refl _)
        · intro hp
          by_cases hX : w ∈ Graph.expandOutputs st.sch.graph [u]
          · rw [(r2 w).1 ⟨hX, hwu, hkw1⟩] at hvw
            cases hvw
          · exact hX ((hXm w).2 hp.reach)
      rw [hsch]
      have hrenQ : ∀ c1 ∈ st.sch.store, ¬ ReachPlus (Graph.edges st.sch.graph) u c1.uid →
          renCst A (fun n => if n == c.alias then some a else none) c1 = setAl u a c1 := by
        intro c1 hc1 hq1
        obtain ⟨b1, b2, b3, b4, _⟩ := hal c1 hc1
        have hd1 : A.rename (fun n => if n == c.alias then some a else none) c1.defn = c1.defn := by
          apply hQ.rename_id
          intro m hm
          rw [ren_setAlias]
          have : m ≠ c.alias := hnotold c1 hc1 hq1 m hm
          simp [this]
        unfold renCst
        have b4' : (setAl u a c1).alias = if c1.alias == c.alias then a else c1.alias := b4
        rw [hd1, ren_setAlias, ← b4']
        cases hx : setAl u a c1 with
        | mk u' a' k' d' =>
          rw [hx] at b1 b2 b3
          simp only at b1 b2 b3
          subst b1; subst b2; subst b3
          rfl
      refine TVal.transfer_ren hE hQ hn (fun n => if n == c.alias then some a else none)
        (fun x => ¬ ReachPlus (Graph.edges st.sch.graph) u x) ?_ ?_ ?_ ht hq
      · intro c1 hc1 hq1
        rw [hrenQ c1 hc1 hq1]
        exact hmem' c1 hc1
      · intro c1 hc1 hq1 m hm w' hw'
        have he := hedge c1 hc1 m hm w' hw'
        have hmne : m ≠ c.alias := hnotold c1 hc1 hq1 m hm
        have hw'u : w' ≠ u := by
          intro e1
          apply hq1
          exact ⟨c1.uid, e1 ▸ he, Reach.refl _⟩
        obtain ⟨c3, hc3, hc3u, hc3a⟩ := findAliasL_mem hw'
        obtain ⟨_, _, _, _, b5⟩ := hal c3 hc3
        have hc3' : c3 ∈ sch'.store := by
          have := hmem' c3 hc3
          rw [b5 (by rw [hc3u]; exact hw'u)] at this
          exact this
        have hres := findAliasL_of_distinct hd0 hc3'
        rw [hc3a, hc3u] at hres
        refine ⟨by rw [ren_setAlias]; simp only [beq_iff_eq, hmne, if_false]; exact hres, ?_⟩
        rintro ⟨b, hb, hr⟩
        exact hq1 ⟨b, hb, hr.tail he⟩
      · intro c1 hc1 _ hkb
        have hnot : ¬ (c1.uid ∈ Graph.expandOutputs st.sch.graph [u] ∧ c1.uid ≠ u ∧
            ({ st with sch := sch' } : St D I V).kindOf c1.uid = some .term) := by
          rintro ⟨_, _, hk3⟩
          rw [hk1 c1 hc1, hkb] at hk3
          cases hk3
        rw [(r2 c1.uid).2 hnot]
        rfl

/-! ## histories with all operations -/

/-- admissibility including the renaming operations (as for the fragment: no `load`; after `insert`,
`setAlias`, `substitute` the aliases are still pairwise distinct) -/
def AdmissibleAll (A : Analysis D I) (E : Eval D I V) (st : St D I V) : Op D V → Prop
  | .schema (.load _) => False
  | .schema (.insert c) => AliasesDistinct (RSModelGen.step A E st (.schema (.insert c))).sch
  | .schema (.setAlias u a sb) => AliasesDistinct (RSModelGen.step A E st (.schema (.setAlias u a sb))).sch
  | .schema (.substitute m) => AliasesDistinct (RSModelGen.step A E st (.schema (.substitute m))).sch
  | _ => True

def AdmissibleAllFrom (A : Analysis D I) (E : Eval D I V) : St D I V → List (Op D V) → Prop
  | _, [] => True
  | st, op :: ops => AdmissibleAll A E st op ∧ AdmissibleAllFrom A E (RSModelGen.step A E st op) ops

instance (A : Analysis D I) (E : Eval D I V) (st : St D I V) (op : Op D V) :
    Decidable (AdmissibleAll A E st op) := by
  unfold AdmissibleAll
  split <;> infer_instance

instance instDecidableAdmissibleAllFrom (A : Analysis D I) (E : Eval D I V) :
    ∀ (ops : List (Op D V)) (st : St D I V), Decidable (AdmissibleAllFrom A E st ops)
  | [], _ => isTrue trivial
  | op :: ops, st =>
    have := instDecidableAdmissibleAllFrom A E ops (RSModelGen.step A E st op)
    inferInstanceAs (Decidable (AdmissibleAll A E st op ∧ AdmissibleAllFrom A E (RSModelGen.step A E st op) ops))

theorem Inv.stepAll (hA : Lawful A) (hE : EvalLawful A E) (hQ : Equivariant A E) {st : St D I V}
    (h : Inv A E st) {op : Op D V} (ha : AdmissibleAll A E st op) : Inv A E (RSModelGen.step A E st op) := by
  cases op with
  | schema sop =>
    cases sop with
    | insert c => exact h.insert hA hE c ha
    | load c => exact ha.elim
    | updateState => exact h.updateState hA
    | erase u => exact h.erase hA hE u
    | setDef u d => exact h.setDef hA hE u d
    | setAlias u a sb =>
      cases sb with
      | true => exact h.setAliasTrue hA hE hQ u a ha
      | false => exact h.setAliasFalse hA hE hQ u a ha
    | substitute m => exact h.substitute hA hE hQ m ha
  | setBase u v => exact h.setBase hA hE u v
  | calculate u => exact h.calculate hA hE u
  | recalculateAll => exact h.recalculateAll hA hE

theorem Inv.foldlAll (hA : Lawful A) (hE : EvalLawful A E) (hQ : Equivariant A E) (ops : List (Op D V)) :
    ∀ st : St D I V, Inv A E st → AdmissibleAllFrom A E st ops →
      Inv A E (ops.foldl (RSModelGen.step A E) st) := by
  induction ops with
  | nil => intro st h _; exact h
  | cons op ops ih =>
    intro st h ha
    rw [List.foldl_cons]
    exact ih _ (h.stepAll hA hE hQ ha.1) ha.2

theorem Inv.runAll (hA : Lawful A) (hE : EvalLawful A E) (hQ : Equivariant A E) {ops : List (Op D V)}
    (ha : AdmissibleAllFrom A E {} ops) : Inv A E (RSModelGen.run A E ops) :=
  Inv.foldlAll hA hE hQ ops {} Inv.init ha

/-- histories without `load` along which aliases stay pairwise distinct are admissible -/
theorem admissibleAllFrom_of_distinct (ops : List (Op D V)) : ∀ st : St D I V,
    (∀ op ∈ ops, ∀ c, op ≠ .schema (.load c)) →
    (∀ k, AliasesDistinct ((ops.take k).foldl (RSModelGen.step A E) st).sch) →
    AdmissibleAllFrom A E st ops := by
  induction ops with
  | nil => intro _ _ _; trivial
  | cons op ops ih =>
    intro st hl hd
    have h1 : AliasesDistinct (RSModelGen.step A E st op).sch := by
      have := hd 1
      rw [List.take_succ_cons, List.take_zero, List.foldl_cons, List.foldl_nil] at this
      exact this
    refine ⟨?_, ih _ (fun o ho => hl o (List.mem_cons_of_mem _ ho)) (fun k => ?_)⟩
    · cases op with
      | schema sop =>
        cases sop with
        | insert c => exact h1
        | load c => exact absurd rfl (hl _ (by simp) c)
        | updateState => trivial
        | erase u => trivial
        | setDef u d => trivial
        | setAlias u a sb => exact h1
        | substitute m => exact h1
      | setBase u v => trivial
      | calculate u => trivial
      | recalculateAll => trivial
    · have := hd (k + 1)
      rw [List.take_succ_cons, List.foldl_cons] at this
      exact this

end steps

end CCVerif.RSModelGen
