import CCVerif.Lemmas.EvaluatorFrame
/-!
Two-sided FRAME of the evaluator proper (`evalNorm`: name collector + `ASTInterpreter`) in the data
context: the outcome — value, error, iteration count — depends on the data context only at the names
of the ID_GLOBAL / ID_FUNCTION / ID_PREDICATE nodes of the (normalised) tree (`gnames`).

* `collect_congr` — induction over the fuel of `collect`;
* `evalNorm_frame`, `evaluate_frame_of_norm` (the latter with the names of the NORMALISED tree as a
  hypothesis; that the normaliser with an empty `SyntaxTreeContext` introduces no global name is
  `normalize_gnames_statement`, not proved here).
-/
namespace CCVerif.Eval
open CCVerif.Syntax CCVerif.Norm

def isGTok (t : Tok) : Bool := t == .ID_GLOBAL || t == .ID_FUNCTION || t == .ID_PREDICATE

mutual
/-- the names the collector can look up in the data context -/
def gnames : Ast → List String
  | .node t d lo hi ks => (if isGTok t then [textOf (.node t d lo hi ks)] else []) ++ gnamesL ks
def gnamesL : List Ast → List String
  | [] => []
  | k :: ks => gnames k ++ gnamesL ks
end

theorem mem_gnamesL {n : String} : ∀ {ks : List Ast}, n ∈ gnamesL ks ↔ ∃ k ∈ ks, n ∈ gnames k
  | [] => by simp [gnamesL]
  | k :: ks => by simp [gnamesL, mem_gnamesL (ks := ks)]

theorem gnames_kid {a k : Ast} {n : String} (hk : k ∈ a.kids) (hn : n ∈ gnames k) : n ∈ gnames a := by
  cases a with
  | node t d lo hi ks =>
    simp only [gnames, List.mem_append]
    exact Or.inr (mem_gnamesL.2 ⟨k, hk, hn⟩)

theorem gnames_self {a : Ast} (h : isGTok a.id = true) : textOf a ∈ gnames a := by
  cases a with
  | node t d lo hi ks =>
    simp only [gnames, List.mem_append]
    left
    have : isGTok t = true := h
    simp [this]

theorem foldl_congr_mem {α β : Type} {f g : β → α → β} : ∀ (l : List α) (b : β),
    (∀ b, ∀ x ∈ l, f b x = g b x) → l.foldl f b = l.foldl g b
  | [], _, _ => rfl
  | x :: xs, b, h => by
    simp only [List.foldl_cons]
    rw [h b x (List.mem_cons_self ..)]
    exact foldl_congr_mem xs _ (fun b y hy => h b y (List.mem_cons_of_mem _ hy))

theorem app_eq {r r' : CRes} (h : r = r') (g g' : CRes → CRes) (hgg : ∀ x, g x = g' x) : g r = g' r' := by
  subst h; exact hgg r

/-- **frame of the first pass**: the `NameCollector` reads the data context at the global names of the
tree only -/
theorem collect_congr {env env' : Env} :
    ∀ (fuel : Nat) (a : Ast) (nc : NC), (∀ n ∈ gnames a, lookup n env.globals = lookup n env'.globals) →
      collect env fuel a nc = collect env' fuel a nc := by
  intro fuel
  induction fuel with
  | zero => intro a nc _; simp only [collect]
  | succ fuel ih =>
    intro a nc h
    have hk : ∀ k ∈ a.kids, ∀ nc, collect env fuel k nc = collect env' fuel k nc :=
      fun k hk nc => ih k nc (fun n hn => h n (gnames_kid hk hn))
    have hmerge : ∀ (acc : CRes),
        (a.kids.foldl (fun acc k =>
            match acc with
            | .fail f => .fail f
            | .ok vars _ nc =>
              match collect env fuel k nc with
              | .fail f => .fail f
              | .ok vs _ nc' => .ok (vars ++ vs) (!(vars ++ vs).isEmpty) nc') acc) =
          (a.kids.foldl (fun acc k =>
            match acc with
            | .fail f => .fail f
            | .ok vars _ nc =>
              match collect env' fuel k nc with
              | .fail f => .fail f
              | .ok vs _ nc' => .ok (vars ++ vs) (!(vars ++ vs).isEmpty) nc') acc) := by
      intro acc
      apply foldl_congr_mem
      intro b k hkm
      cases b with
      | fail f => rfl
      | ok vars al nc1 => simp only; rw [hk k hkm]
    simp only [collect]
    split
    · -- `ViGlobalDeclaration`
      split
      · rfl
      · split
        · rfl
        · split
          · split
            · rename_i k1 hkk
              rw [hk k1 (by rw [hkk]; simp)]
            · rfl
          · rfl
    · split
      · -- `ViGlobal`
        rename_i hg
        split
        · rfl
        · rw [h (textOf a) (gnames_self (by simpa [isGTok] using hg))]
      · split
        · rfl
        · split
          · -- binders
            refine app_eq (hmerge (.ok [] false nc))
              (fun r => match r with
                | .fail f => .fail f
                | .ok vars alloc nc' =>
                  match a.kids.head? with
                  | none => .fail (.stuck "NameCollector::ViQuantifier Child(0)")
                  | some k0 =>
                    match collect env fuel k0 nc' with
                    | .ok (v :: _) _ _ => .ok (eraseAll v vars) alloc nc'
                    | .ok [] true _ => .ok vars alloc nc'
                    | .ok [] false _ => .fail (.stuck "NameCollector::ViQuantifier *begin(empty)")
                    | .fail f => .fail f)
              (fun r => match r with
                | .fail f => .fail f
                | .ok vars alloc nc' =>
                  match a.kids.head? with
                  | none => .fail (.stuck "NameCollector::ViQuantifier Child(0)")
                  | some k0 =>
                    match collect env' fuel k0 nc' with
                    | .ok (v :: _) _ _ => .ok (eraseAll v vars) alloc nc'
                    | .ok [] true _ => .ok vars alloc nc'
                    | .ok [] false _ => .fail (.stuck "NameCollector::ViQuantifier *begin(empty)")
                    | .fail f => .fail f) ?_
            intro r
            cases r with
            | fail f => rfl
            | ok vars alloc nc' =>
              simp only
              cases hh : a.kids.head? with
              | none => rfl
              | some k0 =>
                simp only
                rw [hk k0 (List.mem_of_mem_head? hh)]
          · split
            · -- `ViImperative`
              refine app_eq (hmerge (.ok [] false nc))
                (fun r => match r with
                  | .fail f => .fail f
                  | .ok vars alloc nc' =>
                    match a.kids with
                    | [] => .fail (.stuck "NameCollector::ViImperative MoveToChild(1)")
                    | [_] => .fail (.stuck "NameCollector::ViImperative MoveToChild(1)")
                    | _ :: blocks =>
                      blocks.foldl (fun (acc : CRes) b =>
                        match acc with
                        | .fail f => .fail f
                        | .ok vs al nc2 =>
                          if b.id == .ITERATE || b.id == .ASSIGN then
                            match b.kids.head? with
                            | none => .fail (.stuck "NameCollector::ViImperative Child(0)")
                            | some d =>
                              match collect env fuel d nc2 with
                              | .ok (v :: _) _ _ => .ok (eraseAll v vs) al nc2
                              | .ok [] _ _ => .fail (.stuck "NameCollector::ViImperative *begin(empty)")
                              | .fail f => .fail f
                          else .ok vs al nc2) (.ok vars alloc nc'))
                (fun r => match r with
                  | .fail f => .fail f
                  | .ok vars alloc nc' =>
                    match a.kids with
                    | [] => .fail (.stuck "NameCollector::ViImperative MoveToChild(1)")
                    | [_] => .fail (.stuck "NameCollector::ViImperative MoveToChild(1)")
                    | _ :: blocks =>
                      blocks.foldl (fun (acc : CRes) b =>
                        match acc with
                        | .fail f => .fail f
                        | .ok vs al nc2 =>
                          if b.id == .ITERATE || b.id == .ASSIGN then
                            match b.kids.head? with
                            | none => .fail (.stuck "NameCollector::ViImperative Child(0)")
                            | some d =>
                              match collect env' fuel d nc2 with
                              | .ok (v :: _) _ _ => .ok (eraseAll v vs) al nc2
                              | .ok [] _ _ => .fail (.stuck "NameCollector::ViImperative *begin(empty)")
                              | .fail f => .fail f
                          else .ok vs al nc2) (.ok vars alloc nc')) ?_
              intro r
              cases r with
              | fail f => rfl
              | ok vars alloc nc' =>
                simp only
                split
                · rfl
                · rfl
                · rename_i k0 blocks hne hkk
                  apply foldl_congr_mem
                  intro acc b hb
                  cases acc with
                  | fail f => rfl
                  | ok vs al nc2 =>
                    simp only
                    split
                    · cases hh : b.kids.head? with
                      | none => rfl
                      | some d =>
                        simp only
                        have hbk : b ∈ a.kids := by rw [hkk]; exact List.mem_cons_of_mem _ hb
                        rw [ih d nc2 (fun n hn => h n (gnames_kid hbk (gnames_kid (List.mem_of_mem_head? hh) hn)))]
                    · rfl
            · exact hmerge (.ok [] false nc)

/-- the evaluator proper reads the data context at the global names of the tree only -/
theorem evalNorm_frame {env env' : Env} (fuel : Nat) (tree : Ast)
    (h : ∀ n ∈ gnames tree, lookup n env.globals = lookup n env'.globals) :
    evalNorm fuel env tree = evalNorm fuel env' tree := by
  unfold evalNorm
  rw [collect_congr fuel tree {} h]

/-- `Interpreter::Evaluate`, given the names of the normalised tree -/
theorem evaluate_frame_of_norm {env env' : Env} (hf : env'.funcs = env.funcs) (fuel : Nat) (tree : Ast)
    (h : ∀ nt, normalizeTree env.funcs fuel tree = some nt →
      ∀ n ∈ gnames nt, lookup n env.globals = lookup n env'.globals) :
    evaluate fuel env tree = evaluate fuel env' tree := by
  unfold evaluate
  rw [hf]
  cases hn : normalizeTree env.funcs fuel tree with
  | none => rfl
  | some nt => exact evalNorm_frame fuel nt (h nt hn)

/-- the normaliser with an empty `SyntaxTreeContext` introduces no global name (it rearranges and copies
subtrees and creates ID_LOCAL / SMALLPR nodes only) — NOT proved here -/
def normalize_gnames_statement : Prop :=
  ∀ (fuel : Nat) (tree nt : Ast), normalizeTree [] fuel tree = some nt → ∀ n ∈ gnames nt, n ∈ gnames tree

end CCVerif.Eval
