import CCVerif.Lemmas.ParseRenderTop
/-!
Helper development for `parse_renders_parens` (C06), part C: the rendering `R3` against the fragment `E3`.
`erase` (forget the redundant pairs) keeps well-formedness and the tree; the canonical rendering `ofE3 e` is a
rendering, has the printer's token sequence and erases to `e`; hence every rendering parses to the tree of the
canonical rendering (`parse_render`). Then the grammar facts of the property as corollaries: grouping of two
binary operators by precedence / left associativity, flattening of unparenthesised products, scope of a quantifier.
-/
namespace CCVerif.PR
open CCVerif.Syntax CCVerif.Generated CCVerif.Lexer CCVerif.Parser CCVerif.Printer CCVerif.PP
open CCVerif.PP3 (E3)

/-! ## `erase` -/

theorem isS_erase : ∀ r : R3, r.erase.isS = r.isS
  | .par a => by simp only [R3.erase, R3.isS]; exact isS_erase a
  | .atom .. | .text .. | .sbin .. | .prod2 .. | .prodN .. | .pred .. | .neg _ | .lbin .. | .pow _ | .one _ | .more ..
  | .enum _ | .tuple .. | .fcall .. | .pcall .. | .filter .. | .quant .. | .decl .. | .recS .. | .recF .. | .imp ..
  | .bone _ | .boneK .. | .bmore .. | .bmoreK .. => rfl

theorem isL_erase : ∀ r : R3, r.erase.isL = r.isL
  | .par a => by simp only [R3.erase, R3.isL]; exact isL_erase a
  | .atom .. | .text .. | .sbin .. | .prod2 .. | .prodN .. | .pred .. | .neg _ | .lbin .. | .pow _ | .one _ | .more ..
  | .enum _ | .tuple .. | .fcall .. | .pcall .. | .filter .. | .quant .. | .decl .. | .recS .. | .recF .. | .imp ..
  | .bone _ | .boneK .. | .bmore .. | .bmoreK .. => rfl

theorem isA_erase {r : R3} (h : r.isA = true) : r.erase.isA = true := by
  cases r <;> simp [R3.isA] at h <;> rfl

theorem isB_erase {r : R3} (h : r.isB = true) : r.erase.isB = true := by
  cases r <;> simp [R3.isB] at h <;> rfl

theorem isProd_erase {r : R3} (h : r.isProd = true) : r.erase.isProd = true := by
  cases r <;> simp [R3.isProd] at h <;> rfl

theorem isVar_erase : ∀ {r : R3}, r.isVar = true → r.erase.isVar = true
  | .atom id d, h => h
  | .tuple a l, h => by
    simp only [R3.isVar, Bool.and_eq_true] at h
    simp only [R3.erase, E3.isVar, Bool.and_eq_true]; exact ⟨isVar_erase h.1, isVar_erase h.2⟩
  | .one a, h => by simp only [R3.isVar] at h; simp only [R3.erase, E3.isVar]; exact isVar_erase h
  | .more a l, h => by
    simp only [R3.isVar, Bool.and_eq_true] at h
    simp only [R3.erase, E3.isVar, Bool.and_eq_true]; exact ⟨isVar_erase h.1, isVar_erase h.2⟩
  | .text .., h | .sbin .., h | .prod2 .., h | .prodN .., h | .pred .., h | .neg _, h | .lbin .., h | .pow _, h
  | .enum _, h | .fcall .., h | .pcall .., h | .filter .., h | .quant .., h | .decl .., h | .recS .., h | .recF .., h
  | .imp .., h | .bone _, h | .boneK .., h | .bmore .., h | .bmoreK .., h | .par _, h => by simp [R3.isVar] at h

/-- a variable (or list of variables) contains no redundant pair: its declaration tree is unchanged -/
theorem dast_erase : ∀ {r : R3}, r.isVar = true → r.erase.dast = r.dast
  | .atom id d, _ => rfl
  | .tuple a l, h => by
    simp only [R3.isVar, Bool.and_eq_true] at h
    simp only [R3.erase, E3.dast, R3.dast, dast_erase h.1, dast_erase h.2]
  | .one a, h => by simp only [R3.isVar] at h; simp only [R3.erase, E3.dast, R3.dast, dast_erase h]
  | .more a l, h => by
    simp only [R3.isVar, Bool.and_eq_true] at h
    simp only [R3.erase, E3.dast, R3.dast, dast_erase h.1, dast_erase h.2]
  | .text .., h | .sbin .., h | .prod2 .., h | .prodN .., h | .pred .., h | .neg _, h | .lbin .., h | .pow _, h
  | .enum _, h | .fcall .., h | .pcall .., h | .filter .., h | .quant .., h | .decl .., h | .recS .., h | .recF .., h
  | .imp .., h | .bone _, h | .boneK .., h | .bmore .., h | .bmoreK .., h | .par _, h => by simp [R3.isVar] at h

theorem declOf_erase {r : R3} (h : r.isVar = true) : r.erase.declOf = r.declOf := by
  cases r with
  | one v =>
    simp only [R3.isVar] at h
    simp only [R3.erase, E3.declOf, R3.declOf, dast_erase h]
  | more a l =>
    have := dast_erase h
    simp only [R3.erase] at this
    simp only [R3.erase, E3.declOf, R3.declOf, this]
  | atom id d => rfl
  | tuple a l =>
    have := dast_erase h
    simp only [R3.erase] at this
    simp only [R3.erase, E3.declOf, R3.declOf, this]
  | _ => simp [R3.isVar] at h

/-- **the redundant parentheses leave no trace**: a rendering has the tree of the term it denotes -/
theorem ast_erase : ∀ r : R3, r.wf = true → r.erase.ast = r.ast
  | .atom .., _ => rfl
  | .text f d a, hw => by
    simp only [R3.wf, Bool.and_eq_true] at hw
    simp only [R3.erase, E3.ast, R3.ast, ast_erase a hw.2]
  | .sbin op l r, hw => by
    simp only [R3.wf, Bool.and_eq_true] at hw
    simp only [R3.erase, E3.ast, R3.ast, ast_erase l hw.1.2, ast_erase r hw.2]
  | .prod2 a b, hw => by
    simp only [R3.wf, Bool.and_eq_true] at hw
    simp only [R3.erase, E3.ast, R3.ast, ast_erase a hw.1.2, ast_erase b hw.2]
  | .prodN p k, hw => by
    simp only [R3.wf, Bool.and_eq_true] at hw
    simp only [R3.erase, E3.ast, R3.ast, ast_erase p hw.1.2, ast_erase k hw.2]
  | .pred op l r, hw => by
    simp only [R3.wf, Bool.and_eq_true] at hw
    simp only [R3.erase, E3.ast, R3.ast, ast_erase l hw.1.2, ast_erase r hw.2]
  | .neg x, hw => by
    simp only [R3.wf, Bool.and_eq_true] at hw
    simp only [R3.erase, E3.ast, R3.ast, ast_erase x hw.2]
  | .lbin op l r, hw => by
    simp only [R3.wf, Bool.and_eq_true] at hw
    simp only [R3.erase, E3.ast, R3.ast, ast_erase l hw.1.2, ast_erase r hw.2]
  | .pow a, hw => by
    simp only [R3.wf, Bool.and_eq_true] at hw
    simp only [R3.erase, E3.ast, R3.ast, ast_erase a hw.2]
  | .one a, hw => by
    simp only [R3.wf, Bool.and_eq_true] at hw
    simp only [R3.erase, E3.ast, R3.ast, ast_erase a hw.2]
  | .more a l, hw => by
    simp only [R3.wf, Bool.and_eq_true] at hw
    simp only [R3.erase, E3.ast, R3.ast, ast_erase a hw.1.2, ast_erase l hw.2]
  | .enum l, hw => by
    simp only [R3.wf, Bool.and_eq_true] at hw
    simp only [R3.erase, E3.ast, R3.ast, ast_erase l hw.2]
  | .tuple a l, hw => by
    simp only [R3.wf, Bool.and_eq_true] at hw
    simp only [R3.erase, E3.ast, R3.ast, ast_erase a hw.1.2, ast_erase l hw.2]
  | .fcall d l, hw => by
    simp only [R3.wf, Bool.and_eq_true] at hw
    simp only [R3.erase, E3.ast, R3.ast, ast_erase l hw.2]
  | .pcall d l, hw => by
    simp only [R3.wf, Bool.and_eq_true] at hw
    simp only [R3.erase, E3.ast, R3.ast, ast_erase l hw.2]
  | .filter d ps arg, hw => by
    simp only [R3.wf, Bool.and_eq_true] at hw
    simp only [R3.erase, E3.ast, R3.ast, ast_erase ps hw.1.2, ast_erase arg hw.2]
  | .quant q vs dom body, hw => by
    simp only [R3.wf, Bool.and_eq_true] at hw
    simp only [R3.erase, E3.ast, R3.ast, declOf_erase hw.1.1.1.1.1.2, ast_erase dom hw.1.2, ast_erase body hw.2]
  | .decl v dom body, hw => by
    simp only [R3.wf, Bool.and_eq_true] at hw
    simp only [R3.erase, E3.ast, R3.ast, dast_erase hw.1.1.1.1.1.1.2, ast_erase dom hw.1.2, ast_erase body hw.2]
  | .recS v d s, hw => by
    simp only [R3.wf, Bool.and_eq_true] at hw
    simp only [R3.erase, E3.ast, R3.ast, dast_erase hw.1.1.1.1.1.2, ast_erase d hw.1.2, ast_erase s hw.2]
  | .recF v d c s, hw => by
    simp only [R3.wf, Bool.and_eq_true] at hw
    simp only [R3.erase, E3.ast, R3.ast, dast_erase hw.1.1.1.1.1.1.1.1.2, ast_erase d hw.1.1.2, ast_erase c hw.1.2,
      ast_erase s hw.2]
  | .imp val bs, hw => by
    simp only [R3.wf, Bool.and_eq_true] at hw
    simp only [R3.erase, E3.ast, R3.ast, ast_erase val hw.1.2, ast_erase bs hw.2]
  | .bone b, hw => by
    simp only [R3.wf, Bool.and_eq_true] at hw
    simp only [R3.erase, E3.ast, R3.ast, ast_erase b hw.2]
  | .boneK op v s, hw => by
    simp only [R3.wf, Bool.and_eq_true] at hw
    simp only [R3.erase, E3.ast, R3.ast, dast_erase hw.1.1.1.2, ast_erase s hw.2]
  | .bmore b l, hw => by
    simp only [R3.wf, Bool.and_eq_true] at hw
    simp only [R3.erase, E3.ast, R3.ast, ast_erase b hw.1.2, ast_erase l hw.2]
  | .bmoreK op v s l, hw => by
    simp only [R3.wf, Bool.and_eq_true] at hw
    simp only [R3.erase, E3.ast, R3.ast, dast_erase hw.1.1.1.1.1.2, ast_erase s hw.1.2, ast_erase l hw.2]
  | .par a, hw => by
    simp only [R3.wf, Bool.and_eq_true] at hw
    simp only [R3.erase, R3.ast, ast_erase a hw.2]

/-- the term a well-formed rendering denotes is a well-formed term of the fragment -/
theorem wf_erase : ∀ r : R3, r.wf = true → r.erase.wf = true
  | .atom .., hw => hw
  | .text f d a, hw => by
    simp only [R3.wf, Bool.and_eq_true] at hw
    simp only [R3.erase, E3.wf, Bool.and_eq_true, isS_erase]
    exact ⟨hw.1, wf_erase a hw.2⟩
  | .sbin op l r, hw => by
    simp only [R3.wf, Bool.and_eq_true] at hw
    simp only [R3.erase, E3.wf, Bool.and_eq_true, isS_erase]
    exact ⟨⟨hw.1.1, wf_erase l hw.1.2⟩, wf_erase r hw.2⟩
  | .prod2 a b, hw => by
    simp only [R3.wf, Bool.and_eq_true] at hw
    simp only [R3.erase, E3.wf, Bool.and_eq_true, isS_erase]
    exact ⟨⟨hw.1.1, wf_erase a hw.1.2⟩, wf_erase b hw.2⟩
  | .prodN p k, hw => by
    simp only [R3.wf, Bool.and_eq_true] at hw
    simp only [R3.erase, E3.wf, Bool.and_eq_true, isS_erase]
    exact ⟨⟨⟨isProd_erase hw.1.1.1, hw.1.1.2⟩, wf_erase p hw.1.2⟩, wf_erase k hw.2⟩
  | .pred op l r, hw => by
    simp only [R3.wf, Bool.and_eq_true] at hw
    simp only [R3.erase, E3.wf, Bool.and_eq_true, isS_erase]
    exact ⟨⟨hw.1.1, wf_erase l hw.1.2⟩, wf_erase r hw.2⟩
  | .neg x, hw => by
    simp only [R3.wf, Bool.and_eq_true] at hw
    simp only [R3.erase, E3.wf, Bool.and_eq_true, isL_erase]
    exact ⟨hw.1, wf_erase x hw.2⟩
  | .lbin op l r, hw => by
    simp only [R3.wf, Bool.and_eq_true] at hw
    simp only [R3.erase, E3.wf, Bool.and_eq_true, isL_erase]
    exact ⟨⟨hw.1.1, wf_erase l hw.1.2⟩, wf_erase r hw.2⟩
  | .pow a, hw => by
    simp only [R3.wf, Bool.and_eq_true] at hw
    simp only [R3.erase, E3.wf, Bool.and_eq_true, isS_erase]
    exact ⟨hw.1, wf_erase a hw.2⟩
  | .one a, hw => by
    simp only [R3.wf, Bool.and_eq_true] at hw
    simp only [R3.erase, E3.wf, Bool.and_eq_true, isS_erase]
    exact ⟨hw.1, wf_erase a hw.2⟩
  | .more a l, hw => by
    simp only [R3.wf, Bool.and_eq_true] at hw
    simp only [R3.erase, E3.wf, Bool.and_eq_true, isS_erase]
    exact ⟨⟨⟨hw.1.1.1, isA_erase hw.1.1.2⟩, wf_erase a hw.1.2⟩, wf_erase l hw.2⟩
  | .enum l, hw => by
    simp only [R3.wf, Bool.and_eq_true] at hw
    simp only [R3.erase, E3.wf, Bool.and_eq_true]
    exact ⟨isA_erase hw.1, wf_erase l hw.2⟩
  | .tuple a l, hw => by
    simp only [R3.wf, Bool.and_eq_true] at hw
    simp only [R3.erase, E3.wf, Bool.and_eq_true, isS_erase]
    exact ⟨⟨⟨hw.1.1.1, isA_erase hw.1.1.2⟩, wf_erase a hw.1.2⟩, wf_erase l hw.2⟩
  | .fcall d l, hw => by
    simp only [R3.wf, Bool.and_eq_true] at hw
    simp only [R3.erase, E3.wf, Bool.and_eq_true]
    exact ⟨isA_erase hw.1, wf_erase l hw.2⟩
  | .pcall d l, hw => by
    simp only [R3.wf, Bool.and_eq_true] at hw
    simp only [R3.erase, E3.wf, Bool.and_eq_true]
    exact ⟨isA_erase hw.1, wf_erase l hw.2⟩
  | .filter d ps arg, hw => by
    simp only [R3.wf, Bool.and_eq_true] at hw
    simp only [R3.erase, E3.wf, Bool.and_eq_true, isS_erase]
    exact ⟨⟨⟨isA_erase hw.1.1.1, hw.1.1.2⟩, wf_erase ps hw.1.2⟩, wf_erase arg hw.2⟩
  | .quant q vs dom body, hw => by
    simp only [R3.wf, Bool.and_eq_true] at hw
    obtain ⟨⟨⟨⟨⟨⟨⟨hq, hvA⟩, hvV⟩, hdS⟩, hbL⟩, hvw⟩, hdw⟩, hbw⟩ := hw
    simp only [R3.erase, E3.wf, Bool.and_eq_true, isS_erase, isL_erase]
    exact ⟨⟨⟨⟨⟨⟨⟨hq, isA_erase hvA⟩, isVar_erase hvV⟩, hdS⟩, hbL⟩, wf_erase vs hvw⟩, wf_erase dom hdw⟩, wf_erase body hbw⟩
  | .decl v dom body, hw => by
    simp only [R3.wf, Bool.and_eq_true] at hw
    obtain ⟨⟨⟨⟨⟨⟨⟨hvS, hvV⟩, hdS⟩, hbL⟩, _⟩, hvw⟩, hdw⟩, hbw⟩ := hw
    simp only [R3.erase, E3.wf, Bool.and_eq_true, isS_erase, isL_erase]
    exact ⟨⟨⟨⟨⟨⟨hvS, isVar_erase hvV⟩, hdS⟩, hbL⟩, wf_erase v hvw⟩, wf_erase dom hdw⟩, wf_erase body hbw⟩
  | .recS v d s, hw => by
    simp only [R3.wf, Bool.and_eq_true] at hw
    obtain ⟨⟨⟨⟨⟨⟨hvS, hvV⟩, hdS⟩, hsS⟩, hvw⟩, hdw⟩, hsw⟩ := hw
    simp only [R3.erase, E3.wf, Bool.and_eq_true, isS_erase]
    exact ⟨⟨⟨⟨⟨⟨hvS, isVar_erase hvV⟩, hdS⟩, hsS⟩, wf_erase v hvw⟩, wf_erase d hdw⟩, wf_erase s hsw⟩
  | .recF v d c s, hw => by
    simp only [R3.wf, Bool.and_eq_true] at hw
    obtain ⟨⟨⟨⟨⟨⟨⟨⟨⟨hvS, hvV⟩, hdS⟩, hcL⟩, _⟩, hsS⟩, hvw⟩, hdw⟩, hcw⟩, hsw⟩ := hw
    simp only [R3.erase, E3.wf, Bool.and_eq_true, isS_erase, isL_erase]
    exact ⟨⟨⟨⟨⟨⟨⟨⟨hvS, isVar_erase hvV⟩, hdS⟩, hcL⟩, hsS⟩, wf_erase v hvw⟩, wf_erase d hdw⟩, wf_erase c hcw⟩, wf_erase s hsw⟩
  | .imp val bs, hw => by
    simp only [R3.wf, Bool.and_eq_true] at hw
    simp only [R3.erase, E3.wf, Bool.and_eq_true, isS_erase]
    exact ⟨⟨⟨hw.1.1.1, isB_erase hw.1.1.2⟩, wf_erase val hw.1.2⟩, wf_erase bs hw.2⟩
  | .bone b, hw => by
    simp only [R3.wf, Bool.and_eq_true] at hw
    simp only [R3.erase, E3.wf, Bool.and_eq_true, isL_erase]
    exact ⟨hw.1.1, wf_erase b hw.2⟩
  | .boneK op v s, hw => by
    simp only [R3.wf, Bool.and_eq_true] at hw
    obtain ⟨⟨⟨⟨⟨hop, hvS⟩, hvV⟩, hsS⟩, hvw⟩, hsw⟩ := hw
    simp only [R3.erase, E3.wf, Bool.and_eq_true, isS_erase]
    exact ⟨⟨⟨⟨⟨hop, hvS⟩, isVar_erase hvV⟩, hsS⟩, wf_erase v hvw⟩, wf_erase s hsw⟩
  | .bmore b l, hw => by
    simp only [R3.wf, Bool.and_eq_true] at hw
    obtain ⟨⟨⟨⟨hbL, _⟩, hlB⟩, hbw⟩, hlw⟩ := hw
    simp only [R3.erase, E3.wf, Bool.and_eq_true, isL_erase]
    exact ⟨⟨⟨hbL, isB_erase hlB⟩, wf_erase b hbw⟩, wf_erase l hlw⟩
  | .bmoreK op v s l, hw => by
    simp only [R3.wf, Bool.and_eq_true] at hw
    obtain ⟨⟨⟨⟨⟨⟨⟨hop, hvS⟩, hvV⟩, hsS⟩, hlB⟩, hvw⟩, hsw⟩, hlw⟩ := hw
    simp only [R3.erase, E3.wf, Bool.and_eq_true, isS_erase]
    exact ⟨⟨⟨⟨⟨⟨⟨hop, hvS⟩, isVar_erase hvV⟩, hsS⟩, isB_erase hlB⟩, wf_erase v hvw⟩, wf_erase s hsw⟩, wf_erase l hlw⟩
  | .par a, hw => by
    simp only [R3.wf, Bool.and_eq_true] at hw
    exact wf_erase a hw.2

/-! ## the canonical rendering -/

theorem erase_ofE3 : ∀ e : E3, (ofE3 e).erase = e
  | .atom .. => rfl
  | .text f d a => by simp only [ofE3, R3.erase, erase_ofE3 a]
  | .sbin op l r => by simp only [ofE3, R3.erase, erase_ofE3 l, erase_ofE3 r]
  | .prod2 a b => by simp only [ofE3, R3.erase, erase_ofE3 a, erase_ofE3 b]
  | .prodN p k => by simp only [ofE3, R3.erase, erase_ofE3 p, erase_ofE3 k]
  | .pred op l r => by simp only [ofE3, R3.erase, erase_ofE3 l, erase_ofE3 r]
  | .neg x => by simp only [ofE3, R3.erase, erase_ofE3 x]
  | .lbin op l r => by simp only [ofE3, R3.erase, erase_ofE3 l, erase_ofE3 r]
  | .pow a => by simp only [ofE3, R3.erase, erase_ofE3 a]
  | .one a => by simp only [ofE3, R3.erase, erase_ofE3 a]
  | .more a l => by simp only [ofE3, R3.erase, erase_ofE3 a, erase_ofE3 l]
  | .enum l => by simp only [ofE3, R3.erase, erase_ofE3 l]
  | .tuple a l => by simp only [ofE3, R3.erase, erase_ofE3 a, erase_ofE3 l]
  | .fcall d l => by simp only [ofE3, R3.erase, erase_ofE3 l]
  | .pcall d l => by simp only [ofE3, R3.erase, erase_ofE3 l]
  | .filter d ps arg => by simp only [ofE3, R3.erase, erase_ofE3 ps, erase_ofE3 arg]
  | .quant q vs dom body => by simp only [ofE3, R3.erase, erase_ofE3 vs, erase_ofE3 dom, erase_ofE3 body]
  | .decl v dom body => by simp only [ofE3, R3.erase, erase_ofE3 v, erase_ofE3 dom, erase_ofE3 body]
  | .recS v d s => by simp only [ofE3, R3.erase, erase_ofE3 v, erase_ofE3 d, erase_ofE3 s]
  | .recF v d c s => by simp only [ofE3, R3.erase, erase_ofE3 v, erase_ofE3 d, erase_ofE3 c, erase_ofE3 s]
  | .imp val bs => by simp only [ofE3, R3.erase, erase_ofE3 val, erase_ofE3 bs]
  | .bone b => by simp only [ofE3, R3.erase, erase_ofE3 b]
  | .boneK op v s => by simp only [ofE3, R3.erase, erase_ofE3 v, erase_ofE3 s]
  | .bmore b l => by simp only [ofE3, R3.erase, erase_ofE3 b, erase_ofE3 l]
  | .bmoreK op v s l => by simp only [ofE3, R3.erase, erase_ofE3 v, erase_ofE3 s, erase_ofE3 l]

theorem top_ofE3 (e : E3) : (ofE3 e).top = e.top := by cases e <;> rfl
theorem isPow_ofE3 (e : E3) : (ofE3 e).isPow = e.isPow := by cases e <;> rfl
theorem isPar_ofE3 (e : E3) : (ofE3 e).isPar = false := by cases e <;> rfl
theorem isS_ofE3 (e : E3) : (ofE3 e).isS = e.isS := by cases e <;> rfl
theorem isL_ofE3 (e : E3) : (ofE3 e).isL = e.isL := by cases e <;> rfl
theorem isA_ofE3 (e : E3) : (ofE3 e).isA = e.isA := by cases e <;> rfl
theorem isB_ofE3 (e : E3) : (ofE3 e).isB = e.isB := by cases e <;> rfl
theorem isProd_ofE3 (e : E3) : (ofE3 e).isProd = e.isProd := by cases e <;> rfl

theorem isVar_ofE3 : ∀ e : E3, (ofE3 e).isVar = e.isVar
  | .atom .. => rfl
  | .tuple a l => by simp only [ofE3, R3.isVar, E3.isVar, isVar_ofE3 a, isVar_ofE3 l]
  | .one a => by simp only [ofE3, R3.isVar, E3.isVar, isVar_ofE3 a]
  | .more a l => by simp only [ofE3, R3.isVar, E3.isVar, isVar_ofE3 a, isVar_ofE3 l]
  | .text .. | .sbin .. | .prod2 .. | .prodN .. | .pred .. | .neg _ | .lbin .. | .pow _ | .enum _ | .fcall ..
  | .pcall .. | .filter .. | .quant .. | .decl .. | .recS .. | .recF .. | .imp .. | .bone _ | .boneK .. | .bmore ..
  | .bmoreK .. => rfl

/-- **the canonical rendering is the printer's token sequence** -/
theorem toks_ofE3 : ∀ e : E3, (ofE3 e).toks = e.toks
  | .atom .. => rfl
  | .text f d a => by simp only [ofE3, R3.toks, E3.toks, toks_ofE3 a]
  | .sbin op l r => by simp only [ofE3, R3.toks, E3.toks, toks_ofE3 l, toks_ofE3 r, top_ofE3]
  | .prod2 a b => by simp only [ofE3, R3.toks, E3.toks, toks_ofE3 a, toks_ofE3 b, top_ofE3]
  | .prodN p k => by simp only [ofE3, R3.toks, E3.toks, toks_ofE3 p, toks_ofE3 k, top_ofE3]
  | .pred op l r => by simp only [ofE3, R3.toks, E3.toks, toks_ofE3 l, toks_ofE3 r]
  | .neg x => by simp only [ofE3, R3.toks, E3.toks, toks_ofE3 x, top_ofE3]
  | .lbin op l r => by simp only [ofE3, R3.toks, E3.toks, toks_ofE3 l, toks_ofE3 r, top_ofE3]
  | .pow a => by simp only [ofE3, R3.toks, E3.toks, toks_ofE3 a, isPow_ofE3]
  | .one a => by simp only [ofE3, R3.toks, E3.toks, toks_ofE3 a]
  | .more a l => by simp only [ofE3, R3.toks, E3.toks, toks_ofE3 a, toks_ofE3 l]
  | .enum l => by simp only [ofE3, R3.toks, E3.toks, toks_ofE3 l]
  | .tuple a l => by simp only [ofE3, R3.toks, E3.toks, toks_ofE3 a, toks_ofE3 l]
  | .fcall d l => by simp only [ofE3, R3.toks, E3.toks, toks_ofE3 l]
  | .pcall d l => by simp only [ofE3, R3.toks, E3.toks, toks_ofE3 l]
  | .filter d ps arg => by simp only [ofE3, R3.toks, E3.toks, toks_ofE3 ps, toks_ofE3 arg]
  | .quant q vs dom body => by simp only [ofE3, R3.toks, E3.toks, toks_ofE3 vs, toks_ofE3 dom, toks_ofE3 body, top_ofE3]
  | .decl v dom body => by simp only [ofE3, R3.toks, E3.toks, toks_ofE3 v, toks_ofE3 dom, toks_ofE3 body]
  | .recS v d s => by simp only [ofE3, R3.toks, E3.toks, toks_ofE3 v, toks_ofE3 d, toks_ofE3 s]
  | .recF v d c s => by simp only [ofE3, R3.toks, E3.toks, toks_ofE3 v, toks_ofE3 d, toks_ofE3 c, toks_ofE3 s]
  | .imp val bs => by simp only [ofE3, R3.toks, E3.toks, toks_ofE3 val, toks_ofE3 bs]
  | .bone b => by simp only [ofE3, R3.toks, E3.toks, toks_ofE3 b]
  | .boneK op v s => by simp only [ofE3, R3.toks, E3.toks, toks_ofE3 v, toks_ofE3 s]
  | .bmore b l => by simp only [ofE3, R3.toks, E3.toks, toks_ofE3 b, toks_ofE3 l]
  | .bmoreK op v s l => by simp only [ofE3, R3.toks, E3.toks, toks_ofE3 v, toks_ofE3 s, toks_ofE3 l]

/-- the canonical rendering of a well-formed term is a well-formed rendering -/
theorem wf_ofE3 : ∀ e : E3, e.wf = true → (ofE3 e).wf = true
  | .atom .., hw => hw
  | .text f d a, hw => by
    simp only [E3.wf, Bool.and_eq_true] at hw
    simp only [ofE3, R3.wf, Bool.and_eq_true, isS_ofE3]
    exact ⟨hw.1, wf_ofE3 a hw.2⟩
  | .sbin op l r, hw => by
    simp only [E3.wf, Bool.and_eq_true] at hw
    simp only [ofE3, R3.wf, Bool.and_eq_true, isS_ofE3]
    exact ⟨⟨hw.1.1, wf_ofE3 l hw.1.2⟩, wf_ofE3 r hw.2⟩
  | .prod2 a b, hw => by
    simp only [E3.wf, Bool.and_eq_true] at hw
    simp only [ofE3, R3.wf, Bool.and_eq_true, isS_ofE3]
    exact ⟨⟨hw.1.1, wf_ofE3 a hw.1.2⟩, wf_ofE3 b hw.2⟩
  | .prodN p k, hw => by
    simp only [E3.wf, Bool.and_eq_true] at hw
    simp only [ofE3, R3.wf, Bool.and_eq_true, isS_ofE3, isProd_ofE3]
    exact ⟨⟨hw.1.1, wf_ofE3 p hw.1.2⟩, wf_ofE3 k hw.2⟩
  | .pred op l r, hw => by
    simp only [E3.wf, Bool.and_eq_true] at hw
    simp only [ofE3, R3.wf, Bool.and_eq_true, isS_ofE3]
    exact ⟨⟨hw.1.1, wf_ofE3 l hw.1.2⟩, wf_ofE3 r hw.2⟩
  | .neg x, hw => by
    simp only [E3.wf, Bool.and_eq_true] at hw
    simp only [ofE3, R3.wf, Bool.and_eq_true, isL_ofE3]
    exact ⟨hw.1, wf_ofE3 x hw.2⟩
  | .lbin op l r, hw => by
    simp only [E3.wf, Bool.and_eq_true] at hw
    simp only [ofE3, R3.wf, Bool.and_eq_true, isL_ofE3]
    exact ⟨⟨hw.1.1, wf_ofE3 l hw.1.2⟩, wf_ofE3 r hw.2⟩
  | .pow a, hw => by
    simp only [E3.wf, Bool.and_eq_true] at hw
    simp only [ofE3, R3.wf, Bool.and_eq_true, isS_ofE3]
    exact ⟨hw.1, wf_ofE3 a hw.2⟩
  | .one a, hw => by
    simp only [E3.wf, Bool.and_eq_true] at hw
    simp only [ofE3, R3.wf, Bool.and_eq_true, isS_ofE3]
    exact ⟨hw.1, wf_ofE3 a hw.2⟩
  | .more a l, hw => by
    simp only [E3.wf, Bool.and_eq_true] at hw
    simp only [ofE3, R3.wf, Bool.and_eq_true, isS_ofE3, isA_ofE3]
    exact ⟨⟨hw.1.1, wf_ofE3 a hw.1.2⟩, wf_ofE3 l hw.2⟩
  | .enum l, hw => by
    simp only [E3.wf, Bool.and_eq_true] at hw
    simp only [ofE3, R3.wf, Bool.and_eq_true, isA_ofE3]
    exact ⟨hw.1, wf_ofE3 l hw.2⟩
  | .tuple a l, hw => by
    simp only [E3.wf, Bool.and_eq_true] at hw
    simp only [ofE3, R3.wf, Bool.and_eq_true, isS_ofE3, isA_ofE3]
    exact ⟨⟨hw.1.1, wf_ofE3 a hw.1.2⟩, wf_ofE3 l hw.2⟩
  | .fcall d l, hw => by
    simp only [E3.wf, Bool.and_eq_true] at hw
    simp only [ofE3, R3.wf, Bool.and_eq_true, isA_ofE3]
    exact ⟨hw.1, wf_ofE3 l hw.2⟩
  | .pcall d l, hw => by
    simp only [E3.wf, Bool.and_eq_true] at hw
    simp only [ofE3, R3.wf, Bool.and_eq_true, isA_ofE3]
    exact ⟨hw.1, wf_ofE3 l hw.2⟩
  | .filter d ps arg, hw => by
    simp only [E3.wf, Bool.and_eq_true] at hw
    simp only [ofE3, R3.wf, Bool.and_eq_true, isS_ofE3, isA_ofE3]
    exact ⟨⟨hw.1.1, wf_ofE3 ps hw.1.2⟩, wf_ofE3 arg hw.2⟩
  | .quant q vs dom body, hw => by
    simp only [E3.wf, Bool.and_eq_true] at hw
    simp only [ofE3, R3.wf, Bool.and_eq_true, isS_ofE3, isL_ofE3, isA_ofE3, isVar_ofE3]
    exact ⟨⟨⟨hw.1.1.1, wf_ofE3 vs hw.1.1.2⟩, wf_ofE3 dom hw.1.2⟩, wf_ofE3 body hw.2⟩
  | .decl v dom body, hw => by
    simp only [E3.wf, Bool.and_eq_true] at hw
    simp only [ofE3, R3.wf, Bool.and_eq_true, isS_ofE3, isL_ofE3, isVar_ofE3, isPar_ofE3, Bool.not_false]
    exact ⟨⟨⟨⟨hw.1.1.1, trivial⟩, wf_ofE3 v hw.1.1.2⟩, wf_ofE3 dom hw.1.2⟩, wf_ofE3 body hw.2⟩
  | .recS v d s, hw => by
    simp only [E3.wf, Bool.and_eq_true] at hw
    simp only [ofE3, R3.wf, Bool.and_eq_true, isS_ofE3, isVar_ofE3]
    exact ⟨⟨⟨hw.1.1.1, wf_ofE3 v hw.1.1.2⟩, wf_ofE3 d hw.1.2⟩, wf_ofE3 s hw.2⟩
  | .recF v d c s, hw => by
    simp only [E3.wf, Bool.and_eq_true] at hw
    obtain ⟨⟨⟨⟨⟨⟨⟨⟨hvS, hvV⟩, hdS⟩, hcL⟩, hsS⟩, hvw⟩, hdw⟩, hcw⟩, hsw⟩ := hw
    simp only [ofE3, R3.wf, Bool.and_eq_true, isS_ofE3, isL_ofE3, isVar_ofE3, isPar_ofE3, Bool.not_false]
    exact ⟨⟨⟨⟨⟨⟨⟨⟨⟨hvS, hvV⟩, hdS⟩, hcL⟩, trivial⟩, hsS⟩, wf_ofE3 v hvw⟩, wf_ofE3 d hdw⟩, wf_ofE3 c hcw⟩, wf_ofE3 s hsw⟩
  | .imp val bs, hw => by
    simp only [E3.wf, Bool.and_eq_true] at hw
    simp only [ofE3, R3.wf, Bool.and_eq_true, isS_ofE3, isB_ofE3]
    exact ⟨⟨hw.1.1, wf_ofE3 val hw.1.2⟩, wf_ofE3 bs hw.2⟩
  | .bone b, hw => by
    simp only [E3.wf, Bool.and_eq_true] at hw
    simp only [ofE3, R3.wf, Bool.and_eq_true, isL_ofE3, isPar_ofE3, Bool.not_false]
    exact ⟨⟨hw.1, trivial⟩, wf_ofE3 b hw.2⟩
  | .boneK op v s, hw => by
    simp only [E3.wf, Bool.and_eq_true] at hw
    simp only [ofE3, R3.wf, Bool.and_eq_true, isS_ofE3, isVar_ofE3]
    exact ⟨⟨hw.1.1, wf_ofE3 v hw.1.2⟩, wf_ofE3 s hw.2⟩
  | .bmore b l, hw => by
    simp only [E3.wf, Bool.and_eq_true] at hw
    obtain ⟨⟨⟨hbL, hlB⟩, hbw⟩, hlw⟩ := hw
    simp only [ofE3, R3.wf, Bool.and_eq_true, isL_ofE3, isB_ofE3, isPar_ofE3, Bool.not_false]
    exact ⟨⟨⟨⟨hbL, trivial⟩, hlB⟩, wf_ofE3 b hbw⟩, wf_ofE3 l hlw⟩
  | .bmoreK op v s l, hw => by
    simp only [E3.wf, Bool.and_eq_true] at hw
    simp only [ofE3, R3.wf, Bool.and_eq_true, isS_ofE3, isB_ofE3, isVar_ofE3]
    exact ⟨⟨⟨hw.1.1.1, wf_ofE3 v hw.1.1.2⟩, wf_ofE3 s hw.1.2⟩, wf_ofE3 l hw.2⟩

/-! ## the main statement -/

/-- a rendering that may stand at the top of an expression: a set expression, or a formula that is not itself in
parentheses (`logic_or_setexpr : logic | setexpr`; a `logic_par` is not a `logic`) -/
def R3.topOK (r : R3) : Bool := r.isS || (r.isL && !r.isPar)

/-- **every rendering parses to the tree of the term it denotes** -/
theorem parse_render (r : R3) (hw : r.wf = true) (ht : r.topOK = true) :
    parseToks (r.toks ++ [tk .END]) = some r.erase.ast := by
  simp only [R3.topOK, Bool.or_eq_true, Bool.and_eq_true] at ht
  rw [ast_erase r hw]
  refine parseToks_toks_wf2 r hw (ht.imp id (fun h => h.1)) (fun hL => ?_)
  rcases ht with hS | h
  · have := isS_of_isL hL; rw [hS] at this; cases this
  · simpa using h.2

/-- … which is the tree of the canonical rendering (the printer's text) -/
theorem parse_render_canonical (r : R3) (hw : r.wf = true) (ht : r.topOK = true) :
    parseToks (r.toks ++ [tk .END]) = parseToks (r.erase.toks ++ [tk .END]) := by
  rw [parse_render r hw ht]
  simp only [R3.topOK, Bool.or_eq_true, Bool.and_eq_true] at ht
  refine (CCVerif.PP3.parseToks_toks_wf2 r.erase (wf_erase r hw) ?_).symm
  rw [isS_erase, isL_erase]
  exact ht.imp id (fun h => h.1)


/-! ## corollaries: the grammar facts named by the property

Operands are arbitrary renderings of the two operand classes of the grammar: a set operand is any set phrase that is
not an unparenthesised binary operation (a primary or a parenthesised phrase - `binTop? = none`), a logic operand any
formula that is not an unparenthesised connective (`logic_no_binary` plus `logic_par`: predicate, `¬…`, quantified
formula, `P1[…]`, parenthesised formula - `kind ≠ lbin`). -/

def SetOperand (r : R3) : Prop := r.wf = true ∧ r.isS = true ∧ r.binTop? = none
def LogOperand (r : R3) : Prop := r.wf = true ∧ r.isL = true ∧ r.kind ≠ .lbin

/-- the node `op(x, y)` with empty payload at position 0 -/
def bin (op : Tok) (x y : Ast) : Ast := .node op .none 0 0 [x, y]

def predL : List Tok := [.IN, .NOTIN, .SUBSET, .SUBSET_OR_EQ, .NOTSUBSET, .NOTEQUAL, .EQUAL, .GREATER, .LESSER,
  .GREATER_OR_EQ, .LESSER_OR_EQ]

theorem mem_predL (t : Tok) (h : isPredOp t = true) : t ∈ predL := by
  cases t <;> first | (simp [predL]; done) | (exact absurd h (by decide))

/-- read off the generated `CompareOperations` tables and the regenerated `%left` lines (`precLines`): the printer asks
for no parentheses where the bison precedences already give the grouping (left operand binding at least as tightly,
right operand strictly tighter), and never around a predicate -/
theorem assoc_tables :
    (∀ p ∈ set7L, ∀ c ∈ set7L, (!decide (prec p ≤ prec c) || !brSet p c .left) = true ∧
      (!decide (prec p < prec c) || !brSet p c .right) = true) ∧
    (∀ p ∈ logic4L, ∀ c ∈ logic4L, (!decide (prec p ≤ prec c) || !brLogic p c .left) = true ∧
      (!decide (prec p < prec c) || !brLogic p c .right) = true) ∧
    (∀ c ∈ predL, brNot c = false ∧ brQ .FORALL c = false ∧ brQ .EXISTS c = false ∧
      ∀ p ∈ logic4L, ∀ s ∈ sides, brLogic p c s = false) := by
  decide +kernel

theorem nobrS {r : R3} (h : SetOperand r) (p : Tok) (hp : isSetOp7 p = true) (s : Side) : brSet p r.top s = false := by
  have := okChildS2_of_wf p r s hp h.2.1 h.1
  simp only [okChildS2, h.2.2] at this
  simpa using this

theorem nobrP {r : R3} (h : SetOperand r) (first : Bool) : brProd first r.top = false := by
  have := okFactor2_of_wf first r h.2.1 h.1
  simp only [okFactor2, h.2.2] at this
  simpa using this

theorem nobrL {r : R3} (h : LogOperand r) :
    (∀ p, isLogicOp p = true → ∀ s, brLogic p r.top s = false) ∧ brNot r.top = false ∧
    (∀ q, (q == .FORALL || q == .EXISTS) = true → brQ q r.top = false) := by
  obtain ⟨hw, hL, hk⟩ := h
  rcases top_unary_mem hL hw with ⟨cop, a, b, rfl, _⟩ | ⟨op, a, b, rfl⟩ | hu
  · exact absurd rfl hk
  · simp only [R3.wf, Bool.and_eq_true] at hw
    have ht := assoc_tables.2.2 op (mem_predL op hw.1.1.1.1)
    refine ⟨fun p hp s => ht.2.2.2 p (mem_logic4L p hp) s (mem_sides s), ht.1, fun q hq => ?_⟩
    have := mem_quantL q hq
    simp only [quantL, List.mem_cons, List.not_mem_nil, or_false] at this
    rcases this with rfl | rfl
    · exact ht.2.1
    · exact ht.2.2.1
  · exact ⟨fun p hp s => bracket_tables2.2.2.1 p (mem_logic4L p hp) _ hu.1 s (mem_sides s), bracket_tables2.2.2.2.1 _ hu.1,
      fun q hq => (bracket_tables2.2.2.2.2 q (mem_quantL q hq)).2 _ hu.1⟩

theorem setOperand_not_prod {r : R3} (h : SetOperand r) : r.isProd = false := by
  have := h.2.2; cases r <;> simp [R3.binTop?] at this <;> rfl

/-- **left grouping** of two binary set / arithmetic operators: `a op1 b op2 c` with `op2` binding no tighter than `op1`
(same `%left` line - in particular the same operator - or a lower one) is `(a op1 b) op2 c` -/
theorem set_left_assoc (op1 op2 : Tok) (h1 : isSetOp7 op1 = true) (h2 : isSetOp7 op2 = true) (hp : prec op2 ≤ prec op1)
    (a b c : R3) (ha : SetOperand a) (hb : SetOperand b) (hc : SetOperand c) :
    parseToks (a.toks ++ tk op1 :: (b.toks ++ tk op2 :: (c.toks ++ [tk .END]))) =
      some (bin op2 (bin op1 a.erase.ast b.erase.ast) c.erase.ast) := by
  have hbr : brSet op2 op1 .left = false := by
    have := (assoc_tables.1 op2 (mem_set7L _ h2) op1 (mem_set7L _ h1)).1
    simpa [hp] using this
  have hT := parse_render (.sbin op2 (.sbin op1 a b) c)
    (by simp [R3.wf, R3.isS, h1, h2, ha.1, hb.1, hc.1, ha.2.1, hb.2.1, hc.2.1]) rfl
  have t1 : (R3.sbin op1 a b).top = op1 := rfl
  have htoks : (R3.sbin op2 (.sbin op1 a b) c).toks ++ [tk .END] =
      a.toks ++ tk op1 :: (b.toks ++ tk op2 :: (c.toks ++ [tk .END])) := by
    simp only [R3.toks, t1, hbr, nobrS ha op1 h1, nobrS hb op1 h1, nobrS hc op2 h2, wrap]; simp
  rw [← htoks, hT]; rfl

/-- **precedence**: `a op1 b op2 c` with `op2` binding strictly tighter than `op1` is `a op1 (b op2 c)` -/
theorem set_precedence (op1 op2 : Tok) (h1 : isSetOp7 op1 = true) (h2 : isSetOp7 op2 = true) (hp : prec op1 < prec op2)
    (a b c : R3) (ha : SetOperand a) (hb : SetOperand b) (hc : SetOperand c) :
    parseToks (a.toks ++ tk op1 :: (b.toks ++ tk op2 :: (c.toks ++ [tk .END]))) =
      some (bin op1 a.erase.ast (bin op2 b.erase.ast c.erase.ast)) := by
  have hbr : brSet op1 op2 .right = false := by
    have := (assoc_tables.1 op1 (mem_set7L _ h1) op2 (mem_set7L _ h2)).2
    simpa [hp] using this
  have hT := parse_render (.sbin op1 a (.sbin op2 b c))
    (by simp [R3.wf, R3.isS, h1, h2, ha.1, hb.1, hc.1, ha.2.1, hb.2.1, hc.2.1]) rfl
  have t1 : (R3.sbin op2 b c).top = op2 := rfl
  have htoks : (R3.sbin op1 a (.sbin op2 b c)).toks ++ [tk .END] =
      a.toks ++ tk op1 :: (b.toks ++ tk op2 :: (c.toks ++ [tk .END])) := by
    simp only [R3.toks, t1, hbr, nobrS ha op1 h1, nobrS hb op2 h2, nobrS hc op2 h2, wrap]; simp
  rw [← htoks, hT]; rfl

/-- the same two facts for the connectives `& ∨ ⇒ ⇔` -/
theorem logic_left_assoc (op1 op2 : Tok) (h1 : isLogicOp op1 = true) (h2 : isLogicOp op2 = true) (hp : prec op2 ≤ prec op1)
    (a b c : R3) (ha : LogOperand a) (hb : LogOperand b) (hc : LogOperand c) :
    parseToks (a.toks ++ tk op1 :: (b.toks ++ tk op2 :: (c.toks ++ [tk .END]))) =
      some (bin op2 (bin op1 a.erase.ast b.erase.ast) c.erase.ast) := by
  have hbr : brLogic op2 op1 .left = false := by
    have := (assoc_tables.2.1 op2 (mem_logic4L _ h2) op1 (mem_logic4L _ h1)).1
    simpa [hp] using this
  have hT := parse_render (.lbin op2 (.lbin op1 a b) c)
    (by simp [R3.wf, R3.isL, h1, h2, ha.1, hb.1, hc.1, ha.2.1, hb.2.1, hc.2.1]) rfl
  have t1 : (R3.lbin op1 a b).top = op1 := rfl
  have htoks : (R3.lbin op2 (.lbin op1 a b) c).toks ++ [tk .END] =
      a.toks ++ tk op1 :: (b.toks ++ tk op2 :: (c.toks ++ [tk .END])) := by
    simp only [R3.toks, t1, hbr, (nobrL ha).1 op1 h1, (nobrL hb).1 op1 h1, (nobrL hc).1 op2 h2, wrap]; simp
  rw [← htoks, hT]; rfl

theorem logic_precedence (op1 op2 : Tok) (h1 : isLogicOp op1 = true) (h2 : isLogicOp op2 = true) (hp : prec op1 < prec op2)
    (a b c : R3) (ha : LogOperand a) (hb : LogOperand b) (hc : LogOperand c) :
    parseToks (a.toks ++ tk op1 :: (b.toks ++ tk op2 :: (c.toks ++ [tk .END]))) =
      some (bin op1 a.erase.ast (bin op2 b.erase.ast c.erase.ast)) := by
  have hbr : brLogic op1 op2 .right = false := by
    have := (assoc_tables.2.1 op1 (mem_logic4L _ h1) op2 (mem_logic4L _ h2)).2
    simpa [hp] using this
  have hT := parse_render (.lbin op1 a (.lbin op2 b c))
    (by simp [R3.wf, R3.isL, h1, h2, ha.1, hb.1, hc.1, ha.2.1, hb.2.1, hc.2.1]) rfl
  have t1 : (R3.lbin op2 b c).top = op2 := rfl
  have htoks : (R3.lbin op1 a (.lbin op2 b c)).toks ++ [tk .END] =
      a.toks ++ tk op1 :: (b.toks ++ tk op2 :: (c.toks ++ [tk .END])) := by
    simp only [R3.toks, t1, hbr, (nobrL ha).1 op1 h1, (nobrL hb).1 op2 h2, (nobrL hc).1 op2 h2, wrap]; simp
  rw [← htoks, hT]; rfl

/-- **n-ary flattening**: an unparenthesised product followed by `× k` is ONE `DECART` node with one more child -/
theorem prod_flatten (p k : R3) (hp : p.wf = true) (hpP : p.isProd = true) (hk : SetOperand k) :
    parseToks (p.toks ++ tk .DECART :: (k.toks ++ [tk .END])) =
      some (.node .DECART .none 0 0 (p.erase.ast.kids ++ [k.erase.ast])) := by
  have hT := parse_render (.prodN p k) (by simp [R3.wf, hp, hpP, hk.1, hk.2.1]) rfl
  have htoks : (R3.prodN p k).toks ++ [tk .END] = p.toks ++ tk .DECART :: (k.toks ++ [tk .END]) := by
    simp only [R3.toks, nobrP hk, wrap]; simp
  rw [← htoks, hT]; rfl

/-- `a × b × c` is one ternary node … -/
theorem prod_flat3 (a b c : R3) (ha : SetOperand a) (hb : SetOperand b) (hc : SetOperand c) :
    parseToks (a.toks ++ tk .DECART :: (b.toks ++ tk .DECART :: (c.toks ++ [tk .END]))) =
      some (.node .DECART .none 0 0 [a.erase.ast, b.erase.ast, c.erase.ast]) := by
  have hT := parse_render (.prodN (.prod2 a b) c)
    (by simp [R3.wf, R3.isProd, ha.1, hb.1, hc.1, ha.2.1, hb.2.1, hc.2.1]) rfl
  have htoks : (R3.prodN (.prod2 a b) c).toks ++ [tk .END] =
      a.toks ++ tk .DECART :: (b.toks ++ tk .DECART :: (c.toks ++ [tk .END])) := by
    simp only [R3.toks, nobrP ha, nobrP hb, nobrP hc, wrap]; simp
  rw [← htoks, hT]; rfl

/-- `n` pairs of parentheses around a rendering -/
def parN : Nat → R3 → R3
  | 0, r => r
  | n + 1, r => .par (parN n r)

/-- `n` opening / closing parentheses -/
def lps (n : Nat) : Toks := List.replicate n (tk .PUNC_PL)
def rps (n : Nat) : Toks := List.replicate n (tk .PUNC_PR)

theorem toks_parN : ∀ (n : Nat) (r : R3), (parN n r).toks = lps n ++ r.toks ++ rps n
  | 0, r => by simp [parN, lps, rps]
  | n + 1, r => by
    simp only [parN, R3.toks, toks_parN n r, lps, rps, List.replicate_succ, List.cons_append, List.append_assoc]
    congr 3
    exact (List.replicate_succ' (n := n) (a := tk Tok.PUNC_PR)).symm ▸ rfl

/-- any number of pairs around a binary set phrase is again a binary set phrase denoting the same term -/
theorem parN_setBin {r : R3} (hw : r.wf = true) (hS : r.isS = true) (hk : r.kind = .setBin) :
    ∀ n, (parN n r).wf = true ∧ (parN n r).isS = true ∧ (parN n r).kind = .setBin ∧ (parN n r).erase = r.erase
  | 0 => ⟨hw, hS, hk, rfl⟩
  | n + 1 => by
    have ih := parN_setBin hw hS hk n
    exact ⟨by simp [parN, R3.wf, R3.parOK, ih.1, ih.2.2.1], ih.2.1, kind_par_S ih.2.1, ih.2.2.2⟩

/-- … while `(a × b) × c` and `a × (b × c)` are nested binary nodes (parentheses around a product are never
redundant; any number `n + 1` of pairs gives the same tree) -/
theorem prod_nested_left (n : Nat) (a b c : R3) (ha : SetOperand a) (hb : SetOperand b) (hc : SetOperand c) :
    parseToks (lps (n + 1) ++ (a.toks ++ tk .DECART :: b.toks) ++ rps (n + 1) ++ tk .DECART :: (c.toks ++ [tk .END])) =
      some (bin .DECART (bin .DECART a.erase.ast b.erase.ast) c.erase.ast) := by
  have hw2 : (R3.prod2 a b).wf = true := by simp [R3.wf, ha.1, hb.1, ha.2.1, hb.2.1]
  have hpn := parN_setBin hw2 rfl rfl (n + 1)
  have hP : SetOperand (parN (n + 1) (.prod2 a b)) := ⟨hpn.1, hpn.2.1, rfl⟩
  have hT := parse_render (.prod2 (parN (n + 1) (.prod2 a b)) c) (by simp [R3.wf, hP.1, hP.2.1, hc.1, hc.2.1]) rfl
  have htoks : (R3.prod2 (parN (n + 1) (.prod2 a b)) c).toks ++ [tk .END] =
      lps (n + 1) ++ (a.toks ++ tk .DECART :: b.toks) ++ rps (n + 1) ++ tk .DECART :: (c.toks ++ [tk .END]) := by
    simp only [R3.toks, nobrP hP, nobrP hc, nobrP ha, nobrP hb, wrap, toks_parN]; simp
  rw [← htoks, hT]
  simp only [R3.erase, hpn.2.2.2, E3.ast, bin]

theorem prod_nested_right (a b c : R3) (ha : SetOperand a) (hb : SetOperand b) (hc : SetOperand c) :
    parseToks (a.toks ++ tk .DECART :: tk .PUNC_PL :: (b.toks ++ tk .DECART :: (c.toks ++ [tk .PUNC_PR, tk .END]))) =
      some (bin .DECART a.erase.ast (bin .DECART b.erase.ast c.erase.ast)) := by
  have hT := parse_render (.prod2 a (.par (.prod2 b c)))
    (by simp [R3.wf, R3.isS, R3.parOK, R3.kind, ha.1, hb.1, hc.1, ha.2.1, hb.2.1, hc.2.1]) rfl
  have t1 : (R3.par (.prod2 b c)).top = .PUNC_PL := rfl
  have e1 : brProd false .PUNC_PL = false := by decide
  have htoks : (R3.prod2 a (.par (.prod2 b c))).toks ++ [tk .END] =
      a.toks ++ tk .DECART :: tk .PUNC_PL :: (b.toks ++ tk .DECART :: (c.toks ++ [tk .PUNC_PR, tk .END])) := by
    simp only [R3.toks, t1, e1, nobrP ha, nobrP hb, nobrP hc, wrap]; simp
  rw [← htoks, hT]; rfl

/-- **scope of a quantifier**: `∀vs∈dom P op Q` is `(∀vs∈dom P) op Q` for every connective `op` - the body of a
quantifier is the next formula that is no (unparenthesised) connective -/
theorem quant_scope (q op : Tok) (hq : (q == .FORALL || q == .EXISTS) = true) (hop : isLogicOp op = true)
    (vs dom P Q : R3) (hvw : vs.wf = true) (hvA : vs.isA = true) (hvV : vs.isVar = true)
    (hdw : dom.wf = true) (hdS : dom.isS = true) (hP : LogOperand P) (hQ : LogOperand Q) :
    parseToks (tk q :: (vs.toks ++ tk .IN :: (dom.toks ++ (P.toks ++ tk op :: (Q.toks ++ [tk .END]))))) =
      some (bin op (.node q .none 0 0 [vs.erase.declOf, dom.erase.ast, P.erase.ast]) Q.erase.ast) := by
  have hLq : LogOperand (.quant q vs dom P) :=
    ⟨by simp only [R3.wf, hq, hvw, hvA, hvV, hdw, hdS, hP.1, hP.2.1, Bool.and_self], rfl, by simp [R3.kind]⟩
  have hwX : ∀ X : R3, X.wf = true → X.isL = true → (R3.lbin op X Q).wf = true := by
    intro X h1 h2; simp [R3.wf, hop, h1, h2, hQ.1, hQ.2.1]
  have hT := parse_render (.lbin op (.quant q vs dom P) Q) (hwX _ hLq.1 hLq.2.1) rfl
  have t1 : (R3.quant q vs dom P).top = q := rfl
  have h1 := (nobrL hLq).1 op hop .left
  rw [t1] at h1
  have htoks : (R3.lbin op (.quant q vs dom P) Q).toks ++ [tk .END] =
      tk q :: (vs.toks ++ tk .IN :: (dom.toks ++ (P.toks ++ tk op :: (Q.toks ++ [tk .END])))) := by
    simp only [R3.toks, t1, h1, (nobrL hQ).1 op hop, (nobrL hP).2.2 q hq, wrap]; simp
  rw [← htoks, hT]; rfl

/-- the same for `¬`: `¬P op Q` is `(¬P) op Q` -/
theorem neg_scope (op : Tok) (hop : isLogicOp op = true) (P Q : R3) (hP : LogOperand P) (hQ : LogOperand Q) :
    parseToks (tk .NOT :: (P.toks ++ tk op :: (Q.toks ++ [tk .END]))) =
      some (bin op (.node .NOT .none 0 0 [P.erase.ast]) Q.erase.ast) := by
  have hLn : LogOperand (.neg P) := ⟨by simp [R3.wf, hP.1, hP.2.1], rfl, by simp [R3.kind]⟩
  have hwX : ∀ X : R3, X.wf = true → X.isL = true → (R3.lbin op X Q).wf = true := by
    intro X h1 h2; simp [R3.wf, hop, h1, h2, hQ.1, hQ.2.1]
  have hT := parse_render (.lbin op (.neg P) Q) (hwX _ hLn.1 hLn.2.1) rfl
  have t1 : (R3.neg P).top = .NOT := rfl
  have h1 := (nobrL hLn).1 op hop .left
  rw [t1] at h1
  have htoks : (R3.lbin op (.neg P) Q).toks ++ [tk .END] = tk .NOT :: (P.toks ++ tk op :: (Q.toks ++ [tk .END])) := by
    simp only [R3.toks, t1, h1, (nobrL hQ).1 op hop, (nobrL hP).2.1, wrap]; simp
  rw [← htoks, hT]; rfl

end CCVerif.PR
