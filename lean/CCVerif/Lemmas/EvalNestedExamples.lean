import CCVerif.Lemmas.EvalNestedTop
import CCVerif.Lemmas.EvalExamples6
import CCVerif.Lemmas.EvalExamples7
/-! Non-vacuity witnesses of stage 9 (nested tuple patterns), shared by `Properties/C01.lean` and `Properties/C02.lean`,
over `X1 = {1,2}`, `S = (X1×X1)×X1`:
`∀((a,b),c)∈S (a=c ∨ b=c)` (false: `((1,1),2)`) and `D{((a,b),c)∈S | a=b}`. -/
namespace CCVerif.Eval
open CCVerif.Syntax CCVerif.Spec CCVerif.Norm
open Ty

namespace Examples9
open Examples Examples7

/-- `(X1×X1)×X1` -/
def dom9 : Ast := nd .DECART [nd .DECART [glob "X1", glob "X1"], glob "X1"]
/-- `((a,b),c)` -/
def pat9 : Ast := nd .NT_TUPLE_DECL [nd .NT_TUPLE_DECL [loc "a", loc "b"], loc "c"]
/-- `(ab,c)`: the flat pattern of the top-level components -/
def flat9 : Ast := nd .NT_TUPLE_DECL [loc "ab", loc "c"]
def T9 : Ty := .tuple [.tuple [X, X], X]

/-- `∀((a,b),c)∈(X1×X1)×X1 (a=c ∨ b=c)` -/
def e9 : Ast := nd .FORALL [pat9, dom9, nd .OR [nd .EQUAL [loc "a", loc "c"], nd .EQUAL [loc "b", loc "c"]]]
/-- un-nested: `∀(ab,c)∈(X1×X1)×X1 (pr1(ab)=c ∨ pr2(ab)=c)` -/
def e9s : Ast := nd .FORALL [flat9, dom9, nd .OR [nd .EQUAL [pr1 1 (loc "ab"), loc "c"], nd .EQUAL [pr1 2 (loc "ab"), loc "c"]]]
/-- the normal form of both: one generated variable `@abc`, the leaves are chains of projections of it -/
def e9n : Ast :=
  nd .FORALL [loc "@abc", dom9, nd .OR [nd .EQUAL [pr1 1 (pr1 1 (loc "@abc")), pr1 2 (loc "@abc")],
    nd .EQUAL [pr1 2 (pr1 1 (loc "@abc")), pr1 2 (loc "@abc")]]]

/-- `D{((a,b),c)∈(X1×X1)×X1 | a=b}` -/
def d9 : Ast := nd .NT_DECLARATIVE_EXPR [pat9, dom9, nd .EQUAL [loc "a", loc "b"]]
def d9s : Ast := nd .NT_DECLARATIVE_EXPR [flat9, dom9, nd .EQUAL [pr1 1 (loc "ab"), pr1 2 (loc "ab")]]
def d9n : Ast := nd .NT_DECLARATIVE_EXPR [loc "@abc", dom9, nd .EQUAL [pr1 1 (pr1 1 (loc "@abc")), pr1 2 (pr1 1 (loc "@abc"))]]

theorem e9_normalizes : normalizeTree env7.funcs 10 e9 = some e9n := by rfl
theorem e9s_normalizes : normalizeTree env7.funcs 10 e9s = some e9n := by rfl
theorem d9_normalizes : normalizeTree env7.funcs 10 d9 = some d9n := by rfl

theorem dom9_frag (Γ : TCtx) : Frag env7 G7 6 Γ dom9 (.ty (.coll T9)) := by
  refine Frag.decart _ _ _ _ [.tuple [X, X], X] (by simp) rfl ?_
  intro q hq
  simp only [List.zip_cons_cons, List.zip_nil_right, List.mem_cons, List.not_mem_nil, or_false] at hq
  rcases hq with rfl | rfl
  · refine Frag.decart _ _ _ _ [X, X] (by simp) rfl ?_
    intro q hq
    simp only [List.zip_cons_cons, List.zip_nil_right, List.mem_cons, List.not_mem_nil, or_false] at hq
    rcases hq with rfl | rfl <;> exact x1_frag7 _
  · exact x1_frag7 _

private theorem fresh9 : ∀ q ∈ [(("ab", 0, 0) : EDecl), ("c", 0, 0)],
    lookup q.1 ([] : TCtx) = none ∧ lookup q.1 env7.globals = none ∧ ∀ r ∈ ([] : Rz), r.2.1 ≠ q.1 := by
  intro q hq; simp at hq; rcases hq with rfl | rfl <;> exact ⟨rfl, rfl, by simp⟩

theorem e9s_frag : FragR env7 G7 6 [] [] e9s e9n .logic := by
  refine FragR.quantTup (ts := [.tuple [X, X], X]) _ _ _ _ _ _ [("ab", 0, 0), ("c", 0, 0)] "@abc" (by decide) (Or.inl rfl) rfl
    (by decide) (by decide) fresh9 rfl rfl (by decide) (by simp) rfl (dom9_frag _) ?_
  have hc : FragR env7 G7 6 (patRz "@abc" [("ab", 0, 0), ("c", 0, 0)] 1 ++ []) (patCtx [] [("ab", 0, 0), ("c", 0, 0)] [.tuple [X, X], X])
      (loc "c") (pr1 2 (loc "@abc")) (.ty X) := .locPr _ "c" "@abc" 2 0 0 (by decide) rfl rfl
  refine .conn _ _ _ (Or.inr (Or.inl rfl)) (.eq (τ := X) _ _ _ (Or.inl rfl) ?_ hc) (.eq (τ := X) _ _ _ (Or.inl rfl) ?_ hc)
  · exact .smallpr (ts := [X, X]) [1] 0 0 (.locPr _ "ab" "@abc" 1 0 0 (by decide) rfl rfl) rfl
  · exact .smallpr (ts := [X, X]) [2] 0 0 (.locPr _ "ab" "@abc" 1 0 0 (by decide) rfl rfl) rfl

theorem d9s_frag : FragR env7 G7 6 [] [] d9s d9n (.ty (.coll T9)) := by
  refine FragR.declTup (ts := [.tuple [X, X], X]) _ _ _ _ _ _ [("ab", 0, 0), ("c", 0, 0)] "@abc" (by decide) rfl
    (by decide) (by decide) fresh9 rfl rfl (by decide) (by simp) rfl (dom9_frag _) ?_
  refine .eq (τ := X) _ _ _ (Or.inl rfl) ?_ ?_
  · exact .smallpr (ts := [X, X]) [1] 0 0 (.locPr _ "ab" "@abc" 1 0 0 (by decide) rfl rfl) rfl
  · exact .smallpr (ts := [X, X]) [2] 0 0 (.locPr _ "ab" "@abc" 1 0 0 (by decide) rfl rfl) rfl

/-! the un-nesting derivations -/

theorem x1_dt (Γ : TCtx) : DT (senvOf env7) Γ (glob "X1") (.coll X) :=
  .glob "X1" 0 0 _ (by
    intro v hv
    have : v = .s [.e 1, .e 2] := by
      simp [senvOf, env7, lookup] at hv; exact hv.symm
    subst this; decide)

theorem dom9_dt (Γ : TCtx) : DT (senvOf env7) Γ dom9 (.coll T9) := by
  refine .decart _ _ _ _ [.tuple [X, X], X] rfl ?_
  intro q hq
  simp only [List.zip_cons_cons, List.zip_nil_right, List.mem_cons, List.not_mem_nil, or_false] at hq
  rcases hq with rfl | rfl
  · refine .decart _ _ _ _ [X, X] rfl ?_
    intro q hq
    simp only [List.zip_cons_cons, List.zip_nil_right, List.mem_cons, List.not_mem_nil, or_false] at hq
    rcases hq with rfl | rfl <;> exact x1_dt _
  · exact x1_dt _

theorem dom9_unn (Γ : TCtx) (Δ : NCtx) : Unn (senvOf env7) Γ Δ dom9 dom9 := by
  refine .nary _ 0 0 0 0 _ _ (Or.inr (Or.inr rfl)) rfl ?_
  intro q hq
  simp only [List.zip_cons_cons, List.zip_nil_right, List.mem_cons, List.not_mem_nil, or_false] at hq
  rcases hq with rfl | rfl
  · refine .nary _ 0 0 0 0 _ _ (Or.inr (Or.inr rfl)) rfl ?_
    intro q hq
    simp only [List.zip_cons_cons, List.zip_nil_right, List.mem_cons, List.not_mem_nil, or_false] at hq
    rcases hq with rfl | rfl <;> exact .glob "X1" 0 0 0 0
  · exact .glob "X1" 0 0 0 0

def ks9 : List Ast := [nd .NT_TUPLE_DECL [loc "a", loc "b"], loc "c"]
def Δ9 : NCtx := [("a", ("ab", [1])), ("b", ("ab", [2])), ("c", ("c", []))]

theorem delta9 : patDelta ks9 ++ [] = Δ9 := by decide
theorem flat9_eq : patNode .none 0 0 (flatDecls ks9) = flat9 := by rfl

theorem e9_unn : Unn (senvOf env7) [] [] e9 e9s := by
  have hb : Unn (senvOf env7) (patCtx [] (flatDecls ks9) [.tuple [X, X], X]) (patDelta ks9 ++ [])
      (nd .OR [nd .EQUAL [loc "a", loc "c"], nd .EQUAL [loc "b", loc "c"]])
      (nd .OR [nd .EQUAL [pr1 1 (loc "ab"), loc "c"], nd .EQUAL [pr1 2 (loc "ab"), loc "c"]]) := by
    rw [delta9]
    have hc : ∀ Γ, Unn (senvOf env7) Γ Δ9 (loc "c") (loc "c") := fun Γ => Unn.loc "c" "c" [] 0 0 0 0 rfl
    refine .bin _ 0 0 0 0 (Or.inr (Or.inr (Or.inr (Or.inr (Or.inr (Or.inr (Or.inl rfl))))))) ?_ ?_
    · exact .bin _ 0 0 0 0 (Or.inr (Or.inr (Or.inl (Or.inl rfl)))) (Unn.loc "a" "ab" [1] 0 0 0 0 rfl) (hc _)
    · exact .bin _ 0 0 0 0 (Or.inr (Or.inr (Or.inl (Or.inl rfl)))) (Unn.loc "b" "ab" [2] 0 0 0 0 rfl) (hc _)
  have h := Unn.quantPat (S := senvOf env7) (Γ := []) (Δ := []) (t := .FORALL) (ts := [.tuple [X, X], X]) .none 0 0 0 0
    .none .none 0 0 0 0 ks9 (Or.inl rfl) (by decide) (by decide) (by decide) (by simp) (dom9_dt _).domTy (dom9_unn _ _) hb
  rw [flat9_eq] at h
  exact h

theorem d9_unn : Unn (senvOf env7) [] [] d9 d9s := by
  have hb : Unn (senvOf env7) (patCtx [] (flatDecls ks9) [.tuple [X, X], X]) (patDelta ks9 ++ [])
      (nd .EQUAL [loc "a", loc "b"]) (nd .EQUAL [pr1 1 (loc "ab"), pr1 2 (loc "ab")]) := by
    rw [delta9]
    exact .bin _ 0 0 0 0 (Or.inr (Or.inr (Or.inl (Or.inl rfl)))) (Unn.loc "a" "ab" [1] 0 0 0 0 rfl)
      (Unn.loc "b" "ab" [2] 0 0 0 0 rfl)
  have h := Unn.declPat (S := senvOf env7) (Γ := []) (Δ := []) (ts := [.tuple [X, X], X]) .none 0 0 0 0
    .none .none 0 0 0 0 ks9 (by decide) (by decide) (by decide) (by simp) (dom9_dt _).domTy (dom9_unn _ _) hb
  rw [flat9_eq] at h
  exact h

end Examples9

end CCVerif.Eval
