import CCVerif.Lemmas.SynthCorrectView
import CCVerif.Lemmas.RenameGenFrag
/-!
C12, the SEMANTIC clause: the definition fragment (`fragA`, `fragEquivariance`) as an instance.

* `fragA_contentOnly` — the fragment analysis reads neither uid nor skeleton;
* `fragView` — the fragment's reading of a C12 token sequence: the empty sequence is the empty
  definition, `N1 op N2 op … Nk` with `op` one of `∪`, `\` is the fragment's `union [N1, …, Nk]`
  (BOTH set operations have the typing rule of the fragment: operands of one typification ℬ(T), result
  ℬ(T)), everything else is `bad`; kind 1 is a base set, every other kind a term;
* `fragView_compatible`;
* `Bij.comp`, `exists_bij_of_injOn` — every function that is injective on a finite list of names is
  the restriction of a bijection, hence of an admissible renaming of the fragment:
  `frag_actsLike_exists`.
-/
namespace CCVerif.SynthCorrect
open CCVerif CCVerif.Dedup
open CCVerif.SchemaGen (fragA fragEquivariance fragA_lawful ContentOnly)
open CCVerif.Schema (Kind Def Info renDef)

theorem fragA_contentOnly : ContentOnly fragA := ⟨fun _ _ _ _ _ => rfl⟩

/-! ## reading a token sequence -/

def isSetOp (s : String) : Bool := s == "∪" || s == "\\"

/-- `N1 op N2 op … Nk` -/
def readOperands : List Tok → Option (List String)
  | [] => none
  | [.mention n] => some [n]
  | .mention n :: .sym s :: rest => if isSetOp s then (readOperands rest).map (n :: ·) else none
  | _ => none

def fragRead (d : List Tok) : Def :=
  match d with
  | [] => .empty
  | _ => match readOperands d with
    | some ns => .union ns
    | none => .bad

def fragView : View Def where
  kindOf := fun k => if k == 1 then .base else .term
  read := fragRead

theorem readOperands_map (f : String → String) (d : List Tok) :
    readOperands (d.map (renTok f)) = (readOperands d).map (·.map f) := by
  fun_induction readOperands d with
  | case1 => rfl
  | case2 n => rfl
  | case3 n s rest hs ih =>
    simp only [List.map_cons, renTok, readOperands, hs, if_true, ih, Option.map_map]
    cases readOperands rest <;> rfl
  | case4 n s rest hs =>
    simp only [List.map_cons, renTok, readOperands, hs]
    rfl
  | case5 d h1 h2 h3 =>
    cases d with
    | nil => exact absurd rfl h1
    | cons t ts =>
      cases t with
      | sym s => rfl
      | mention n =>
        cases ts with
        | nil => exact absurd rfl (h2 n)
        | cons t2 ts2 =>
          cases t2 with
          | mention n2 => rfl
          | sym s => exact absurd rfl (h3 n s ts2)

theorem readOperands_sub {d : List Tok} {ns : List String} (h : readOperands d = some ns) :
    ∀ n ∈ ns, n ∈ mentionNames d := by
  fun_induction readOperands d generalizing ns with
  | case1 => cases h
  | case2 n =>
    cases h
    intro x hx
    simp only [List.mem_singleton] at hx
    subst hx
    exact mem_mentionNames.2 (by simp)
  | case3 n s rest hs ih =>
    cases hr : readOperands rest with
    | none => rw [hr] at h; cases h
    | some ms =>
      rw [hr] at h
      cases h
      intro x hx
      rcases List.mem_cons.1 hx with rfl | hx
      · exact mem_mentionNames.2 (by simp)
      · have := mem_mentionNames.1 (ih hr x hx)
        exact mem_mentionNames.2 (List.mem_cons_of_mem _ (List.mem_cons_of_mem _ this))
  | case4 n s rest hs => cases h
  | case5 d h1 h2 h3 => cases h

theorem fragRead_map (f : String → String) (d : List Tok) : fragRead (d.map (renTok f)) = renDef f (fragRead d) := by
  cases d with
  | nil => rfl
  | cons t ts =>
    unfold fragRead
    simp only [List.map_cons]
    rw [← List.map_cons, readOperands_map]
    cases readOperands (t :: ts) <;> rfl

theorem fragRead_mentions {d : List Tok} : ∀ n ∈ (fragRead d).mentions, n ∈ mentionNames d := by
  cases d with
  | nil => intro n hn; cases hn
  | cons t ts =>
    unfold fragRead
    simp only
    cases hr : readOperands (t :: ts) with
    | none => intro n hn; cases hn
    | some ns => exact readOperands_sub hr

theorem renDef_congr {f g : String → String} {d : Def} (h : ∀ n ∈ d.mentions, f n = g n) :
    renDef f d = renDef g d := by
  cases d with
  | union ns =>
    show Def.union _ = Def.union _
    congr 1
    exact List.map_congr_left h
  | empty => rfl
  | bad => rfl

theorem fragView_compatible : fragView.Compatible fragA fragEquivariance where
  read_ren := by
    intro b f d h
    show fragRead (d.map (renTok f)) = renDef b.f (fragRead d)
    rw [fragRead_map]
    exact renDef_congr (fun n hn => h n (fragRead_mentions n hn))
  mentions_sub := fun _ n hn => fragRead_mentions n hn

/-! ## every finite injective map of names extends to a bijection -/

def Bij.comp (b c : Bij) : Bij :=
  ⟨fun n => b.f (c.f n), fun n => c.g (b.g n), fun n => by simp only [b.gf, c.gf], fun n => by simp only [c.fg, b.fg]⟩

theorem exists_bij_of_injOn (f : String → String) : ∀ (L : List String),
    (∀ x ∈ L, ∀ y ∈ L, f x = f y → x = y) → ∃ b : Bij, ∀ n ∈ L, b.f n = f n
  | [], _ => ⟨Bij.id, fun _ h => by cases h⟩
  | a :: L, hinj => by
    obtain ⟨g, hg⟩ := exists_bij_of_injOn f L
      (fun x hx y hy => hinj x (List.mem_cons_of_mem _ hx) y (List.mem_cons_of_mem _ hy))
    by_cases ha : a ∈ L
    · exact ⟨g, fun n hn => by
        rcases List.mem_cons.1 hn with rfl | hn
        · exact hg _ ha
        · exact hg n hn⟩
    · refine ⟨Bij.comp (Bij.swap (g.f a) (f a)) g, fun n hn => ?_⟩
      show swapName (g.f a) (f a) (g.f n) = f n
      rcases List.mem_cons.1 hn with rfl | hn
      · exact swapName_left _ _
      · have hne : n ≠ a := fun e => ha (e ▸ hn)
        rw [hg n hn]
        apply swapName_other
        · rw [← hg n hn]
          exact fun e => hne (g.inj e)
        · exact fun e => hne (hinj n (List.mem_cons_of_mem _ hn) a (List.mem_cons_self ..) e)

/-- for the fragment every function that is injective on the names of a schema is realised by an
admissible renaming -/
theorem frag_actsLike_exists (f : String → String) (l : Schema)
    (hinj : ∀ x ∈ tokNames l, ∀ y ∈ tokNames l, f x = f y → x = y) :
    ∃ b : Bij, ActsLike fragView fragEquivariance b f l := by
  obtain ⟨b, hb⟩ := exists_bij_of_injOn f (tokNames l) hinj
  exact ⟨b, ⟨hb, fun _ _ => trivial⟩⟩

end CCVerif.SynthCorrect
