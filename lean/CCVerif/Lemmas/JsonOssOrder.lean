import CCVerif.Lemmas.JsonOss
/-!
The ORDER of the `connections` array is reproduced by save → load under a weaker condition than `RowsCanon`
(parents-first rows, which a reload itself breaks): `RowsOk` — no pictogram that has connections is mentioned
as a parent in an EARLIER row. (`LoadParent` indexes pictograms in the order of their first mention; a child
first mentioned as a parent of an earlier child moves in front of the children between them.)
-/
namespace CCVerif.JsonOss
open CCVerif.Oss (Pid)

/-- distinct items; parents without repetition and different from the item; an item WITH connections is not
mentioned as a parent in an earlier row -/
def RowsOk (g : Rows) : Prop :=
  (keysOf g).Nodup ∧ (∀ r ∈ g, r.1 ∉ r.2 ∧ r.2.Nodup) ∧ g.Pairwise (fun r s => s.2 ≠ [] → s.1 ∉ r.2)

theorem RowsCanon.rowsOk {g : Rows} (h : RowsCanon g) : RowsOk g :=
  ⟨h.keys_nodup, h.2, h.1.imp (fun hh _ => hh.2)⟩

theorem RowsOk.tail {r : Pid × List Pid} {g : Rows} (h : RowsOk (r :: g)) : RowsOk g := by
  obtain ⟨hk, hrow, hpw⟩ := h
  refine ⟨?_, fun s hs => hrow s (List.mem_cons_of_mem _ hs), (List.pairwise_cons.1 hpw).2⟩
  simp only [keysOf, List.map_cons, List.nodup_cons] at hk
  exact hk.2

theorem loadEdges_rowsOk : ∀ (g g0 : Rows), (keysOf g0).Nodup → Closed g0 → RowsOk g →
    (∀ r ∈ g, r.2 ≠ [] → r.1 ∉ keysOf g0) →
    edgeList (loadEdges g0 (edgeList g)) = edgeList g0 ++ edgeList g ∧
    (keysOf (loadEdges g0 (edgeList g))).Nodup ∧ Closed (loadEdges g0 (edgeList g))
  | [], g0, hk, hcl, _, _ => by simp [edgeList, loadEdges]; exact ⟨hk, hcl⟩
  | r :: g, g0, hk, hcl, hc, hnew => by
    have hc' : RowsOk g := hc.tail
    obtain ⟨hkk, hrow, hpw⟩ := hc
    rw [List.pairwise_cons] at hpw
    have hrg : r.1 ∉ keysOf g := by
      simp only [keysOf, List.map_cons, List.nodup_cons] at hkk
      exact hkk.1
    have hr := hrow r (by simp)
    obtain ⟨hk1, hcl1, he1, hkeys1⟩ := loadRow_new g0 r.1 r.2 hk hcl (hnew r (by simp)) hr.1 hr.2
    have hnew' : ∀ s ∈ g, s.2 ≠ [] → s.1 ∉ keysOf (loadEdges g0 (r.2.map fun p => (r.1, p))) := by
      intro s hs hne hm
      rcases (hkeys1 s.1).1 hm with h | ⟨_, h | h⟩
      · exact hnew s (by simp [hs]) hne h
      · exact hrg (h ▸ List.mem_map.2 ⟨s, hs, rfl⟩)
      · exact hpw.1 s hs hne h
    obtain ⟨he2, hk2, hcl2⟩ := loadEdges_rowsOk g _ hk1 hcl1 hc' hnew'
    rw [edgeList_cons, loadEdges_append]
    refine ⟨?_, hk2, hcl2⟩
    rw [he2, he1]; simp

/-- the connections the writer emits are reproduced by `LoadParent` IN ORDER for `RowsOk` rows -/
theorem loadEdges_edgeList_ok (g : Rows) (h : RowsOk g) : edgeList (loadEdges [] (edgeList g)) = edgeList g := by
  have := (loadEdges_rowsOk g [] (by simp [keysOf]) (by intro r hr; simp at hr) h (by intro r _ _; simp [keysOf])).1
  simpa [edgeList] using this

theorem rowOf_loadEdges_ok (g : Rows) (h : RowsOk g) (p : Pid) :
    rowOf (loadEdges [] (edgeList g)) p = rowOf g p := by
  have hl := loadEdges_rowsOk g [] (by simp [keysOf]) (by intro r hr; simp at hr) h (by intro r _ _; simp [keysOf])
  rw [← edgeList_fibre _ hl.2.1 p, ← edgeList_fibre g h.1 p, loadEdges_edgeList_ok g h]

end CCVerif.JsonOss
